import OPM.Model.Analyzer
import OPM.Lemmas.Analyzer
import OPM.Gen.UnitTable
/-!
# C19 Method analysis never crashes and flags undefined names

"For any method text and any set of available tags and commands, the editor's semantic analysis completes
without raising. Every reference to an undefined tag or command, and every incomplete condition, is reported as
an error on the offending line, so the editor keeps showing all other diagnostics."

Model: `OPM.Analyzer` (`analyze E true nodes` = the code with `fixes/C19-undefined-tag-falls-through.diff`;
`analyze E false nodes` = /repo HEAD).  All theorems quantify over every node list, every tag and command set and
**every** similarity function `E.similar` (the Levenshtein ratio is a parameter).

Hypotheses (`EnvWF`, `NodeWF`) are facts established outside the analyzers: tag units are supported units or
`None` (UOD validation), the unit table is well-formed (`table_envWF` for the regenerated table), the name a
command node is looked up by is not blank and `Simulate off` arguments are stripped (parser).
-/
namespace OPM.C19
open OPM.Units OPM.Analyzer

/-- The analysis completes without raising: no exception path of the three analyzers is reachable. -/
theorem analyze_total (E : Env) (nodes : List Node) (hE : EnvWF E) (hN : ∀ n ∈ nodes, NodeWF n) :
    ∃ items, analyze E true nodes = .ok items := by
  have hc : ∃ l, collect (condItems E true) nodes = .ok l := by
    apply collect_ok
    intro n _
    unfold condItems
    split
    · exact analyzeTov_ok hE _ _ n
    · exact analyzeTov_ok hE _ _ n
    · exact ⟨_, rfl⟩
  have hs : ∃ l, collect (simItems E true) nodes = .ok l := by
    apply collect_ok
    intro n hn
    unfold simItems
    split
    · exact analyzeTov_ok hE _ _ n
    · rename_i hk
      exact analyzeSimulateOff_ok n ((hN n hn).2 hk)
    · exact ⟨_, rfl⟩
  have hm : ∃ l, collect (cmdItems E) nodes = .ok l := by
    apply collect_ok
    intro n hn
    unfold cmdItems
    split
    · rename_i b hk
      exact checkCommand_ok n ((hN n hn).1 b hk)
    · exact ⟨_, rfl⟩
  obtain ⟨c, hc⟩ := hc
  obtain ⟨s, hs⟩ := hs
  obtain ⟨m, hm⟩ := hm
  exact ⟨c ++ s ++ m, by simp only [analyze, hc, hs, hm]⟩

/-- …so the editor keeps every diagnostic: `lint` maps each item to its own diagnostic and never produces the
    generic "Parse error" one. -/
theorem lint_keeps_all_diagnostics (E : Env) (nodes : List Node) (hE : EnvWF E) (hN : ∀ n ∈ nodes, NodeWF n) :
    ∃ items, analyze E true nodes = .ok items ∧ lint E true nodes = items.map .ofItem ∧
      Diag.generic ∉ lint E true nodes := by
  obtain ⟨items, h⟩ := analyze_total E nodes hE hN
  refine ⟨items, h, by simp only [lint, h], ?_⟩
  simp only [lint, h]
  intro hg
  obtain ⟨i, _, hi⟩ := List.mem_map.mp hg
  cases hi

/-- membership of one analyzer's items in the result -/
theorem analyze_mem {E : Env} {r : Bool} {nodes : List Node} {items : List Item}
    (h : analyze E r nodes = .ok items) {n : Node} (hn : n ∈ nodes) :
    (∀ l, condItems E r n = .ok l → ∀ i ∈ l, i ∈ items) ∧
    (∀ l, simItems E r n = .ok l → ∀ i ∈ l, i ∈ items) ∧
    (∀ l, cmdItems E n = .ok l → ∀ i ∈ l, i ∈ items) := by
  unfold analyze at h
  split at h
  · cases h
  · rename_i c hc
    split at h
    · cases h
    · rename_i s hs
      split at h
      · cases h
      · rename_i m hm
        cases h
        refine ⟨?_, ?_, ?_⟩
        · intro l hl i hi
          obtain ⟨l', hl', hmem⟩ := collect_mem hc hn
          rw [hl] at hl'; cases hl'
          exact List.mem_append_left _ (List.mem_append_left _ (hmem i hi))
        · intro l hl i hi
          obtain ⟨l', hl', hmem⟩ := collect_mem hs hn
          rw [hl] at hl'; cases hl'
          exact List.mem_append_left _ (List.mem_append_right _ (hmem i hi))
        · intro l hl i hi
          obtain ⟨l', hl', hmem⟩ := collect_mem hm hn
          rw [hl] at hl'; cases hl'
          exact List.mem_append_right _ (hmem i hi)

/-- Every Watch / Alarm / Simulate that refers to an undefined tag gets an "Undefined tag" error on its line —
    whether or not a similar tag name exists. -/
theorem undefined_tag_flagged (E : Env) (nodes : List Node) (items : List Item)
    (h : analyze E true nodes = .ok items) (n : Node) (hn : n ∈ nodes)
    (hk : n.kind = .watch ∨ n.kind = .alarm ∨ n.kind = .simulate)
    (c : Cond) (name : String) (hc : n.cond = some c) (hname : c.tagName = some name)
    (hb : isBlank name = false) (hu : ∀ t ∈ E.tags, t.name ≠ name) :
    ∃ i ∈ items, i.line = n.line ∧ i.isError = true ∧ i.id = "UndefinedTag" := by
  obtain ⟨m1, m2, _⟩ := analyze_mem h hn
  rcases hk with hk | hk | hk
  · obtain ⟨i, hi, h1, h2, h3⟩ := analyzeTov_undefined (E := E) .condition false n c name hc hname hb hu
    exact ⟨i, m1 [i] (by simp only [condItems, hk, hi]) i (List.mem_singleton.mpr rfl), h1, h2, h3⟩
  · obtain ⟨i, hi, h1, h2, h3⟩ := analyzeTov_undefined (E := E) .condition false n c name hc hname hb hu
    exact ⟨i, m1 [i] (by simp only [condItems, hk, hi]) i (List.mem_singleton.mpr rfl), h1, h2, h3⟩
  · obtain ⟨i, hi, h1, h2, h3⟩ := analyzeTov_undefined (E := E) .simulate true n c name hc hname hb hu
    exact ⟨i, m2 [i] (by simp only [simItems, hk, hi]) i (List.mem_singleton.mpr rfl), h1, h2, h3⟩

/-- The same for `Simulate off: <tag>`. -/
theorem undefined_simulate_off_tag_flagged (E : Env) (nodes : List Node) (items : List Item)
    (h : analyze E true nodes = .ok items) (n : Node) (hn : n ∈ nodes) (hk : n.kind = .simulateOff)
    (hb : isBlank n.arguments = false) (hu : ∀ t ∈ E.tags, t.name ≠ n.arguments) :
    ∃ i ∈ items, i.line = n.line ∧ i.isError = true ∧ i.id = "UndefinedTag" := by
  obtain ⟨_, m2, _⟩ := analyze_mem h hn
  obtain ⟨i, hi, h1, h2, h3⟩ := analyzeSimulateOff_undefined (E := E) n hb hu
  exact ⟨i, m2 [i] (by simp only [simItems, hk, hi]) i (List.mem_singleton.mpr rfl), h1, h2, h3⟩

/-- Every command line whose command is not defined gets an "Undefined command" error on its line. -/
theorem undefined_command_flagged (E : Env) (nodes : List Node) (items : List Item)
    (h : analyze E true nodes = .ok items) (n : Node) (hn : n ∈ nodes) (b : Bool) (hk : n.kind = .command b)
    (hb : isBlank (cmdName n) = false) (hu : ∀ c ∈ E.cmds, c.name ≠ cmdName n) :
    ∃ i ∈ items, i.line = n.line ∧ i.isError = true ∧ i.id = "UndefinedCommand" := by
  obtain ⟨_, _, m3⟩ := analyze_mem h hn
  obtain ⟨i, hi, h1, h2, h3⟩ := checkCommand_undefined (E := E) n hb hu
  exact ⟨i, m3 [i] (by simp only [cmdItems, hk, hi]) i (List.mem_singleton.mpr rfl), h1, h2, h3⟩

/-- A Watch / Alarm condition (`sim = false`) or a Simulate assignment (`sim = true`) is incomplete when there is
    no condition at all, no tag name, no comparator (for Simulate: no `=`) or no value. -/
def Incomplete (sim : Bool) (n : Node) : Prop :=
  n.cond = none ∨ ∃ c, n.cond = some c ∧
    (c.tagName = none ∨ (∃ name, c.tagName = some name ∧ isBlank name = true) ∨
      (if sim then c.op ≠ "=" else c.op = "") ∨ c.rhs = "")

/-- helper: an incomplete condition never yields an empty item list -/
theorem analyzeTov_incomplete_ne_nil {E : Env} {an : An} {sim : Bool} {n : Node} {l : List Item}
    (hl : analyzeTov E true an sim n = .ok l) (hi : Incomplete sim n) : l ≠ [] := by
  unfold analyzeTov at hl
  rcases hi with hnone | ⟨c, hc, hrest⟩
  · simp only [hnone] at hl; cases hl; simp
  · simp only [hc] at hl
    cases hname : c.tagName with
    | none => simp only [hname] at hl; cases hl; simp
    | some name =>
      simp only [hname] at hl
      by_cases hb : isBlank name = true
      · simp only [hb, if_true] at hl; cases hl; simp
      · have hb' : isBlank name = false := by simpa using hb
        simp only [hb', Bool.false_eq_true, if_false, tagsHas_ok hb'] at hl
        have hop : (if sim then c.op ≠ "=" else c.op = "") ∨ c.rhs = "" := by
          rcases hrest with h1 | ⟨nm, h2, h3⟩ | h4 | h5
          · rw [hname] at h1; cases h1
          · rw [hname] at h2; cases h2; rw [h3] at hb'; cases hb'
          · exact Or.inl h4
          · exact Or.inr h5
        have hafter : ∀ l', afterTag E an sim n.line c name = .ok l' → l' ≠ [] := by
          intro l' hl'
          unfold afterTag at hl'
          by_cases h4 : (if sim = true then c.op != "=" else c.op == "") = true
          · simp only [h4, if_true] at hl'; cases hl'; simp
          · have h5 : c.rhs = "" := by
              rcases hop with h | h
              · exfalso; apply h4
                cases sim <;> simp_all
              · exact h
            simp only [h4, h5, beq_self_eq_true, Bool.true_or, if_true] at hl'
            cases hl'; simp
        cases hh : E.tags.any (fun t => t.name == name) with
        | true => simp only [hh] at hl; exact hafter l hl
        | false =>
          simp only [hh] at hl
          obtain ⟨i, hi', _⟩ := undefinedTag_repaired E an n.line name
          simp only [hi'] at hl
          cases hl; simp

/-- Every incomplete Watch / Alarm condition — and every incomplete Simulate assignment — is reported as an error
    on its line. -/
theorem incomplete_condition_flagged (E : Env) (nodes : List Node) (items : List Item)
    (h : analyze E true nodes = .ok items) (n : Node) (hn : n ∈ nodes) (sim : Bool)
    (hk : if sim then n.kind = .simulate else (n.kind = .watch ∨ n.kind = .alarm)) (hi : Incomplete sim n) :
    ∃ i ∈ items, i.line = n.line ∧ i.isError = true := by
  obtain ⟨m1, m2, _⟩ := analyze_mem h hn
  -- the node's own analysis succeeded (it is part of a successful run)
  have hparts : (∃ l, condItems E true n = .ok l) ∧ (∃ l, simItems E true n = .ok l) := by
    unfold analyze at h
    split at h
    · cases h
    · rename_i c hc
      split at h
      · cases h
      · rename_i s hs
        obtain ⟨l, hl, _⟩ := collect_mem hc hn
        obtain ⟨l', hl', _⟩ := collect_mem hs hn
        exact ⟨⟨l, hl⟩, ⟨l', hl'⟩⟩
  cases sim with
  | false =>
    simp only [Bool.false_eq_true, if_false] at hk
    have hcond : condItems E true n = analyzeTov E true .condition false n := by
      rcases hk with hk | hk <;> simp only [condItems, hk]
    obtain ⟨l, hl⟩ := hparts.1
    have hl' := hcond ▸ hl
    have hne := analyzeTov_incomplete_ne_nil hl' hi
    cases l with
    | nil => exact absurd rfl hne
    | cons i rest =>
      exact ⟨i, m1 _ hl i (List.mem_cons_self ..), analyzeTov_items hl' i (List.mem_cons_self ..)⟩
  | true =>
    simp only [if_true] at hk
    have hsim : simItems E true n = analyzeTov E true .simulate true n := by simp only [simItems, hk]
    obtain ⟨l, hl⟩ := hparts.2
    have hl' := hsim ▸ hl
    have hne := analyzeTov_incomplete_ne_nil hl' hi
    cases l with
    | nil => exact absurd rfl hne
    | cons i rest =>
      exact ⟨i, m2 _ hl i (List.mem_cons_self ..), analyzeTov_items hl' i (List.mem_cons_self ..)⟩

/-! ## The regenerated unit table satisfies the environment hypothesis; non-vacuity; regression witnesses -/

/-- With the unit table the code defines now, `EnvWF` only asks that every tag unit is one of its units. -/
theorem table_envWF (E : Env) (hU : E.units = OPM.Gen.unitSys)
    (ht : ∀ t ∈ E.tags, ∀ u, t.unit = some u → (findRow OPM.Gen.unitSys u).isSome = true) : EnvWF E := by
  refine ⟨by rw [hU]; decide +kernel, ?_⟩
  intro t htm u hu
  have := ht t htm u hu
  rw [hU]
  unfold quantityOf
  cases hf : findRow OPM.Gen.unitSys u with
  | none => rw [hf] at this; cases this
  | some r => exact ⟨r.quantity, rfl⟩

def demoEnv : Env :=
  ⟨[⟨"Flow", some "L/h"⟩, ⟨"pH", none⟩], [⟨"Wait", false⟩, ⟨"Stop", true⟩],
   fun a b => (a, b) == ("Flwo", "Flow"), OPM.Gen.unitSys⟩

/-- `Watch: Xyzzy > 3 L/h` (line 0), `Simulate off: Xyzzy` (1), `Frobnicate: 1` (2), `Alarm: Flow >` (3),
    `Watch: Flwo > 3 L/h` (4), `Watch: Flow > 3 L/h` (5), `Stop: now` (6) -/
def demoNodes : List Node := [
  ⟨0, .watch, some ⟨some "Xyzzy", ">", "3 L/h", some "3", some "L/h"⟩, "Watch", "", "Xyzzy > 3 L/h", true, true⟩,
  ⟨1, .simulateOff, none, "Simulate off", "", "Xyzzy", true, true⟩,
  ⟨2, .command true, none, "Frobnicate", "Frobnicate: 1", "1", true, true⟩,
  ⟨3, .alarm, some ⟨some "Flow", ">", "", none, none⟩, "Alarm", "", "Flow >", true, true⟩,
  ⟨4, .watch, some ⟨some "Flwo", ">", "3 L/h", some "3", some "L/h"⟩, "Watch", "", "Flwo > 3 L/h", true, true⟩,
  ⟨5, .watch, some ⟨some "Flow", ">", "3 L/h", some "3", some "L/h"⟩, "Watch", "", "Flow > 3 L/h", true, true⟩,
  ⟨6, .command false, none, "Stop", "", "now", true, true⟩]

theorem demo_envWF : EnvWF demoEnv := by
  apply table_envWF _ rfl
  intro t ht u hu
  simp only [demoEnv, List.mem_cons, List.mem_nil_iff, or_false] at ht
  rcases ht with rfl | rfl
  · cases hu; decide +kernel
  · cases hu

-- non-vacuity: the hypotheses hold for a concrete environment and program, and the repaired analysis reports
-- exactly the expected items, one per offending line, and nothing on the correct line 5
example : analyze demoEnv true demoNodes = .ok [
    ⟨.condition, "UndefinedTag", 0, true, false⟩, ⟨.condition, "MissingValue", 3, true, false⟩,
    ⟨.condition, "UndefinedTag", 4, true, true⟩, ⟨.simulate, "UndefinedTag", 1, true, false⟩,
    ⟨.command, "UndefinedCommand", 2, true, false⟩, ⟨.command, "CommandNoArguments", 6, true, false⟩] := by
  decide +kernel

example : ∀ n ∈ demoNodes, NodeWF n := by
  intro n hn
  simp only [demoNodes, List.mem_cons, List.mem_nil_iff, or_false] at hn
  rcases hn with rfl | rfl | rfl | rfl | rfl | rfl | rfl <;>
    refine ⟨fun b hb => ?_, fun hk hb => ?_⟩ <;>
    first
      | (cases hb; done)
      | (cases hk; done)
      | decide +kernel
      | (revert hb; decide +kernel)

-- `Alarm: Flow >` (line 3) is an incomplete condition in the sense of `incomplete_condition_flagged`
example : Incomplete false ⟨3, .alarm, some ⟨some "Flow", ">", "", none, none⟩, "Alarm", "", "Flow >", true, true⟩ :=
  Or.inr ⟨_, rfl, Or.inr (Or.inr (Or.inr rfl))⟩

/-- Regression witness: at /repo HEAD the same program makes the condition analyzer raise
    (`ValueError: Tag name Xyzzy not found`), and the editor shows the single generic diagnostic instead of the
    six specific ones. -/
theorem old_condition_crashes :
    analyze demoEnv false demoNodes = .error .tagNotFound ∧ lint demoEnv false demoNodes = [.generic] := by
  decide +kernel

/-- Regression witness: at /repo HEAD `Simulate off: Xyzzy` alone produces no item at all. -/
theorem old_simulate_off_silent :
    analyze demoEnv false [⟨1, .simulateOff, none, "Simulate off", "", "Xyzzy", true, true⟩] = .ok [] := by
  decide +kernel

end OPM.C19
