import OPM.Model.Analyzer
import OPM.Lemmas.Analyzer
import OPM.Gen.UnitTable
import OPM.Gen.AnalyzerOps
/-!
# C19 Method analysis never crashes and flags undefined names

"For any method text and any set of available tags and commands, the editor's semantic analysis completes
without raising. Every reference to an undefined tag or command, and every incomplete condition, is reported as
an error on the offending line, so the editor keeps showing all other diagnostics."

Model: `OPM.Analyzer`.  `analyze E true nodes` = the condition, Simulate and command analyzers of the code with the two
C19 repairs (`…false…` = before them); `analyzeAll E true xs` = these plus the indentation, threshold and macro
analyzers, in the order `SemanticCheckAnalyzer` runs them.  The three remaining analyzers (unreachable code, infinite
block, whitespace) perform no partial operation (`unmodelled_analyzers_have_no_partial_operation`, a fact regenerated
from the source).  Not in the model: the parser, `create_analysis_input`, `AnalyzerItem` ranges — the oracle runs them.
All theorems quantify over every node list, every tag and command set — tag units are arbitrary strings, also units
the unit table lacks — and **every** similarity function `E.similar` (the Levenshtein ratio is a parameter).

Hypotheses: `EnvWF` = the unit table is well-formed (`table_envWF`: true of the regenerated table); `NodeWF` = the name
a command node is looked up by is not blank and `Simulate off` arguments are stripped (parser guarantees).
-/
namespace OPM.C19
open OPM.Units OPM.Analyzer

/-- The condition, Simulate and command analyzers complete without raising: none of their exception paths
    (`tags.get`, `commands.get`, `get_compatible_unit_names`, …) is reachable.  (`analyzeAll_total`: all six.) -/
theorem analyze_total (E : Env) (nodes : List Node) (hE : EnvWF E) (hN : ∀ n ∈ nodes, NodeWF n) :
    ∃ items, analyze E true nodes = .ok items := by
  have hc : ∃ l, collect (condItems E true) nodes = .ok l := by
    apply collect_ok
    intro n _
    unfold condItems
    split
    · exact analyzeTov_ok hE _ _ n
    · exact analyzeTov_ok hE _ _ n
    · exact ⟨_, rfl⟩
  have hs : ∃ l, collect (simItems E true) nodes = .ok l := by
    apply collect_ok
    intro n hn
    unfold simItems
    split
    · exact analyzeTov_ok hE _ _ n
    · rename_i hk
      exact analyzeSimulateOff_ok n ((hN n hn).2 hk)
    · exact ⟨_, rfl⟩
  have hm : ∃ l, collect (cmdItems E) nodes = .ok l := by
    apply collect_ok
    intro n hn
    unfold cmdItems
    split
    · rename_i b hk
      exact checkCommand_ok n ((hN n hn).1 b hk)
    · exact ⟨_, rfl⟩
  obtain ⟨c, hc⟩ := hc
  obtain ⟨s, hs⟩ := hs
  obtain ⟨m, hm⟩ := hm
  exact ⟨c ++ s ++ m, by simp only [analyze, hc, hs, hm]⟩

/-- …so the editor keeps every diagnostic: `lint` maps each item to its own diagnostic and never produces the
    generic "Parse error" one. -/
theorem lint_keeps_all_diagnostics (E : Env) (nodes : List Node) (hE : EnvWF E) (hN : ∀ n ∈ nodes, NodeWF n) :
    ∃ items, analyze E true nodes = .ok items ∧ lint E true nodes = items.map .ofItem ∧
      Diag.generic ∉ lint E true nodes := by
  obtain ⟨items, h⟩ := analyze_total E nodes hE hN
  refine ⟨items, h, by simp only [lint, h], ?_⟩
  simp only [lint, h]
  intro hg
  obtain ⟨i, _, hi⟩ := List.mem_map.mp hg
  cases hi

/-- membership of one analyzer's items in the result -/
theorem analyze_mem {E : Env} {r : Bool} {nodes : List Node} {items : List Item}
    (h : analyze E r nodes = .ok items) {n : Node} (hn : n ∈ nodes) :
    (∀ l, condItems E r n = .ok l → ∀ i ∈ l, i ∈ items) ∧
    (∀ l, simItems E r n = .ok l → ∀ i ∈ l, i ∈ items) ∧
    (∀ l, cmdItems E n = .ok l → ∀ i ∈ l, i ∈ items) := by
  unfold analyze at h
  split at h
  · cases h
  · rename_i c hc
    split at h
    · cases h
    · rename_i s hs
      split at h
      · cases h
      · rename_i m hm
        cases h
        refine ⟨?_, ?_, ?_⟩
        · intro l hl i hi
          obtain ⟨l', hl', hmem⟩ := collect_mem hc hn
          rw [hl] at hl'; cases hl'
          exact List.mem_append_left _ (List.mem_append_left _ (hmem i hi))
        · intro l hl i hi
          obtain ⟨l', hl', hmem⟩ := collect_mem hs hn
          rw [hl] at hl'; cases hl'
          exact List.mem_append_left _ (List.mem_append_right _ (hmem i hi))
        · intro l hl i hi
          obtain ⟨l', hl', hmem⟩ := collect_mem hm hn
          rw [hl] at hl'; cases hl'
          exact List.mem_append_right _ (hmem i hi)

/-- Every Watch / Alarm / Simulate that refers to an undefined tag gets an "Undefined tag" error on its line —
    whether or not a similar tag name exists. -/
theorem undefined_tag_flagged (E : Env) (nodes : List Node) (items : List Item)
    (h : analyze E true nodes = .ok items) (n : Node) (hn : n ∈ nodes)
    (hk : n.kind = .watch ∨ n.kind = .alarm ∨ n.kind = .simulate)
    (c : Cond) (name : String) (hc : n.cond = some c) (hname : c.tagName = some name)
    (hb : isBlank name = false) (hu : ∀ t ∈ E.tags, t.name ≠ name) :
    ∃ i ∈ items, i.line = n.line ∧ i.isError = true ∧ i.id = "UndefinedTag" := by
  obtain ⟨m1, m2, _⟩ := analyze_mem h hn
  rcases hk with hk | hk | hk
  · obtain ⟨i, hi, h1, h2, h3⟩ := analyzeTov_undefined (E := E) .condition false n c name hc hname hb hu
    exact ⟨i, m1 [i] (by simp only [condItems, hk, hi]) i (List.mem_singleton.mpr rfl), h1, h2, h3⟩
  · obtain ⟨i, hi, h1, h2, h3⟩ := analyzeTov_undefined (E := E) .condition false n c name hc hname hb hu
    exact ⟨i, m1 [i] (by simp only [condItems, hk, hi]) i (List.mem_singleton.mpr rfl), h1, h2, h3⟩
  · obtain ⟨i, hi, h1, h2, h3⟩ := analyzeTov_undefined (E := E) .simulate true n c name hc hname hb hu
    exact ⟨i, m2 [i] (by simp only [simItems, hk, hi]) i (List.mem_singleton.mpr rfl), h1, h2, h3⟩

/-- The same for `Simulate off: <tag>`. -/
theorem undefined_simulate_off_tag_flagged (E : Env) (nodes : List Node) (items : List Item)
    (h : analyze E true nodes = .ok items) (n : Node) (hn : n ∈ nodes) (hk : n.kind = .simulateOff)
    (hb : isBlank n.arguments = false) (hu : ∀ t ∈ E.tags, t.name ≠ n.arguments) :
    ∃ i ∈ items, i.line = n.line ∧ i.isError = true ∧ i.id = "UndefinedTag" := by
  obtain ⟨_, m2, _⟩ := analyze_mem h hn
  obtain ⟨i, hi, h1, h2, h3⟩ := analyzeSimulateOff_undefined (E := E) n hb hu
  exact ⟨i, m2 [i] (by simp only [simItems, hk, hi]) i (List.mem_singleton.mpr rfl), h1, h2, h3⟩

/-- Every command line whose command is not defined gets an "Undefined command" error on its line. -/
theorem undefined_command_flagged (E : Env) (nodes : List Node) (items : List Item)
    (h : analyze E true nodes = .ok items) (n : Node) (hn : n ∈ nodes) (b : Bool) (hk : n.kind = .command b)
    (hb : isBlank (cmdName n) = false) (hu : ∀ c ∈ E.cmds, c.name ≠ cmdName n) :
    ∃ i ∈ items, i.line = n.line ∧ i.isError = true ∧ i.id = "UndefinedCommand" := by
  obtain ⟨_, _, m3⟩ := analyze_mem h hn
  obtain ⟨i, hi, h1, h2, h3⟩ := checkCommand_undefined (E := E) n hb hu
  exact ⟨i, m3 [i] (by simp only [cmdItems, hk, hi]) i (List.mem_singleton.mpr rfl), h1, h2, h3⟩

/-- A Watch / Alarm condition (`sim = false`) or a Simulate assignment (`sim = true`) is incomplete when there is
    no condition at all, no tag name, no comparator (for Simulate: no `=`) or no value. -/
def Incomplete (sim : Bool) (n : Node) : Prop :=
  n.cond = none ∨ ∃ c, n.cond = some c ∧
    (c.tagName = none ∨ (∃ name, c.tagName = some name ∧ isBlank name = true) ∨
      (if sim then c.op ≠ "=" else c.op = "") ∨ c.rhs = "")

/-- helper: an incomplete condition never yields an empty item list -/
theorem analyzeTov_incomplete_ne_nil {E : Env} {an : An} {sim : Bool} {n : Node} {l : List Item}
    (hl : analyzeTov E true an sim n = .ok l) (hi : Incomplete sim n) : l ≠ [] := by
  unfold analyzeTov at hl
  rcases hi with hnone | ⟨c, hc, hrest⟩
  · simp only [hnone] at hl; cases hl; simp
  · simp only [hc] at hl
    cases hname : c.tagName with
    | none => simp only [hname] at hl; cases hl; simp
    | some name =>
      simp only [hname] at hl
      by_cases hb : isBlank name = true
      · simp only [hb, if_true] at hl; cases hl; simp
      · have hb' : isBlank name = false := by simpa using hb
        simp only [hb', Bool.false_eq_true, if_false, tagsHas_ok hb'] at hl
        have hop : (if sim then c.op ≠ "=" else c.op = "") ∨ c.rhs = "" := by
          rcases hrest with h1 | ⟨nm, h2, h3⟩ | h4 | h5
          · rw [hname] at h1; cases h1
          · rw [hname] at h2; cases h2; rw [h3] at hb'; cases hb'
          · exact Or.inl h4
          · exact Or.inr h5
        have hafter : ∀ l', afterTag E true an sim n.line c name = .ok l' → l' ≠ [] := by
          intro l' hl'
          unfold afterTag at hl'
          by_cases h4 : (if sim = true then c.op != "=" else c.op == "") = true
          · simp only [h4, if_true] at hl'; cases hl'; simp
          · have h5 : c.rhs = "" := by
              rcases hop with h | h
              · exfalso; apply h4
                cases sim <;> simp_all
              · exact h
            simp only [h4, h5, beq_self_eq_true, Bool.true_or, if_true] at hl'
            cases hl'; simp
        cases hh : E.tags.any (fun t => t.name == name) with
        | true => simp only [hh] at hl; exact hafter l hl
        | false =>
          simp only [hh] at hl
          obtain ⟨i, hi', _⟩ := undefinedTag_repaired E an n.line name
          simp only [hi'] at hl
          cases hl; simp

/-- Every incomplete Watch / Alarm condition — and every incomplete Simulate assignment — is reported as an error
    on its line. -/
theorem incomplete_condition_flagged (E : Env) (nodes : List Node) (items : List Item)
    (h : analyze E true nodes = .ok items) (n : Node) (hn : n ∈ nodes) (sim : Bool)
    (hk : if sim then n.kind = .simulate else (n.kind = .watch ∨ n.kind = .alarm)) (hi : Incomplete sim n) :
    ∃ i ∈ items, i.line = n.line ∧ i.isError = true := by
  obtain ⟨m1, m2, _⟩ := analyze_mem h hn
  -- the node's own analysis succeeded (it is part of a successful run)
  have hparts : (∃ l, condItems E true n = .ok l) ∧ (∃ l, simItems E true n = .ok l) := by
    unfold analyze at h
    split at h
    · cases h
    · rename_i c hc
      split at h
      · cases h
      · rename_i s hs
        obtain ⟨l, hl, _⟩ := collect_mem hc hn
        obtain ⟨l', hl', _⟩ := collect_mem hs hn
        exact ⟨⟨l, hl⟩, ⟨l', hl'⟩⟩
  cases sim with
  | false =>
    simp only [Bool.false_eq_true, if_false] at hk
    have hcond : condItems E true n = analyzeTov E true .condition false n := by
      rcases hk with hk | hk <;> simp only [condItems, hk]
    obtain ⟨l, hl⟩ := hparts.1
    have hl' := hcond ▸ hl
    have hne := analyzeTov_incomplete_ne_nil hl' hi
    cases l with
    | nil => exact absurd rfl hne
    | cons i rest =>
      exact ⟨i, m1 _ hl i (List.mem_cons_self ..), analyzeTov_items hl' i (List.mem_cons_self ..)⟩
  | true =>
    simp only [if_true] at hk
    have hsim : simItems E true n = analyzeTov E true .simulate true n := by simp only [simItems, hk]
    obtain ⟨l, hl⟩ := hparts.2
    have hl' := hsim ▸ hl
    have hne := analyzeTov_incomplete_ne_nil hl' hi
    cases l with
    | nil => exact absurd rfl hne
    | cons i rest =>
      exact ⟨i, m2 _ hl i (List.mem_cons_self ..), analyzeTov_items hl' i (List.mem_cons_self ..)⟩

/-! ## The regenerated unit table satisfies the environment hypothesis; non-vacuity; regression witnesses -/

/-- The unit table the code defines now satisfies `EnvWF` — whatever the tags' units are. -/
theorem table_envWF (E : Env) (hU : E.units = OPM.Gen.unitSys) : EnvWF E := by
  unfold EnvWF
  rw [hU]
  decide +kernel

def demoEnv : Env :=
  ⟨[⟨"Flow", some "L/h"⟩, ⟨"pH", none⟩, ⟨"Dist", some "furlong"⟩], [⟨"Wait", false⟩, ⟨"Stop", true⟩],
   fun a b => (a, b) == ("Flwo", "Flow"), OPM.Gen.unitSys⟩

/-- `Watch: Xyzzy > 3 L/h` (line 0), `Simulate off: Xyzzy` (1), `Frobnicate: 1` (2), `Alarm: Flow >` (3),
    `Watch: Flwo > 3 L/h` (4), `Watch: Flow > 3 L/h` (5), `Stop: now` (6) -/
def demoNodes : List Node := [
  ⟨0, .watch, some ⟨some "Xyzzy", ">", "3 L/h", some "3", some "L/h"⟩, "Watch", "", "Xyzzy > 3 L/h", true, true⟩,
  ⟨1, .simulateOff, none, "Simulate off", "", "Xyzzy", true, true⟩,
  ⟨2, .command true, none, "Frobnicate", "Frobnicate: 1", "1", true, true⟩,
  ⟨3, .alarm, some ⟨some "Flow", ">", "", none, none⟩, "Alarm", "", "Flow >", true, true⟩,
  ⟨4, .watch, some ⟨some "Flwo", ">", "3 L/h", some "3", some "L/h"⟩, "Watch", "", "Flwo > 3 L/h", true, true⟩,
  ⟨5, .watch, some ⟨some "Flow", ">", "3 L/h", some "3", some "L/h"⟩, "Watch", "", "Flow > 3 L/h", true, true⟩,
  ⟨6, .command false, none, "Stop", "", "now", true, true⟩]

theorem demo_envWF : EnvWF demoEnv := table_envWF _ rfl

-- non-vacuity: the hypotheses hold for a concrete environment and program, and the repaired analysis reports
-- exactly the expected items, one per offending line, and nothing on the correct line 5
example : analyze demoEnv true demoNodes = .ok [
    ⟨.condition, "UndefinedTag", 0, true, false⟩, ⟨.condition, "MissingValue", 3, true, false⟩,
    ⟨.condition, "UndefinedTag", 4, true, true⟩, ⟨.simulate, "UndefinedTag", 1, true, false⟩,
    ⟨.command, "UndefinedCommand", 2, true, false⟩, ⟨.command, "CommandNoArguments", 6, true, false⟩] := by
  decide +kernel

example : ∀ n ∈ demoNodes, NodeWF n := by
  intro n hn
  simp only [demoNodes, List.mem_cons, List.mem_nil_iff, or_false] at hn
  rcases hn with rfl | rfl | rfl | rfl | rfl | rfl | rfl <;>
    refine ⟨fun b hb => ?_, fun hk hb => ?_⟩ <;>
    first
      | (cases hb; done)
      | (cases hk; done)
      | decide +kernel
      | (revert hb; decide +kernel)

-- `Alarm: Flow >` (line 3) is an incomplete condition in the sense of `incomplete_condition_flagged`
example : Incomplete false ⟨3, .alarm, some ⟨some "Flow", ">", "", none, none⟩, "Alarm", "", "Flow >", true, true⟩ :=
  Or.inr ⟨_, rfl, Or.inr (Or.inr (Or.inr rfl))⟩

/-- Regression witness: at /repo HEAD the same program makes the condition analyzer raise
    (`ValueError: Tag name Xyzzy not found`), and the editor shows the single generic diagnostic instead of the
    six specific ones. -/
theorem old_condition_crashes :
    analyze demoEnv false demoNodes = .error .tagNotFound ∧ lint demoEnv false demoNodes = [.generic] := by
  decide +kernel

/-- Regression witness: at /repo HEAD `Simulate off: Xyzzy` alone produces no item at all. -/
theorem old_simulate_off_silent :
    analyze demoEnv false [⟨1, .simulateOff, none, "Simulate off", "", "Xyzzy", true, true⟩] = .ok [] := by
  decide +kernel

/-! ## All analyzers with decision logic; the remaining three -/

/-- `analyzeAll` succeeds exactly when the three name/unit analyzers do; its items contain theirs. -/
theorem analyzeAll_ok {E : Env} {r : Bool} {xs : List XNode} {items : List Item}
    (h : analyzeAll E r xs = .ok items) :
    ∃ mid, analyze E r (xs.map (·.n)) = .ok mid ∧ ∀ i ∈ mid, i ∈ items := by
  unfold analyzeAll at h
  split at h
  · cases h
  · rename_i mid hmid
    cases h
    refine ⟨mid, hmid, fun i hi => ?_⟩
    simp only [List.mem_append]
    exact Or.inl (Or.inr hi)

/-- The six analyzers with decision logic (indentation, threshold, condition, Simulate, command, macro) complete
    without raising, for every program, every tag and command set — tags may carry units the unit table lacks —
    and every similarity function. -/
theorem analyzeAll_total (E : Env) (xs : List XNode) (hE : EnvWF E) (hN : ∀ x ∈ xs, NodeWF x.n) :
    ∃ items, analyzeAll E true xs = .ok items := by
  have hN' : ∀ n ∈ xs.map (·.n), NodeWF n := by
    intro n hn
    obtain ⟨x, hx, rfl⟩ := List.mem_map.mp hn
    exact hN x hx
  obtain ⟨mid, hmid⟩ := analyze_total E (xs.map (·.n)) hE hN'
  refine ⟨xs.flatMap indentItems ++ thresholdItems [] xs ++ mid ++ macroItems E xs, ?_⟩
  simp only [analyzeAll, hmid]

/-- …so the editor keeps every diagnostic of all six: `lint` never collapses to the generic one. -/
theorem lintAll_keeps_all_diagnostics (E : Env) (xs : List XNode) (hE : EnvWF E) (hN : ∀ x ∈ xs, NodeWF x.n) :
    ∃ items, analyzeAll E true xs = .ok items ∧ lintAll E true xs = items.map .ofItem ∧
      Diag.generic ∉ lintAll E true xs := by
  obtain ⟨items, h⟩ := analyzeAll_total E xs hE hN
  refine ⟨items, h, by simp only [lintAll, h], ?_⟩
  simp only [lintAll, h]
  intro hg
  obtain ⟨i, _, hi⟩ := List.mem_map.mp hg
  cases hi

/-- The flagging theorems hold for the full item list as well (stated for the undefined-tag case; the others
    transfer by `analyzeAll_ok` in the same way). -/
theorem undefined_tag_flagged_all (E : Env) (xs : List XNode) (items : List Item)
    (h : analyzeAll E true xs = .ok items) (x : XNode) (hx : x ∈ xs)
    (hk : x.n.kind = .watch ∨ x.n.kind = .alarm ∨ x.n.kind = .simulate)
    (c : Cond) (name : String) (hc : x.n.cond = some c) (hname : c.tagName = some name)
    (hb : isBlank name = false) (hu : ∀ t ∈ E.tags, t.name ≠ name) :
    ∃ i ∈ items, i.line = x.n.line ∧ i.isError = true ∧ i.id = "UndefinedTag" := by
  obtain ⟨mid, hmid, hsub⟩ := analyzeAll_ok h
  obtain ⟨i, hi, hrest⟩ := undefined_tag_flagged E _ mid hmid x.n (List.mem_map_of_mem hx) hk c name hc hname hb hu
  exact ⟨i, hsub i hi, hrest⟩

theorem undefined_command_flagged_all (E : Env) (xs : List XNode) (items : List Item)
    (h : analyzeAll E true xs = .ok items) (x : XNode) (hx : x ∈ xs) (b : Bool) (hk : x.n.kind = .command b)
    (hb : isBlank (cmdName x.n) = false) (hu : ∀ c ∈ E.cmds, c.name ≠ cmdName x.n) :
    ∃ i ∈ items, i.line = x.n.line ∧ i.isError = true ∧ i.id = "UndefinedCommand" := by
  obtain ⟨mid, hmid, hsub⟩ := analyzeAll_ok h
  obtain ⟨i, hi, hrest⟩ := undefined_command_flagged E _ mid hmid x.n (List.mem_map_of_mem hx) b hk hb hu
  exact ⟨i, hsub i hi, hrest⟩

/-- The analyzers that are not modelled — unreachable code, infinite block, whitespace — and the shared base /
    facade classes contain no partial operation (subscript read, `del`, `max`/`min`/`next`/`int`/`float`,
    `.index`/`.pop`/`.remove`, raising collection or unit API, `raise`, `assert`, division): every entry of the
    table regenerated from analyzer.py belongs to one of the six modelled analyzers or to `AnalyzerItem.__init__`
    (whose `raise` needs both `length=` and `end=`, which no call site passes: kind `item` does not occur). -/
theorem unmodelled_analyzers_have_no_partial_operation :
    (OPM.Gen.analyzerOps.all fun op =>
      ["ThresholdCheckAnalyzer", "ConditionCheckAnalyzer", "SimulateCheckAnalyzer", "CommandCheckAnalyzer",
       "MacroCheckAnalyzer", "AnalyzerItem", "<module>"].contains op.1 && op.2.2.1 != "item") = true ∧
    OPM.Gen.analyzerOrder = ["UnreachableCodeCheckAnalyzer", "InfiniteBlockCheckAnalyzer", "IndentationCheckAnalyzer",
      "ThresholdCheckAnalyzer", "WhitespaceCheckAnalyzer", "ConditionCheckAnalyzer", "SimulateCheckAnalyzer",
      "CommandCheckAnalyzer", "MacroCheckAnalyzer"] := by
  decide +kernel

/-- a program for all six: bad indentation (line 0), thresholds out of order (2 limits 1), a tag whose unit the
    table lacks compared in another unit (3), an undefined macro call without any macro defined (4), a macro that
    is redefined (5, 7), calls itself (7) and is never called from outside -/
def demoX : List XNode := [
  ⟨⟨0, .other, none, "Mark", "", "a", true, true⟩, true, false, none, 0, .none⟩,
  ⟨⟨1, .other, none, "Mark", "", "b", true, true⟩, false, false, some 10, 0, .none⟩,
  ⟨⟨2, .other, none, "Mark", "", "c", true, true⟩, false, false, some 2, 0, .none⟩,
  ⟨⟨3, .watch, some ⟨some "Dist", ">", "3 L/h", some "3", some "L/h"⟩, "Watch", "", "Dist > 3 L/h", true, true⟩,
    false, false, none, 0, .none⟩,
  ⟨⟨4, .other, none, "Call macro", "", "M", true, true⟩, false, false, none, 0, .call "M"⟩,
  ⟨⟨5, .other, none, "Macro", "", "M", true, true⟩, false, false, none, 0, .macro "M" false⟩,
  ⟨⟨7, .other, none, "Macro", "", "M", true, true⟩, false, false, none, 0, .macro "M" true⟩]

example : analyzeAll demoEnv true demoX = .ok [
    ⟨.indentation, "InvalidIndentation", 0, true, false⟩,
    ⟨.threshold, "ThresholdOutOfOrder", 2, false, false⟩, ⟨.threshold, "ThresholdOutOfOrder", 1, false, false⟩,
    ⟨.condition, "InvalidUnit", 3, true, false⟩,
    ⟨.macro, "MacroCalledNotDefined", 4, true, false⟩, ⟨.macro, "MacroRedefined", 7, false, false⟩,
    ⟨.macro, "MacroRecursive", 7, true, false⟩,
    ⟨.macro, "MacroUnused", 5, false, false⟩, ⟨.macro, "MacroUnused", 7, false, false⟩] := by decide +kernel

/-- Regression witness: before `fixes/C19-tag-unit-unknown-to-unit-table.diff` a condition on a tag whose unit the
    unit table lacks made the analyzer raise (`ValueError: Invalid unit: 'furlong'`) and lint collapse. -/
theorem old_tag_unit_crashes :
    analyzeAll demoEnv false [demoX[3]] = .error .tagUnitInvalid ∧ lintAll demoEnv false [demoX[3]] = [.generic] ∧
    analyzeAll demoEnv true [demoX[3]] = .ok [⟨.condition, "InvalidUnit", 3, true, false⟩] := by decide +kernel

/-! ## Lint over time is a function of the text and of the CURRENT tag / command set -/

/-- the cache of `create_analysis_input` is empty or holds the definition `fetch_uod_info` answers -/
def CacheOk (s : Sess) : Prop := s.cached = none ∨ s.cached = s.defn

/-- **No hidden state** (code with fixes/C19-uodinfo-clears-analysis-cache.diff).  For EVERY history of registrations
    (with the engine's data gone or kept), definition updates and lints — by any number of editor sessions, with any
    document versions, in any order, edits being lints of another text — each lint returns exactly
    `lintPure (current definition) (text of that call)`: what an editor is shown never depends on earlier lints, on other
    sessions, on document versions or on earlier tag / command sets.  No protocol hypothesis.  (An implementation that
    keeps results across a change of the definition, or per document version, disagrees with `sessRun`.) -/
theorem lint_history_is_pure (ops : List SessOp) (s : Sess) (hs : CacheOk s) :
    sessRun true s ops = pureRun s.defn ops := by
  induction ops generalizing s with
  | nil => rfl
  | cons op ops ih =>
    cases op with
    | register fresh =>
      simp only [sessRun, sessStep, pureRun]
      exact ih ⟨if fresh then none else s.defn, none⟩ (Or.inl rfl)
    | uodInfo E =>
      simp only [sessRun, sessStep, pureRun]
      exact ih ⟨some E, none⟩ (Or.inl rfl)
    | lint xs =>
      simp only [sessRun, sessStep, pureRun]
      cases hcached : s.cached with
      | some E =>
        have hd : s.defn = some E := by
          rcases hs with h | h
          · rw [h] at hcached; cases hcached
          · rw [← h]; exact hcached
        simp only [hd, lintPure]
        have := ih s hs
        rw [hd] at this
        rw [this]
      | none =>
        cases hd : s.defn with
        | none =>
          simp only [lintPure]
          have := ih s hs
          rw [hd] at this
          rw [this]
        | some E =>
          simp only [lintPure]
          rw [ih ⟨some E, some E⟩ (Or.inr rfl)]

/-- From the start (no engine registered yet) every history is pure. -/
theorem lint_history_from_start (ops : List SessOp) : sessRun true ⟨none, none⟩ ops = pureRun none ops :=
  lint_history_is_pure ops ⟨none, none⟩ (Or.inl rfl)

/-! #### the code before the repair -/

/-- invariant of the unrepaired code along protocol-conforming histories: the cache is empty while a `UodInfoMsg` is
    still to come, and after a fresh registration there is no definition either -/
def SessOk (ph : Phase) (s : Sess) : Prop :=
  match ph with
  | .ready => CacheOk s
  | .awaitFresh => s.defn = none ∧ s.cached = none
  | .awaitKept => s.cached = none

/-- Before the repair the same held only for histories that follow the message protocol and have no lint between a
    data-keeping re-registration and its `UodInfoMsg` (`Conforms`). -/
theorem lint_history_is_pure_asis (ops : List SessOp) (ph : Phase) (s : Sess) (hc : Conforms ph ops) (hs : SessOk ph s) :
    sessRun false s ops = pureRun s.defn ops := by
  induction ops generalizing ph s with
  | nil => rfl
  | cons op ops ih =>
    cases op with
    | register fresh =>
      simp only [sessRun, sessStep, pureRun]
      cases fresh with
      | true => exact ih .awaitFresh ⟨none, none⟩ hc ⟨rfl, rfl⟩
      | false => exact ih .awaitKept ⟨s.defn, none⟩ hc rfl
    | uodInfo E =>
      obtain ⟨hph, hrest⟩ := hc
      simp only [sessRun, sessStep, pureRun]
      have hnone : s.cached = none := by
        cases ph with
        | ready => exact absurd rfl hph
        | awaitFresh => exact hs.2
        | awaitKept => exact hs
      exact ih .ready ⟨some E, s.cached⟩ hrest (Or.inl hnone)
    | lint xs =>
      obtain ⟨hph, hrest⟩ := hc
      simp only [sessRun, sessStep, pureRun]
      cases ph with
      | awaitKept => exact absurd rfl hph
      | awaitFresh =>
        obtain ⟨hd, hcn⟩ := hs
        simp only [hcn, hd, lintPure]
        have := ih .awaitFresh s hrest ⟨hd, hcn⟩
        rw [hd] at this
        rw [this]
      | ready =>
        cases hcached : s.cached with
        | some E =>
          have hd : s.defn = some E := by
            rcases hs with h | h
            · rw [h] at hcached; cases hcached
            · rw [← h]; exact hcached
          simp only [hd, lintPure]
          have := ih .ready s hrest hs
          rw [hd] at this
          rw [this]
        | none =>
          cases hd : s.defn with
          | none =>
            simp only [lintPure]
            have := ih .ready s hrest hs
            rw [hd] at this
            rw [this]
          | some E =>
            simp only [lintPure]
            rw [ih .ready ⟨some E, some E⟩ hrest (Or.inr rfl)]

def smallEnv : Env := { demoEnv with tags := [⟨"pH", none⟩] }

def flowDoc : List XNode :=
  [⟨⟨0, .watch, some ⟨some "Flow", ">", "3 L/h", some "3", some "L/h"⟩, "Watch", "", "Flow > 3 L/h", true, true⟩,
    false, false, none, 0, .none⟩]

/-- the engine re-registers while the aggregator still holds its data, an editor lints before the `UodInfoMsg`
    arrives, the `UodInfoMsg` brings a definition without the tag `Flow`, the editor lints again -/
def windowHistory : List SessOp :=
  [.register true, .uodInfo demoEnv, .lint flowDoc, .register false, .lint flowDoc, .uodInfo smallEnv, .lint flowDoc]

/-- **Witness for the code before the repair**: on `windowHistory` the last lint still uses the definition the lint in
    the window cached — the reference to the removed tag `Flow` is not reported (`[]`), where the pure function (and
    the repaired code) reports `UndefinedTag` on line 0. -/
theorem lint_history_asis_stale_after_kept_reregistration :
    sessRun false ⟨none, none⟩ windowHistory = [[], [], []] ∧
    pureRun none windowHistory = [[], [], [.ofItem ⟨.condition, "UndefinedTag", 0, true, false⟩]] ∧
    sessRun true ⟨none, none⟩ windowHistory = pureRun none windowHistory ∧
    ¬ Conforms .ready windowHistory := by
  refine ⟨by decide +kernel, by decide +kernel, by decide +kernel, ?_⟩
  simp [windowHistory, Conforms]

-- non-vacuity: the same document linted before and after the engine re-registers (once with fresh data, once with the
-- data of the previous session kept) with a smaller tag set — the later lints flag the tag that is no longer defined
example :
    let h : List SessOp := [.register true, .uodInfo demoEnv, .lint flowDoc, .register true, .lint flowDoc,
      .uodInfo smallEnv, .lint flowDoc, .register false, .uodInfo demoEnv, .lint flowDoc, .register false,
      .lint flowDoc, .uodInfo smallEnv, .lint flowDoc]
    sessRun true ⟨none, none⟩ h =
      [[], [.generic], [.ofItem ⟨.condition, "UndefinedTag", 0, true, false⟩], [], [],
       [.ofItem ⟨.condition, "UndefinedTag", 0, true, false⟩]] := by
  decide +kernel

end OPM.C19
