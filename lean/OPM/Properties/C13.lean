import OPM.Gen.TickTable
import OPM.Model.TickShell
import OPM.Model.Interp
import OPM.Model.Merge
import OPM.Lemmas.TickShell
import OPM.Lemmas.Interp
import OPM.Lemmas.InterpErr
import OPM.Lemmas.InterpLock
/-!
# C13 Engine ticks never crash; method errors pause the run

"For any method text, injected code and user command schedule, with hardware and UOD callbacks
that return values in their declared domains, an engine tick never raises. A failing instruction
pauses the run with Method Status 'Error' and marks the instruction as failed in the method state.
The engine stays responsive to Stop and to a corrected method."

Layers:
 1. `OPM.Gen.TickTable` is regenerated from the source on every run: EVERY call expression of
    `Engine.tick`, `read_process_image`, `write_process_image`, `set_error_state`, `_apply_safe_state`
    (`allCalls`) and the phases of a tick in source order with their guards and handlers (`tickPhases`).
    The *raise table* `mayRaise` is total with default "may raise anything"; the calls assumed not to raise
    are listed one by one (that list is the assumption of this property).  `calls_accounted`: every call
    that may raise is a phase of the model, inside a `try` that catches it, with a handler ending in
    `set_error_state`.
 2. `OPM.Model.TickShell` executes that phase table under a fault plan (tied to the real `Engine.tick` by a
    fault-injection stream: each callee of the tick is patched to raise on chosen ticks).  Theorems: under
    every plan that respects the raise table a tick does not raise; a failing interpreter phase ends in the
    error state; what happens when an unguarded phase or `set_error_state` itself raises; an accepted Stop
    stops the run within `stopTicks` command phases whatever guarded faults recur; a merged corrected method
    clears the error state and Unpause resumes.
 3. Over the interpreter model: a body that raises marks its node failed and stores the error;
    the stored error persists until a corrected method is merged, which clears it.
**Partial**: Python exceptions from the calls the raise table lists as non-raising cannot be exhibited by
the theorems; the fault-injection stream shows what they would do (the tick raises), the search on the real
engine (malformed-input stream) looks for inputs that make them happen.
**Finding** (`C13_full`, `C13_counterexample`, `C13_partial`): a Stop that was accepted is lost when a
method is saved before the next tick (the CommandManager is replaced by an empty one).
-/
namespace OPM.C13
open OPM.Gen.TickTable OPM.TickShell

/-! ## 1. the regenerated call table against the raise table -/

inductive Raises where
  | nothing   -- assumed not to raise
  | hardware  -- may raise HardwareLayerException (the declared failure mode of hardware I/O)
  | anything  -- may raise any Exception
deriving DecidableEq, Repr

/-- The raise table, total over callee expressions: **anything not listed may raise anything**.
    The `.nothing` rows are the assumption under which "a tick never raises" is claimed. -/
def mayRaise : String → Raises
  -- hardware I/O
  | "self.uod.hwl.read_batch" | "hwl.write_batch" => .hardware
  -- logging (the logging module swallows the errors of its handlers)
  | "logger.debug" | "logger.info" | "logger.warning" | "logger.error" | "logger.fatal"
  | "frontend_logger.error" => .nothing
  -- builtins and methods of builtin containers
  | "enumerate" | "isinstance" | "self._system_tags.tags.values" | "self.uod.hwl.registers.values"
  | "hwl.registers.values" | "register_values.append" | "current_values.append" => .nothing
  -- engine code that only tests / assigns fields
  | "self.has_error_state" | "self.tracking.tick" | "self._tick_timer.stop" | "TagValueCollection" => .nothing
  -- hardware and UOD callbacks: "return values in their declared domains" (the property's assumption)
  | "self.uod.hwl.tick" | "r.options[]" => .nothing
  -- accessors of registered tags, fed with in-domain values
  | "self.uod.tags.get" | "tag.set_value" | "tag.as_readonly" | "self._tags[].get_value"
  | "self._system_tags[].set_value" => .nothing
  -- functions whose own calls are rows of the table (fn = read / write / set_error_state / apply_safe_state)
  | "self.read_process_image" | "self.write_process_image" | "self.set_error_state"
  | "self._apply_safe_state" => .nothing
  -- every listener call inside is wrapped in `try/except Exception: log` (`emitSwallows`)
  | "self._emitter.emit_on_method_error" => .nothing
  | _ => .anything

def allowed : Raises → Fault → Bool
  | .nothing, _ => false
  | .hardware, .hw => true
  | .hardware, .other => false
  | .anything, _ => true

/-- a call that may raise is a phase of the model whose `try` catches everything it may raise and whose
    handler ends in `set_error_state` -/
def callOk (c : Call) : Bool :=
  match mayRaise c.callee with
  | .nothing => true
  | r => !c.inHandler &&
         tickPhases.any (fun p => p.fn == c.fn && p.callee == c.callee && p.catches == c.catches &&
           (allowed r .hw → guardedFault p .hw) && (allowed r .other → guardedFault p .other))

/-- Every call expression of the tick, of the process-image functions and of `set_error_state` /
    `_apply_safe_state` is accounted for. -/
theorem calls_accounted : allCalls.all callOk = true ∧ emitSwallows = true := by
  decide +kernel

/-- …and the guarded calls are really there (the statement above is not vacuous). -/
theorem guarded_sites_present :
    (allCalls.any (fun c => c.callee == "self.interpreter.tick" && mayRaise c.callee == .anything)) = true ∧
    (allCalls.any (fun c => c.callee == "self._command_manager.tick" && mayRaise c.callee == .anything)) = true ∧
    (allCalls.any (fun c => c.callee == "self.update_calculated_tags" && mayRaise c.callee == .anything)) = true ∧
    (allCalls.any (fun c => c.callee == "self.notify_tag_updates" && mayRaise c.callee == .anything)) = true ∧
    (allCalls.any (fun c => c.callee == "self.uod.hwl.read_batch")) = true ∧
    (allCalls.any (fun c => c.callee == "hwl.write_batch")) = true ∧
    (allCalls.any (fun c => c.fn == "set_error_state" && c.callee == "self._emitter.emit_on_method_error")) = true ∧
    visitWrapperMarksFailed = true := by
  decide +kernel

/-- What the model's `set_error_state` needs from the source, and no more: its calls that may raise (private helpers
    inlined) BEGIN with a tag update — a fault there (`HF.first`) finds the state flags untouched — and END with the
    notification of the listeners — a fault there (`HF.last`) finds every state change done; in between exactly one
    more tag update and the safe state, in any order.  Neither the relative order of the two tag updates nor the
    position of the assignment to `_last_error` (not a call; see `errorRecordedFirst`) is pinned: no theorem
    depends on them. -/
theorem set_error_state_shape :
    setErrorCalls.head? = some "self._system_tags[].set_value" ∧
    setErrorCalls.getLast? = some "self._emitter.emit_on_method_error" ∧
    setErrorCalls.length = 4 ∧
    setErrorCalls.count "self._system_tags[].set_value" = 2 ∧
    setErrorCalls.count "self._apply_safe_state" = 1 := by
  decide +kernel

/-! ## 2. the tick shell over the regenerated phase table -/

/-- index of the command phase / the interpreter phase in the regenerated table -/
def cmdIdx : Nat := tickPhases.findIdx (fun p => p.callee == cmdCallee)
def interpIdx : Nat := tickPhases.findIdx isInterp
/-- an unguarded phase (the hardware layer's own tick) and the guarded hardware read -/
def hwTickIdx : Nat := tickPhases.findIdx (fun p => p.callee == "self.uod.hwl.tick")
def readIdx : Nat := tickPhases.findIdx (fun p => p.callee == "self.uod.hwl.read_batch")

theorem table_wf : TableWF tickPhases cmdIdx ∧ interpIdx < tickPhases.length := by
  decide +kernel

/-- the plan lets a phase raise only what the raise table allows for its callee -/
def respectsFrom (pl : Plan) : Nat → List Phase → Bool
  | _, [] => true
  | n, p :: ps => (match pl.at n with
                   | none => true
                   | some k => allowed (mayRaise p.callee) k) && respectsFrom pl (n + 1) ps

def phaseOk (p : Phase) : Bool :=
  (allowed (mayRaise p.callee) .hw → guardedFault p .hw) && (allowed (mayRaise p.callee) .other → guardedFault p .other)

theorem phases_guarded : tickPhases.all phaseOk = true := by
  decide +kernel

theorem respects_guarded (pl : Plan) :
    ∀ (ps : List Phase) (n : Nat), ps.all phaseOk = true → respectsFrom pl n ps = true →
      guardedFrom pl n ps = true := by
  intro ps
  induction ps with
  | nil => intro _ _ _; rfl
  | cons p ps ih =>
    intro n hall hr
    simp only [List.all_cons, Bool.and_eq_true] at hall
    simp only [respectsFrom, Bool.and_eq_true] at hr
    simp only [guardedFrom, Bool.and_eq_true]
    refine ⟨?_, ih _ hall.2 hr.2⟩
    have h1 := hr.1
    have hp := hall.1
    simp only [phaseOk, Bool.and_eq_true, decide_eq_true_eq] at hp
    split
    · rfl
    · next k hk =>
      rw [hk] at h1
      simp only at h1
      cases k
      · exact hp.1 h1
      · exact hp.2 h1

/-- **An engine tick never raises**: for every state and every fault plan that makes the callees of the
    tick raise only what the raise table allows (anything at all for the interpreter, the command manager,
    the calculated tags, the tag notification; hardware exceptions for read_batch / write_batch), in any
    combination, with `set_error_state` working. -/
theorem tick_never_raises (pl : Plan) (s : Shell) (hf : pl.hf = .none)
    (hr : respectsFrom pl 0 tickPhases = true) : (tick tickPhases pl s).2 = false :=
  tickFrom_noraise pl hf tickPhases 0 { s := s } (respects_guarded pl tickPhases 0 phases_guarded hr) rfl

/-- the same, stated with the handler structure only (whatever the raise table says) -/
theorem tick_never_raises_guarded (pl : Plan) (s : Shell) (hg : pl.Guarded tickPhases) :
    (tick tickPhases pl s).2 = false :=
  tickFrom_noraise pl hg.1 tickPhases 0 { s := s } hg.2 rfl

/-- a run that is executing its method, nothing pending -/
def runningState : Shell := { started := true, sys := .running, progStarted := true }

example : ({ faults := [(interpIdx, .other), (cmdIdx, .other), (readIdx, .hw)] } : Plan).hf = .none ∧
    respectsFrom { faults := [(interpIdx, .other), (cmdIdx, .other), (readIdx, .hw)] } 0 tickPhases = true := by
  decide +kernel

/-- What the assumption is needed for (witnesses, reproduced on the real engine by the fault-injection
    stream): a phase outside every handler that raises, a hardware call that raises something else than
    `HardwareLayerException`, or `set_error_state` raising inside a handler (at its first or at its last
    call) — the exception escapes the tick. -/
theorem unguarded_fault_escapes :
    (tick tickPhases { faults := [(hwTickIdx, .other)] } runningState).2 = true ∧
    (tick tickPhases { faults := [(readIdx, .other)] } runningState).2 = true ∧
    (tick tickPhases { faults := [(interpIdx, .other)], hf := .first } runningState).2 = true ∧
    (tick tickPhases { faults := [(interpIdx, .other)], hf := .last } runningState).2 = true ∧
    -- …with the error state established all the same when only the listeners' notification failed
    (tick tickPhases { faults := [(interpIdx, .other)], hf := .last } runningState).1.methodErr = true ∧
    (tick tickPhases { faults := [(interpIdx, .other)], hf := .first } runningState).1.methodErr = false := by
  decide +kernel

/-- `set_error_state` pauses a *run*: whenever a run is active (`_runstate_started`) it leaves `_last_error` set,
    Method Status Error, the paused flag and System State Paused … -/
theorem error_pauses_a_run (s : Shell) (h : s.started = true) : ErrorState (setErr s) :=
  setErr_errorState s (Or.inr h)

/-- … and with no run active it only reports: Method Status Error and `_last_error`, the run flags and the
    System State stay as they are (repair 560eee15). -/
theorem error_without_run_only_reports (s : Shell) (h : s.started = false) :
    (setErr s).methodErr = true ∧ (setErr s).lastErr = true ∧ (setErr s).paused = s.paused ∧
    (setErr s).sys = s.sys ∧ (setErr s).started = false := by
  refine ⟨setErr_methodErr s, setErr_lastErr s, (setErr_idle s h).1, (setErr_idle s h).2, ?_⟩
  rw [setErr_started]; exact h

/-- **A failing instruction pauses the run with Method Status Error**: the interpreter phase raises while
    the run is executing (`condHolds .runnable s`: a run is active — `s.started` — and it is not paused / on
    hold / stopping) and no command is pending; whatever
    else fails in the same tick (under guarded faults), the tick does not raise and ends with
    `_last_error` set, Method Status Error, paused, System State Paused. -/
theorem failing_instruction_pauses (pl : Plan) (s : Shell) (hg : pl.Guarded tickPhases)
    (hh : hitsInterp pl 0 tickPhases = true) (hrun : condHolds .runnable s = true) (hidle : Idle s) :
    (tick tickPhases pl s).2 = false ∧ ErrorState (tick tickPhases pl s).1 :=
  ⟨tick_never_raises_guarded pl s hg,
   (tickFrom_interp_fault pl hg.1 tickPhases 0 { s := s } hg.2 table_wf.1.1 hh rfl (by simp)
      ⟨hidle, Or.inr hrun⟩).1⟩

example : ({ faults := [(interpIdx, .other)] } : Plan).Guarded tickPhases ∧
    hitsInterp { faults := [(interpIdx, .other)] } 0 tickPhases = true ∧
    condHolds .runnable runningState = true ∧ Idle runningState := by
  decide +kernel

/-- the hypothesis of `failing_instruction_pauses` speaks about a run -/
theorem runnable_is_a_run (s : Shell) (h : condHolds .runnable s = true) : s.started = true :=
  runnable_started s h

/-! ### an error while no run is active -/

/-- **Error while no run is active** (a command, the tag notification, a hardware read … fails between runs):
    under every guarded fault plan the tick does not raise and there is still no run — System State stays
    Stopped, not paused; Start is accepted afterwards. -/
theorem error_while_no_run (pl : Plan) (s : Shell) (hg : pl.Guarded tickPhases) (h : NoRun s) :
    (tick tickPhases pl s).2 = false ∧ NoRun (tick tickPhases pl s).1 ∧
    (user (tick tickPhases pl s).1 .start).2 = true ∧ StartQueued (user (tick tickPhases pl s).1 .start).1 := by
  have hn := tick_noRun tickPhases pl hg s h
  refine ⟨tick_never_raises_guarded pl s hg, hn, ?_, ?_⟩
  · simp [user, accepts, hn.2.2.1]
  · simp only [user, accepts, hn.2.2.1, beq_self_eq_true, if_true]
    exact ⟨by simp [hn.2.2.2.1], hn.2.2.2.2, hn.1⟩

/-- …the error is reported: when a phase that runs unconditionally inside a handler (the command manager, the tag
    notification) raises, Method Status is Error and `_last_error` is set — with no run, still Stopped. -/
theorem error_while_no_run_is_reported (pl : Plan) (s : Shell) (hg : pl.Guarded tickPhases) (h : NoRun s)
    (hh : hitsAlways pl 0 tickPhases = true) : NoRunErr (tick tickPhases pl s).1 :=
  tickFrom_idle_fault pl hg.1 tickPhases 0 { s := s } hg.2 table_wf.1.1 hh rfl (by simp) h

/-- …and the tick after the accepted Start starts the run: started, System State Running, Method Status OK
    (`_last_error` stays set until a method is merged, `last_error_persists`). -/
theorem start_after_idle_error (s : Shell) (h : StartQueued s) : RunStarted (tick tickPhases {} s).1 :=
  tick_start tickPhases cmdIdx table_wf.1 {} (by decide +kernel) rfl s h

example : NoRun ({} : Shell) ∧ ({ faults := [(cmdIdx, .other)] } : Plan).Guarded tickPhases ∧
    hitsAlways { faults := [(cmdIdx, .other)] } 0 tickPhases = true ∧
    NoRunErr (tick tickPhases { faults := [(cmdIdx, .other)] } {}).1 ∧
    RunStarted (tick tickPhases {} (user (tick tickPhases { faults := [(cmdIdx, .other)] } {}).1 .start).1).1 := by
  decide +kernel

/-- `_last_error` survives every tick (only a merged method clears it) -/
theorem last_error_persists (pl : Plan) (s : Shell) (hg : pl.Guarded tickPhases) (h : s.lastErr = true) :
    (tick tickPhases pl s).1.lastErr = true :=
  tick_keeps_lastErr tickPhases pl hg s h

/-! ### responsive to Stop -/

/-- Stop is accepted in the error state, and is then the only pending request -/
theorem stop_accepted_in_error_state (s : Shell) (he : ErrorState s) (hi : Idle s) (hs : s.stopInst = false) :
    (user s .stop).2 = true ∧ StopQueued (user s .stop).1 := by
  obtain ⟨_, _, _, hsys⟩ := he
  obtain ⟨hq, hx⟩ := hi
  simp only [user, accepts, hsys]
  refine ⟨rfl, ?_, hx, hs, ?_⟩
  · simp [hq]
  · simp

/-- **Stop stays responsive**: after an accepted Stop the run is stopped after `stopTicks` (= 2) ticks whose
    command phase runs — whatever guarded faults occur in those ticks (hardware, calculated tags,
    notification). -/
theorem stop_completes (pl1 pl2 : Plan) (s : Shell) (h : StopQueued s)
    (hg1 : pl1.Guarded tickPhases) (hg2 : pl2.Guarded tickPhases)
    (hc1 : pl1.at cmdIdx = none) (hc2 : pl2.at cmdIdx = none) :
    [pl1, pl2].length = stopTicks ∧ Stopped (run tickPhases [pl1, pl2] s) := by
  refine ⟨rfl, ?_⟩
  have h1 := tick_stage_ok tickPhases cmdIdx table_wf.1 pl1 hg1 hc1 0 s h
  exact tick_stage_ok tickPhases cmdIdx table_wf.1 pl2 hg2 hc2 1 _ h1

/-- …and when nothing fails in the second of them: System State Stopped, Method Status OK -/
theorem stop_completes_clean (pl1 pl2 : Plan) (s : Shell) (h : StopQueued s)
    (hg1 : pl1.Guarded tickPhases) (hg2 : pl2.Guarded tickPhases)
    (hc1 : pl1.at cmdIdx = none) (hn : pl2.faults = []) :
    StoppedClean (run tickPhases [pl1, pl2] s) := by
  have h1 := tick_stage_ok tickPhases cmdIdx table_wf.1 pl1 hg1 hc1 0 s h
  exact tick_stop_clean tickPhases cmdIdx table_wf.1 pl2 hg2 hn _ h1

/-- **Whatever faults recur**: over any number of ticks under guarded fault plans — including ticks in which
    the command phase itself fails, which do not count — the run is stopped as soon as `stopTicks` command
    phases have run, and stays stopped. -/
theorem stop_completes_whatever_recurs (pls : List Plan) (s : Shell) (h : StopQueued s)
    (hg : ∀ pl ∈ pls, pl.Guarded tickPhases) (hn : stopTicks ≤ okTicks cmdIdx pls) :
    Stopped (run tickPhases pls s) :=
  stage_mono _ (by have := hn; simp only [stopTicks] at this; omega) _ (run_stage tickPhases cmdIdx table_wf.1 pls 0 s hg h)

/-- the state the oracle's Stop scenario starts from: paused on a method error, nothing pending -/
def errorPaused : Shell :=
  { started := true, paused := true, sys := .paused, methodErr := true, lastErr := true, progStarted := true }

example : ErrorState errorPaused ∧ Idle errorPaused ∧ errorPaused.stopInst = false := by decide

example : StopQueued (user errorPaused .stop).1 ∧
    ({ faults := [(cmdIdx + 1, .other), (readIdx, .hw)] } : Plan).Guarded tickPhases ∧
    ({ faults := [(cmdIdx + 1, .other), (readIdx, .hw)] } : Plan).at cmdIdx = none ∧
    okTicks cmdIdx [{ faults := [(cmdIdx, .other)] }, {}, { faults := [(cmdIdx, .other)] }, {}] = stopTicks := by
  decide +kernel

/-! ### responsive to a corrected method -/

/-- **A corrected method that is merged while the run is paused on an error** sets Method Status back to OK
    and clears `_last_error`; the run stays paused until the user resumes it. -/
theorem corrected_method_clears_error (s : Shell) (he : ErrorState s) (hs : s.started = true)
    (hp : s.progStarted = true) :
    (fix s).2 = true ∧ (fix s).1.methodErr = false ∧ (fix s).1.lastErr = false ∧ (fix s).1.paused = true ∧
    (fix s).1.started = true := by
  obtain ⟨h1, _, h3, _⟩ := he
  simp [fix, hs, hp, h1, h3]

/-- the corrected method is merged, the user resumes (Unpause), one tick -/
def resumed (s : Shell) : Shell := (tick tickPhases {} (user (fix s).1 .unpause).1).1

/-- …and then Unpause is accepted and the next tick resumes the run: not paused, System State Running,
    Method Status still OK, the interpreter phase runs again in the tick after. -/
theorem corrected_method_resumes (s : Shell) (he : ErrorState s) (hi : Idle s) (hs : s.started = true)
    (hp : s.progStarted = true) (hh : s.holding = false) (hst : s.stopping = false) (hsi : s.stopInst = false) :
    (user (fix s).1 .unpause).2 = true ∧
    (resumed s).paused = false ∧ (resumed s).sys = .running ∧ (resumed s).methodErr = false ∧
    (resumed s).lastErr = false ∧ condHolds .runnable (resumed s) = true ∧ Idle (resumed s) := by
  obtain ⟨h1, h2, h3, h4⟩ := he
  obtain ⟨hq, hx⟩ := hi
  obtain ⟨running, started, paused, holding, stopping, sys, methodErr, lastErr, progStarted, queue, executing,
    stopInst⟩ := s
  simp only at h1 h2 h3 h4 hq hx hs hp hh hst hsi
  subst h1 h2 h3 h4 hq hx hs hp hh hst hsi
  cases running <;> decide +kernel

example : ErrorState errorPaused ∧ Idle errorPaused ∧ errorPaused.started = true ∧
    errorPaused.progStarted = true := by decide

/-! ### finding: an accepted Stop is lost when a method is saved before the next tick -/

inductive Op where
  | tick (pl : Plan)
  | fix

def runOps : List Op → Shell → Shell
  | [], s => s
  | .tick pl :: ops, s => runOps ops (tick tickPhases pl s).1
  | .fix :: ops, s => runOps ops (fix s).1

def opsGuarded : List Op → Prop
  | [] => True
  | .tick pl :: ops => pl.Guarded tickPhases ∧ opsGuarded ops
  | .fix :: ops => opsGuarded ops

/-- number of ticks whose command phase runs -/
def okTickOps : List Op → Nat
  | [] => 0
  | .tick pl :: ops => (if pl.at cmdIdx = none then 1 else 0) + okTickOps ops
  | .fix :: ops => okTickOps ops

def noFix : List Op → Bool
  | [] => true
  | .tick _ :: ops => noFix ops
  | .fix :: _ => false

/-- full statement: an accepted Stop stops the run, whatever ticks and method edits follow -/
def C13_full : Prop :=
  ∀ (s : Shell) (ops : List Op), StopQueued s → opsGuarded ops → stopTicks ≤ okTickOps ops →
    (runOps ops s).started = false

/-- Stop accepted in the error pause, a (corrected) method saved before the next tick, two ticks: the run
    is still started — `on_interpreter_reset` replaced the CommandManager and the queued Stop with it. -/
theorem C13_counterexample : ¬ C13_full := by
  intro h
  have := h (user errorPaused .stop).1 [.fix, .tick {}, .tick {}] (by decide +kernel)
    (by simp only [opsGuarded, and_true]; decide +kernel) (by decide +kernel)
  revert this
  decide +kernel

theorem runOps_stage : ∀ (ops : List Op) (k : Nat) (s : Shell), noFix ops = true → opsGuarded ops →
    Stage k s → Stage (k + okTickOps ops) (runOps ops s) := by
  intro ops
  induction ops with
  | nil => intro k s _ _ h; exact h
  | cons op ops ih =>
    intro k s hn hg h
    cases op with
    | fix => simp [noFix] at hn
    | tick pl =>
      simp only [noFix] at hn
      simp only [opsGuarded] at hg
      simp only [runOps, okTickOps]
      by_cases hc : pl.at cmdIdx = none
      · rw [if_pos hc]
        have := ih (k + 1) _ hn hg.2 (tick_stage_ok tickPhases cmdIdx table_wf.1 pl hg.1 hc k s h)
        have e : k + 1 + okTickOps ops = k + (1 + okTickOps ops) := by omega
        rw [e] at this
        exact this
      · rw [if_neg hc]
        have := ih k _ hn hg.2 (tick_stage_faulted tickPhases cmdIdx table_wf.1 pl hg.1 hc k s h)
        simpa using this

/-- without a method edit between the acceptance of Stop and its completion the full statement holds -/
theorem C13_partial (s : Shell) (ops : List Op) (hnf : noFix ops = true) (h : StopQueued s)
    (hg : opsGuarded ops) (hn : stopTicks ≤ okTickOps ops) : (runOps ops s).started = false :=
  (stage_mono _ (by have := hn; simp only [stopTicks] at this; omega) _ (runOps_stage ops 0 s hnf hg h)).2.2.2

example : noFix [.tick {}, .tick { faults := [(readIdx, .hw)] }] = true ∧
    opsGuarded [.tick {}, .tick { faults := [(readIdx, .hw)] }] ∧
    stopTicks ≤ okTickOps [.tick {}, .tick { faults := [(readIdx, .hw)] }] := by
  refine ⟨rfl, ?_, by decide +kernel⟩
  simp only [opsGuarded, and_true]
  decide +kernel

/-! ## 3. the interpreter model -/

open OPM.Interp

/-- A body that raises marks its node failed and stores the error (`node.failed = True;
    _last_error = ex, node` in the wrapper). -/
theorem raise_marks_failed (p : Prog) (s s' : St) (n pc : Nat) (rest : List Frame)
    (h : stepBody p s n pc (.wrapAfter n :: rest) = .raise s') :
    let r := stepGen p s (.body n pc :: .wrapAfter n :: rest)
    (r.1.rt n).failed = true ∧ r.1.lastError = some n ∧ r.2.1 = rest := by
  simp only [stepGen, stepFrame, h, unwind]
  simp

/-- The kinds whose body raises: an unparsable/unknown instruction fails at once. -/
theorem failing_instruction_raises (p : Prog) (s : St) (n pc : Nat) (below : List Frame) (label : String)
    (hk : (node p n).kind = .failing label) :
    stepBody p s n pc below = .raise (markFailed s n) := by
  unfold stepBody
  simp only [hk]

/-- The state a frame step produces has the same stored error as before (only the wrapper's
    exception handler, `unwind`, writes it). -/
theorem stepFrame_lastError (p : Prog) (s : St) (f : Frame) (below : List Frame) :
    (outState (stepFrame p s f below)).lastError = s.lastError := by
  cases f with
  | body n pc =>
    simp only [stepFrame]
    unfold stepBody
    simp only []
    repeat' split
    all_goals (try simp only [outState, le_setRt, le_emit, le_markCompleted, le_finishNode, le_markFailed, le_tryActivate,
      le_registerInterrupt, le_unregisterInterrupt, le_endBlockStep, le_endBlocksStep, le_alarmRearm,
      le_callPrepare, le_callFinish])
    all_goals (try rfl)
  | _ =>
    unfold stepFrame
    simp only []
    repeat' split
    all_goals (try simp only [outState, le_setRt, le_emit, le_markCompleted, le_finishNode, le_markFailed, le_callFinish])
    all_goals (try rfl)

theorem unwind_keeps_some (s : St) (st : List Frame) (h : s.lastError.isSome = true) :
    (unwind s st).1.lastError.isSome = true := by
  induction st generalizing s with
  | nil => simp only [unwind]; cases hs : s.lastError <;> simp_all
  | cons f rest ih => cases f <;> simp only [unwind] <;> first | exact ih _ h | simp

/-- Micro-steps never clear a stored error. -/
theorem lastError_persists_stepGen (p : Prog) (s : St) (stack : List Frame) (h : s.lastError.isSome = true) :
    (stepGen p s stack).1.lastError.isSome = true := by
  unfold stepGen
  cases stack with
  | nil => exact h
  | cons f below =>
    simp only []
    have key := stepFrame_lastError p s f below
    cases hs : stepFrame p s f below with
    | raise s' =>
      rw [hs] at key
      simp only [outState] at key ⊢
      exact unwind_keeps_some _ _ (by rw [key]; exact h)
    | next s' top sig =>
      rw [hs] at key
      simp only [outState] at key ⊢
      rw [key]; exact h

/-- A corrected method that is merged starts with no stored interpreter error. -/
theorem merged_method_clears_error (mm : OPM.Merge.MM) (new : OPM.Merge.Method)
    (h : (OPM.Merge.edit mm new).2 ≠ .rejected) : (OPM.Merge.edit mm new).1.st.lastError = none := by
  simp only [OPM.Merge.edit] at h ⊢
  have fresh : ∀ (old : St) (pr : Prog), (OPM.Merge.freshInterp old pr).lastError = none := by
    intro old pr; rfl
  by_cases h1 : (mm.mmShared && (getRt mm.st 0).started) = true
  · by_cases h2 : OPM.Merge.validate mm new = true
    · rw [if_pos h1, if_pos h2]
      unfold OPM.Merge.freshFromState
      simp only []
      have k2 : ∀ (l : List (String × Nat)) (s : St) (g : St → String × Nat → St),
          (∀ s a, (g s a).lastError = s.lastError) → (l.foldl g s).lastError = s.lastError := by
        intro l s g hg
        induction l generalizing s with
        | nil => rfl
        | cons a l ih => simp only [List.foldl]; rw [ih, hg]
      have k1 : ∀ (l : List (Nat × Nat)) (s : St) (g : St → Nat × Nat → St),
          (∀ s a, (g s a).lastError = s.lastError) → (l.foldl g s).lastError = s.lastError := by
        intro l s g hg
        induction l generalizing s with
        | nil => rfl
        | cons a l ih => simp only [List.foldl]; rw [ih, hg]
      rw [k2, k1]
      · exact fresh _ _
      · intro s a; split
        · split
          · exact le_registerInterrupt _ _ _
          · rfl
        · rfl
      · intro s a; split
        · split <;> rfl
        · rfl
    · rw [if_pos h1, if_neg h2] at h; exact absurd rfl h
  · rw [if_neg h1]; exact fresh _ _

end OPM.C13
