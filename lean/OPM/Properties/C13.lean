import OPM.Gen.TickTable
import OPM.Model.Interp
import OPM.Model.Merge
import OPM.Lemmas.Interp
import OPM.Lemmas.InterpErr
import OPM.Lemmas.InterpLock
/-!
# C13 Engine ticks never crash; method errors pause the run

"For any method text, injected code and user command schedule, with hardware and UOD callbacks
that return values in their declared domains, an engine tick never raises. A failing instruction
pauses the run with Method Status 'Error' and marks the instruction as failed in the method state.
The engine stays responsive to Stop and to a corrected method."

Three layers:
 1. `OPM.Gen.TickTable` is regenerated from the source of `Engine.tick`, `read_process_image`,
    `write_process_image` on every run.  Against the *raise table* below (which callee may raise
    what — the stated assumption of this property) every may-raise call site is enclosed by a
    handler that catches it and ends in `set_error_state` (`decide` over the regenerated table).
 2. A shell model of `Engine.tick`'s handler structure: a raise of the interpreter phase or of the
    command phase ends in the error state (paused, Method Status = Error) and never escapes.
 3. Over the interpreter model: a body that raises marks its node failed and stores the error;
    the stored error persists until a corrected method is merged, which clears it.
**Partial**: Python exceptions from call sites the raise table lists as non-raising cannot be
exhibited by the model; they are reachable only by the search (malformed-input stream on the real
engine).
-/
namespace OPM.C13
open OPM.Gen.TickTable

/-! ## 1. the regenerated handler table -/

inductive Raises where
  | nothing   -- assumed not to raise (values in declared domains; listeners swallow their own errors)
  | hardware  -- may raise HardwareLayerException
  | anything  -- may raise any Exception (method text, UOD command code)
deriving DecidableEq, Repr

/-- The raise table: the assumption under which "a tick never raises" is claimed. -/
def mayRaise : String → Raises
  | "self.interpreter.tick" => .anything
  | "self._command_manager.tick" => .anything
  | "self.update_calculated_tags" => .anything   -- a clock tag may be simulated with a non-numeric value
  | "self.notify_tag_updates" => .anything       -- asserts on the Connection Status value
  | "self.uod.hwl.read_batch" => .hardware
  | "hwl.write_batch" => .hardware
  | _ => .nothing

def covered : Raises → List String → Bool
  | .nothing, _ => true
  | .hardware, cs => cs.contains "HardwareLayerException" || cs.contains "Exception" || cs.contains "BaseException"
  | .anything, cs => cs.contains "Exception" || cs.contains "BaseException"

def siteOk (s : Site) : Bool :=
  covered (mayRaise s.callee) s.catches && (mayRaise s.callee == .nothing || s.handlersSetError)

/-- Every may-raise call of the tick is caught by a handler that ends in `set_error_state`. -/
theorem tick_sites_guarded : (tickSites ++ readSites ++ writeSites).all siteOk = true := by
  decide +kernel

/-- …and the guarded calls are really there (the statement above is not vacuous). -/
theorem guarded_sites_present :
    (tickSites.any (fun s => s.callee == "self.interpreter.tick" && s.handlersSetError)) = true ∧
    (tickSites.any (fun s => s.callee == "self._command_manager.tick" && s.handlersSetError)) = true ∧
    (tickSites.any (fun s => s.callee == "self.update_calculated_tags" && s.handlersSetError)) = true ∧
    (tickSites.any (fun s => s.callee == "self.notify_tag_updates" && s.handlersSetError)) = true ∧
    (readSites.any (fun s => s.callee == "self.uod.hwl.read_batch" && s.handlersSetError)) = true ∧
    (writeSites.any (fun s => s.callee == "hwl.write_batch" && s.handlersSetError)) = true ∧
    visitWrapperMarksFailed = true := by
  decide +kernel

/-! ## 2. shell model of the handler structure of `Engine.tick` -/

structure Shell where
  started : Bool
  paused : Bool
  holding : Bool
  stopping : Bool
  methodError : Bool      -- Method Status = Error
  sysPaused : Bool        -- System State = Paused
deriving DecidableEq, Repr

def setErrorState (s : Shell) : Shell := { s with methodError := true, sysPaused := true, paused := true }

/-- What the phases do is abstracted to "raises or not" (the raise table) plus an arbitrary
    state change `f` of a phase that returns normally. Returns the state and whether an exception
    escaped the tick. -/
def shellTick (s : Shell) (readRaises interpRaises cmdRaises writeRaises : Bool)
    (fInterp fCmd : Shell → Shell) : Shell × Bool :=
  let s := if readRaises then setErrorState s else s
  let s := if s.started && !s.paused && !s.holding && !s.stopping then
      (if interpRaises then setErrorState s else fInterp s) else s
  let s := if cmdRaises then setErrorState s else fCmd s
  let s := if s.started && writeRaises then setErrorState s else s
  (s, false)

/-- With every raise caught as the table says, no exception escapes a tick. -/
theorem shell_tick_never_raises (s : Shell) (a b c d : Bool) (f g : Shell → Shell) :
    (shellTick s a b c d f g).2 = false := rfl

/-- A failing instruction (the interpreter phase raises) pauses the run with Method Status Error,
    provided the command phase that follows does not undo it (`g` keeps the error flags — Stop and
    Unpause are the only commands that clear `paused`, and they do not clear the method status). -/
theorem interpreter_error_pauses (s : Shell) (a c d : Bool) (f g : Shell → Shell)
    (hrun : s.started = true ∧ s.paused = false ∧ s.holding = false ∧ s.stopping = false)
    (ha : a = false) (hc : c = false)
    (hg : ∀ x, (g x).methodError = x.methodError ∧ (g x).paused = x.paused ∧ (g x).sysPaused = x.sysPaused
                ∧ (g x).started = x.started) :
    let r := (shellTick s a true c d f g).1
    r.methodError = true ∧ r.paused = true ∧ r.sysPaused = true := by
  obtain ⟨h1, h2, h3, h4⟩ := hrun
  subst ha hc
  simp only [shellTick, h1, h2, h3, h4, setErrorState]
  have := hg { s with methodError := true, sysPaused := true, paused := true }
  by_cases hd : d = true <;> simp_all

/-! ## 3. the interpreter model -/

open OPM.Interp

/-- A body that raises marks its node failed and stores the error (`node.failed = True;
    _last_error = ex, node` in the wrapper). -/
theorem raise_marks_failed (p : Prog) (s s' : St) (n pc : Nat) (rest : List Frame)
    (h : stepBody p s n pc (.wrapAfter n :: rest) = .raise s') :
    let r := stepGen p s (.body n pc :: .wrapAfter n :: rest)
    (r.1.rt n).failed = true ∧ r.1.lastError = some n ∧ r.2.1 = rest := by
  simp only [stepGen, stepFrame, h, unwind]
  simp

/-- The kinds whose body raises: an unparsable/unknown instruction fails at once. -/
theorem failing_instruction_raises (p : Prog) (s : St) (n pc : Nat) (below : List Frame) (label : String)
    (hk : (node p n).kind = .failing label) :
    stepBody p s n pc below = .raise (markFailed s n) := by
  unfold stepBody
  simp only [hk]

/-- The state a frame step produces has the same stored error as before (only the wrapper's
    exception handler, `unwind`, writes it). -/
theorem stepFrame_lastError (p : Prog) (s : St) (f : Frame) (below : List Frame) :
    (outState (stepFrame p s f below)).lastError = s.lastError := by
  cases f with
  | body n pc =>
    simp only [stepFrame]
    unfold stepBody
    simp only []
    repeat' split
    all_goals (try simp only [outState, le_setRt, le_emit, le_markCompleted, le_finishNode, le_markFailed, le_tryActivate,
      le_registerInterrupt, le_unregisterInterrupt, le_endBlockStep, le_endBlocksStep, le_alarmRearm,
      le_callPrepare, le_callFinish])
    all_goals (try rfl)
  | _ =>
    unfold stepFrame
    simp only []
    repeat' split
    all_goals (try simp only [outState, le_setRt, le_emit, le_markCompleted, le_finishNode, le_markFailed, le_callFinish])
    all_goals (try rfl)

theorem unwind_keeps_some (s : St) (st : List Frame) (h : s.lastError.isSome = true) :
    (unwind s st).1.lastError.isSome = true := by
  induction st generalizing s with
  | nil => simp only [unwind]; cases hs : s.lastError <;> simp_all
  | cons f rest ih => cases f <;> simp only [unwind] <;> first | exact ih _ h | simp

/-- Micro-steps never clear a stored error. -/
theorem lastError_persists_stepGen (p : Prog) (s : St) (stack : List Frame) (h : s.lastError.isSome = true) :
    (stepGen p s stack).1.lastError.isSome = true := by
  unfold stepGen
  cases stack with
  | nil => exact h
  | cons f below =>
    simp only []
    have key := stepFrame_lastError p s f below
    cases hs : stepFrame p s f below with
    | raise s' =>
      rw [hs] at key
      simp only [outState] at key ⊢
      exact unwind_keeps_some _ _ (by rw [key]; exact h)
    | next s' top sig =>
      rw [hs] at key
      simp only [outState] at key ⊢
      rw [key]; exact h

/-- A corrected method that is merged starts with no stored interpreter error. -/
theorem merged_method_clears_error (mm : OPM.Merge.MM) (new : OPM.Merge.Method)
    (h : (OPM.Merge.edit mm new).2 ≠ .rejected) : (OPM.Merge.edit mm new).1.st.lastError = none := by
  simp only [OPM.Merge.edit] at h ⊢
  have fresh : ∀ (old : St) (pr : Prog), (OPM.Merge.freshInterp old pr).lastError = none := by
    intro old pr; rfl
  by_cases h1 : (mm.mmShared && (getRt mm.st 0).started) = true
  · by_cases h2 : OPM.Merge.validate mm new = true
    · rw [if_pos h1, if_pos h2]
      unfold OPM.Merge.freshFromState
      simp only []
      have k2 : ∀ (l : List (String × Nat)) (s : St) (g : St → String × Nat → St),
          (∀ s a, (g s a).lastError = s.lastError) → (l.foldl g s).lastError = s.lastError := by
        intro l s g hg
        induction l generalizing s with
        | nil => rfl
        | cons a l ih => simp only [List.foldl]; rw [ih, hg]
      have k1 : ∀ (l : List (Nat × Nat)) (s : St) (g : St → Nat × Nat → St),
          (∀ s a, (g s a).lastError = s.lastError) → (l.foldl g s).lastError = s.lastError := by
        intro l s g hg
        induction l generalizing s with
        | nil => rfl
        | cons a l ih => simp only [List.foldl]; rw [ih, hg]
      rw [k2, k1]
      · exact fresh _ _
      · intro s a; split
        · split
          · exact le_registerInterrupt _ _ _
          · rfl
        · rfl
      · intro s a; split
        · split <;> rfl
        · rfl
    · rw [if_pos h1, if_neg h2] at h; exact absurd rfl h
  · rw [if_neg h1]; exact fresh _ _

end OPM.C13
