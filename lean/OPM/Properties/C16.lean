import OPM.Model.Tags
import OPM.Lemmas.Tags
import OPM.Gen.TagSites
/-!
# C16 Reported tag times are the engine time of the change

"Every tag value the engine reports carries the engine clock time of the tick in which that value was set.
Per tag these times never decrease, and they never lie before engine start or after the current tick."

Two layers.  (1) Tables regenerated from the source: every call that sets or simulates a tag value passes, as
time, the `tick_time` parameter / a `_tick_time` field, or the wall clock, or hands on what it was given; no
site passes a tick *number*; the `_tick_time` fields are only ever assigned the `tick_time` parameter.
(2) Generic theorems over the tag model: if every stamping operation of a tick passes that tick's time
(`Op.okAt`), then a tag whose value was set in the tick carries the tick's time, stamps never decrease, and
every reported time lies in `[start, now]`.

Assumption (stated in the evidence): a wall clock read inside a tick equals the tick's time (true under the
harness' virtual clock; in production it is later by the tick's own compute time).  The wall-clock sites are
pinned below so that a new one is noticed.
-/
namespace OPM.C16
open OPM.Tags OPM.Gen.TagSites

/-! ## The source tables (regenerated from /repo on every run) -/

/-- Every set/simulate call site passes the tick time, the wall clock, or forwards its own argument:
    none passes a tick number or anything else. -/
theorem sites_pass_tick_time : ∀ s ∈ setSites, s.cls.ok = true := by
  decide +kernel

/-- Structural statement about the wall-clock sites (no function names pinned): a site stamps with the wall clock
    only where no tick time is at hand — the enclosing function has no `tick_time` parameter and its class never
    reads a `_tick_time` field (event handlers such as `on_start`, `reset`, `archive`).  Where a tick time is at
    hand, it is what the site passes. -/
theorem wall_clock_only_without_tick_time : ∀ s ∈ setSites, s.expr = .wall → s.timeAtHand = false := by
  decide +kernel

/-- A forwarding site is always an overriding wrapper: `super().<same method>(val, *args)` inside a method of that
    name (the caller's time argument is handed on unchanged). -/
theorem forward_sites_are_wrappers : ∀ s ∈ setSites, s.expr = .forward → s.wrapper = true := by
  decide +kernel

/-- Every site of the interpreter (Block tag, Mark, Base, Run counter, Simulate …) passes the interpreter's
    `_tick_time` field — never the tick number; the scan is not empty-handed. -/
theorem interpreter_sites_pass_the_field :
    (∀ s ∈ setSites, s.file = "lang/exec/pinterpreter.py" → s.expr = .interpField) ∧
      5 ≤ (setSites.filter (fun s => s.file = "lang/exec/pinterpreter.py")).length := by
  decide +kernel

/-- `self._tick_time` (Engine, PInterpreter) is only ever assigned the `tick_time` parameter of the tick, and both
    classes do assign it. -/
theorem tick_time_fields_hold_the_tick_time :
    (∀ w ∈ tickTimeFieldWrites, w.init = true ∨ w.expr = .param) ∧
      (∃ w ∈ tickTimeFieldWrites, w.init = false ∧ w.file = "engine/engine.py") ∧
      (∃ w ∈ tickTimeFieldWrites, w.init = false ∧ w.file = "lang/exec/pinterpreter.py") := by
  decide +kernel

/-- Direct assignments to a tag's `tick_time` outside `__init__` use the tick time or the wall clock. -/
theorem stamp_sites_ok : ∀ w ∈ stampSites, w.init = true ∨ w.cls.ok = true := by
  decide +kernel

/-- Lifting the table: in a tick with time `now` (wall clock read as `now`, wrappers handed `now`) every
    scanned call site passes `now`, whatever the tick number is. -/
theorem every_site_passes_the_tick_time (now tickNumber oth : Time) :
    ∀ s ∈ setSites, siteTime s.cls now tickNumber now now oth = now := by
  intro s hs
  have h := sites_pass_tick_time s hs
  cases hc : s.cls <;> simp [hc, TimeClass.ok, siteTime] at h ⊢

/-- …which is false for a site that passes the tick number (the pre-repair Block / Simulate sites). -/
theorem tick_number_site_passes_wrong_time :
    siteTime .tickNumber 8128000 5 8128000 8128000 0 ≠ 8128000 ∧ TimeClass.ok .tickNumber = false := by
  decide

/-! ## The time argument derived from the tick structure (instead of assumed)

The model does not take a call site's time argument from the implementation: it evaluates the site's translated
expression (`SetSite.expr`) in the environment that the translated statement list of `Engine.tick` produces at the
phase in which the site runs (`advance`, `enterInterp`).  The tables show that this is the tick's time. -/

/-- every site passes an expression that denotes the tick's time in a fresh environment -/
theorem sites_expr_ok : ∀ s ∈ setSites, s.expr.ok = true := by
  decide +kernel

/-- `Engine.tick`: every call that can reach a tag comes after `self._tick_time = tick_time`; the first-tick stamp
    and every handed-down `tick_time` argument is the parameter itself. -/
theorem engine_tick_assigns_before_use : freshOK false engineTickStmts = true := by
  decide +kernel

/-- `PInterpreter.tick_iterate_subticks`: the field is assigned from the parameter before any generator is stepped. -/
theorem interp_tick_assigns_first : interpOK interpTickStmts = true := by
  decide +kernel

/-- The functions that hand the tick time down (`tick`, `on_tick`, `emit_on_tick`, `update_calculated_tags`,
    `tick_iterate_subticks`) are always called with their caller's own `tick_time` parameter; the only origin is
    the timer thread, which reads the wall clock. -/
theorem tick_time_handed_down :
    ∀ c ∈ tickTimeCalls, c.callee ∈ ["tick", "on_tick", "emit_on_tick", "update_calculated_tags", "tick_iterate_subticks"] →
      c.expr = .param ∨ (c.func = "OneThreadTimer.ticker" ∧ c.expr = .wall) := by
  decide +kernel

/-- **Derived discipline, engine side.**  Start `Engine.tick(t)` in any environment (stale fields from the tick
    before), with the wall clock reading `t`; run the translated statements through any sequence of phases (calls
    that may reach a tag).  At the phase reached, parameter, engine field and wall clock all read `t`. -/
theorem phase_env_fresh (e0 : Env) (t : Time) (phases : List String) (hne : phases ≠ [])
    (e : Env) (rest : List Stmt)
    (h : advanceMany phases engineTickStmts (e0.enterTick t t) = some (e, rest)) :
    e.param = t ∧ e.engineField = t ∧ e.wall = t := by
  have := advanceMany_fresh t phases engineTickStmts (e0.enterTick t t) false engine_tick_assigns_before_use
    rfl (fun h => by cases h) hne e rest h
  exact ⟨this.1, this.2.1, this.2.2⟩

/-- **Derived discipline, interpreter side.**  A phase that hands the tick time down (`passes`, e.g.
    `self.interpreter.tick(tick_time, …)`) is entered with the tick's time as argument, and inside the interpreter
    its own field reads `t` as well. -/
theorem interp_env_fresh (e0 : Env) (t : Time) (pre : List String) (phase : String)
    (e1 : Env) (st1 : List Stmt) (h1 : advanceMany pre engineTickStmts (e0.enterTick t t) = some (e1, st1))
    (e : Env) (a : Option ArgExpr) (rest : List Stmt)
    (h : advance phase st1 e1 = some (e, a, true, true, rest)) :
    ∃ x, a = some x ∧ evalArg e 0 0 x = t ∧
      let ei := enterInterp interpTickStmts e (evalArg e 0 0 x)
      ei.param = t ∧ ei.engineField = t ∧ ei.interpField = t ∧ ei.wall = t := by
  obtain ⟨hp1, hw1, _, f, hf1, hf3⟩ := advanceMany_carry t pre engineTickStmts (e0.enterTick t t) false
    engine_tick_assigns_before_use rfl (fun h => by cases h) e1 st1 h1
  obtain ⟨q1, q2, _, q4, harg, _⟩ := advance_fresh phase t st1 e1 f hf1 hp1 hf3 e a true true rest h
  obtain ⟨x, hx, hxv⟩ := harg rfl
  refine ⟨x, hx, hxv, ?_⟩
  have hi := enterInterp_fresh interpTickStmts interp_tick_assigns_first e (evalArg e 0 0 x)
  simp only
  rw [hi.1, hi.2.1, hi.2.2.1, hi.2.2.2, hxv]
  exact ⟨q1, q4 rfl, rfl, q2.trans hw1⟩

/-- The interpreter phase of the table is such a phase (it may reach tags and hands the time down). -/
theorem interpreter_phase_passes_time :
    (Stmt.call "self.interpreter.tick" (some .param) true true) ∈ engineTickStmts := by
  decide +kernel

/-- **`Disciplined` derived.**  In an environment where parameter, both fields and the wall clock read the tick's
    time `t` (the two theorems above), every scanned call site evaluates its time argument to `t`: the operation the
    model issues for it is `okAt t`.  (`forward` sites receive what their caller passed, i.e. `t`.) -/
theorem site_time_is_tick_time (e : Env) (t oth : Time)
    (h : e.param = t ∧ e.engineField = t ∧ e.interpField = t ∧ e.wall = t) :
    ∀ s ∈ setSites, evalArg e t oth s.expr = t ∧
      (∀ i v, (Op.set i v (evalArg e t oth s.expr)).okAt t) ∧
      (∀ i v, v ≠ none → (Op.sim i v (evalArg e t oth s.expr)).okAt t) := by
  intro s hs
  have hok := sites_expr_ok s hs
  obtain ⟨h1, h2, h3, h4⟩ := h
  have : evalArg e t oth s.expr = t := by
    cases hc : s.expr <;> simp [hc, ArgExpr.ok, evalArg] at hok ⊢ <;> assumption
  exact ⟨this, fun i v => by simp [Op.okAt, this], fun i v hv => by simp [Op.okAt, this, hv]⟩

/-- the bulk stamp of the first tick passes the tick's time -/
theorem first_tick_stamp_is_tick_time (e0 : Env) (t : Time) (e : Env) (rhs : ArgExpr) (rest : List Stmt)
    (h : advanceStamp engineTickStmts (e0.enterTick t t) = some (e, rhs, rest)) : evalArg e 0 0 rhs = t :=
  advanceStamp_fresh t engineTickStmts (e0.enterTick t t) false engine_tick_assigns_before_use rfl
    (fun h => by cases h) e rhs rest h

/-- Non-vacuity: the phases of a real tick exist in the table and produce the fresh environment. -/
example :
    (advanceMany ["self.read_process_image", "self.interpreter.tick", "self._command_manager.tick"] engineTickStmts
      ((⟨7, 7, 7, 7, 3⟩ : Env).enterTick 8128 8128)).map (fun r => r.1) = some ⟨8128, 8128, 7, 8128, 4⟩ := by
  decide +kernel

/-- Regression witness: `self._tick_time = tick_time` moved below `read_process_image()` is rejected. -/
theorem late_field_assignment_rejected :
    freshOK false [.call "self.uod.hwl.tick" none true false, .call "self.read_process_image" none true false,
      .assign "self._tick_time" .param, .call "self.notify_tag_updates" none true false] = false := by
  decide +kernel

/-! ## The value set in a tick carries that tick's time -/

/-- **Full statement, one tick.**  All stamping operations of the tick pass the tick's time `t`.  Then every tag
    whose value was set in the tick (its real value differs from before, or it is simulated with a different
    simulated value) carries `t` afterwards. -/
theorem changed_value_carries_tick_time (s : State) (t : Time) (ops : List Op)
    (hwf : s.WF) (hd : ∀ o ∈ ops, o.okAt t)
    (j : Nat) (tg tg' : Tag) (h0 : s.tags[j]? = some tg) (h1 : (run s ops).tags[j]? = some tg')
    (hc : tg'.value ≠ tg.value ∨ (tg'.simulated = true ∧ tg'.simValue ≠ tg.simValue)) :
    tg'.tickTime = t := by
  obtain ⟨x, hx, hwfx, htx⟩ := run_tag_invariant (fun x => x.WF ∧ Touched tg x t) ops
    (fun o ho x hx => ⟨applyTag_wf o x (okAt_reporting t o (hd o ho)) hx.1,
      applyTag_touched o tg x t (hd o ho) hx.1 hx.2⟩)
    s j tg h0 ⟨State.WF_get hwf h0, fun h => by rcases h with h | ⟨_, h⟩ <;> exact absurd rfl h⟩
  rw [h1] at hx
  cases hx
  exact htx hc

/-- …and the report built after the tick shows exactly that time for it: an entry whose value differs from
    what the tag showed before the tick carries the tick's time.  (Excluded: the entry of a tag whose simulation
    was *stopped* in the tick — it shows the real value again, which was set earlier.) -/
theorem reported_change_carries_tick_time (s : State) (t : Time) (ops : List Op) (snap : Bool) (now : Time)
    (hwf : s.WF) (hd : ∀ o ∈ ops, o.okAt t) (ht : t ≠ 0)
    (e : Entry) (he : e ∈ (collect (run s ops) snap now).2) (tg : Tag) (h0 : s.tags[e.idx]? = some tg)
    (hc : tg.visible ≠ e.value)
    (hsim : e.simulated = tg.simulated ∨ (e.simulated = true ∧ e.value ≠ none)) :
    e.tickTime = t := by
  rw [collect_mem] at he
  obtain ⟨_, tg', hs, hval, hsm, htime⟩ := entryOf_idx (run s ops) now e.idx e he.2
  have hwf0 := State.WF_get hwf h0
  have : tg'.tickTime = t := by
    apply changed_value_carries_tick_time s t ops hwf hd e.idx tg tg' h0 hs
    rw [hval] at hc hsim
    rw [hsm] at hsim
    unfold Tag.visible at hc
    cases h' : tg'.simulated with
    | true =>
      right
      refine ⟨rfl, ?_⟩
      rw [h'] at hc hsim
      simp only [if_true] at hc
      cases h0s : tg.simulated with
      | true => rw [h0s] at hc; simp only [if_true] at hc; exact fun e => hc e.symm
      | false =>
        rw [hwf0 h0s]
        rcases hsim with h | ⟨_, h⟩
        · rw [h0s] at h; cases h
        · simpa [Tag.visible, h'] using h
    | false =>
      left
      rw [h'] at hc hsim
      simp only [Bool.false_eq_true, if_false] at hc
      rcases hsim with h | ⟨h, _⟩
      · rw [← h] at hc; simp only [Bool.false_eq_true, if_false] at hc; exact fun e => hc e.symm
      · cases h
  rw [htime, this]
  simp [ht]

/-- Non-vacuity: the Block tag is set and a tag is simulated in the tick at 8128; both carry 8128. -/
example :
    let s0 := ((State.empty.addTag true none 8000).addTag false (some 0) 8000)
    let ops := [Op.stamp 0 8128, Op.set 0 (some 7) 8128, Op.sim 1 (some 9) 8128, Op.notify]
    (∀ o ∈ ops, o.okAt 8128) ∧
      (collect (run s0 ops) false 0).2 = [⟨0, some 7, 8128, false⟩, ⟨1, some 9, 8128, true⟩] := by
  exact ⟨by decide, by decide +kernel⟩

/-! ## Reported times never decrease and lie within [start, now] -/

/-- **Full statement, range.**  At engine start every tag carries a time in `[start, hi]` (construction time /
    first tick); tick times do not decrease from there; all stamping operations pass their tick's time.  Then
    every time in every report lies between engine start and the time of the current (last) tick. -/
theorem reported_times_within_start_now (s : State) (ticks : List Tick) (start hi : Time) (hpos : 0 < start)
    (hb : Bounded s start hi) (hd : Disciplined ticks) (hc : ChainFrom hi ticks) (snap : Bool) (now : Time) :
    ∀ e ∈ (collect (runTicks s ticks) snap now).2, start ≤ e.tickTime ∧ e.tickTime ≤ endTime hi ticks := by
  intro e he
  rw [collect_mem] at he
  obtain ⟨_, tg, hs, _, _, htime⟩ := entryOf_idx (runTicks s ticks) now e.idx e he.2
  have b := (runTicks_bounded s ticks start hi hd hc hb).get hs
  have hne : tg.tickTime ≠ 0 := fun h => absurd hpos (Int.not_lt.mpr (h ▸ b.1))
  rw [htime, if_neg hne]
  exact b

/-- **Full statement, monotonicity.**  Two reports with disciplined ticks in between: for every tag that is in
    both, the later report does not show an earlier time. -/
theorem reported_times_monotone (s : State) (ticks : List Tick) (lo hi : Time) (hpos : 0 < lo)
    (hb : Bounded s lo hi) (hd : Disciplined ticks) (hc : ChainFrom hi ticks)
    (snap1 snap2 : Bool) (now1 now2 : Time)
    (e1 : Entry) (h1 : e1 ∈ (collect s snap1 now1).2)
    (e2 : Entry) (h2 : e2 ∈ (collect (runTicks (collect s snap1 now1).1 ticks) snap2 now2).2)
    (hidx : e1.idx = e2.idx) : e1.tickTime ≤ e2.tickTime := by
  have htags : (collect s snap1 now1).1.tags = s.tags := by cases snap1 <;> rfl
  have hb1 : Bounded (collect s snap1 now1).1 lo hi := by intro tg h; rw [htags] at h; exact hb tg h
  rw [collect_mem] at h1 h2
  obtain ⟨_, tg1, hs1, _, _, ht1⟩ := entryOf_idx s now1 e1.idx e1 h1.2
  obtain ⟨_, tg2, hs2, _, _, ht2⟩ := entryOf_idx _ now2 e2.idx e2 h2.2
  have hs1' : (collect s snap1 now1).1.tags[e2.idx]? = some tg1 := by rw [htags, ← hidx]; exact hs1
  obtain ⟨tg2', h3, h4⟩ := runTicks_stamp_mono _ ticks lo hi hd hc hb1 e2.idx tg1 hs1'
  rw [hs2] at h3
  cases h3
  have b1 := hb.get hs1
  have b2 := (runTicks_bounded _ ticks lo hi hd hc hb1).get hs2
  have n1 : tg1.tickTime ≠ 0 := fun h => absurd hpos (Int.not_lt.mpr (h ▸ b1.1))
  have n2 : tg2.tickTime ≠ 0 := fun h => absurd hpos (Int.not_lt.mpr (h ▸ b2.1))
  rw [ht1, ht2, if_neg n1, if_neg n2]
  exact h4

/-- Non-vacuity for the two theorems above: start at 8000, ticks at 8128 and 8256. -/
example :
    let s0 := ((State.empty.addTag true none 8000).addTag false (some 0) 8000)
    let ticks : List Tick := [(8128, [Op.stamp 0 8128, Op.set 0 (some 7) 8128, Op.notify]),
                              (8256, [Op.sim 1 (some 9) 8256, Op.simOff 1, Op.notify])]
    Bounded s0 8000 8000 ∧ Disciplined ticks ∧ ChainFrom 8000 ticks ∧ endTime 8000 ticks = 8256 ∧
      (collect (runTicks s0 ticks) false 0).2 = [⟨0, some 7, 8128, false⟩, ⟨1, some 0, 8256, false⟩] := by
  refine ⟨?_, by unfold Disciplined; decide, by simp [ChainFrom], by decide, by decide +kernel⟩
  intro tg h
  simp only [State.addTag, State.empty, List.nil_append, List.cons_append, List.mem_cons,
    List.not_mem_nil, or_false] at h
  rcases h with rfl | rfl <;> decide

/-! ## The operations the engine tick and the clock tags issue pass the tick's time -/

theorem engine_tick_ops_pass_tick_time (s : State) (t : Time) (reads : List (Nat × Val)) :
    ∀ o ∈ engineTickOps s t reads, o.okAt t := by
  intro o ho
  simp only [engineTickOps, List.mem_append, List.mem_map, List.mem_singleton] at ho
  rcases ho with (ho | ⟨r, _, rfl⟩) | rfl
  · split at ho
    · simp only [List.mem_map] at ho
      obtain ⟨i, _, rfl⟩ := ho
      rfl
    · cases ho
  · rfl
  · trivial

/-- Block Time: `on_tick(t, dt)` stamps with `t`; `on_start` stamps with the wall clock it reads. -/
theorem blockTime_passes_event_time (idx : Nat) (b : BlockTime) :
    (∀ t dt, ∀ o ∈ (btStep idx b (.tick t dt)).ops, o.okAt t) ∧
    (∀ now, ∀ o ∈ (btStep idx b (.start now)).ops, o.okAt now) ∧
    (∀ ev, (∀ t dt, ev ≠ .tick t dt) → (∀ now, ev ≠ .start now) → (btStep idx b ev).ops = []) := by
  refine ⟨?_, ?_, ?_⟩
  · intro t dt o ho
    simp only [btStep] at ho
    split at ho <;> simp_all [Op.okAt]
  · intro now o ho
    simp_all [btStep, Op.okAt]
  · intro ev h1 h2
    cases ev <;> simp_all [btStep]
    split <;> rfl

/-- Scope Time likewise (`on_start` and `on_scope_start` read the wall clock). -/
theorem scopeTime_passes_event_time (idx : Nat) (st : ScopeTime) :
    (∀ t dt, ∀ o ∈ (stStep idx st (.tick t dt)).ops, o.okAt t) ∧
    (∀ now, ∀ o ∈ (stStep idx st (.start now)).ops, o.okAt now) ∧
    (∀ now, ∀ o ∈ (stStep idx st (.scopeStart now)).ops, o.okAt now) := by
  refine ⟨?_, ?_, ?_⟩
  · intro t dt o ho
    simp only [stStep] at ho
    split at ho <;> simp_all [Op.okAt]
  · intro now o ho
    simp_all [stStep, Op.okAt]
  · intro now o ho
    simp_all [stStep, Op.okAt]

/-! ## Regression witness: a tick number passed as time breaks range and monotonicity -/

/-- The pre-repair Block site: engine started at 8000 (s scaled), tick number 5 passed as time: the report
    shows a time before engine start, and smaller than the one reported before. -/
theorem tick_number_as_time_breaks :
    let s0 := State.empty.addTag true none 8000
    let r1 := collect (run s0 [Op.stamp 0 8128, Op.notify]) true 0
    let r2 := collect (run r1.1 [Op.set 0 (some 1) 5, Op.notify]) false 0
    r1.2 = [⟨0, none, 8128, false⟩] ∧ r2.2 = [⟨0, some 1, 5, false⟩] ∧ ¬ (Op.set 0 (some 1) 5).okAt 8256 := by
  decide +kernel

end OPM.C16
