import OPM.Model.CsvExport
import OPM.Lemmas.CsvExport
/-!
# C34 CSV export is a faithful sample-and-hold of the plot log

"In the CSV export of a recorded run, data rows are in strictly increasing time order. Each cell shows the
latest recorded value of that tag whose time is at or before the row's time, or is empty if the tag had no
value yet."

`exportRows log` models `_write_header_row` (stable sort) + `_get_tick_times` + `_write_data_rows` of
`csv_generator.py` with the repair of /verif/fixes/C34-csv-sample-and-hold.diff.  `log` is arbitrary: any number of
tags, value lists unsorted, with repeated times, starting late, empty.
`IsHeld vs t c` (below) is the relational reading of the second sentence on the list as *recorded*.
-/
namespace OPM.C34
open OPM.CsvExport

/-- What the property text asks of a cell, stated on the recorded list: `none` iff no value has a time `≤ t`;
    `some x` iff `x` is at a position such that nothing at or before `t` is later in time, and nothing recorded
    after it has the same time (so `x` is the latest recorded among the values with the greatest time `≤ t`). -/
def IsHeld (vs : List Sample) (t : Int) : Option Sample → Prop
  | none => ∀ y ∈ vs, t < y.1
  | some x => ∃ pre post, vs = pre ++ x :: post ∧ x.1 ≤ t ∧
      (∀ y ∈ pre, y.1 ≤ t → y.1 ≤ x.1) ∧ (∀ y ∈ post, y.1 ≤ t → y.1 < x.1)

/-- The functional reference `hold` (Lemmas) meets the relational specification. -/
theorem hold_isHeld (t : Int) (vs : List Sample) : IsHeld vs t (hold t vs) := by
  induction vs with
  | nil => simp [hold, IsHeld]
  | cons x l ih =>
    unfold hold
    cases hl : hold t l with
    | none =>
      rw [hl] at ih
      simp only [IsHeld] at ih
      simp only
      split
      · rename_i hx
        refine ⟨[], l, rfl, hx, by simp, ?_⟩
        intro y hy hyt
        have := ih y hy; omega
      · rename_i hx
        simp only [IsHeld]
        intro y hy
        rcases List.mem_cons.1 hy with rfl | hy
        · omega
        · exact ih y hy
    | some b =>
      rw [hl] at ih
      obtain ⟨pre, post, rfl, hbt, hpre, hpost⟩ := ih
      simp only
      split
      · rename_i hx
        refine ⟨[], pre ++ b :: post, rfl, hx.1, by simp, ?_⟩
        intro y hy hyt
        rcases List.mem_append.1 hy with hy | hy
        · have := hpre y hy hyt; omega
        · rcases List.mem_cons.1 hy with rfl | hy
          · exact hx.2
          · have := hpost y hy hyt; omega
      · rename_i hx
        refine ⟨x :: pre, post, rfl, hbt, ?_, hpost⟩
        intro y hy hyt
        rcases List.mem_cons.1 hy with rfl | hy
        · omega
        · exact hpre y hy hyt

/-- The relational description determines the cell: it is a specification, not just a consequence. -/
theorem isHeld_unique (vs : List Sample) (t : Int) (c₁ c₂ : Option Sample)
    (h₁ : IsHeld vs t c₁) (h₂ : IsHeld vs t c₂) : c₁ = c₂ := by
  cases c₁ with
  | none =>
    cases c₂ with
    | none => rfl
    | some x =>
      obtain ⟨pre, post, rfl, hx, _, _⟩ := h₂
      have := h₁ x (by simp); omega
  | some x =>
    cases c₂ with
    | none =>
      obtain ⟨pre, post, rfl, hx, _, _⟩ := h₁
      have := h₂ x (by simp); omega
    | some y =>
      obtain ⟨p₁, q₁, e₁, hx, hp₁, hq₁⟩ := h₁
      obtain ⟨p₂, q₂, e₂, hy, hp₂, hq₂⟩ := h₂
      rw [e₁] at e₂
      rcases List.append_eq_append_iff.1 e₂ with ⟨m, hm, hm'⟩ | ⟨m, hm, hm'⟩
      · -- p₂ = p₁ ++ m, x :: q₁ = m ++ y :: q₂
        cases m with
        | nil => simp at hm'; rw [hm'.1]
        | cons z m =>
          simp only [List.cons_append, List.cons.injEq] at hm'
          obtain ⟨rfl, rfl⟩ := hm'
          have a := hq₁ y (by simp) hy
          have b := hp₂ x (by rw [hm]; simp) hx
          omega
      · cases m with
        | nil => simp at hm'; rw [hm'.1]
        | cons z m =>
          simp only [List.cons_append, List.cons.injEq] at hm'
          obtain ⟨rfl, rfl⟩ := hm'
          have a := hq₂ x (by simp) hx
          have b := hp₁ y (by rw [hm]; simp) hy
          omega

/-- Sentence 1: the row times are strictly increasing. -/
theorem row_times_strictly_increasing (log : PlotLog) :
    ((exportRows log).map (·.time)).Pairwise (· < ·) := by
  have hs := tickTimes_sorted log
  unfold exportRows
  rw [rows_eq _ (hs.imp (fun h => Int.le_of_lt h))]
  simpa [List.map_map, Function.comp_def] using hs

/-- There is a row for exactly the times at which some tag has a recorded value. -/
theorem row_times_complete (log : PlotLog) (t : Int) :
    t ∈ (exportRows log).map (·.time) ↔ ∃ vs ∈ log, ∃ x ∈ vs, x.1 = t := by
  have hs := tickTimes_sorted log
  unfold exportRows
  rw [rows_eq _ (hs.imp (fun h => Int.le_of_lt h))]
  simp only [List.map_map, Function.comp_def, List.map_id', mem_tickTimes, allTimes, List.mem_map,
    List.mem_flatMap, id]
  constructor
  · rintro ⟨x, ⟨vs, hvs, hx⟩, rfl⟩; exact ⟨vs, hvs, x, hx, rfl⟩
  · rintro ⟨vs, hvs, x, hx, rfl⟩; exact ⟨x, ⟨vs, hvs, hx⟩, rfl⟩

/-- Every row is the reference sample-and-hold of every tag at the row's time (functional form). -/
theorem row_cells_eq_hold (log : PlotLog) (r : Row) (hr : r ∈ exportRows log) :
    r.cells = log.map (fun vs => (hold r.time vs).map (·.2)) := by
  have hs := tickTimes_sorted log
  unfold exportRows at hr
  rw [rows_eq _ (hs.imp (fun h => Int.le_of_lt h))] at hr
  obtain ⟨t, _, rfl⟩ := List.mem_map.1 hr
  simp only [List.map_map]
  apply List.map_congr_left
  intro vs _
  simp only [Function.comp]
  rw [emit_adv t _ (sorted_sortSamples vs), lastLE_sortSamples]

/-- Sentence 2, full strength: in every row there is one cell per tag, and the cell of tag `k` is empty iff the
    tag has no value at or before the row's time, and otherwise shows the value of the latest recorded sample
    among those with the greatest time at or before the row's time (`IsHeld` on the list as recorded). -/
theorem cells_sample_and_hold (log : PlotLog) (r : Row) (hr : r ∈ exportRows log) :
    r.cells.length = log.length ∧
    ∀ k (hk : k < log.length), ∃ c : Option Sample,
      IsHeld log[k] r.time c ∧ r.cells[k]? = some (c.map (·.2)) := by
  have h := row_cells_eq_hold log r hr
  refine ⟨by rw [h]; simp, ?_⟩
  intro k hk
  refine ⟨hold r.time log[k], hold_isHeld _ _, ?_⟩
  rw [h]
  simp [hk]

/-- Consequences spelled out: an empty cell means no value yet; a shown value was recorded at or before the row
    time and nothing recorded at or before the row time is newer. -/
theorem cell_empty_iff (log : PlotLog) (r : Row) (hr : r ∈ exportRows log) (k : Nat) (hk : k < log.length) :
    r.cells[k]? = some none ↔ ∀ y ∈ log[k], r.time < y.1 := by
  obtain ⟨_, h⟩ := cells_sample_and_hold log r hr
  obtain ⟨c, hc, hcell⟩ := h k hk
  rw [hcell]
  cases c with
  | none => simp only [Option.map_none, true_iff]; exact hc
  | some x =>
    obtain ⟨pre, post, e, hx, _, _⟩ := hc
    simp only [Option.map_some, Option.some.injEq, reduceCtorEq, false_iff]
    intro hall
    have := hall x (by rw [e]; simp)
    omega

theorem cell_value_recorded_and_latest (log : PlotLog) (r : Row) (hr : r ∈ exportRows log) (k : Nat)
    (hk : k < log.length) (v : Nat) (hv : r.cells[k]? = some (some v)) :
    ∃ t, (t, v) ∈ log[k] ∧ t ≤ r.time ∧ ∀ y ∈ log[k], y.1 ≤ r.time → y.1 ≤ t := by
  obtain ⟨_, h⟩ := cells_sample_and_hold log r hr
  obtain ⟨c, hc, hcell⟩ := h k hk
  rw [hcell] at hv
  cases c with
  | none => simp at hv
  | some x =>
    simp only [Option.map_some, Option.some.injEq] at hv
    obtain ⟨pre, post, e, hx, hpre, hpost⟩ := hc
    refine ⟨x.1, ?_, hx, ?_⟩
    · rw [e, ← hv]; simp
    · intro y hy hyt
      rw [e] at hy
      rcases List.mem_append.1 hy with hy | hy
      · exact hpre y hy hyt
      · rcases List.mem_cons.1 hy with rfl | hy
        · omega
        · have := hpost y hy hyt; omega

/-! Non-vacuity: interleaved, late-starting, repeated and unsorted times (ids 10.. are values). -/
example : exportRows [[(1, 10), (2, 11)], [(2, 20)]] = [⟨1, [some 10, none]⟩, ⟨2, [some 11, some 20]⟩] := by
  decide +kernel
example : exportRows [[(1, 1), (1, 2), (1, 3), (2, 4)]] = [⟨1, [some 3]⟩, ⟨2, [some 4]⟩] := by decide +kernel
example : exportRows [[(3, 1), (1, 2)], []] = [⟨1, [some 2, none]⟩, ⟨3, [some 1, none]⟩] := by decide +kernel
example : IsHeld [(1, 1), (1, 2), (1, 3), (2, 4)] 1 (some (1, 3)) :=
  ⟨[(1, 1), (1, 2)], [(2, 4)], rfl, by decide, by decide, by decide⟩

/-- Regression witness: the loop before the repair (one pop per row, no late-start test) is not a sample-and-hold:
    a tag whose first value is at t = 2 is shown in the row of t = 1, and after three values at one time the row
    lags behind (shows 2 instead of 3, then 3 instead of 4). -/
theorem old_loop_not_sample_and_hold :
    exportRowsOld [[(1, 10), (2, 11)], [(2, 20)]] = [⟨1, [some 10, some 20]⟩, ⟨2, [some 11, some 20]⟩] ∧
    exportRowsOld [[(1, 1), (1, 2), (1, 3), (2, 4)]] = [⟨1, [some 2]⟩, ⟨2, [some 3]⟩] := by
  decide +kernel

end OPM.C34
