import OPM.Model.RunLog
import OPM.Lemmas.RunLog
import OPM.Lemmas.RunLogTrack
/-!
# C15 Run log is always producible and well-formed

"For any execution the run log can be produced. Its items are ordered by start time and have distinct ids, no
item ends before it starts, and every completed, failed or cancelled item has an end time and is neither
cancellable nor forcible. Every method instruction other than Stop, blank and comment lines that completed
appears as a completed item."

Part A: `getRunlog` (= `RuntimeInfo.get_runlog`) on ALL record lists:
* `runlog_producible`         — no raise on every record list that satisfies `WF`
                                 (per shown invocation: time/tick ordered, nothing after a conclusive state;
                                 `WF_spelled_out`), and `runlog_producible_iff`: it raises on every other list;
* `runlog_sorted`, `runlog_ids_distinct`, `runlog_items_wellformed`, `completed_state_has_completed_item`
                               — whenever it returns (no further hypothesis, except: instance ids are not shared
                                 between records for the distinctness of ids).
Part B: `WF` and the disjointness of instance ids are invariants of the tracking API (`Tracking` +
`RuntimeRecord._add_state` with the repair `fixes/C15-no-state-after-conclusive.diff`) under the only assumption
that the engine clock does not run backwards: `tracking_invariant_init`, `tracking_invariant_step`,
`reachable_good`; `C15_run_log` puts A and B together for every reachable tracker state, and
`mark_completed_records_completed` is the tracking side of the last clause.
Part C: the code as it is (without the repair) — `C15_asis_full` is the same statement for the unguarded
`_add_state`; `C15_asis_counterexample` refutes it (a Force request for a completed instruction).
-/
namespace OPM.C15
open OPM.RunLog

/-! ## Part A: the projection -/

theorem startLe_trans (a b c : Item) : startLe a b = true → startLe b c = true → startLe a c = true := by
  simp only [startLe, decide_eq_true_eq]; exact Int.le_trans

theorem startLe_total (a b : Item) : (startLe a b || startLe b a) = true := by
  simp only [startLe, Bool.or_eq_true, decide_eq_true_eq]; exact Int.le_total _ _

/-- What `getRunlog` returns is a permutation-sorted version of the collected items. -/
theorem getRunlog_ok {rs : List Rec} {items : List Item} (h : getRunlog rs = .ok items) :
    ∃ raw, collect recordItems (rs.filter (fun r => r.cls != "NullNode")) = .ok raw ∧
      items = raw.mergeSort startLe := by
  unfold getRunlog at h
  cases hc : collect recordItems (rs.filter (fun r => r.cls != "NullNode")) with
  | error e => simp [hc] at h
  | ok raw => simp [hc] at h; exact ⟨raw, rfl, h.symm⟩

/-- **Producible.** `get_runlog` does not raise on a well-formed record list. -/
theorem runlog_producible (rs : List Rec) (h : WF rs) : ∃ items, getRunlog rs = .ok items := by
  unfold getRunlog
  have : ∃ raw, collect recordItems (rs.filter (fun r => r.cls != "NullNode")) = .ok raw := by
    apply collect_total
    intro r hr
    have hm := List.mem_filter.mp hr
    apply recordItems_total
    intro hrend i
    exact h r hm.1 (by simp only [Rec.visible, hm.2, hrend, Bool.and_self]) i
  obtain ⟨raw, hraw⟩ := this
  exact ⟨_, by rw [hraw]⟩

/-- The well-formedness predicate, spelled out: in every record that the run log shows, the states of every
instance id are in tick and time order, and a conclusive state (Completed, Failed, Cancelled) is the last one. -/
theorem WF_spelled_out (rs : List Rec) :
    WF rs ↔ ∀ r ∈ rs, r.visible = true → ∀ i,
      (group r.states i).Pairwise (fun a b => a.tick ≤ b.tick ∧ a.time ≤ b.time) ∧
      (group r.states i).Pairwise (fun a _ => a.name.conclusive = false) := Iff.rfl

/-- `WF` is exactly the condition under which `get_runlog` returns: it raises on every other record list. -/
theorem runlog_producible_iff (rs : List Rec) : (∃ items, getRunlog rs = .ok items) ↔ WF rs := by
  refine ⟨?_, runlog_producible rs⟩
  rintro ⟨items, h⟩ r hr hv i
  obtain ⟨raw, hraw, _⟩ := getRunlog_ok h
  simp only [Rec.visible, Bool.and_eq_true] at hv
  have hrf : r ∈ rs.filter (fun r => r.cls != "NullNode") := List.mem_filter.mpr ⟨hr, hv.1⟩
  obtain ⟨o, ho, _⟩ := collect_ok_all hraw r hrf
  exact recordItems_ok_wf ho hv.2 i

/-- **Ordered by start time.** -/
theorem runlog_sorted (rs : List Rec) (items : List Item) (h : getRunlog rs = .ok items) :
    items.Pairwise (fun a b => a.start ≤ b.start) := by
  obtain ⟨raw, _, rfl⟩ := getRunlog_ok h
  have := List.pairwise_mergeSort startLe_trans startLe_total raw
  exact this.imp (fun hab => by simpa [startLe] using hab)

/-- **Distinct ids**, provided no instance id occurs in two records (an invariant of tracking, see part B). -/
theorem runlog_ids_distinct (rs : List Rec) (items : List Item) (h : getRunlog rs = .ok items)
    (hd : InstDisjoint rs) : (items.map (·.id)).Nodup := by
  obtain ⟨raw, hraw, rfl⟩ := getRunlog_ok h
  have hd' : InstDisjoint (rs.filter (fun r => r.cls != "NullNode")) := hd.sublist List.filter_sublist
  have := collect_records_ids _ raw hraw hd'
  exact ((List.mergeSort_perm raw startLe).map (·.id)).nodup_iff.mpr this

/-- Every item comes from one invocation of one shown record. -/
theorem item_origin {rs : List Rec} {items : List Item} (h : getRunlog rs = .ok items) :
    ∀ x ∈ items, ∃ r ∈ rs, r.visible = true ∧ ∃ i out, groupItems (group r.states i) = .ok out ∧ x ∈ out := by
  obtain ⟨raw, hraw, rfl⟩ := getRunlog_ok h
  intro x hx
  have hx' : x ∈ raw := (List.mergeSort_perm raw startLe).mem_iff.mp hx
  obtain ⟨r, hr, o, ho, hxo⟩ := collect_ok_mem hraw x hx'
  have hm := List.mem_filter.mp hr
  unfold recordItems at ho
  split at ho
  · rename_i hrend
    obtain ⟨g, hg, o2, ho2, hx2⟩ := collect_ok_mem ho x hxo
    simp only [split, List.mem_map] at hg
    obtain ⟨i, _, rfl⟩ := hg
    exact ⟨r, hm.1, by simp only [Rec.visible, hm.2, hrend, Bool.and_self], i, o2, ho2, hx2⟩
  · cases ho; simp at hxo

/-- **No item ends before it starts; a completed, failed or cancelled item has an end time and is neither
cancellable nor forcible.** -/
theorem runlog_items_wellformed (rs : List Rec) (items : List Item) (h : getRunlog rs = .ok items) :
    ∀ x ∈ items,
      (∀ e, x.stop = some e → x.start ≤ e) ∧
      (x.state = .completed ∨ x.state = .failed ∨ x.state = .cancelled →
        x.stop.isSome = true ∧ x.cancellable = false ∧ x.forcible = false) := by
  intro x hx
  obtain ⟨r, _, _, i, out, hout, hxo⟩ := item_origin h x hx
  have sp := (groupItems_spec hout).2.1 x hxo
  refine ⟨sp.2.1, ?_⟩
  intro hs
  apply sp.2.2
  rcases hs with hs | hs | hs <;> simp [hs, ItemState.conclusive]

/-- **Completed instructions appear as completed items** (records → run log): a `Completed` state of a record
that is neither of an excluded class (program, blank, comment, injected wrapper, null node) nor named `Stop`
yields a Completed item with the instance id of that state, ending at the time of that state. -/
theorem completed_state_has_completed_item (rs : List Rec) (items : List Item) (h : getRunlog rs = .ok items) :
    ∀ r ∈ rs, r.visible = true → ∀ st ∈ r.states, st.name = .completed →
      ∃ x ∈ items, x.id = st.inst ∧ x.state = .completed ∧ x.stop = some st.time := by
  obtain ⟨raw, hraw, rfl⟩ := getRunlog_ok h
  intro r hr hv st hst hcomp
  simp only [Rec.visible, Bool.and_eq_true] at hv
  have hrf : r ∈ rs.filter (fun r => r.cls != "NullNode") := List.mem_filter.mpr ⟨hr, hv.1⟩
  obtain ⟨o, ho, hsub⟩ := collect_ok_all hraw r hrf
  unfold recordItems at ho
  simp only [hv.2, if_true] at ho
  have hg : group r.states st.inst ∈ split r.states := by
    simp only [split, List.mem_map]
    exact ⟨st.inst, mem_dedup.mpr (List.mem_map_of_mem hst), rfl⟩
  obtain ⟨o2, ho2, hsub2⟩ := collect_ok_all ho _ hg
  obtain ⟨x, hx, hxs, hxe⟩ := (groupItems_spec ho2).2.2 st hst rfl hcomp
  refine ⟨x, ?_, ((groupItems_spec ho2).2.1 x hx).1, hxs, hxe⟩
  exact (List.mergeSort_perm raw startLe).mem_iff.mpr (hsub x (hsub2 x hx))

/-! Non-vacuity of part A: a record list with an alarm-like record (two invocations), a finished command and a
null-node record; it is well-formed, its ids are disjoint, and it has Completed states of shown records. -/

def demoRecs : List Rec :=
  [ { nodeId := 0, cls := "NullNode", name := some "NullNode",
      states := [⟨0, .created, 0, 0, "", {}, .none⟩] },
    { nodeId := 1, cls := "MarkNode", name := some "Mark: a",
      states := [⟨1, .created, 8, 1, "Mark: a", {}, .none⟩, ⟨1, .started, 9, 2, "Mark: a", {}, .none⟩,
                 ⟨1, .completed, 9, 2, "Mark: a", {}, .none⟩,
                 ⟨2, .created, 12, 5, "Mark: a", {}, .none⟩, ⟨2, .started, 13, 6, "Mark: a", {}, .none⟩] },
    { nodeId := 2, cls := "UodCommandNode", name := some "CmdA",
      states := [⟨3, .created, 9, 2, "CmdA", ⟨true, false, true, false⟩, .none⟩,
                 ⟨3, .started, 10, 3, "CmdA", ⟨true, false, true, false⟩, .none⟩,
                 ⟨3, .uodCommandSet, 10, 3, "CmdA", ⟨true, false, true, false⟩, .uod⟩,
                 ⟨3, .cancelled, 11, 4, "CmdA", ⟨false, true, false, false⟩, .none⟩] } ]

example : (collect recordItems (demoRecs.filter (fun r => r.cls != "NullNode"))).toOption =
    some [⟨1, "Mark: a", .completed, 8, some 9, false, false, false, false, false⟩,
          ⟨2, "Mark: a", .started, 12, none, false, false, false, false, false⟩,
          ⟨3, "CmdA", .cancelled, 9, some 11, false, true, false, false, false⟩] := by decide +kernel

example : InstDisjoint demoRecs := by
  simp [InstDisjoint, demoRecs, Rec.insts]

example : WF demoRecs := by
  apply wf_of_records
  simp [demoRecs, Ordered, NoStateAfterConcl, StName.conclusive]

/-- …and a record list that is not well-formed (Forced after Completed): `get_runlog` raises. -/
example : ¬ WF [{ nodeId := 1, cls := "MarkNode", name := some "Mark: a",
                   states := [⟨1, .started, 9, 2, "Mark: a", {}, .none⟩, ⟨1, .completed, 9, 2, "Mark: a", {}, .none⟩,
                              ⟨1, .forced, 10, 3, "Mark: a", {}, .none⟩] }] := by
  intro h
  have := (h _ (List.mem_singleton.mpr rfl) (by decide +kernel) 1).2
  simp [group, ConclLast, StName.conclusive] at this

/-! ## Part B: the tracking API keeps the record list well-formed -/

/-- The clock of the engine does not run backwards along the op sequence. -/
def ClockMono : TS → List Op → Prop
  | _, [] => True
  | s, op :: ops => op.clockOk s ∧ ClockMono (step' s op) ops

theorem tracking_invariant_init (enabled guard : Bool) : Good (TS.init enabled guard) := good_init enabled guard

/-- One call of the tracking API (returning or raising) keeps the invariant. -/
theorem tracking_invariant_step (s : TS) (op : Op) (hg : Good s) (hc : op.clockOk s) : Good (step' s op) := by
  unfold step'
  cases h : step s op with
  | ok s' => exact (good_step hg hc h).1
  | error e => exact hg

theorem reachable_good : ∀ (ops : List Op) (s : TS), Good s → ClockMono s ops → Good (run s ops)
  | [], _, hg, _ => hg
  | op :: ops, s, hg, hc => by
    simp only [run, List.foldl_cons]
    exact reachable_good ops (step' s op) (tracking_invariant_step s op hg hc.1) hc.2

theorem guard_stepE (s : TS) (op : Op) (hg : Good s) (hc : op.clockOk s) : (step' s op).guard = s.guard := by
  unfold step'
  cases h : step s op with
  | ok s' => exact (good_step hg hc h).2
  | error e => rfl

theorem guard_run : ∀ (ops : List Op) (s : TS), Good s → ClockMono s ops → (run s ops).guard = s.guard
  | [], _, _, _ => rfl
  | op :: ops, s, hg, hc => by
    simp only [run, List.foldl_cons]
    have := guard_run ops (step' s op) (tracking_invariant_step s op hg hc.1) hc.2
    simp only [run] at this
    rw [this, guard_stepE s op hg hc.1]

/-- **C15 for every reachable state of the (repaired) tracker.**  Whatever sequence of tracking calls the
interpreter, the command manager and user requests make — returning or raising, with any node flags, any
instance ids in the requests, tracking enabled or not — as long as the engine clock does not run backwards:
the run log can be produced, is ordered by start, has distinct ids, no item ends before it starts, concluded
items have an end and are neither cancellable nor forcible, and every `Completed` state of a shown record has
its Completed item. -/
theorem C15_run_log (enabled : Bool) (ops : List Op) (hc : ClockMono (TS.init enabled) ops) :
    ∃ items, getRunlog (run (TS.init enabled) ops).records = .ok items ∧
      items.Pairwise (fun a b => a.start ≤ b.start) ∧
      (items.map (·.id)).Nodup ∧
      (∀ x ∈ items, (∀ e, x.stop = some e → x.start ≤ e) ∧
        (x.state = .completed ∨ x.state = .failed ∨ x.state = .cancelled →
          x.stop.isSome = true ∧ x.cancellable = false ∧ x.forcible = false)) ∧
      (∀ r ∈ (run (TS.init enabled) ops).records, r.visible = true → ∀ st ∈ r.states, st.name = .completed →
        ∃ x ∈ items, x.id = st.inst ∧ x.state = .completed ∧ x.stop = some st.time) := by
  have hg := reachable_good ops _ (tracking_invariant_init enabled true) hc
  have hgd : (run (TS.init enabled) ops).guard = true := by
    rw [guard_run ops _ (tracking_invariant_init enabled true) hc]; rfl
  obtain ⟨items, hi⟩ := runlog_producible _ (good_wf hg hgd)
  exact ⟨items, hi, runlog_sorted _ _ hi, runlog_ids_distinct _ _ hi (good_instDisjoint hg),
    runlog_items_wellformed _ _ hi, completed_state_has_completed_item _ _ hi⟩

/-- Tracking side of the last clause: a `mark_completed` call that is not skipped (tracking enabled, not
Start/Restart/Stop) for a record whose current invocation has not concluded appends a `Completed` state with the
current time to that invocation (so that, by `completed_state_has_completed_item`, the run log shows it). -/
theorem mark_completed_records_completed (s s' : TS) (tgt : Target) (env : NodeEnv) (u : Bool) (idx i : Nat) (r : Rec)
    (h : mark s .completed tgt env u = .ok s')
    (hs1 : s.skip (tgt.skipName env) = false) (hs2 : s.skip env.skipName = false)
    (hl : lookup s tgt = some idx) (hr : s.records[idx]? = some r) (hli : lastInst r = some i)
    (hopen : blocked s.guard r.states i .completed = false) :
    ∃ r', s'.records[idx]? = some r' ∧ r'.cls = r.cls ∧ r'.name = r.name ∧
      ∃ st ∈ r'.states, st.inst = i ∧ st.name = .completed ∧ st.time = s.time := by
  unfold mark at h
  simp only [hs1, hl, hr, hli] at h
  simp only [Bool.false_eq_true, if_false] at h
  by_cases hk : env.known = true
  · simp [hk] at h
    unfold addState at h
    simp only [hr, hs2, hk] at h
    simp only [Bool.not_true, Bool.false_eq_true, if_false, MarkKind.stName, hopen] at h
    cases hn : s.nodeMap r.nodeId with
    | none => simp [hn] at h
    | some latest =>
      simp only [hn] at h
      cases h
      refine ⟨_, modify_some hr, ?_⟩
      simp only [if_true, appendState, List.mem_append, List.mem_singleton, true_and]
      exact ⟨_, Or.inr rfl, rfl, rfl, rfl⟩
  · simp [hk] at h

/-! Non-vacuity of part B: a schedule in the repaired tracker with an instruction that is forced after it
completed (the Force is ignored) and a UOD command cancelled before it starts. -/

def envOf (label : String) (c x f g : Bool) : NodeEnv := { label := label, fl := ⟨c, x, f, g⟩ }

def demoOps : List Op :=
  [ .addRecord 0 "InterpreterCommandNode" (some "Wait: 1s"), .tick 8 1,
    .createNodeInst 0 (envOf "Wait: 1s" false false true false),
    .tick 9 2, .mark .started (.node 0) (envOf "Wait: 1s" false false true false) true,
    .tick 17 10, .mark .completed (.node 0) (envOf "Wait: 1s" false false true false) true,
    .addRecord 1 "UodCommandNode" (some "CmdA"), .tick 18 11,
    .createNodeInst 1 (envOf "CmdA" true false true false),
    .mark .forced (.node 0) (envOf "Wait: 1s" false false false true) true,
    .mark .cancelled (.cmd 1 false) (envOf "CmdA" false true false false) true,
    .tick 19 12, .cmdStarted true 1 false (envOf "CmdA" false true false false) ]

instance (s : TS) (op : Op) : Decidable (op.clockOk s) := by
  cases op <;> simp only [Op.clockOk] <;> infer_instance

instance decClockMono : (s : TS) → (ops : List Op) → Decidable (ClockMono s ops)
  | _, [] => isTrue trivial
  | s, op :: ops =>
    have := decClockMono (step' s op) ops
    inferInstanceAs (Decidable (op.clockOk s ∧ ClockMono (step' s op) ops))

example : ClockMono (TS.init true) demoOps := by decide +kernel

example : ((run (TS.init true) demoOps).records.map (fun r => r.states.map (fun st => (st.inst, st.name)))) =
    [[(0, .created), (0, .started), (0, .completed)], [(1, .created), (1, .cancelled)]] := by decide +kernel

/-! ## Part C: the code as it is -/

/-- The first clause of the property for the unrepaired `_add_state` (`guard = false`). -/
def C15_asis_full : Prop :=
  ∀ ops : List Op, ClockMono (TS.init true false) ops →
    ∃ items, getRunlog (run (TS.init true false) ops).records = .ok items

def errOf {α : Type} : Except Err α → Option Err
  | .error e => some e
  | .ok _ => none

/-- A Force request that arrives for an instruction that has completed (`force_instruction` with the id of a
completed run-log item): `Forced` is appended after `Completed` and `get_runlog` raises from then on. -/
def asisWitness : List Op :=
  [ .addRecord 0 "InterpreterCommandNode" (some "Wait: 1s"), .tick 8 1,
    .createNodeInst 0 (envOf "Wait: 1s" false false true false),
    .tick 9 2, .mark .started (.node 0) (envOf "Wait: 1s" false false true false) true,
    .tick 17 10, .mark .completed (.node 0) (envOf "Wait: 1s" false false true false) true,
    .tick 18 11, .mark .forced (.node 0) (envOf "Wait: 1s" false false false true) true ]

theorem C15_asis_counterexample : ¬ C15_asis_full := by
  intro h
  obtain ⟨items, hi⟩ := h asisWitness (by decide +kernel)
  have he : errOf (getRunlog (run (TS.init true false) asisWitness).records) = some .itemNone := by
    decide +kernel
  rw [hi] at he
  cases he

/-- The same schedule in the repaired tracker: the late Force is ignored and the item stays Completed. -/
example : (collect recordItems (run (TS.init true true) asisWitness).records).toOption =
    some [⟨0, "Wait: 1s", .completed, 8, some 17, false, false, false, false, false⟩] := by decide +kernel

end OPM.C15
