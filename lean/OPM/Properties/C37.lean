import OPM.Model.ActiveUsers
import OPM.Lemmas.ActiveUsers
/-!
# C37 Active-user list tracks live connections

"A user is listed as active on a process unit only while they are registered there and still have at least one
live connection. When their last connection closes they are removed from every unit, no matter how many times
they connected before."

`run n h` is the state of `FromFrontend` (with the repair of /verif/fixes/C37-prune-dead-man-switch-map.diff) after
the history `h` of subscribe / disconnect / register / unregister events, `n` units being known.
Everything below is stated against declarative readings of the *history* (`Live`, `Registered`), not against the
model's private connection map.
Histories also contain `engineDown e` / `engineUp e` (`FromEngine.engine_disconnected` / `register_engine_data`): the
unit's `EngineData` leaves the map / is replaced by a fresh one (`engine_outage_empties_unit`).

Result: three of the four clauses hold for **all** histories.  The clause "listed ⇒ has a live connection" does
not: `register_active_user` is an HTTP call that the aggregator cannot tie to a websocket, so a user who registers
without any dead-man-switch connection is listed until unregistered (`C37_counterexample`, recorded as a finding).
It holds for all histories in which registrations are made by connected users (`listed_implies_live_partial`).
-/
namespace OPM.C37
open OPM.ActiveUsers

/-- Connection `c` is a live connection of user `u` after history `h`: it subscribed to `u`'s dead-man-switch
    topic at some point and has not been closed since. -/
def Live (h : List Op) (c u : Nat) : Prop :=
  ∃ h₁ ts h₂, h = h₁ ++ Op.subscribe c ts :: h₂ ∧ u ∈ subscribedUsers ts ∧ Op.disconnect c ∉ h₂

/-- User `u` is registered on unit `e` after `h`: the unit exists, and there is a registration that nothing undid
    later: no unregistration of that user on that unit, and the unit's engine neither went away nor re-registered
    (either one gives the unit a new, empty list — also when the engine comes back). -/
def Registered (n : Nat) (h : List Op) (e u : Nat) : Prop :=
  e < n ∧ ∃ h₁ h₂, h = h₁ ++ Op.register e u :: h₂ ∧
    Op.unregister e u ∉ h₂ ∧ Op.engineDown e ∉ h₂ ∧ Op.engineUp e ∉ h₂

def Listed (n : Nat) (h : List Op) (e u : Nat) : Prop := (e, u) ∈ (run n h).active

theorem live_snoc (h : List Op) (op : Op) (c u : Nat) :
    Live (h ++ [op]) c u ↔
      (Live h c u ∧ op ≠ .disconnect c) ∨ (∃ ts, op = .subscribe c ts ∧ u ∈ subscribedUsers ts) := by
  constructor
  · rintro ⟨h₁, ts, h₂, e, hu, hd⟩
    rcases (snoc_eq_split h op h₁ _ h₂).1 e with ⟨_, _, rfl⟩ | ⟨h₂', rfl, rfl⟩
    · exact Or.inr ⟨ts, rfl, hu⟩
    · simp only [List.mem_append, List.mem_singleton, not_or] at hd
      exact Or.inl ⟨⟨h₁, ts, h₂', rfl, hu, hd.1⟩, fun e => hd.2 e.symm⟩
  · rintro (⟨⟨h₁, ts, h₂, rfl, hu, hd⟩, hne⟩ | ⟨ts, rfl, hu⟩)
    · refine ⟨h₁, ts, h₂ ++ [op], by simp, hu, ?_⟩
      simp only [List.mem_append, List.mem_singleton, not_or]
      exact ⟨hd, fun e => hne e.symm⟩
    · exact ⟨h, ts, [], rfl, hu, by simp⟩

theorem registered_snoc (n : Nat) (h : List Op) (op : Op) (e u : Nat) :
    Registered n (h ++ [op]) e u ↔
      (Registered n h e u ∧ op ≠ .unregister e u ∧ op ≠ .engineDown e ∧ op ≠ .engineUp e) ∨
      (e < n ∧ op = .register e u) := by
  constructor
  · rintro ⟨hn, h₁, h₂, eq, hd1, hd2, hd3⟩
    rcases (snoc_eq_split h op h₁ _ h₂).1 eq with ⟨_, _, rfl⟩ | ⟨h₂', rfl, rfl⟩
    · exact Or.inr ⟨hn, rfl⟩
    · simp only [List.mem_append, List.mem_singleton, not_or] at hd1 hd2 hd3
      exact Or.inl ⟨⟨hn, h₁, h₂', rfl, hd1.1, hd2.1, hd3.1⟩, fun e => hd1.2 e.symm, fun e => hd2.2 e.symm,
        fun e => hd3.2 e.symm⟩
  · rintro (⟨⟨hn, h₁, h₂, rfl, hd1, hd2, hd3⟩, hne1, hne2, hne3⟩ | ⟨hn, rfl⟩)
    · refine ⟨hn, h₁, h₂ ++ [op], by simp, ?_, ?_, ?_⟩ <;>
        simp only [List.mem_append, List.mem_singleton, not_or]
      · exact ⟨hd1, fun e => hne1 e.symm⟩
      · exact ⟨hd2, fun e => hne2 e.symm⟩
      · exact ⟨hd3, fun e => hne3 e.symm⟩
    · exact ⟨hn, h, [], rfl, by simp, by simp, by simp⟩

/-- The connection map of the code is exactly the set of live connections of the history — however often a user
    connected and disconnected before ("no matter how many times they connected before"). -/
theorem dms_iff_live (n : Nat) (h : List Op) (c u : Nat) : (c, u) ∈ (run n h).dms ↔ Live h c u := by
  induction h using snoc_induction generalizing c u with
  | nil =>
    constructor
    · intro hm; simp [run, init] at hm
    · rintro ⟨h₁, ts, h₂, e, _, _⟩; simp at e
  | snoc h op ih => rw [run_snoc, dms_step, live_snoc, ih]

/-- Clause 1 (all histories): a listed user is registered on that unit. -/
theorem listed_implies_registered (n : Nat) (h : List Op) (e u : Nat) (hl : Listed n h e u) :
    Registered n h e u := by
  unfold Listed at hl
  induction h using snoc_induction generalizing e u with
  | nil => simp [run, init] at hl
  | snoc h op ih =>
    rw [run_snoc, active_step] at hl
    rw [registered_snoc]
    cases op with
    | subscribe c ts => exact Or.inl ⟨ih e u hl, by simp, by simp, by simp⟩
    | disconnect c => exact Or.inl ⟨ih e u hl.1, by simp, by simp, by simp⟩
    | register e' u' =>
      rcases hl with hl | ⟨hk, rfl, rfl⟩
      · exact Or.inl ⟨ih e u hl, by simp, by simp, by simp⟩
      · exact Or.inr ⟨hk.1, rfl⟩
    | unregister e' u' =>
      simp only at hl
      have hr := ih e u hl.1
      refine Or.inl ⟨hr, ?_, by simp, by simp⟩
      intro heq
      simp only [Op.unregister.injEq] at heq
      exact hl.2 ⟨heq.1 ▸ active_up n h e u hl.1, heq.1.symm, heq.2.symm⟩
    | engineDown e' =>
      simp only at hl
      refine Or.inl ⟨ih e u hl.1, by simp, ?_, by simp⟩
      intro heq
      simp only [Op.engineDown.injEq] at heq
      exact hl.2 ⟨heq ▸ active_up n h e u hl.1, heq.symm⟩
    | engineUp e' =>
      simp only at hl
      refine Or.inl ⟨ih e u hl.1, by simp, by simp, ?_⟩
      intro heq
      simp only [Op.engineUp.injEq] at heq
      exact hl.2 ⟨heq ▸ (active_up n h e u hl.1).1, heq.symm⟩

/-- When a unit's engine goes away, or registers (again), the unit's list is empty: nobody stays listed across an
    engine outage, whatever happens to their connections meanwhile. -/
theorem engine_outage_empties_unit (n : Nat) (h : List Op) (e u : Nat) :
    ¬ Listed n (h ++ [.engineDown e]) e u ∧ ¬ Listed n (h ++ [.engineUp e]) e u := by
  constructor <;> intro hl
  · have := listed_implies_registered n _ e u hl
    rw [registered_snoc] at this
    rcases this with ⟨_, _, hne, _⟩ | ⟨_, heq⟩
    · exact hne rfl
    · cases heq
  · have := listed_implies_registered n _ e u hl
    rw [registered_snoc] at this
    rcases this with ⟨_, _, _, hne⟩ | ⟨_, heq⟩
    · exact hne rfl
    · cases heq

/-- Clause 3 (all histories): when the last live connection of a user closes, the user is removed from every
    unit — whatever happened before. -/
theorem last_disconnect_removes_everywhere (n : Nat) (h : List Op) (c u : Nat)
    (_hlive : Live h c u) (hlast : ∀ c', c' ≠ c → ¬ Live h c' u) :
    ∀ e, ¬ Listed n (h ++ [.disconnect c]) e u := by
  intro e hl
  unfold Listed at hl
  rw [run_snoc, active_step] at hl
  simp only at hl
  obtain ⟨c', hne, hc'⟩ := hl.2 ((dms_iff_live n h c u).2 _hlive)
  exact hlast c' hne ((dms_iff_live n h c' u).1 hc')

/-- …and afterwards the user has no live connection at all. -/
theorem last_disconnect_leaves_no_connection (h : List Op) (c u : Nat)
    (hlast : ∀ c', c' ≠ c → ¬ Live h c' u) : ∀ c', ¬ Live (h ++ [.disconnect c]) c' u := by
  intro c' hl
  rw [live_snoc] at hl
  rcases hl with ⟨hl, hne⟩ | ⟨ts, he, _⟩
  · by_cases hc : c' = c
    · subst hc; exact hne rfl
    · exact hlast c' hc hl
  · cases he

/-- Registrations in `h` are made by users who have a live connection at that moment. -/
def RegistersWhileConnected (h : List Op) : Prop :=
  ∀ h₁ e u h₂, h = h₁ ++ Op.register e u :: h₂ → ∃ c, Live h₁ c u

/-- The full statement of the property. -/
def C37_full : Prop :=
  (∀ n h e u, Listed n h e u → Registered n h e u ∧ ∃ c, Live h c u) ∧
  (∀ n h c u, Live h c u → (∀ c', c' ≠ c → ¬ Live h c' u) → ∀ e, ¬ Listed n (h ++ [.disconnect c]) e u)

/-- Clause 2, partial: for histories in which users register only while connected, a listed user has a live
    connection. -/
theorem listed_implies_live_partial (n : Nat) (h : List Op) (hreg : RegistersWhileConnected h) (e u : Nat)
    (hl : Listed n h e u) : ∃ c, Live h c u := by
  unfold Listed at hl
  induction h using snoc_induction generalizing e u with
  | nil => simp [run, init] at hl
  | snoc h op ih =>
    have hreg' : RegistersWhileConnected h := by
      intro h₁ e' u' h₂ heq
      exact hreg h₁ e' u' (h₂ ++ [op]) (by rw [heq]; simp)
    have ih := ih hreg'
    rw [run_snoc, active_step] at hl
    cases op with
    | subscribe c ts =>
      obtain ⟨c', hc'⟩ := ih e u hl
      exact ⟨c', (live_snoc _ _ _ _).2 (Or.inl ⟨hc', by simp⟩)⟩
    | register e' u' =>
      rcases hl with hl | ⟨_, rfl, rfl⟩
      · obtain ⟨c', hc'⟩ := ih e u hl
        exact ⟨c', (live_snoc _ _ _ _).2 (Or.inl ⟨hc', by simp⟩)⟩
      · obtain ⟨c', hc'⟩ := hreg h e u [] rfl
        exact ⟨c', (live_snoc _ _ _ _).2 (Or.inl ⟨hc', by simp⟩)⟩
    | unregister e' u' =>
      obtain ⟨c', hc'⟩ := ih e u hl.1
      exact ⟨c', (live_snoc _ _ _ _).2 (Or.inl ⟨hc', by simp⟩)⟩
    | engineDown e' =>
      obtain ⟨c', hc'⟩ := ih e u hl.1
      exact ⟨c', (live_snoc _ _ _ _).2 (Or.inl ⟨hc', by simp⟩)⟩
    | engineUp e' =>
      obtain ⟨c', hc'⟩ := ih e u hl.1
      exact ⟨c', (live_snoc _ _ _ _).2 (Or.inl ⟨hc', by simp⟩)⟩
    | disconnect c =>
      simp only at hl
      obtain ⟨c', hc'⟩ := ih e u hl.1
      by_cases hc : c' = c
      · subst hc
        obtain ⟨c'', hne, hc''⟩ := hl.2 ((dms_iff_live n h c' u).2 hc')
        refine ⟨c'', (live_snoc _ _ _ _).2 (Or.inl ⟨(dms_iff_live n h c'' u).1 hc'', ?_⟩)⟩
        intro heq; cases heq; exact hne rfl
      · refine ⟨c', (live_snoc _ _ _ _).2 (Or.inl ⟨hc', ?_⟩)⟩
        intro heq; cases heq; exact hc rfl

/-- The property under the hypothesis that users register only while connected (all three clauses). -/
theorem C37_partial (n : Nat) (h : List Op) (hreg : RegistersWhileConnected h) :
    (∀ e u, Listed n h e u → Registered n h e u ∧ ∃ c, Live h c u) ∧
    (∀ c u, Live h c u → (∀ c', c' ≠ c → ¬ Live h c' u) → ∀ e, ¬ Listed n (h ++ [.disconnect c]) e u) :=
  ⟨fun e u hl => ⟨listed_implies_registered n h e u hl, listed_implies_live_partial n h hreg e u hl⟩,
   fun c u => last_disconnect_removes_everywhere n h c u⟩

/-- The full statement fails: a user who registers without any connection is listed. -/
theorem C37_counterexample : ¬ C37_full := by
  intro hfull
  have hl : Listed 1 [.register 0 0] 0 0 := by unfold Listed; decide
  obtain ⟨_, c, h₁, ts, h₂, e, _, _⟩ := hfull.1 1 [.register 0 0] 0 0 hl
  cases h₁ with
  | nil => simp at e
  | cons x h₁ =>
    simp only [List.cons_append, List.cons.injEq] at e
    have := e.2
    simp at this

/-! No over-removal (guards against a model that lists nobody). -/

theorem register_lists (n : Nat) (h : List Op) (e u : Nat) (he : e < n) (hup : e ∉ (run n h).down) :
    Listed n (h ++ [.register e u]) e u := by
  unfold Listed
  rw [run_snoc, active_step]
  exact Or.inr ⟨⟨he, hup⟩, rfl, rfl⟩

theorem disconnect_with_other_connection_keeps (n : Nat) (h : List Op) (c c' e u : Nat)
    (hl : Listed n h e u) (hne : c' ≠ c) (hlive : Live h c' u) : Listed n (h ++ [.disconnect c]) e u := by
  unfold Listed at *
  rw [run_snoc, active_step]
  exact ⟨hl, fun _ => ⟨c', hne, (dms_iff_live n h c' u).2 hlive⟩⟩

/-! Non-vacuity. `s c u` = connection c subscribes to user u's dead-man switch. -/
section examples
private abbrev s (c u : Nat) : Op := .subscribe c [.other, .dms u]

example : RegistersWhileConnected [s 0 0, .register 0 0] := by
  intro h₁ e u h₂ heq
  cases h₁ with
  | nil => simp [s] at heq
  | cons x h₁ =>
    cases h₁ with
    | nil =>
      simp only [List.cons_append, List.nil_append, List.cons.injEq, Op.register.injEq] at heq
      obtain ⟨rfl, ⟨_, rfl⟩, _⟩ := heq
      exact ⟨0, [], [.other, .dms 0], [], rfl, by simp [subscribedUsers], by simp⟩
    | cons y h₁ =>
      simp only [List.cons_append, List.cons.injEq] at heq
      have := heq.2.2
      simp at this
example : Live [s 0 0, .register 0 0] 0 0 := ⟨[], [.other, .dms 0], [.register 0 0], rfl, by simp [subscribedUsers], by simp⟩
example : Listed 2 [s 0 0, .register 0 0, .register 1 0] 1 0 := by unfold Listed; decide
example : Registered 2 [s 0 0, .register 0 0, .register 1 0] 1 0 :=
  ⟨by decide, [s 0 0, .register 0 0], [], rfl, by simp⟩
/-- connect, register, disconnect, connect again, register, disconnect: not listed any more. -/
example : (run 1 [s 0 0, .register 0 0, .disconnect 0, s 1 0, .register 0 0, .disconnect 1]).active = [] := by decide
/-- two connections: the first disconnect keeps the user, the second removes them from both units. -/
example : (run 2 [s 0 0, s 1 0, .register 0 0, .register 1 0, .disconnect 0]).active = [(1, 0), (0, 0)] := by decide
example : (run 2 [s 0 0, s 1 0, .register 0 0, .register 1 0, .disconnect 0, .disconnect 1]).active = [] := by decide
/-- engine outage: the unit's list is gone with the engine; a user whose last connection closes during the outage is
    not listed when the engine is back; a registration while the engine is away is refused. -/
example : (run 1 [s 0 0, .register 0 0, .engineDown 0, .disconnect 0, .engineUp 0]).active = [] := by decide
example : (step 1 (run 1 [s 0 0, .engineDown 0]) (.register 0 0)).2 = .false := by decide
example : (run 2 [s 0 0, .register 0 0, .register 1 0, .engineDown 0, .engineUp 0]).active = [(1, 0)] := by decide
end examples

/-- Regression witness: the code before the repair keeps the user listed after the second round (the connection
    map was never pruned), and raises `KeyError` for a connection that never subscribed. -/
theorem old_code_keeps_stale_user :
    (runOld 1 [.subscribe 0 [.dms 0], .register 0 0, .disconnect 0, .subscribe 1 [.dms 0], .register 0 0,
               .disconnect 1]).active = [(0, 0)] ∧
    (stepOld 1 init (.disconnect 7)).2 = .keyError := by
  decide

end OPM.C37
