import OPM.Model.Interp
import OPM.Model.MacroCheck
import OPM.Lemmas.MacroCheck
import OPM.Lemmas.InterpC41
import OPM.Lemmas.InterpC02
import OPM.Model.InterpRun
import OPM.Model.Merge
set_option linter.unusedSimpArgs false
/-!
# C41 Macros run their latest definition once per call and never recurse

"Calling a macro runs the most recently defined body of that name once per call, with its lines in
order. A call that would make a macro call itself, directly or indirectly, fails instead of recursing.
A macro that has already started may not be edited or removed."

Models: `OPM.Model.Interp` (the interpreter: `visit_MacroNode`, `visit_CallMacroNode`, the children
loop) and `OPM.Model.MacroCheck` (the recursion check `MacroNode.macro_calling_macro`).

* **latest definition**: `definition_registers_latest`, `call_runs_latest_definition`,
  `call_of_undefined_macro_fails` — for every method and state;
* **once per call, lines in order**: a call that is not refused pushes exactly the children loop of
  the macro node at position 0 over its own return frame (`call_runs_latest_definition`); a fresh
  invocation resets the body and counts (`fresh_invocation_resets_body`), the return counts and
  completes (`call_return_counts`); inside, the loop visits the lines one at a time in index order
  (`macro_body_stack_discipline`, and the loop theorems of C02);
* **never recurse**: `recursion_check_exact` — the repaired check refuses a call of macro node `m`
  under `name` **iff** running `m` can reach, through any chain of macro calls (also calls nested in
  Watch / Alarm / Block bodies), a `Call macro: name`; it always terminates (`recursion_check_total`).
  The function as it stands in the unchanged repository misses exactly such calls:
  `asIs_misses_call_after_other_call`, `asIs_misses_call_inside_watch`, and does not terminate on a
  cycle that does not contain `name` (`asIs_diverges_on_foreign_cycle`: Python's RecursionError).
* the third sentence (edits of started macros) is about `MethodManager._validate_liveedit_method`;
  it is checked on the real engine by the oracle of props/C41.py, not proved here.
-/
namespace OPM.C41
open OPM.Interp OPM.MacroCheck OPM.InterpC41 OPM.InterpC02 OPM.InterpRun

/-! ## the latest definition wins -/

/-- **Visiting `Macro: name` registers that node under `name`**, replacing an earlier definition of
    the same name and leaving every other name alone. -/
theorem definition_registers_latest (p : Prog) (s : St) (n : Nat) (name : String) (below : List Frame)
    (hk : (node p n).kind = .macro name) (hreg : (s.rt n).isRegistered = false) :
    ∃ s', stepBody p s n 0 below = .next s' [.body n 1] .endTick ∧
      s'.macros.lookup name = some n ∧
      ∀ other, other ≠ name → s'.macros.lookup other = s.macros.lookup other := by
  unfold stepBody
  simp only [hk, getRt_eq, hreg, Bool.false_eq_true, if_false]
  refine ⟨_, rfl, ?_, ?_⟩
  · rw [(keep_finishNode _ _).macros, (keep_setRt _ _ _).macros]
    exact lookup_dictSet_self _ _ _
  · intro other ho
    rw [(keep_finishNode _ _).macros, (keep_setRt _ _ _).macros]
    exact lookup_dictSet_other _ _ _ _ ho

/-- A definition that is already registered is not registered again (the table is unchanged). -/
theorem registered_definition_is_kept (p : Prog) (s : St) (n : Nat) (name : String) (below : List Frame)
    (hk : (node p n).kind = .macro name) (hreg : (s.rt n).isRegistered = true) :
    (outState (stepBody p s n 0 below)).macros = s.macros := by
  unfold stepBody
  simp only [hk, getRt_eq, hreg, if_true, outState]
  exact (keep_finishNode _ _).macros

/-- **A call runs the body registered last under its name, from its first line**: either the call is
    refused (it raises: the instruction fails), or it starts a children loop at position 0 of exactly
    the node the table holds for `name`, over its own return frame, after `prepare invoke`. -/
theorem call_runs_latest_definition (p : Prog) (s : St) (n : Nat) (name : String) (m : Nat) (below : List Frame)
    (hk : (node p n).kind = .call name) (hl : s.macros.lookup name = some m) :
    (∃ s', stepBody p s n 0 below = .raise s') ∨
    stepBody p s n 0 below =
      .next (emit (callPrepare p s m) (.bodyStart n)) [.children m 0 false, .callRet n m] .cont := by
  unfold stepBody
  simp only [hk, hl]
  repeat' split
  all_goals (first | exact Or.inl ⟨_, rfl⟩ | exact Or.inr rfl)

/-- A call of a name nobody defined (yet) fails. -/
theorem call_of_undefined_macro_fails (p : Prog) (s : St) (n : Nat) (name : String) (below : List Frame)
    (hk : (node p n).kind = .call name) (hl : s.macros.lookup name = none) :
    stepBody p s n 0 below = .raise (markFailed s n) := by
  unfold stepBody
  simp only [hk, hl]

/-! ## once per call -/

/-- **A fresh invocation starts from a clean body**: when no invocation is in progress
    (`run_started_count ≤ run_completed_count`) the macro node and all its descendants are reset —
    not started, not completed, `child_index` 0 — and `run_started_count` grows by exactly one. -/
theorem fresh_invocation_resets_body (p : Prog) (s : St) (m : Nat)
    (h : (s.rt m).runStarted ≤ (s.rt m).runCompleted) :
    ((callPrepare p s m).rt m).runStarted = (s.rt m).runStarted + 1 ∧
    ((callPrepare p s m).rt m).runCompleted = (s.rt m).runCompleted ∧
    ∀ k, k = m ∨ k ∈ descendants p m →
      ((callPrepare p s m).rt k).started = false ∧ ((callPrepare p s m).rt k).completed = false ∧
      ((callPrepare p s m).rt k).childIndex = 0 ∧ ((callPrepare p s m).rt k).childrenComplete = false := by
  unfold callPrepare
  simp only [getRt_eq, h, if_true]
  refine ⟨?_, ?_, ?_⟩
  · simp [rt_resetSubtree_eq, resetOne]
  · simp [rt_resetSubtree_eq, resetOne]
  · intro k hk
    have hm : k ∈ m :: descendants p m := by
      rcases hk with e | e
      · rw [e]; simp
      · exact List.mem_cons_of_mem _ e
    simp only [rt_setRt, rt_resetSubtree_eq]
    split
    · rename_i e; subst e; simp [resetOne]
    · simp [hm, resetOne]

/-- An invocation in progress is continued, not restarted (nothing is reset, nothing counted). -/
theorem running_invocation_is_continued (p : Prog) (s : St) (m : Nat)
    (h : ¬ (s.rt m).runStarted ≤ (s.rt m).runCompleted) : callPrepare p s m = s := by
  unfold callPrepare
  simp only [getRt_eq, h, if_false]

/-- **The return of the macro body counts the invocation and completes the call** (and ends the tick). -/
theorem call_return_counts (p : Prog) (s : St) (n m : Nat) (below : List Frame) (hnm : n ≠ m) :
    stepFrame p s (.callRet n m) below = .next (callFinish s n m) [.body n 2] .endTick ∧
    ((callFinish s n m).rt m).runCompleted = (s.rt m).runCompleted + 1 ∧
    ((callFinish s n m).rt m).runStarted = (s.rt m).runStarted ∧
    ((callFinish s n m).rt n).completed = true ∧ ((callFinish s n m).rt m).completed = true := by
  refine ⟨rfl, ?_, ?_, ?_, ?_⟩
  all_goals (unfold callFinish; simp [hnm, Ne.symm hnm])

/-- **Lines in order inside the invocation**: every micro-step keeps the stack discipline, so above the
    call's return frame `callRet n m` sits the children loop of the macro node `m`, and above
    `children m inx true` only the frames of body line number `inx` (see C02 for the loop's steps). -/
theorem macro_body_stack_discipline (p : Prog) (s : St) (stack : List Frame) (h : chainOK p stack) :
    chainOK p (stepGen p s stack).2.1 := chain_stepGen p s stack h

/-! ## never recurse: the repaired check is exact -/

/-- The repaired check always answers (the search visits every macro node at most once). -/
theorem recursion_check_total (p : Prog) (macros : List (String × Nat)) (name : String) (m : Nat) :
    ∃ path v, cascadeAux p macros name (cascadeFuel macros) m [] = some (path, v) := by
  have h := cascadeAux_total p macros name (cascadeFuel macros) m []
    (by have := unv_le_length macros [m]; unfold cascadeFuel; omega)
  cases hc : cascadeAux p macros name (cascadeFuel macros) m [] with
  | none => exact absurd hc h
  | some r => exact ⟨r.1, r.2, rfl⟩

/-- **The check refuses a call exactly when the macro would call itself.**  For every method, macro
    table, name and macro node `m`: `cascade and name in cascade` holds iff running the body of `m`
    reaches — directly or through any chain of registered macros, also through calls nested in Watch /
    Alarm / Block bodies — a `Call macro: name`. -/
theorem recursion_check_exact (p : Prog) (macros : List (String × Nat)) (name : String) (m : Nat) :
    ∃ b, refuses p macros name m = some b ∧ (b = true ↔ CallsName p macros name m) := by
  obtain ⟨path, v, hc⟩ := recursion_check_total p macros name m
  refine ⟨path.contains name, ?_, ?_⟩
  · unfold refuses cascade; rw [hc]; rfl
  · by_cases hp : path = []
    · subst hp
      have he := cascadeAux_empty p macros name _ m [] v hc
      have hgood : ∀ x ∈ v, Good p macros name x v := fun x hx => he.2.2 x hx (by simp)
      constructor
      · intro h; simp at h
      · rintro ⟨m', hr, hn⟩
        exact absurd hn (hgood m' (closed_reach p macros name v hgood m m' hr he.1)).1
    · have hs := cascadeAux_sound p macros name _ m [] path v hc hp
      constructor
      · intro _; exact hs.2
      · intro _; simpa using hs.1

/-- The chain the check reports is a genuine chain: it ends in `name`. -/
theorem reported_chain_contains_name (p : Prog) (macros : List (String × Nat)) (name : String) (m : Nat)
    (path : List String) (h : cascade p macros name m = some path) (hne : path ≠ []) : name ∈ path := by
  unfold cascade at h
  cases hc : cascadeAux p macros name (cascadeFuel macros) m [] with
  | none => rw [hc] at h; cases h
  | some r =>
    rw [hc] at h
    simp only [Option.map_some, Option.some.injEq] at h
    obtain ⟨path', v⟩ := r
    simp only at h
    subst h
    exact (cascadeAux_sound p macros name _ m [] path' v hc hne).1

/-! ## the bridge: the check decides whether the Call macro instruction fails -/

/-- **A call that would make the macro call itself fails, and nothing of the macro runs.**  If the body
    registered under `name` can reach a `Call macro: name` (directly, through other macros, through calls
    nested in Watch / Alarm / Block bodies) then the step of the call instruction raises: the call node is
    marked failed, no frame is pushed (no line of the body is visited), no `bodyStart` is emitted, the
    macro node's counters and every other node are untouched. -/
theorem recursive_call_fails (p : Prog) (s : St) (n : Nat) (name : String) (m : Nat) (below : List Frame)
    (hk : (node p n).kind = .call name) (hl : s.macros.lookup name = some m)
    (hc : CallsName p s.macros name m) :
    stepBody p s n 0 below = .raise (markFailed s n) ∧
    ((markFailed s n).rt n).failed = true ∧
    coreEvs (markFailed s n) = coreEvs s ∧
    ∀ k, k ≠ n → (markFailed s n).rt k = s.rt k := by
  obtain ⟨b, hb, hiff⟩ := recursion_check_exact p s.macros name m
  have hbt : b = true := hiff.mpr hc
  subst hbt
  unfold refuses at hb
  cases hcas : cascade p s.macros name m with
  | none => rw [hcas] at hb; cases hb
  | some l =>
    rw [hcas] at hb
    simp only [Option.map_some, Option.some.injEq] at hb
    refine ⟨?_, by simp, core_markFailed s n, fun k hk' => by simp [hk']⟩
    unfold stepBody
    simp only [hk, hl, hcas, hb, if_true]

/-- …and a call that would not make the macro call itself is never refused: it starts the registered
    body at its first line. -/
theorem nonrecursive_call_starts_body (p : Prog) (s : St) (n : Nat) (name : String) (m : Nat) (below : List Frame)
    (hk : (node p n).kind = .call name) (hl : s.macros.lookup name = some m)
    (hc : ¬ CallsName p s.macros name m) :
    stepBody p s n 0 below =
      .next (emit (callPrepare p s m) (.bodyStart n)) [.children m 0 false, .callRet n m] .cont := by
  obtain ⟨b, hb, hiff⟩ := recursion_check_exact p s.macros name m
  have hbf : b = false := by
    cases b with
    | false => rfl
    | true => exact absurd (hiff.mp rfl) hc
  subst hbf
  unfold refuses at hb
  cases hcas : cascade p s.macros name m with
  | none => rw [hcas] at hb; cases hb
  | some l =>
    rw [hcas] at hb
    simp only [Option.map_some, Option.some.injEq] at hb
    unfold stepBody
    simp only [hk, hl, hcas, hb, Bool.false_eq_true, if_false]

/-! ## "once per call": full statement, where it fails, what holds -/

/-- number of times a `Call macro: name` instruction began to run the body -/
def callStarts (p : Prog) (name : String) (tr : List Event) : Nat :=
  (tr.filter (fun e => match e with
    | .bodyStart n => (match (node p n).kind with | .call nm => nm == name | _ => false)
    | _ => false)).length

def macroNamed (p : Prog) (k : Nat) (name : String) : Bool :=
  match (node p k).kind with
  | .macro nm => nm == name
  | _ => false

/-- **Full statement of "once per call"**: for a macro with a single definition, the number of invocations
    of its body (`run_started_count`) equals the number of calls that ran. -/
def C41_once_full : Prop :=
  ∀ (p : Prog) (reqs : List Req) (m : Nat) (name : String),
    macroNamed p m name = true → (∀ m', macroNamed p m' name = true → m' = m) →
    ((final p reqs).rt m).runStarted = callStarts p name (trace p reqs)

/-- `Macro: A` [`Mark: a1`, `Wait: 6s`, `Mark: a2`] / `Watch: T0 > 0` [`Call macro: A`, `Mark: w`] /
    `Call macro: A` / `Mark: e` -/
def overlap : Prog := #[
  { kind := .program, parent := none, children := [1, 5, 8, 9], threshold := none, keyPath := [0] },
  { kind := .macro "A", parent := some 0, children := [2, 3, 4], threshold := none, keyPath := [0, 1] },
  { kind := .mark "a1", parent := some 1, children := [], threshold := none, keyPath := [0, 1, 2] },
  { kind := .wait 6, parent := some 1, children := [], threshold := none, keyPath := [0, 1, 3] },
  { kind := .mark "a2", parent := some 1, children := [], threshold := none, keyPath := [0, 1, 4] },
  { kind := .watch ⟨0, .gt, 0⟩, parent := some 0, children := [6, 7], threshold := none, keyPath := [0, 5] },
  { kind := .call "A", parent := some 5, children := [], threshold := none, keyPath := [0, 5, 6] },
  { kind := .mark "w", parent := some 5, children := [], threshold := none, keyPath := [0, 5, 7] },
  { kind := .call "A", parent := some 0, children := [], threshold := none, keyPath := [0, 8] },
  { kind := .mark "e", parent := some 0, children := [], threshold := none, keyPath := [0, 9] }]

def overlapSched : List Req := (List.range 19).map (fun k => .tick ⟨(k : Nat), (k : Nat), (k : Nat), [1]⟩)

/-- **The full statement is false**: a Watch body calls macro A while a call of A from the main flow is
    inside A's Wait — both calls run (`bodyStart` twice) and complete, but the body is invoked once
    (`run_started_count` 1, `run_completed_count` 2) and its Marks are set once: the second call joins the
    running invocation (`running_invocation_is_continued`).  Observed on the real engine, recorded as
    finding `macro-body-shared-by-overlapping-calls`. -/
theorem C41_once_counterexample : ¬ C41_once_full := by
  intro h
  have h1 := h overlap overlapSched 1 "A" rfl (by
    intro m' hm'
    rcases Nat.lt_or_ge m' 10 with h | h
    · have : ∀ k, k < 10 → macroNamed overlap k "A" = true → k = 1 := by decide
      exact this m' h hm'
    · have : node overlap m' = default := by
        unfold node; simp [Array.getD, overlap]; omega
      unfold macroNamed at hm'
      rw [this] at hm'; cases hm')
  have h2 : ((final overlap overlapSched).rt 1).runStarted = 1 ∧ callStarts overlap "A" (trace overlap overlapSched) = 2 ∧
      (final overlap overlapSched).marks = ["a1", "a2", "e", "w"] := by decide +kernel
  rw [h2.1, h2.2.1] at h1
  cases h1

/-- **What holds (partial)**: a call that is not refused and arrives while no invocation of the macro is
    in progress starts a fresh invocation — `run_started_count` grows by exactly one, the macro node and
    all its lines are reset (not started, not completed, `child_index` 0) — and runs the body from line 0. -/
theorem C41_once_partial (p : Prog) (s : St) (n : Nat) (name : String) (m : Nat) (below : List Frame)
    (hk : (node p n).kind = .call name) (hl : s.macros.lookup name = some m)
    (hc : ¬ CallsName p s.macros name m) (hidle : (s.rt m).runStarted ≤ (s.rt m).runCompleted) :
    ∃ s', stepBody p s n 0 below = .next s' [.children m 0 false, .callRet n m] .cont ∧
      (s'.rt m).runStarted = (s.rt m).runStarted + 1 ∧
      ∀ k, k = m ∨ k ∈ descendants p m →
        (s'.rt k).started = false ∧ (s'.rt k).completed = false ∧ (s'.rt k).childIndex = 0 := by
  refine ⟨_, nonrecursive_call_starts_body p s n name m below hk hl hc, ?_, ?_⟩
  · simp only [rt_emit]; exact (fresh_invocation_resets_body p s m hidle).1
  · intro k hk'
    simp only [rt_emit]
    have := (fresh_invocation_resets_body p s m hidle).2.2 k hk'
    exact ⟨this.1, this.2.1, this.2.2.1⟩

/-! ## a started macro may not be edited or removed (on the merge model) -/

open OPM.Merge in
/-- **An edit that removes a started macro, turns its line into another instruction, or changes any line of
    it is rejected and changes nothing** — on the model of `Engine.set_method` / `_validate_liveedit_method`
    (`OPM.Model.Merge`, tied to the code by the edit correspondence of C01), while the method manager still
    looks at the running program (`mmShared`; after an accepted edit it does not: recorded finding). -/
theorem started_macro_edit_is_rejected (mm : MM) (new : Method) (name : String) (mnode : Nat)
    (hshared : mm.mmShared = true) (hrun : (getRt mm.st 0).started = true)
    (hreg : (name, mnode) ∈ mm.st.macros) (hstarted : 0 < (getRt mm.st mnode).runStarted)
    (hchanged : match indexOfId new (idOf mm.m mnode) with
      | none => True                                                   -- the macro line is gone
      | some k => isMacro new.prog k = false ∨ matchesSrc mm.m new mnode k = false) :
    edit mm new = (mm, .rejected) := by
  have hv : validate mm new = false := by
    cases hv : validate mm new with
    | false => rfl
    | true =>
      exfalso
      unfold validate at hv
      simp only [hshared, if_true, Bool.and_eq_true] at hv
      have := List.all_eq_true.mp hv.2 (name, mnode) hreg
      simp only [gt_iff_lt, hstarted, if_true] at this
      cases hi : indexOfId new (idOf mm.m mnode) with
      | none => rw [hi] at this; simp at this
      | some k =>
        rw [hi] at this hchanged
        simp only [Bool.and_eq_true] at this hchanged
        rcases hchanged with h | h
        · rw [h] at this; exact absurd this.1 (by simp)
        · rw [h] at this; exact absurd this.2 (by simp)
  unfold edit
  simp only [hshared, hrun, Bool.and_self, if_true, hv, Bool.false_eq_true, if_false]

open OPM.Merge in
/-- `matches_source` compares every field of every significant line: it holds only if the signatures
    (class, arguments, threshold) of the two lines agree, they have the same number of significant
    lines below them, and those match pairwise in order. -/
theorem matchesSrc_compares_every_line (a b : Method) (x y : Nat) (h : matchesSrc a b x y = true) :
    a.sigs.getD x "" = b.sigs.getD y "" ∧
    ((node a.prog x).children.filter (fun c => !isBlank a.prog c)).length =
      ((node b.prog y).children.filter (fun c => !isBlank b.prog c)).length := by
  unfold matchesSrc matchesAux at h
  simp only [Bool.and_eq_true, beq_iff_eq] at h
  exact ⟨h.1, h.2.1⟩

/-! ## what the function of the unchanged repository misses -/

/-- `Macro: B` [`Mark: b`] / `Macro: A` [`Mark: a`, `Call macro: B`, `Call macro: A`] / `Call macro: A` -/
def d1 : Prog := #[
  { kind := .program, parent := none, children := [1, 3, 7], threshold := none },
  { kind := .macro "B", parent := some 0, children := [2], threshold := none },
  { kind := .mark "b", parent := some 1, children := [], threshold := none },
  { kind := .macro "A", parent := some 0, children := [4, 5, 6], threshold := none },
  { kind := .mark "a", parent := some 3, children := [], threshold := none },
  { kind := .call "B", parent := some 3, children := [], threshold := none },
  { kind := .call "A", parent := some 3, children := [], threshold := none },
  { kind := .call "A", parent := some 0, children := [], threshold := none }]

/-- The as-is function follows only the first call (`B`), answers `["B"]` and lets `A` call itself;
    the repaired one reports `["A"]`. -/
theorem asIs_misses_call_after_other_call :
    asIs d1 [("B", 1), ("A", 3)] "A" recursionLimit 3 = some ["B"] ∧
    cascade d1 [("B", 1), ("A", 3)] "A" 3 = some ["A"] ∧
    refuses d1 [("B", 1), ("A", 3)] "A" 3 = some true := by decide +kernel

/-- `Macro: A` [`Mark: a`, `Watch: T0 >= 0` [`Mark: w`, `Call macro: A`]] / `Call macro: A` -/
def d2 : Prog := #[
  { kind := .program, parent := none, children := [1, 6], threshold := none },
  { kind := .macro "A", parent := some 0, children := [2, 3], threshold := none },
  { kind := .mark "a", parent := some 1, children := [], threshold := none },
  { kind := .watch ⟨0, .ge, 0⟩, parent := some 1, children := [4, 5], threshold := none },
  { kind := .mark "w", parent := some 3, children := [], threshold := none },
  { kind := .call "A", parent := some 3, children := [], threshold := none },
  { kind := .call "A", parent := some 0, children := [], threshold := none }]

/-- The as-is function looks at direct children only: the self-call inside the Watch is not seen. -/
theorem asIs_misses_call_inside_watch :
    asIs d2 [("A", 1)] "A" recursionLimit 1 = some [] ∧
    cascade d2 [("A", 1)] "A" 1 = some ["A"] ∧
    refuses d2 [("A", 1)] "A" 1 = some true := by decide +kernel

/-- `Macro: B` [`Call macro: C`] / `Macro: C` [`Call macro: B`] / `Macro: A` [`Call macro: B`] / `Call macro: A` -/
def d3 : Prog := #[
  { kind := .program, parent := none, children := [1, 3, 5, 7], threshold := none },
  { kind := .macro "B", parent := some 0, children := [2], threshold := none },
  { kind := .call "C", parent := some 1, children := [], threshold := none },
  { kind := .macro "C", parent := some 0, children := [4], threshold := none },
  { kind := .call "B", parent := some 3, children := [], threshold := none },
  { kind := .macro "A", parent := some 0, children := [6], threshold := none },
  { kind := .call "B", parent := some 5, children := [], threshold := none },
  { kind := .call "A", parent := some 0, children := [], threshold := none }]

/-- No visited set: on a cycle that does not contain the name the as-is function recurses until
    Python's recursion limit (`none`); the repaired one answers: `A` does not call itself, `B` does. -/
theorem asIs_diverges_on_foreign_cycle :
    asIs d3 [("B", 1), ("C", 3), ("A", 5)] "A" recursionLimit 5 = none ∧
    refuses d3 [("B", 1), ("C", 3), ("A", 5)] "A" 5 = some false ∧
    refuses d3 [("B", 1), ("C", 3), ("A", 5)] "B" 1 = some true := by decide +kernel

/-! ## non-vacuity -/

/-- `CallsName` is inhabited non-trivially (a two-step chain through a Watch-free call graph)… -/
example : CallsName d3 [("B", 1), ("C", 3), ("A", 5)] "B" 5 :=
  ⟨3, Reach.step 5 1 3 ⟨"B", by decide +kernel, rfl⟩ (Reach.step 1 3 3 ⟨"C", by decide +kernel, rfl⟩ (Reach.refl 3)),
    by decide +kernel⟩

/-- …and so are the hypotheses of the step theorems: in `d1` the definition of `A` registers node 3, a
    later call finds it and (with the as-is check of the interpreter model) starts its body at line 0. -/
example : ∃ s', stepBody d1 (init d1) 3 0 [] = .next s' [.body 3 1] .endTick ∧ s'.macros.lookup "A" = some 3 :=
  (definition_registers_latest d1 (init d1) 3 "A" [] rfl rfl).imp (fun _ h => ⟨h.1, h.2.1⟩)

end OPM.C41
