import OPM.Model.Reconnect
import OPM.Lemmas.Reconnect
/-!
# C28 A run survives engine reconnects and aggregator restarts

"When an engine disconnects and re-registers during an active run, or the aggregator restarts, the aggregator
continues the same run under the same run id. Tag data for that run arriving after the reconnect is recorded in that
run's plot log, and the run is stored once when it stops."

All statements are about `OPM.Reconnect.step` / `run` (the aggregator's handlers, its engine map and its database
rows), for every repository variant `c : Cfg` and for *all* histories — lists of `register`, `disconnect`,
`restart` (graceful: shutdown stores the recent engines, memory is dropped, database kept), `crash` (the process dies
without any shutdown hook, memory is dropped, database kept), `start r`, `stop r`,
`tags` (one value of the reading X and optionally a value of the System State tag, which may lag or lead the run
messages in any way).  `assoc s` is the run the aggregator associates with the engine: the run of its engine data while it is
registered, else the run id in its RecentEngines row.  `quiet c r` = every operation except a RunStoppedMsg and a
RunStartedMsg of another run, i.e. everything that can happen "at every point of run r" without ending it — a crash
counts among them only for the code that writes the RecentEngines row with the run messages
(`c.persistRunEvents`, fixes/C28-persist-active-run.diff).  The statement *with* crashes is `C28_full`; it holds of
that code (`C28_full_holds`), is false of the code that writes the row on disconnect and shutdown only
(`C28_counterexample`), and without crashes holds of both (`C28_partial` = the theorems of sections 1–3).
-/
namespace OPM.C28
open OPM.Reconnect

/-! ## 1. The same run under the same run id -/

/-- While run `r` is active, no sequence of registrations, disconnects, aggregator restarts, tag messages and repeated
RunStartedMsg of `r` changes the run associated with the engine. -/
theorem run_id_survives (c : Cfg) (r : Nat) : ∀ (h : List Op) (s : State), Sync c s → assoc s = some r →
    (∀ op ∈ h, quiet c r op = true) → assoc (run c s h) = some r := by
  intro h
  induction h with
  | nil => intro s _ ha _; exact ha
  | cons op h ih =>
    intro s hs ha hq
    simp only [run, List.foldl_cons]
    exact ih _ (sync_step c s op hs) (assoc_step_quiet c s op r hs ha (hq op (by simp)))
      (fun o ho => hq o (by simp [ho]))

/-- `Sync` (the row names the current run, where the code keeps it up to date) holds in every reachable state. -/
theorem sync_run (c : Cfg) : ∀ (h : List Op) (s : State), Sync c s → Sync c (run c s h) := by
  intro h
  induction h with
  | nil => intro s hs; exact hs
  | cons op h ih => intro s hs; exact ih _ (sync_step c s op hs)

theorem sync_init (c : Cfg) : Sync c init := by
  intro _ m hm; simp [init] at hm

/-- Whenever the engine is registered during such a history, its engine data is in run `r`. -/
theorem same_run_whenever_registered (c : Cfg) (r : Nat) (h : List Op) (s : State) (hs : Sync c s)
    (ha : assoc s = some r) (hq : ∀ op ∈ h, quiet c r op = true) (m : Mem) (hm : (run c s h).mem = some m) :
    m.run = some r := by
  have := run_id_survives c r h s hs ha hq
  simpa [assoc, hm] using this

/-- …and whenever it is not, its next registration resumes run `r`. -/
theorem reregistration_resumes_run (c : Cfg) (r : Nat) (h : List Op) (s : State) (hs : Sync c s)
    (ha : assoc s = some r) (hq : ∀ op ∈ h, quiet c r op = true) :
    ∃ m, (run c s (h ++ [.register])).mem = some m ∧ m.run = some r := by
  have hq' : ∀ op ∈ h ++ [Op.register], quiet c r op = true := by
    intro op ho
    simp only [List.mem_append, List.mem_singleton] at ho
    rcases ho with ho | ho
    · exact hq op ho
    · subst ho; rfl
  have ha' := run_id_survives c r _ s hs ha hq'
  have hreg : (run c s (h ++ [.register])).mem ≠ none := by
    simp only [run, List.foldl_append, List.foldl_cons, List.foldl_nil]
    generalize List.foldl (fun s op => (step c s op).1) s h = s₁
    cases hm : s₁.mem <;> simp [step, hm]
  cases hm : (run c s (h ++ [.register])).mem with
  | none => exact absurd hm hreg
  | some m => exact ⟨m, rfl, by simpa [assoc, hm] using ha'⟩

/-- A started run is the associated run: after `start r` on a registered engine, `assoc = some r`. -/
theorem start_associates (c : Cfg) (s : State) (r : Nat) (m : Mem) (hm : s.mem = some m) :
    assoc (step c s (.start r)).1 = some r := by
  obtain ⟨m', h1, h2⟩ := startRun_mem c s m r hm
  simp [step, hm, assoc, h1, h2]

example : (run {} init [.register, .start 1, .disconnect, .register]).mem = some { run := some 1 } := by decide
example : (run {} init [.register, .start 1, .tags (some 1) 4 (some 0), .restart, .register]).mem = some { run := some 1 } := by
  decide
example : assoc (run {} init [.register, .start 1, .restart, .disconnect]) = some 1 := by decide

/-- **The state the engine last reported does not matter.**  Whatever System State value (or none) the engine data
holds — "Stopped" right after RunStartedMsg because the tag update with "Running" has not arrived yet, or "Stopped"
again at the end while the RunStoppedMsg is still on its way — a disconnect or an aggregator restart during run `r`
writes `r` into the RecentEngines row, and the next registration resumes `r`. -/
theorem run_kept_whatever_state_was_reported (c : Cfg) (s : State) (m : Mem) (r : Nat) (op : Op)
    (hm : s.mem = some m) (hr : m.run = some r) (hop : op = .disconnect ∨ op = .restart) :
    (step c s op).1.recentEngine = some (some r) ∧
    (step c (step c s op).1 .register).1.mem = some { run := some r } := by
  rcases hop with h | h <;> subst h <;> simp [step, hm, hr, storeRecentEngine, restored]

-- the two windows: state still "Stopped" (0) when the run has just started; state "Stopped" again before RunStoppedMsg
example : (run {} init [.register, .tags none 1 (some 0), .start 1, .disconnect, .register]).mem =
    some { run := some 1 } := by decide
example : (run {} init [.register, .start 1, .tags (some 1) 2 (some 1), .tags (some 1) 3 (some 0), .restart, .register,
    .stop 1]).recentRuns = [1] := by decide

/-! ## 2. Tag data after the reconnect goes to that run's plot log -/

/-- Every state reachable from the empty aggregator by any history keeps the invariant "every run that can be
resumed has a plot log". -/
theorem wf_reachable (c : Cfg) : ∀ (h : List Op) (s : State), WF s → WF (run c s h) := by
  intro h
  induction h with
  | nil => intro s w; exact w
  | cons op h ih => intro s w; exact ih _ (wf_step c s op w)

theorem wf_init : WF init := ⟨by intro m r h; simp [init] at h, by intro r h; simp [init] at h⟩

/-- **The first tag message of run `r` after a reconnect is recorded in `r`'s plot log.**  `s` is any reachable state
in which the engine is gone (disconnected, or the aggregator was restarted) during run `r`; after its registration
a tags message of run `r` with any tick time `t` adds exactly the row `(i, t)` where `i` is a PlotLogs row of run `r`. -/
theorem first_tags_after_reconnect_recorded (c : Cfg) (h₀ : List Op) (r t : Nat) (st : Option Nat)
    (hgone : (run c init h₀).mem = none) (ha : assoc (run c init h₀) = some r) :
    ∃ i, (run c init h₀).plotLogs[i]? = some r ∧
      (run c init (h₀ ++ [.register, .tags (some r) t st])).values = (run c init h₀).values ++ [(i, t)] := by
  have w := wf_reachable c h₀ init wf_init
  simp only [run, List.foldl_append, List.foldl_cons, List.foldl_nil]
  simp only [run] at hgone ha w
  generalize List.foldl (fun s op => (step c s op).1) init h₀ = s at *
  simp only [assoc, hgone] at ha
  have hrow := join_eq_some ha
  have hl : r ∈ s.plotLogs := w.rowLog r hrow
  obtain ⟨i, hg, hv⟩ := tagsChanged_recorded c { s with mem := some (restored s) } (restored s) r t st
    (by simp [restored, hrow]) hl (Or.inl (by simp [restored, hrow]))
  have ht : rowTime (restored s) t st = t := rowTime_eq _ _ _ (Or.inr (Or.inl (by simp [restored, hrow])))
  rw [ht] at hv
  exact ⟨i, hg, by simpa [step, hgone] using hv⟩

/-- **Any tag message of the current run that passes the persistence threshold is recorded in that run's plot log**,
in every reachable state (so also long after a reconnect). -/
theorem tags_recorded_in_run_plot_log (c : Cfg) (h₀ : List Op) (m : Mem) (r t : Nat) (st : Option Nat)
    (hm : (run c init h₀).mem = some m) (hr : m.run = some r)
    (hp : m.lastPersisted = none ∨ ∃ lp, m.lastPersisted = some lp ∧ lp + c.interval < t) :
    ∃ i, (run c init h₀).plotLogs[i]? = some r ∧
      (run c init (h₀ ++ [.tags (some r) t st])).values = (run c init h₀).values ++ [(i, rowTime m t st)] := by
  have w := wf_reachable c h₀ init wf_init
  simp only [run, List.foldl_append, List.foldl_cons, List.foldl_nil]
  simp only [run] at hm w
  generalize List.foldl (fun s op => (step c s op).1) init h₀ = s at *
  obtain ⟨i, hg, hv⟩ := tagsChanged_recorded c s m r t st hr (w.memLog m r hm hr) hp
  exact ⟨i, hg, by simpa [step, hm] using hv⟩

/-- The row carries the message's own tick time, unless an earlier message left a newer System State time behind
(the code stamps a persisted batch with the newest tick time it holds). -/
theorem recorded_row_time (m : Mem) (t : Nat) (st : Option Nat)
    (h : st.isSome ∨ m.sysTime = none ∨ ∃ u, m.sysTime = some u ∧ u ≤ t) : rowTime m t st = t :=
  rowTime_eq m t st h

/-- **Nothing is ever recorded anywhere else**: one operation adds at most one value row; the row comes from a tags
message and hangs on a plot log of the run the engine is in at that moment. -/
theorem value_rows_only_for_current_run (c : Cfg) (s : State) (op : Op) :
    (step c s op).1.values = s.values ∨
    ∃ i t r m x st, op = .tags x t st ∧ (step c s op).1.values = s.values ++ [(i, rowTime m t st)] ∧
      s.mem = some m ∧ m.run = some r ∧ s.plotLogs[i]? = some r :=
  values_step c s op

/-- A plot-log row keeps its run id through every later history: recorded rows stay with their run. -/
theorem plot_log_rows_are_stable (c : Cfg) (i q : Nat) : ∀ (h : List Op) (s : State), s.plotLogs[i]? = some q →
    (run c s h).plotLogs[i]? = some q := by
  intro h
  induction h with
  | nil => intro s hs; exact hs
  | cons op h ih => intro s hs; exact ih _ (plotLogs_step_get c s op i q hs)

example : (run {} init [.register, .start 1, .tags (some 1) 5 none, .disconnect, .register, .tags (some 1) 3 (some 1),
    .restart, .register, .tags (some 1) 9 (some 0)]).values = [(0, 5), (0, 3), (0, 9)] := by decide

/-! ## 3. The run is stored once when it stops -/

theorem count_run_done (c : Cfg) (r : Nat) : ∀ (h : List Op) (s : State), Sync c s → Done r s →
    (∀ op ∈ h, op ≠ .start r ∧ (op = .crash → c.persistRunEvents = true)) →
    (run c s h).recentRuns.count r = s.recentRuns.count r := by
  intro h
  induction h with
  | nil => intro s _ _ _; rfl
  | cons op h ih =>
    intro s hs d hn
    simp only [run, List.foldl_cons]
    have := done_step c s op r hs d (hn op (by simp)).1 (hn op (by simp)).2
    rw [← this.2]
    exact ih _ (sync_step c s op hs) this.1 (fun o ho => hn o (by simp [ho]))

theorem recentRuns_quiet (c : Cfg) (r : Nat) : ∀ (h : List Op) (s : State), Sync c s → assoc s = some r →
    (∀ op ∈ h, quiet c r op = true) → (run c s h).recentRuns = s.recentRuns := by
  intro h
  induction h with
  | nil => intro s _ _ _; rfl
  | cons op h ih =>
    intro s hs ha hq
    simp only [run, List.foldl_cons]
    have h1 := recentRuns_step_quiet c s op r ha (hq op (by simp))
    have h2 := assoc_step_quiet c s op r hs ha (hq op (by simp))
    rw [← h1]
    exact ih _ (sync_step c s op hs) h2 (fun o ho => hq o (by simp [ho]))

/-- RunStartedMsg `r` on a registered engine stores at most the *previous* run: the number of RecentRuns rows of `r`
itself does not change when `r` is not the previous run. -/
theorem start_count (c : Cfg) (s : State) (r : Nat) (m : Mem) (hm : s.mem = some m) :
    (step c s (.start r)).1.recentRuns.count r = s.recentRuns.count r := by
  simp only [step, hm, persistRow_recentRuns, createPlotLog_recentRuns]
  exact startRun_count_self c s m r

/-- **The run is stored exactly once.**  From any state `s` with the engine registered and no RecentRuns row for
`r`: the run is started (`start r`); then anything that does not end it happens (`mid`: registrations, disconnects,
aggregator restarts, tag messages, repeated RunStartedMsg of `r`), at the end of which the engine is registered; the
run stops (`stop r`); then anything at all happens except that the same run id is started again (`tail`).  At every
point of `tail` — in particular at its end — RecentRuns has exactly one row for `r`; before the stop it has none. -/
theorem run_stored_exactly_once (c : Cfg) (s : State) (r : Nat) (m : Mem) (mid tail : List Op)
    (hsync : Sync c s) (hreg : s.mem = some m) (hfresh : r ∉ s.recentRuns)
    (hmid : ∀ op ∈ mid, quiet c r op = true)
    (hback : (run c s (.start r :: mid)).mem ≠ none)
    (htail : ∀ op ∈ tail, op ≠ .start r ∧ (op = .crash → c.persistRunEvents = true)) :
    (run c s (.start r :: mid)).recentRuns.count r = 0 ∧
    (run c s (.start r :: mid ++ .stop r :: tail)).recentRuns.count r = 1 := by
  -- after the start
  have hs₁ : Sync c (step c s (.start r)).1 := sync_step c s _ hsync
  have ha₁ : assoc (step c s (.start r)).1 = some r := start_associates c s r m hreg
  have hc₁ : (step c s (.start r)).1.recentRuns.count r = 0 := by
    rw [start_count c s r m hreg]; exact List.count_eq_zero.mpr hfresh
  -- through mid
  have hrun₁ : run c s (.start r :: mid) = run c (step c s (.start r)).1 mid := by simp [run]
  have hs₂ : Sync c (run c s (.start r :: mid)) := by rw [hrun₁]; exact sync_run c mid _ hs₁
  have ha₂ : assoc (run c s (.start r :: mid)) = some r := by
    rw [hrun₁]; exact run_id_survives c r mid _ hs₁ ha₁ hmid
  have hc₂ : (run c s (.start r :: mid)).recentRuns.count r = 0 := by
    rw [hrun₁, recentRuns_quiet c r mid _ hs₁ ha₁ hmid]; exact hc₁
  refine ⟨hc₂, ?_⟩
  -- the stop
  have hsplit : run c s (.start r :: mid ++ .stop r :: tail) =
      run c (step c (run c s (.start r :: mid)) (.stop r)).1 tail := by
    simp [run, List.foldl_append]
  rw [hsplit]
  generalize run c s (.start r :: mid) = s₂ at *
  cases hm₂ : s₂.mem with
  | none => exact absurd hm₂ hback
  | some m₂ =>
    have hr₂ : m₂.run = some r := by simpa [assoc, hm₂] using ha₂
    have hnot : r ∉ s₂.recentRuns := List.count_eq_zero.mp hc₂
    have hstop : (step c s₂ (.stop r)).1 =
        persistRow c { storeRecentRun c s₂ r with mem := some { m₂ with run := none, lastPersisted := none } } := by
      simp [step, hm₂, hr₂]
    have hdone : Done r (step c s₂ (.stop r)).1 := by
      rw [hstop]
      apply done_persistRow
      exact ⟨by intro m' h1 h2; simp only [Option.some.injEq] at h1; subst h1; simp at h2,
             by intro h; simp at h⟩
    rw [count_run_done c r tail _ (sync_step c s₂ _ hs₂) hdone htail, hstop]
    simp only [persistRow_recentRuns]
    rw [storeRecentRun_fresh c s₂ r hnot]
    simp [List.count_append, hc₂]

/-- A stop message for an engine that is not registered is refused (the engine keeps it and sends it again after
re-registering), so nothing is stored meanwhile. -/
theorem stop_while_unregistered_refused (c : Cfg) (s : State) (r : Nat) (h : s.mem = none) :
    step c s (.stop r) = (s, .notRegistered) := by
  simp [step, h]

example : (run {} init [.register, .start 1, .tags (some 1) 5 (some 1), .disconnect, .register, .restart, .register, .stop 1,
    .disconnect, .register, .restart, .register, .start 2]).recentRuns = [1] := by decide
example : (run { plotGuarded := true, recentGuarded := true } init [.register, .start 1, .disconnect, .register, .start 1, .stop 1, .restart,
    .register]).recentRuns = [1] := by decide

/-! ## 4. With crashes of the aggregator process

`properties.jsonl` quantifies over aggregator restarts at every point of a run, and a process can die without running
its shutdown hook.  `quietFull r` = everything that does not end run `r`, *including* a crash. -/

def quietFull (r : Nat) : Op → Bool
  | .register | .disconnect | .restart | .crash | .tags _ _ _ => true
  | .start q => q == r
  | .stop _ => false

/-- **C28, clause "the same run under the same run id", with crashes**: from every reachable state in which run `r` is
the run of the engine, every history that does not end `r` — registrations, disconnects, graceful restarts, crashes, tag
messages — leaves `r` the associated run (so the next registration resumes it, tag data goes to its plot log and it is
stored once at its stop by sections 2 and 3). -/
def C28_full (c : Cfg) : Prop :=
  ∀ (h₀ h : List Op) (r : Nat), assoc (run c init h₀) = some r → (∀ op ∈ h, quietFull r op = true) →
    assoc (run c init (h₀ ++ h)) = some r

theorem quietFull_of_persist (c : Cfg) (hp : c.persistRunEvents = true) (r : Nat) (op : Op)
    (h : quietFull r op = true) : quiet c r op = true := by
  cases op <;> simp_all [quietFull, quiet]

/-- **`C28_full` holds of the code that writes the RecentEngines row with the run messages**
(fixes/C28-persist-active-run.diff), whatever the other settings. -/
theorem C28_full_holds (c : Cfg) (hp : c.persistRunEvents = true) : C28_full c := by
  intro h₀ h r ha hq
  have : run c init (h₀ ++ h) = run c (run c init h₀) h := by simp [run, List.foldl_append]
  rw [this]
  exact run_id_survives c r h _ (sync_run c h₀ init (sync_init c)) ha
    (fun op ho => quietFull_of_persist c hp r op (hq op ho))

/-- **`C28_full` is false of the code that writes the row on disconnect and shutdown only**: the engine registers, a
run starts, the aggregator process dies and comes back — the run is gone (the engine's later tag data for it is
dropped and its RunStoppedMsg stores nothing). -/
theorem C28_counterexample : ¬ C28_full {} := by
  intro h
  have := h [.register, .start 1] [.crash] 1 (by decide) (by decide)
  revert this
  decide

/-- the full observable consequence of that history on the unrepaired code: run not resumed, tag data not recorded,
nothing stored at the stop -/
example : (run {} init [.register, .start 1, .tags (some 1) 5 none, .crash, .register, .tags (some 1) 6 none,
    .stop 1]).values = [(0, 5)] ∧
    (run {} init [.register, .start 1, .tags (some 1) 5 none, .crash, .register, .tags (some 1) 6 none,
    .stop 1]).recentRuns = [] := by decide
/-- …and on the repaired code: resumed, recorded, stored once -/
example : (run { persistRunEvents := true } init [.register, .start 1, .tags (some 1) 5 none, .crash, .register,
    .tags (some 1) 6 none, .stop 1]).values = [(0, 5), (0, 6)] ∧
    (run { persistRunEvents := true } init [.register, .start 1, .tags (some 1) 5 none, .crash, .register,
    .tags (some 1) 6 none, .stop 1]).recentRuns = [1] := by decide

/-- **`C28_partial`: without crashes the statement holds of both codes** (this is `run_id_survives` from a reachable
state; sections 2 and 3 give the other two clauses under the same restriction). -/
theorem C28_partial (c : Cfg) (h₀ h : List Op) (r : Nat) (ha : assoc (run c init h₀) = some r)
    (hq : ∀ op ∈ h, quietFull r op = true ∧ op ≠ .crash) : assoc (run c init (h₀ ++ h)) = some r := by
  have : run c init (h₀ ++ h) = run c (run c init h₀) h := by simp [run, List.foldl_append]
  rw [this]
  refine run_id_survives c r h _ (sync_run c h₀ init (sync_init c)) ha ?_
  intro op ho
  obtain ⟨h1, h2⟩ := hq op ho
  cases op <;> simp_all [quietFull, quiet]

end OPM.C28
