import OPM.Model.HwRecovery
import OPM.Lemmas.HwRecovery
/-!
# C23 Hardware connection recovery follows the documented protocol

"For any sequence of read and write successes and failures, reconnect outcomes and elapsed time, the
connection follows the documented five-state recovery protocol, and Connection Status reads
Disconnected exactly in the Disconnected and Error states. Reads and writes never raise while in
Issue or Reconnect, where reads return the last value successfully read for that register, and they
do raise in Error."

The documented protocol (docs/src/Error Recovery.rst, "Handling of Hardware Connection Errors") is
written down as `docNext`; events (`Ev`) are computed from what is observable of an op at the fake
hardware and at the caller (`evOf`).  All theorems hold for every configuration (time-outs,
back-off list, both variants of the write-buffer code).
-/
namespace OPM.C23
open OPM.HwRecovery

/-- What happened during one call, as seen from outside the decorator. -/
inductive Ev where
  /-- `connect()` succeeded -/
  | connectOk
  /-- the concrete hardware was contacted by a read/write and answered -/
  | rwOk
  /-- the concrete hardware was contacted by a read/write and failed; `d` = time since the last
      successful read/write -/
  | rwFail (d : Nat)
  /-- a read/write returned without contacting the hardware; `d` = time since Reconnect was entered -/
  | rwNoContact (d : Nat)
  /-- a reconnect attempt succeeded -/
  | reconnectOk
  | other

/-- The documented five-state protocol: OK → Issue on an error; Issue → OK on a success;
    Issue → Reconnect when no success occurred within `t1`; Reconnect → OK on a successful reconnect;
    Reconnect → Error when not successful within `t2`; Error → OK on a successful reconnect;
    Disconnected → OK on connect.  Every other (state, event) pair keeps the state.
    Reading of the text: a time-out ("if no success within …") takes effect at the next read/write call
    after it elapsed — the decorator has no timer of its own; `rwFail d` / `rwNoContact d` carry the
    elapsed time of that call.  That reconnects do get attempted, and succeed as soon as the hardware
    accepts them, is section 4 (`recovers_within`, `never_stuck`). -/
def docNext (t1 t2 : Nat) : RState → Ev → RState
  | .disconnected, .connectOk => .ok
  | .ok, .rwFail _ => .issue
  | .issue, .rwOk => .ok
  | .issue, .rwFail d => if t1 < d then .reconnect else .issue
  | .reconnect, .rwNoContact d => if t2 < d then .error else .reconnect
  | .reconnect, .reconnectOk => .ok
  | .error, .reconnectOk => .ok
  | s, _ => s

/-- The event of an op, from its observable output (hardware contact, reconnect attempt, raised or
    not) and the two protocol timers. -/
def evOf (s : State) (op : Op) (o : Out) : Ev :=
  if o.reconn = some true then .reconnectOk
  else match op with
    | .connect true => .connectOk
    | .read .. | .readBatch .. | .write .. | .writeBatch .. =>
      match o.contact with
      | some true => .rwOk
      | some false => .rwFail (s.now - s.lastSuccess)
      | Option.none => if o.res.raised then .other else .rwNoContact (s.now - s.reconnEntered)
    | _ => .other

/-! ## 1. The state follows the documented protocol -/

/-- Full statement: every step of the decorator is the step of the documented state machine for the
    event that was observed. -/
theorem follows_protocol (cfg : Cfg) (s : State) (op : Op) :
    (step cfg s op).1.st = docNext cfg.t1 cfg.t2 s.st (evOf s op (step cfg s op).2) := by
  cases op <;> simp only [step] <;> (repeat' split) <;>
    simp_all [evOf, docNext, errorRW, success, flush, statusOf, Res.raised] <;> (repeat' split) <;> simp_all <;> omega

def cfg0 : Cfg := { t1 := 80, t2 := 160, bk := [0, 2] }

/-- `docNext` is not vacuous: each documented edge is taken by some step of the model. -/
example : (step cfg0 (init false) (.connect true)).1.st = .ok := by decide
example : (step cfg0 (init true) (.read ⟨0, .r⟩ Option.none)).1.st = .issue := by decide
example : (run cfg0 (init true) [.read ⟨0, .r⟩ Option.none, .read ⟨0, .r⟩ (some (.num 8))]).st = .ok := by
  decide
example : (run cfg0 (init true)
    [.read ⟨0, .r⟩ Option.none, .advance 81, .read ⟨0, .r⟩ Option.none]).st = .reconnect := by decide
example : (run cfg0 (init true)
    [.read ⟨0, .r⟩ Option.none, .advance 81, .read ⟨0, .r⟩ Option.none, .advance 161,
     .read ⟨0, .r⟩ (some (.num 8))]).st = .error := by decide
example : (run cfg0 (init true)
    [.read ⟨0, .r⟩ Option.none, .advance 81, .read ⟨0, .r⟩ Option.none, .advance 161,
     .read ⟨0, .r⟩ (some (.num 8)), .tick true]).st = .ok := by decide

/-- The two timers of the protocol are what the documentation says they are:
    `lastSuccess` is the time of the last read/write that reached the hardware and succeeded … -/
theorem lastSuccess_is_time_of_last_success (cfg : Cfg) (s : State) (op : Op) :
    (step cfg s op).1.lastSuccess =
      if (step cfg s op).2.contact = some true then s.now else s.lastSuccess := by
  cases op <;> simp only [step] <;> (repeat' split) <;>
    simp_all [errorRW, success, flush, statusOf] <;> (repeat' split) <;> (try simp_all)

/-- … and `reconnEntered` is the time at which state Reconnect was entered. -/
theorem reconnEntered_is_time_of_entry (cfg : Cfg) (s : State) (op : Op) :
    (step cfg s op).1.reconnEntered =
      if s.st ≠ .reconnect ∧ (step cfg s op).1.st = .reconnect then s.now else s.reconnEntered := by
  cases op <;> simp only [step] <;> (repeat' split) <;>
    simp_all [errorRW, success, flush, statusOf] <;> (repeat' split) <;> (try simp_all)

/-- Time only moves by `advance`. -/
theorem now_only_advances (cfg : Cfg) (s : State) (op : Op) :
    (step cfg s op).1.now = (match op with | .advance d => s.now + d | _ => s.now) := by
  cases op <;> simp only [step] <;> (repeat' split) <;>
    simp_all [errorRW, success, flush, statusOf] <;> (repeat' split) <;> (try simp_all)

/-- Reconnects are attempted exactly in Reconnect / Error on the back-off ticks. -/
theorem reconnect_attempted_iff (cfg : Cfg) (s : State) (ok : Bool) :
    (step cfg s (.tick ok)).2.reconn.isSome = true ↔
      ((s.st = .reconnect ∨ s.st = .error) ∧ isBackoff cfg.bk s.rt = true) := by
  simp only [step]
  (repeat' split) <;> simp_all

/-! ## 2. Connection Status reads Disconnected exactly in Disconnected and Error -/

/-- invariant: the tag agrees with the state -/
def StatusOK (s : State) : Prop := s.disc = statusOf s.st

theorem step_status (cfg : Cfg) (s : State) (op : Op) (h : StatusOK s) : StatusOK (step cfg s op).1 := by
  unfold StatusOK at *
  cases op <;> simp only [step] <;> (repeat' split) <;>
    simp_all [errorRW, success, flush, statusOf] <;> (repeat' split) <;> (try simp_all)

/-- Full statement: after every history (any ops, any outcomes, any elapsed times, hardware connected
    or not at construction), the Connection Status tag reads "Disconnected" iff the recovery state is
    Disconnected or Error. -/
theorem status_iff_state (cfg : Cfg) (connected : Bool) (ops : List Op) :
    (runG cfg (initG connected) ops).s.disc = true ↔
      ((runG cfg (initG connected) ops).s.st = .disconnected ∨
       (runG cfg (initG connected) ops).s.st = .error) := by
  have h : StatusOK (runG cfg (initG connected) ops).s := by
    apply runG_induct cfg (fun g => StatusOK g.s)
    · intro g op hg; exact step_status cfg g.s op hg
    · cases connected <;> simp [StatusOK, initG, init, statusOf]
  unfold StatusOK at h
  rw [h]; simp [statusOf]

example : (runG cfg0 (initG true)
    [.read ⟨0, .r⟩ Option.none, .advance 81, .read ⟨0, .r⟩ Option.none, .advance 161,
     .read ⟨0, .r⟩ (some (.num 8))]).s.disc = true := by decide

/-! ## 3. Masking: no exception in Issue / Reconnect, last good value for reads; exceptions in Error -/

/-- Reads and writes never raise while in Issue or Reconnect. -/
theorem masked_never_raises (cfg : Cfg) (s : State) (op : Op) (hst : s.st = .issue ∨ s.st = .reconnect)
    (hrw : op.isRW = true) (hdir : op.dirsOK = true) : (step cfg s op).2.res.raised = false := by
  cases op <;> simp only [step] <;> (repeat' split) <;>
    simp_all [Op.isRW, Op.dirsOK, Res.raised] <;> (repeat' split) <;> (try simp_all) <;> (try grind)

/-- Reads and writes do raise in Error (and before the first connect), and change nothing. -/
theorem unmasked_raises (cfg : Cfg) (s : State) (op : Op) (hst : s.st = .error ∨ s.st = .disconnected)
    (hrw : op.isRW = true) (hdir : op.dirsOK = true) :
    (step cfg s op).2.res = .raiseHw ∧ (step cfg s op).1 = s := by
  cases op <;> simp only [step] <;> (repeat' split) <;>
    (try simp_all [Op.isRW, Op.dirsOK, flush]) <;> (try grind)

/-- the model's `last_known_good_reads` is the ghost "last value successfully read" -/
theorem lkg_is_good (cfg : Cfg) (connected : Bool) (ops : List Op) :
    (runG cfg (initG connected) ops).s.lkg = (runG cfg (initG connected) ops).good := by
  apply runG_induct cfg (fun g => g.s.lkg = g.good)
  · intro g op hg
    simp only [stepG, goodUpd]
    cases op <;> simp only [step] <;> (repeat' split) <;>
      simp_all [errorRW, success, flush] <;> (repeat' split) <;> (try simp_all)
  · simp [initG, init]

/-- what a masked read answers for register `r` after history `ops`: the value most recently read
    successfully through the decorator, `None` if there is none (documented note) -/
def lastGood (g : G) (r : Reg) : Val := orNone (g.good r.id)

/-- Full statement for `read`: after any history, a read in Reconnect, or a read in OK / Issue whose
    hardware call fails, returns the last value successfully read for that register. -/
theorem masked_read_returns_last_good (cfg : Cfg) (connected : Bool) (ops : List Op) (r : Reg)
    (hwv : Option Val) (hdir : r.canRead = true) :
    let g := runG cfg (initG connected) ops
    (g.s.st = .reconnect ∨ ((g.s.st = .ok ∨ g.s.st = .issue) ∧ hwv = Option.none)) →
      (step cfg g.s (.read r hwv)).2.res = .vals [lastGood g r] := by
  intro g h
  have hl : g.s.lkg = g.good := lkg_is_good cfg connected ops
  simp only [step]
  (repeat' split) <;> simp_all [lkgVal, lastGood, errorRW] <;> (repeat' split) <;> (try simp_all)

/-- The same for `read_batch`, register for register. -/
theorem masked_read_batch_returns_last_good (cfg : Cfg) (connected : Bool) (ops : List Op) (rs : List Reg)
    (hwv : Option (List Val)) (hdir : rs.all (·.canRead) = true) :
    let g := runG cfg (initG connected) ops
    (g.s.st = .reconnect ∨ ((g.s.st = .ok ∨ g.s.st = .issue) ∧ hwv = Option.none)) →
      (step cfg g.s (.readBatch rs hwv)).2.res = .vals (rs.map (lastGood g)) := by
  intro g h
  have hl : g.s.lkg = g.good := lkg_is_good cfg connected ops
  have hd : (rs.any fun r => !r.canRead) = false := by
    simp only [List.any_eq_false, Bool.not_eq_true', Bool.not_eq_false]
    intro x hx; simpa using (List.all_eq_true.mp hdir) x hx
  have hfun : ∀ s' : State, s'.lkg = g.s.lkg → rs.map (lkgVal s') = rs.map (lastGood g) := by
    intro s' hs'; apply List.map_congr_left; intro r _; simp [lkgVal, lastGood, hs', hl]
  simp only [step, hd]
  (repeat' split) <;> simp_all [errorRW] <;> (repeat' split) <;> (try simp_all)

/-- When the hardware answers (OK / Issue), the fresh value is returned and becomes the last good one. -/
theorem successful_read_is_fresh (cfg : Cfg) (s : State) (r : Reg) (v : Val) (hdir : r.canRead = true)
    (hst : s.st = .ok ∨ s.st = .issue) :
    (step cfg s (.read r (some v))).2.res = .vals [v] ∧
    (step cfg s (.read r (some v))).1.lkg r.id = some v ∧ (step cfg s (.read r (some v))).1.st = .ok := by
  simp only [step]
  (repeat' split) <;> simp_all [success] <;> (repeat' split) <;> (try simp_all)

/-- non-vacuity: Issue and Reconnect with a known good value; Error raises -/
example : (step cfg0 (run cfg0 (init true)
    [.read ⟨0, .r⟩ (some (.num 24)), .read ⟨0, .r⟩ Option.none, .advance 81, .read ⟨0, .r⟩ Option.none])
    (.read ⟨0, .r⟩ (some (.num 40)))).2.res = .vals [.num 24] := by decide
example : (step cfg0 (run cfg0 (init true)
    [.read ⟨0, .r⟩ Option.none, .advance 81, .read ⟨0, .r⟩ Option.none, .advance 161,
     .read ⟨0, .r⟩ (some (.num 8))]) (.write ⟨2, .w⟩ ⟨.num 8, false⟩ true [])).2.res = .raiseHw := by decide

/-! ## 4. Recovery: the protocol is never stuck while the hardware can be reconnected -/

/-- a tick in state OK (also Issue / Disconnected) does nothing -/
theorem tick_noop (cfg : Cfg) (s : State) (ok : Bool) (h : s.st ≠ .reconnect ∧ s.st ≠ .error) :
    (step cfg s (.tick ok)).1 = s := by
  simp [step, h.1, h.2]

theorem ticks_in_ok_stay (cfg : Cfg) (s : State) (h : s.st = .ok) (k : Nat) :
    run cfg s (List.replicate k (.tick true)) = s := by
  induction k with
  | zero => rfl
  | succ k ih =>
    simp only [List.replicate_succ, run, List.foldl_cons]
    rw [tick_noop cfg s true (by simp [h])]
    exact ih

/-- on a back-off tick a reconnect that succeeds brings the state to OK and the tag to Connected — from
    Reconnect and from Error alike -/
theorem reconnect_ok_on_backoff_tick (cfg : Cfg) (s : State) (hst : s.st = .reconnect ∨ s.st = .error)
    (hb : isBackoff cfg.bk s.rt = true) :
    (step cfg s (.tick true)).1.st = .ok ∧ (step cfg s (.tick true)).1.disc = false ∧
    (step cfg s (.tick true)).2.reconn = some true := by
  rcases hst with h | h <;> simp [step, h, hb, statusOf]

/-- between back-off ticks a tick only counts -/
theorem tick_counts (cfg : Cfg) (s : State) (ok : Bool) (hst : s.st = .reconnect ∨ s.st = .error)
    (hb : isBackoff cfg.bk s.rt = false) :
    (step cfg s (.tick ok)).1.st = s.st ∧ (step cfg s (.tick ok)).1.rt = s.rt + 1 := by
  rcases hst with h | h <;> simp [step, h, hb]

/-- Full statement (recovery): in Reconnect or Error, if the `d`-th tick from now is a back-off tick, then
    `d + 1` ticks on which the hardware accepts the reconnect end in state OK with the tag reading Connected
    (earlier back-off ticks recover earlier; further ticks in OK change nothing). -/
theorem recovers_within (cfg : Cfg) (d : Nat) : ∀ (s : State), (s.st = .reconnect ∨ s.st = .error) →
    isBackoff cfg.bk (s.rt + d) = true →
    (run cfg s (List.replicate (d + 1) (.tick true))).st = .ok ∧
    (run cfg s (List.replicate (d + 1) (.tick true))).disc = false := by
  induction d with
  | zero =>
    intro s hst hb
    have := reconnect_ok_on_backoff_tick cfg s hst (by simpa using hb)
    simpa [run] using ⟨this.1, this.2.1⟩
  | succ d ih =>
    intro s hst hb
    simp only [List.replicate_succ (n := d + 1), run, List.foldl_cons]
    cases hb0 : isBackoff cfg.bk s.rt with
    | true =>
      have h := reconnect_ok_on_backoff_tick cfg s hst hb0
      have := ticks_in_ok_stay cfg (step cfg s (.tick true)).1 h.1 (d + 1)
      simp only [run] at this
      rw [this]; exact ⟨h.1, h.2.1⟩
    | false =>
      have h := tick_counts cfg s true hst hb0
      have := ih (step cfg s (.tick true)).1 (by rw [h.1]; exact hst) (by rw [h.2]; rw [← hb]; congr 1; omega)
      simpa [run] using this

/-- a back-off tick is never further away than twice the largest back-off value -/
theorem backoff_tick_within (bk : List Nat) (last : Nat) (hl : bk.getLast? = some last) (hpos : 0 < last) (n : Nat) :
    ∃ d, d ≤ 2 * last ∧ isBackoff bk (n + d) = true := by
  have h1 : last * (n / last) ≤ n := Nat.mul_div_le n last
  have h2 : n < last * (n / last + 1) := Nat.lt_mul_div_succ n hpos
  have e1 : last * (n / last + 1) = last * (n / last) + last := by rw [Nat.mul_add, Nat.mul_one]
  have e2 : last * (n / last + 2) = last * (n / last) + 2 * last := by rw [Nat.mul_add]; omega
  generalize last * (n / last) = p at h1 h2 e1 e2
  refine ⟨last * (n / last + 2) - n, by omega, ?_⟩
  have heq : n + (last * (n / last + 2) - n) = last * (n / last + 2) := by omega
  rw [heq]
  have hlt : last < last * (n / last + 2) := by omega
  simp [isBackoff, hl, hlt, Nat.mul_mod_right]

/-- Never stuck in Error (or Reconnect) while `connect()` succeeds: within `2·max(back-off) + 1` ticks the
    state is OK again and Connection Status reads Connected. -/
theorem never_stuck (cfg : Cfg) (last : Nat) (hl : cfg.bk.getLast? = some last) (hpos : 0 < last) (s : State)
    (hst : s.st = .reconnect ∨ s.st = .error) :
    ∃ k, k ≤ 2 * last + 1 ∧ (run cfg s (List.replicate k (.tick true))).st = .ok ∧
      (run cfg s (List.replicate k (.tick true))).disc = false := by
  obtain ⟨d, hd, hb⟩ := backoff_tick_within cfg.bk last hl hpos s.rt
  exact ⟨d + 1, by omega, recovers_within cfg d s hst hb⟩

example : (run cfg0 (run cfg0 (init true)
    [.read ⟨0, .r⟩ Option.none, .advance 81, .read ⟨0, .r⟩ Option.none, .advance 161,
     .read ⟨0, .r⟩ (some (.num 8)), .tick false, .tick false]) (List.replicate 1 (.tick true))).st = .ok := by decide

end OPM.C23
