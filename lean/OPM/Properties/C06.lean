import OPM.Model.RunState
import OPM.Lemmas.RunState
/-!
# C06 Run state and System State always agree; control commands gated

"For any sequence of control commands (Start, Stop, Pause, Unpause, Hold, Unhold, Restart) from the user
or the method at any tick, the System State tag and the reported control state agree. The state is Stopped
exactly when no run is active, Paused when paused (pause takes precedence over hold), Holding when on hold
and not paused, and Running otherwise, with Restarting only during a restart. A user control command is
accepted exactly when it is valid in the state at the time of the request, and every run gets a fresh
non-empty run id that is cleared when the run ends."

The control-state message is `(is_running, is_holding, is_paused) = (started, holding, paused)` — the flags
themselves (`create_control_state_msg`), so "the reported control state" is the flag triple of the model.

The statements are about model M1 with the repair `Cfg.guard`
(/verif/fixes/C06-drop-run-commands-when-not-running.diff); `asIs_counterexample` shows that without it the
first clause fails by user commands alone (Stop, then Pause and Stop inside the two-tick stop window).
-/
namespace OPM.C06
open OPM.RunState

/-- The property's table for an active run. -/
def table (paused holding : Bool) : Sys :=
  if paused then .paused else if holding then .holding else .running

/-- System State, control state and Run Id agree. `rphase = 1` ⇔ a Restart command is between its first
    and its second phase. -/
structure Agree (a : A) : Prop where
  /-- Stopped exactly when no run is active -/
  stopped_iff : a.core.sys = .stopped ↔ a.core.started = false
  /-- Paused when paused, Holding when on hold and not paused, Running otherwise -/
  table : a.core.started = true → a.core.sys ≠ .restarting → a.core.sys = table a.core.paused a.core.holding
  /-- Restarting only during a restart -/
  restarting : a.core.sys = .restarting → a.rphase = 1
  /-- a run id exactly while a run is active -/
  runid : a.core.runId.isSome = a.core.started
  /-- the current run id was allocated (ids are allocated in increasing order, see `runid_fresh`) -/
  fresh : ∀ r, a.core.runId = some r → r < a.core.nextRunId
  /-- (bookkeeping) tracking is enabled while a run is active -/
  trk : a.core.started = true → a.trk = true
  /-- the control state agrees with Stopped in full: with no run active neither `is_paused` nor `is_holding` -/
  idle : a.core.started = false → a.core.paused = false ∧ a.core.holding = false

/-- What holds of the code as it is and with errors striking at any time: everything except
    "no run active ⇒ Stopped, not paused, not holding". -/
structure AgreeWeak (a : A) : Prop where
  stopped_imp : a.core.sys = .stopped → a.core.started = false
  table : a.core.started = true → a.core.sys ≠ .restarting → a.core.sys = table a.core.paused a.core.holding
  restarting : a.core.sys = .restarting → a.rphase = 1
  runid : a.core.runId.isSome = a.core.started
  fresh : ∀ r, a.core.runId = some r → r < a.core.nextRunId

theorem Agree.weak {a : A} (h : Agree a) : AgreeWeak a :=
  ⟨h.stopped_iff.mp, h.table, h.restarting, h.runid, h.fresh⟩

/-! ## Every atomic action preserves the agreement -/

/-- `pm.err = true` (errors may strike while no run is active) is admitted only with the repair
    `Cfg.idleErr`; without it such an error sets System State Paused with no run (`asIs_error_while_idle`). -/
theorem agree_step (cfg : Cfg) (hg : cfg.guard = true) (pm : Perm) (hpm : pm.err = true → cfg.idleErr = true)
    (a : A) (act : Act) (h : Agree a) (hen : act.enabled cfg pm a) : Agree (act.apply cfg a) := by
  obtain ⟨h1, h2, h3, h4, h5, h6, h7⟩ := h
  have hst : a.core.sys ≠ .stopped → a.core.started = true := by
    intro hs
    cases hb : a.core.started
    · exact absurd (h1.mpr hb) hs
    · rfl
  cases act
  case startRun =>
    refine ⟨?_, ?_, ?_, ?_, ?_, ?_, ?_⟩ <;> simp_all [Act.apply, Core.startRun, table]
  case pause =>
    have := hen hg
    refine ⟨?_, ?_, ?_, ?_, ?_, ?_, ?_⟩ <;> simp only [Act.apply, Core.pause] <;> split <;>
      simp_all [Act.enabled, table]
  case unpause =>
    have hs : a.core.started = true := by
      rcases hen hg with h | h
      · exact h
      · exact hst h
    refine ⟨?_, ?_, ?_, ?_, ?_, ?_, ?_⟩ <;> simp_all [Act.apply, Core.unpause, table] <;>
      (cases hh : a.core.holding <;> simp_all)
  case hold =>
    have hs := hen hg
    have hns : a.core.sys ≠ .stopped := fun e => by simp_all
    refine ⟨?_, ?_, ?_, ?_, ?_, ?_, ?_⟩ <;> simp_all [Act.apply, Act.enabled, Core.hold] <;>
      (cases hp : a.core.paused <;> simp_all [table])
  case unhold =>
    have hs : a.core.started = true := by
      rcases hen hg with h | h
      · exact h
      · exact hst h
    have hns : a.core.sys ≠ .stopped := fun e => by simp_all
    refine ⟨?_, ?_, ?_, ?_, ?_, ?_, ?_⟩ <;> simp_all [Act.apply, Core.unhold] <;>
      (cases hp : a.core.paused <;> simp_all [table])
  case stopBegin =>
    exact ⟨h1, h2, h3, h4, h5, h6, h7⟩
  case stopFinish =>
    refine ⟨?_, ?_, ?_, ?_, ?_, ?_, ?_⟩ <;>
      simp [Act.apply, Core.stopFinish, Core.writeImage] <;> split <;> simp
  case stopFinishC fx d =>
    refine ⟨?_, ?_, ?_, ?_, ?_, ?_, ?_⟩ <;>
      simp [Act.apply, Core.stopFinish, Core.writeImage] <;> split <;> simp
  case restartMidC fx =>
    refine ⟨?_, ?_, ?_, ?_, ?_, ?_, ?_⟩ <;> simp [Act.apply, Core.restartMid]
  case restartBegin =>
    have hs : a.core.started = true := hst hen.1
    refine ⟨?_, ?_, ?_, ?_, ?_, ?_, ?_⟩ <;> simp_all [Act.apply, Core.restartBegin]
  case restartMid =>
    refine ⟨?_, ?_, ?_, ?_, ?_, ?_, ?_⟩ <;> simp [Act.apply, Core.restartMid]
  case restartFinish =>
    refine ⟨?_, ?_, ?_, ?_, ?_, ?_, ?_⟩ <;> simp [Act.apply, Core.restartFinish, table]
  case dropRestart =>
    refine ⟨h1, h2, ?_, h4, h5, h6, h7⟩
    intro hr; exact absurd hr hen.1
  case error =>
    by_cases hs : a.core.started = true
    · refine ⟨?_, ?_, ?_, ?_, ?_, ?_, ?_⟩ <;> simp only [Act.apply, Core.setError] <;> split <;>
        (try split) <;> simp_all [table]
    · have hi : cfg.idleErr = true := by
        rcases hen with h | h
        · exact hpm h
        · exact absurd h hs
      have he : a.core.setError cfg = { a.core with methodErr := true, lastErr := true } := by
        unfold Core.setError
        simp [hi, hs]
      simp only [Act.apply, he]
      exact ⟨h1, h2, h3, h4, h5, h6, h7⟩
  case write =>
    refine ⟨?_, ?_, ?_, ?_, ?_, ?_, ?_⟩ <;> simp only [Act.apply, Core.writeImage] <;> split <;> assumption
  case ev e =>
    cases e <;> refine ⟨?_, ?_, ?_, ?_, ?_, ?_, ?_⟩ <;> simp only [Act.apply, Core.event] <;>
      first | assumption | (split <;> assumption)
  case setOut i v =>
    exact ⟨h1, h2, h3, h4, h5, h6, h7⟩
  case uwrite i v u =>
    exact ⟨h1, h2, h3, h4, h5, h6, h7⟩
  case userReq i =>
    simp only [Act.apply, Core.userRequest]
    split <;> exact ⟨h1, h2, h3, h4, h5, h6, h7⟩
  case clock inc =>
    refine ⟨?_, ?_, ?_, ?_, ?_, ?_, ?_⟩ <;> simp only [Act.apply, Core.clock] <;> split <;> assumption

theorem agreeWeak_step (cfg : Cfg) (pm : Perm) (a : A) (act : Act) (h : AgreeWeak a)
    (hen : act.enabled cfg pm a) : AgreeWeak (act.apply cfg a) := by
  obtain ⟨h1, h2, h3, h4, h5⟩ := h
  cases act
  case startRun =>
    refine ⟨?_, ?_, ?_, ?_, ?_⟩ <;> simp_all [Act.apply, Core.startRun, table]
  case pause =>
    refine ⟨?_, ?_, ?_, ?_, ?_⟩ <;> simp only [Act.apply, Core.pause] <;> split <;> simp_all [table]
  case unpause =>
    refine ⟨?_, ?_, ?_, ?_, ?_⟩ <;> simp_all [Act.apply, Core.unpause, table] <;>
      (cases hh : a.core.holding <;> simp_all)
  case hold =>
    refine ⟨?_, ?_, ?_, ?_, ?_⟩ <;> simp_all [Act.apply, Core.hold] <;>
      (cases hp : a.core.paused <;> simp_all [table])
  case unhold =>
    refine ⟨?_, ?_, ?_, ?_, ?_⟩ <;> simp_all [Act.apply, Core.unhold] <;>
      (cases hp : a.core.paused <;> simp_all [table])
  case stopBegin =>
    exact ⟨h1, h2, h3, h4, h5⟩
  case stopFinish =>
    refine ⟨?_, ?_, ?_, ?_, ?_⟩ <;>
      simp [Act.apply, Core.stopFinish, Core.writeImage] <;> split <;> simp
  case stopFinishC fx d =>
    refine ⟨?_, ?_, ?_, ?_, ?_⟩ <;>
      simp [Act.apply, Core.stopFinish, Core.writeImage] <;> split <;> simp
  case restartMidC fx =>
    refine ⟨?_, ?_, ?_, ?_, ?_⟩ <;> simp [Act.apply, Core.restartMid]
  case restartBegin =>
    refine ⟨?_, ?_, ?_, ?_, ?_⟩ <;> simp_all [Act.apply, Core.restartBegin]
  case restartMid =>
    refine ⟨?_, ?_, ?_, ?_, ?_⟩ <;> simp [Act.apply, Core.restartMid]
  case restartFinish =>
    refine ⟨?_, ?_, ?_, ?_, ?_⟩ <;> simp [Act.apply, Core.restartFinish, table]
  case dropRestart =>
    refine ⟨h1, h2, ?_, h4, h5⟩
    intro hr; exact absurd hr hen.1
  case error =>
    refine ⟨?_, ?_, ?_, ?_, ?_⟩ <;> simp only [Act.apply, Core.setError] <;> split <;> (try split) <;>
      simp_all [table]
  case write =>
    refine ⟨?_, ?_, ?_, ?_, ?_⟩ <;> simp only [Act.apply, Core.writeImage] <;> split <;> assumption
  case ev e =>
    cases e <;> refine ⟨?_, ?_, ?_, ?_, ?_⟩ <;> simp only [Act.apply, Core.event] <;>
      first | assumption | (split <;> assumption)
  case setOut i v =>
    exact ⟨h1, h2, h3, h4, h5⟩
  case uwrite i v u =>
    exact ⟨h1, h2, h3, h4, h5⟩
  case userReq i =>
    simp only [Act.apply, Core.userRequest]
    split <;> exact ⟨h1, h2, h3, h4, h5⟩
  case clock inc =>
    refine ⟨?_, ?_, ?_, ?_, ?_⟩ <;> simp only [Act.apply, Core.clock] <;> split <;> assumption

/-! ## The statements over all operation sequences -/

theorem agree_init (cfg : Cfg) (outs : List Int) : Agree (abs (init cfg outs)) := by
  unfold init
  split <;> (refine ⟨?_, ?_, ?_, ?_, ?_, ?_, ?_⟩ <;> simp [abs, rphaseOf, State.emgr])

theorem allReq_init (cfg : Cfg) (outs : List Int) : AllReq okReq (init cfg outs) := by
  intro r hr
  unfold init at hr
  split at hr <;> simp [State.reqs, Mgr.reqs] at hr

/-- Induction over the operation list: the agreement and the well-formedness of the held requests are
    preserved by every quiet operation. -/
theorem run_quiet (cfg : Cfg) (hg : cfg.guard = true) (ops : List Op) (hq : ∀ o ∈ ops, o.quiet) (s : State)
    (h1 : AllReq okReq s) (h2 : Agree (abs s)) :
    AllReq okReq (run cfg s ops) ∧ Agree (abs (run cfg s ops)) := by
  induction ops generalizing s with
  | nil => exact ⟨h1, h2⟩
  | cons o ops ih =>
    have hA : s.core.sys ≠ .stopped → s.core.started = true := by
      intro hs
      cases hb : s.core.started
      · exact absurd (h2.stopped_iff.mpr hb) hs
      · rfl
    obtain ⟨r, q⟩ := step_ref (cfg := cfg) s o (hq o List.mem_cons_self) h1 h2.trk hA
    exact ih (fun x hx => hq x (List.mem_cons_of_mem _ hx)) _ q
      (r.inv (fun a act => agree_step cfg hg _ (fun h => by cases h) a act) h2)

/-- **C06, first part (full statement).** For every sequence of user control commands, method-issued control
    commands (timed or not; an interpreter error during a run is allowed too), ticks with arbitrary
    increments and output changes, from the stopped state: System State, the control-state flags and the
    Run Id agree — Stopped exactly when no run is active; during a run Paused if paused, else Holding if
    holding, else Running, unless Restarting, which only occurs between the first and the second phase of a
    Restart; a run id exactly while a run is active. Holds after every operation (every prefix is a
    sequence). -/
theorem state_agrees (cfg : Cfg) (hg : cfg.guard = true) (outs : List Int) (ops : List Op)
    (hq : ∀ o ∈ ops, o.quiet) : Agree (abs (run cfg (init cfg outs) ops)) :=
  (run_quiet cfg hg ops hq _ (allReq_init cfg outs) (agree_init cfg outs)).2

/-- **C06, first part, for every operation sequence whatsoever** — errors injected at any time, also while no
    run is active (hardware read error, failed `inject_code` / `set_method`), ill-formed command arguments —
    once `set_error_state` leaves an idle engine Stopped (repair `Cfg.idleErr`,
    /verif/fixes/C06-error-while-idle-stays-stopped.diff). -/
theorem state_agrees_all (cfg : Cfg) (hg : cfg.guard = true) (hi : cfg.idleErr = true) (outs : List Int)
    (ops : List Op) : Agree (abs (run cfg (init cfg outs) ops)) :=
  (run_ref_err ops (init cfg outs)).inv (fun a act => agree_step cfg hg _ (fun _ => hi) a act)
    (agree_init cfg outs)

/-- For *every* operation sequence (errors injected at any time, ill-formed command arguments), with or
    without the repair: everything except "no run active ⇒ Stopped". -/
theorem state_agrees_weak (cfg : Cfg) (outs : List Int) (ops : List Op) :
    AgreeWeak (abs (run cfg (init cfg outs) ops)) :=
  (run_ref_err ops (init cfg outs)).inv (fun a act => agreeWeak_step cfg _ a act) (agree_init cfg outs).weak

/-- Validity of a user command, stated on what is reported: the System State and the `is_holding` flag of
    the control-state message. -/
def specValid (st : Sys) (isHolding : Bool) : Cmd → Bool
  | .start => st == .stopped
  | .stop | .restart => st == .running || st == .paused || st == .holding
  | .pause => st == .running || st == .holding
  | .unpause => st == .paused
  | .hold => st == .running || (st == .paused && !isHolding)
  | .unhold => st == .holding || (st == .paused && isHolding)

/-- **C06, second part.** In every state in which the reports agree (hence in every reachable state, by
    `state_agrees`) a user control command is accepted exactly when it is valid in the reported state at the
    time of the request; a rejected request changes nothing. -/
theorem accepted_iff_valid (cfg : Cfg) (s : State) (h : Agree (abs s)) (c : Cmd) :
    (step cfg s (.user c)).2 = .accepted ↔ specValid s.core.sys s.core.holding c = true := by
  have hv : (step cfg s (.user c)).2 = .accepted ↔ s.core.valid c = true := by
    by_cases hv : s.core.valid c = true <;> simp [step, hv]
  rw [hv]
  obtain ⟨h1, h2, _, _, _, _⟩ := h
  simp only [abs_core] at h1 h2
  cases hst : s.core.started
  · have hs := h1.mpr hst
    cases c <;> simp [Core.valid, specValid, hs]
  · have hns : s.core.sys ≠ .stopped := fun e => by rw [h1.mp e] at hst; cases hst
    by_cases hr : s.core.sys = .restarting
    · cases c <;> simp [Core.valid, specValid, hr]
    · have ht := h2 hst hr
      cases hp : s.core.paused <;> cases hh : s.core.holding <;>
        simp [table, hp, hh] at ht <;> cases c <;> simp [Core.valid, specValid, ht, hp, hh]

theorem rejected_changes_nothing (cfg : Cfg) (s : State) (c : Cmd)
    (h : (step cfg s (.user c)).2 ≠ .accepted) : (step cfg s (.user c)).1 = s := by
  by_cases hv : s.core.valid c = true <;> simp_all [step]

/-! ## Run ids -/

/-- Relative to a state `a0`: the id counter only grows, and the run id is either still the one of `a0` or
    one that was allocated afterwards. -/
def IdsAfter (a0 a : A) : Prop :=
  a0.core.nextRunId ≤ a.core.nextRunId ∧
  (a.core.runId = a0.core.runId ∨ ∀ r, a.core.runId = some r → a0.core.nextRunId ≤ r)

theorem setError_ids (cfg : Cfg) (c : Core) :
    (c.setError cfg).runId = c.runId ∧ (c.setError cfg).nextRunId = c.nextRunId := by
  unfold Core.setError; split
  · exact ⟨rfl, rfl⟩
  · split <;> exact ⟨rfl, rfl⟩

theorem pause_ids (cfg : Cfg) (c : Core) :
    (c.pause cfg).runId = c.runId ∧ (c.pause cfg).nextRunId = c.nextRunId := by
  unfold Core.pause; split <;> exact ⟨rfl, rfl⟩

theorem userRequest_ids (i : Nat) (c : Core) :
    (c.userRequest i).runId = c.runId ∧ (c.userRequest i).nextRunId = c.nextRunId := by
  unfold Core.userRequest; split <;> exact ⟨rfl, rfl⟩

theorem idsAfter_step (cfg : Cfg) (a0 a : A) (act : Act) (h : IdsAfter a0 a) :
    IdsAfter a0 (act.apply cfg a) := by
  obtain ⟨h1, h2⟩ := h
  cases act
  case startRun => exact ⟨Nat.le_succ_of_le h1, Or.inr (fun r hr => by simp [Act.apply, Core.startRun] at hr; omega)⟩
  case restartFinish =>
    exact ⟨Nat.le_succ_of_le h1, Or.inr (fun r hr => by simp [Act.apply, Core.restartFinish] at hr; omega)⟩
  case stopFinish =>
    refine ⟨?_, Or.inr (fun r hr => ?_)⟩
    · simp only [Act.apply, Core.stopFinish, Core.writeImage]; split <;> exact h1
    · simp only [Act.apply, Core.stopFinish, Core.writeImage] at hr; split at hr <;> cases hr
  case restartMid => exact ⟨h1, Or.inr (fun r hr => by simp [Act.apply, Core.restartMid] at hr)⟩
  case stopFinishC fx d =>
    refine ⟨?_, Or.inr (fun r hr => ?_)⟩
    · simp only [Act.apply, Core.stopFinish, Core.writeImage]; split <;> simpa using h1
    · simp only [Act.apply, Core.stopFinish, Core.writeImage] at hr; split at hr <;> cases hr
  case restartMidC fx =>
    exact ⟨by simpa [Act.apply, Core.restartMid] using h1,
      Or.inr (fun r hr => by simp [Act.apply, Core.restartMid] at hr)⟩
  case write => refine ⟨?_, ?_⟩ <;> simp only [Act.apply, Core.writeImage] <;> split <;> assumption
  case ev e =>
    cases e <;> refine ⟨?_, ?_⟩ <;> simp only [Act.apply, Core.event] <;>
      first | assumption | (split <;> assumption)
  case clock inc => refine ⟨?_, ?_⟩ <;> simp only [Act.apply, Core.clock] <;> split <;> assumption
  case error =>
    have f := setError_ids cfg a.core
    simp only [IdsAfter, Act.apply]; rw [f.1, f.2]; exact ⟨h1, h2⟩
  case pause =>
    have f := pause_ids cfg a.core
    simp only [IdsAfter, Act.apply]; rw [f.1, f.2]; exact ⟨h1, h2⟩
  case userReq i =>
    have f := userRequest_ids i a.core
    simp only [IdsAfter, Act.apply]; rw [f.1, f.2]; exact ⟨h1, h2⟩
  all_goals exact ⟨h1, h2⟩

/-- **C06, third part: every run gets a fresh run id.** If the run id after `ops₁ ++ ops₂` differs from
    the run id `r₁` after `ops₁`, it is a strictly larger (later allocated) id: an id is never handed out
    twice, whatever happens in between (any operation sequence, errors included, with or without repair).
    That a run id is present exactly while a run is active is `Agree.runid` / `AgreeWeak.runid`. -/
theorem runid_fresh (cfg : Cfg) (outs : List Int) (ops₁ ops₂ : List Op) (r₁ r₂ : Nat)
    (h1 : (run cfg (init cfg outs) ops₁).core.runId = some r₁)
    (h2 : (run cfg (init cfg outs) (ops₁ ++ ops₂)).core.runId = some r₂) : r₂ = r₁ ∨ r₁ < r₂ := by
  have hw := state_agrees_weak cfg outs ops₁
  have hlt : r₁ < (run cfg (init cfg outs) ops₁).core.nextRunId := hw.fresh r₁ h1
  have hrun : run cfg (init cfg outs) (ops₁ ++ ops₂) = run cfg (run cfg (init cfg outs) ops₁) ops₂ := by
    simp [run, List.foldl_append]
  rw [hrun] at h2
  have hr := (run_ref_err (cfg := cfg) ops₂ (run cfg (init cfg outs) ops₁)).inv
    (P := IdsAfter (abs (run cfg (init cfg outs) ops₁)))
    (fun a act h _ => idsAfter_step cfg _ a act h) ⟨Nat.le_refl _, Or.inl rfl⟩
  rcases hr.2 with h | h
  · left
    have : some r₂ = some r₁ := by rw [← h2, ← h1]; exact h
    exact Option.some.inj this
  · right
    exact Nat.lt_of_lt_of_le hlt (h r₂ h2)

/-- **Every run gets a new run id.** If a run with id `r₁` was active, then no run was active (the id was
    cleared), and later a run with id `r₂` is active, then `r₁ < r₂`: ids are allocated in strictly increasing
    order and a run never gets the id of an earlier one (any operation sequence, with or without repairs). -/
theorem new_run_new_id (cfg : Cfg) (outs : List Int) (ops₁ ops₂ ops₃ : List Op) (r₁ r₂ : Nat)
    (h1 : (run cfg (init cfg outs) ops₁).core.runId = some r₁)
    (h2 : (run cfg (init cfg outs) (ops₁ ++ ops₂)).core.runId = none)
    (h3 : (run cfg (init cfg outs) (ops₁ ++ ops₂ ++ ops₃)).core.runId = some r₂) : r₁ < r₂ := by
  have hlt : r₁ < (run cfg (init cfg outs) ops₁).core.nextRunId := (state_agrees_weak cfg outs ops₁).fresh r₁ h1
  have e2 : run cfg (init cfg outs) (ops₁ ++ ops₂) = run cfg (run cfg (init cfg outs) ops₁) ops₂ := by
    simp [run, List.foldl_append]
  have e3 : run cfg (init cfg outs) (ops₁ ++ ops₂ ++ ops₃) =
      run cfg (run cfg (init cfg outs) (ops₁ ++ ops₂)) ops₃ := by
    simp [run, List.foldl_append]
  have m12 := (run_ref_err (cfg := cfg) ops₂ (run cfg (init cfg outs) ops₁)).inv
    (P := IdsAfter (abs (run cfg (init cfg outs) ops₁)))
    (fun a act h _ => idsAfter_step cfg _ a act h) ⟨Nat.le_refl _, Or.inl rfl⟩
  rw [← e2] at m12
  have m23 := (run_ref_err (cfg := cfg) ops₃ (run cfg (init cfg outs) (ops₁ ++ ops₂))).inv
    (P := IdsAfter (abs (run cfg (init cfg outs) (ops₁ ++ ops₂))))
    (fun a act h _ => idsAfter_step cfg _ a act h) ⟨Nat.le_refl _, Or.inl rfl⟩
  rw [← e3] at m23
  rcases m23.2 with h | h
  · simp only [abs_core] at h
    rw [h3, h2] at h; cases h
  · have := h r₂ h3
    have := m12.1
    simp only [abs_core] at *
    omega

/-! ## The code as it is: witness; non-vacuity -/

def safes3 : List (Option Int) := [some 0, some 1, none]
def tk : Op := .tick { adv := 8, inc := 8 }

/-- Start, two ticks, Stop, one tick (Stop is half done), Pause and Stop requested, one tick. -/
def witness : List Op :=
  [.user .start, tk, tk, .user .stop, tk, .user .pause, .user .stop, tk]

/-- **Regression witness.** Without the repair, user commands alone reach a state in which no run is active,
    the Run Id is cleared, yet System State is Paused (and Start is rejected): the first clause of C06
    fails for the code as it is. -/
theorem asIs_counterexample :
    let s := run (asIs safes3) (init (asIs safes3) [5, 7, 9]) witness
    s.core.started = false ∧ s.core.runId = none ∧ s.core.sys = .paused ∧ s.core.paused = true ∧
      (step (asIs safes3) s (.user .start)).2 = .rejected := by
  decide +kernel

/-- With the repair the same sequence ends Stopped. -/
example :
    let s := run (repaired safes3) (init (repaired safes3) [5, 7, 9]) witness
    s.core.started = false ∧ s.core.sys = .stopped ∧ s.core.paused = false := by
  decide +kernel

/-- `witness` is a sequence of the kind the theorem quantifies over. -/
example : ∀ o ∈ witness, o.quiet := by
  intro o ho
  simp only [witness, List.mem_cons, List.not_mem_nil, or_false] at ho
  rcases ho with h | h | h | h | h | h | h | h <;> subst h <;> simp [Op.quiet, tk, TickIn.quiet]

/-- Non-vacuity: a quiet sequence with method-issued timed Pause and Hold reaches a state that is paused
    *and* holding during a run (System State Paused), and one that is Restarting. -/
example :
    let ops : List Op := [.user .start, tk,
      .tick { adv := 8, inc := 8, items := [.ev .blockStart, .cmd .pause (.dur 80)] },
      .user .hold, tk]
    (∀ o ∈ ops, o.quiet) ∧
    (let s := run (repaired safes3) (init (repaired safes3) [5, 7, 9]) ops
     s.core.started = true ∧ s.core.paused = true ∧ s.core.holding = true ∧ s.core.sys = .paused) := by
  refine ⟨?_, by decide +kernel⟩
  intro o ho
  simp only [List.mem_cons, List.not_mem_nil, or_false] at ho
  rcases ho with h | h | h | h | h <;> subst h <;> simp [Op.quiet, tk, TickIn.quiet, Item.quiet, argValid]

example :
    let s := run (repaired safes3) (init (repaired safes3) [5, 7, 9]) [.user .start, tk, .user .restart, tk]
    s.core.sys = .restarting ∧ (abs s).rphase = 1 := by
  decide +kernel

/-- Non-vacuity of `runid_fresh`: Start gives run id 0, a completed Restart gives run id 1. -/
example :
    (run (repaired safes3) (init (repaired safes3) [5, 7, 9]) [.user .start, tk]).core.runId = some 0 ∧
    (run (repaired safes3) (init (repaired safes3) [5, 7, 9])
      ([.user .start, tk] ++ [.user .restart, tk, tk, tk])).core.runId = some 1 := by
  decide +kernel

/-- Non-vacuity of `accepted_iff_valid`: while Paused and not holding, Hold is accepted and Pause is not. -/
example :
    let s := run (repaired safes3) (init (repaired safes3) [5, 7, 9]) [.user .start, tk, .user .pause, tk]
    s.core.sys = .paused ∧ (step (repaired safes3) s (.user .hold)).2 = .accepted ∧
      (step (repaired safes3) s (.user .pause)).2 = .rejected := by
  decide +kernel

/-- **Recorded finding (code as it is).** An error while no run is active — here a hardware read error in a
    tick of the idle engine — sets System State Paused and the paused flag with no run and no run id, and Start
    is then rejected; with the repair `idleErr` the engine stays Stopped and Start is accepted. -/
theorem asIs_error_while_idle :
    let rf : Op := .tick { adv := 8, inc := 8, readFail := true }
    let s := run (repaired8 safes3) (init (repaired8 safes3) [5, 7, 9]) [rf]
    let s' := run (repaired10 safes3) (init (repaired10 safes3) [5, 7, 9]) [rf]
    s.core.started = false ∧ s.core.sys = .paused ∧ s.core.paused = true ∧
      (step (repaired8 safes3) s (.user .start)).2 = .rejected ∧
    s'.core.sys = .stopped ∧ s'.core.paused = false ∧ s'.core.methodErr = true ∧
      (step (repaired10 safes3) s' (.user .start)).2 = .accepted := by
  decide +kernel

/-- Non-vacuity of `new_run_new_id`. -/
example :
    (run (repaired safes3) (init (repaired safes3) [5, 7, 9]) [.user .start, tk]).core.runId = some 0 ∧
    (run (repaired safes3) (init (repaired safes3) [5, 7, 9])
      ([.user .start, tk] ++ [.user .stop, tk, tk])).core.runId = none ∧
    (run (repaired safes3) (init (repaired safes3) [5, 7, 9])
      ([.user .start, tk] ++ [.user .stop, tk, tk] ++ [.user .start, tk])).core.runId = some 1 := by
  decide +kernel

end OPM.C06
