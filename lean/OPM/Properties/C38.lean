import OPM.Model.EngineId
import OPM.Lemmas.EngineId
/-!
# C38 Distinct engines never share an engine id

"Engines with different computer-name and UOD-name pairs always receive different engine ids,
and a registration cannot take over the id of an engine that is currently connected."
-/
namespace OPM.C38
open OPM.EngineId

/-- Full statement, byte level: the id determines the (computer, uod) pair. -/
theorem engineIdBytes_injective (c u c' u' : List UInt8)
    (h : engineIdBytes c u = engineIdBytes c' u') : c = c' ∧ u = u' := by
  unfold engineIdBytes at h
  rw [escSep_quote, escSep_quote] at h
  obtain ⟨h1, h2⟩ := split_at_first '_' _ _ _ _ (noSep_quoteWith c) (noSep_quoteWith c') h
  exact ⟨quoteWith_injective safeNoSep (by decide) h1, quoteWith_injective safeQuote (by decide) h2⟩

/-- Full statement on strings: different (computer name, UOD name) pairs get different ids. -/
theorem engineId_injective (c u c' u' : String)
    (h : engineId c u = engineId c' u') : c = c' ∧ u = u' := by
  unfold engineId at h
  have hb := engineIdBytes_injective _ _ _ _ (String.ofList_injective h)
  have toStr : ∀ a b : String, a.toUTF8.data.toList = b.toUTF8.data.toList → a = b := by
    intro a b hab
    apply String.toByteArray_inj.mp
    apply ByteArray.ext
    apply Array.ext'
    simpa [String.toUTF8_eq_toByteArray] using hab
  exact ⟨toStr _ _ hb.1, toStr _ _ hb.2⟩

theorem distinct_pairs_distinct_ids (c u c' u' : String) (h : (c, u) ≠ (c', u')) :
    engineId c u ≠ engineId c' u' := by
  intro e
  obtain ⟨h1, h2⟩ := engineId_injective _ _ _ _ e
  exact h (by rw [h1, h2])

/-- Non-vacuity / regression witness: the id format before the fix was not injective. -/
theorem old_format_collides :
    engineIdOld "a_b" "c" = engineIdOld "a" "b_c" ∧ ("a_b", "c") ≠ ("a", "b_c") := by
  decide +kernel

/-- …and the current format separates exactly that pair. -/
example : engineId "a_b" "c" ≠ engineId "a" "b_c" := by decide +kernel

/-- No take-over: a registration whose id belongs to a connected engine is never accepted. -/
theorem no_takeover (connected : List String) (m : RegMsg) (id : String)
    (h : register connected m = .ok id) : id ∉ connected := by
  unfold register at h
  split at h
  · cases h
  · simp only at h
    split at h
    · cases h
    · rename_i hc
      split at h
      · cases h
      · cases h
        simpa using hc

/-- A reply never carries an id other than the one computed from the message. -/
theorem reply_id (connected : List String) (m : RegMsg) (id : String)
    (h : register connected m = .ok id) : id = engineId m.computer m.uod := by
  unfold register at h
  split at h
  · cases h
  · simp only at h
    split at h
    · cases h
    · split at h
      · cases h
      · cases h; rfl

/-- Two accepted registrations with different name pairs get different ids (any connected sets). -/
theorem accepted_distinct (k₁ k₂ : List String) (m₁ m₂ : RegMsg) (i₁ i₂ : String)
    (h₁ : register k₁ m₁ = .ok i₁) (h₂ : register k₂ m₂ = .ok i₂)
    (hne : (m₁.computer, m₁.uod) ≠ (m₂.computer, m₂.uod)) : i₁ ≠ i₂ := by
  rw [reply_id _ _ _ h₁, reply_id _ _ _ h₂]
  exact distinct_pairs_distinct_ids _ _ _ _ hne

example : register ["x_y"] ⟨"x", "y", true, true, false⟩ = .alreadyConnected "x_y" := by
  decide +kernel
example : register [] ⟨"x", "y", true, true, false⟩ = .ok "x_y" := by decide +kernel

/-! ## No take-over, over histories of the websocket table

`no_takeover` above is the guard of one registration against a given set of connected ids. The clause of
the property speaks about what happens over time: while an engine is connected (its id maps to its
channel in `AggregatorDispatcher._engine_id_channel_map`), no registration for that id is accepted and
no other websocket can become the owner of the id — whatever else is registered, connected or
disconnected in between. -/

def KeysNodup (s : Conns) : Prop := s.ids.Nodup

/-- `id` is connected through channel `ch`. -/
def Owns (s : Conns) (id : String) (ch : Nat) : Prop := (id, ch) ∈ s.map

theorem owner_unique : ∀ (l : List (String × Nat)), (l.map (·.1)).Nodup →
    ∀ id a b, (id, a) ∈ l → (id, b) ∈ l → a = b
  | [], _, _, _, _, h, _ => by cases h
  | (k, v) :: l, hn, id, a, b, ha, hb => by
    simp only [List.map_cons, List.nodup_cons, List.mem_map, not_exists, not_and] at hn
    simp only [List.mem_cons, Prod.mk.injEq] at ha hb
    rcases ha with ⟨rfl, rfl⟩ | ha <;> rcases hb with ⟨h1, rfl⟩ | hb
    · rfl
    · exact absurd rfl (hn.1 (id, b) hb)
    · exact absurd h1.symm (fun e => hn.1 (id, a) ha (e ▸ rfl))
    · exact owner_unique l hn.2 id a b ha hb

theorem keysNodup_init : KeysNodup {} := List.nodup_nil

theorem keysNodup_step (s : Conns) (op : COp) (h : KeysNodup s) : KeysNodup (cstep s op).1 := by
  unfold KeysNodup Conns.ids at *
  cases op with
  | register m => exact h
  | connect ch id =>
    cases id with
    | none => exact h
    | some id =>
      simp only [cstep]
      split
      · exact h
      · rename_i hc
        simp only [List.map_append, List.map_cons, List.map_nil]
        refine List.nodup_append.mpr ⟨h, (by simp), ?_⟩
        intro a ha b hb
        simp only [List.mem_singleton] at hb
        subst hb
        intro hab
        subst hab
        exact hc (by simpa [Conns.ids] using ha)
  | disconnect ch =>
    simp only [cstep]
    split
    · exact (List.filter_sublist.map _).nodup h
    · exact h

theorem keysNodup_run (s : Conns) (ops : List COp) (h : KeysNodup s) : KeysNodup (crun s ops) := by
  induction ops generalizing s with
  | nil => exact h
  | cons o os ih => exact ih _ (keysNodup_step s o h)

/-- One event: unless the owning channel itself disconnects, the id stays with its channel. -/
theorem owner_kept_step (s : Conns) (op : COp) (id : String) (ch : Nat)
    (hn : KeysNodup s) (ho : Owns s id ch) (hop : ∀ c, op = .disconnect c → c ≠ ch) :
    Owns (cstep s op).1 id ch := by
  unfold Owns at *
  cases op with
  | register m => exact ho
  | connect c i =>
    cases i with
    | none => exact ho
    | some i =>
      simp only [cstep]
      split
      · exact ho
      · exact List.mem_append_left _ ho
  | disconnect c =>
    simp only [cstep]
    split
    · rename_i e he
      have hmem := List.mem_of_find?_eq_some he
      have hval : e.2 = c := by simpa using List.find?_some he
      refine List.mem_filter.mpr ⟨ho, ?_⟩
      simp only [bne_iff_ne, ne_eq]
      intro hid
      have : (id, e.2) ∈ s.map := by rw [hid]; exact hmem
      have := owner_unique s.map hn id ch e.2 ho this
      exact hop c rfl (by rw [← hval, this])
    · exact ho

/-- While `id` is owned, a registration for it is refused and a second websocket reporting it is closed
    without touching the table. -/
theorem owned_id_refused (s : Conns) (id : String) (ch : Nat) (ho : Owns s id ch) :
    (∀ m, m.secretOk = true → engineId m.computer m.uod = id →
        (cstep s (.register m)).2 = .reg (.alreadyConnected id)) ∧
    (∀ c, cstep s (.connect c (some id)) = (s, .closed)) := by
  have hc : s.ids.contains id = true := by
    simp only [List.contains_iff_mem, Conns.ids, List.mem_map]
    exact ⟨(id, ch), ho, rfl⟩
  constructor
  · intro m hs hid
    simp only [cstep, register, hs, Bool.not_true, Bool.false_eq_true, if_false, hid, hc, if_true]
  · intro c
    simp only [cstep, hc, if_true]

/-- **No take-over, all histories.** From any table reachable from the empty one: if `id` is connected
    through `ch`, then after any sequence of registrations, connects and disconnects that does not
    contain the disconnect of `ch` itself, `id` is still connected through `ch` (and through nothing else),
    so by `owned_id_refused` every registration for it in between was refused. -/
theorem no_takeover_history (s : Conns) (ops : List COp) (id : String) (ch : Nat)
    (hn : KeysNodup s) (ho : Owns s id ch) (hops : ∀ o ∈ ops, ∀ c, o = .disconnect c → c ≠ ch) :
    Owns (crun s ops) id ch ∧ ∀ ch', Owns (crun s ops) id ch' → ch' = ch := by
  induction ops generalizing s with
  | nil => exact ⟨ho, fun ch' h' => owner_unique s.map hn id ch' ch h' ho⟩
  | cons o os ih =>
    exact ih _ (keysNodup_step s o hn)
      (owner_kept_step s o id ch hn ho (hops o (List.mem_cons_self ..)))
      (fun o' ho' => hops o' (List.mem_cons_of_mem _ ho'))

/-- Every intermediate registration for an owned id is refused (the history form of `no_takeover`). -/
theorem registrations_refused_while_connected (s : Conns) (pre : List COp) (m : RegMsg) (id : String) (ch : Nat)
    (hn : KeysNodup s) (ho : Owns s id ch) (hops : ∀ o ∈ pre, ∀ c, o = .disconnect c → c ≠ ch)
    (hs : m.secretOk = true) (hid : engineId m.computer m.uod = id) :
    (cstep (crun s pre) (.register m)).2 = .reg (.alreadyConnected id) :=
  (owned_id_refused _ id ch (no_takeover_history s pre id ch hn ho hops).1).1 m hs hid

/-- Non-vacuity: connect x_y on channel 1; a second websocket claiming x_y is closed, a registration for
    (x, y) is refused, another engine comes and goes; x_y is still with channel 1. After channel 1
    disconnects the id is free again. -/
example :
    let s := crun {} [.connect 1 (some "x_y"), .connect 2 (some "x_y"), .register ⟨"x", "y", true, true, false⟩,
                      .connect 3 (some "p_q"), .disconnect 3, .disconnect 2]
    s.map = [("x_y", 1)] ∧
    (cstep s (.register ⟨"x", "y", true, true, false⟩)).2 = .reg (.alreadyConnected "x_y") ∧
    (cstep (cstep s (.disconnect 1)).1 (.register ⟨"x", "y", true, true, false⟩)).2 = .reg (.ok "x_y") := by
  decide +kernel

end OPM.C38
