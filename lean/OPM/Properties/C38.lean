import OPM.Model.EngineId
import OPM.Lemmas.EngineId
/-!
# C38 Distinct engines never share an engine id

"Engines with different computer-name and UOD-name pairs always receive different engine ids,
and a registration cannot take over the id of an engine that is currently connected."
-/
namespace OPM.C38
open OPM.EngineId

/-- Full statement, byte level: the id determines the (computer, uod) pair. -/
theorem engineIdBytes_injective (c u c' u' : List UInt8)
    (h : engineIdBytes c u = engineIdBytes c' u') : c = c' ∧ u = u' := by
  unfold engineIdBytes at h
  rw [escSep_quote, escSep_quote] at h
  obtain ⟨h1, h2⟩ := split_at_first '_' _ _ _ _ (noSep_quoteWith c) (noSep_quoteWith c') h
  exact ⟨quoteWith_injective safeNoSep (by decide) h1, quoteWith_injective safeQuote (by decide) h2⟩

/-- Full statement on strings: different (computer name, UOD name) pairs get different ids. -/
theorem engineId_injective (c u c' u' : String)
    (h : engineId c u = engineId c' u') : c = c' ∧ u = u' := by
  unfold engineId at h
  have hb := engineIdBytes_injective _ _ _ _ (String.ofList_injective h)
  have toStr : ∀ a b : String, a.toUTF8.data.toList = b.toUTF8.data.toList → a = b := by
    intro a b hab
    apply String.toByteArray_inj.mp
    apply ByteArray.ext
    apply Array.ext'
    simpa [String.toUTF8_eq_toByteArray] using hab
  exact ⟨toStr _ _ hb.1, toStr _ _ hb.2⟩

theorem distinct_pairs_distinct_ids (c u c' u' : String) (h : (c, u) ≠ (c', u')) :
    engineId c u ≠ engineId c' u' := by
  intro e
  obtain ⟨h1, h2⟩ := engineId_injective _ _ _ _ e
  exact h (by rw [h1, h2])

/-- Non-vacuity / regression witness: the id format before the fix was not injective. -/
theorem old_format_collides :
    engineIdOld "a_b" "c" = engineIdOld "a" "b_c" ∧ ("a_b", "c") ≠ ("a", "b_c") := by
  decide +kernel

/-- …and the current format separates exactly that pair. -/
example : engineId "a_b" "c" ≠ engineId "a" "b_c" := by decide +kernel

/-- No take-over: a registration whose id belongs to a connected engine is never accepted. -/
theorem no_takeover (connected : List String) (m : RegMsg) (id : String)
    (h : register connected m = .ok id) : id ∉ connected := by
  unfold register at h
  split at h
  · cases h
  · simp only at h
    split at h
    · cases h
    · rename_i hc
      split at h
      · cases h
      · cases h
        simpa using hc

/-- A reply never carries an id other than the one computed from the message. -/
theorem reply_id (connected : List String) (m : RegMsg) (id : String)
    (h : register connected m = .ok id) : id = engineId m.computer m.uod := by
  unfold register at h
  split at h
  · cases h
  · simp only at h
    split at h
    · cases h
    · split at h
      · cases h
      · cases h; rfl

/-- Two accepted registrations with different name pairs get different ids (any connected sets). -/
theorem accepted_distinct (k₁ k₂ : List String) (m₁ m₂ : RegMsg) (i₁ i₂ : String)
    (h₁ : register k₁ m₁ = .ok i₁) (h₂ : register k₂ m₂ = .ok i₂)
    (hne : (m₁.computer, m₁.uod) ≠ (m₂.computer, m₂.uod)) : i₁ ≠ i₂ := by
  rw [reply_id _ _ _ h₁, reply_id _ _ _ h₂]
  exact distinct_pairs_distinct_ids _ _ _ _ hne

example : register ["x_y"] ⟨"x", "y", true, true, false⟩ = .alreadyConnected "x_y" := by
  decide +kernel
example : register [] ⟨"x", "y", true, true, false⟩ = .ok "x_y" := by decide +kernel

end OPM.C38
