import OPM.Model.RunState
import OPM.Lemmas.RunState
import OPM.Properties.C06
/-!
# C07 Method clocks advance only while running

"Process Time and Run Time are zero when a run starts and never decrease during the run. Process Time
advances only over ticks in which the system was Running, and Run Time only while a run is active. Block
Time and Scope Time, which drive time thresholds, advance only while Running: not while Paused and not
while Holding."

A tick of the model is `tickPost (tickClock inc (tickPre cfg s t))`: read phase and interpreter phase, then
`update_calculated_tags` (the only place where clocks are incremented), then the command phase and the
write phase.  `u = (tickPre cfg s t).core` is the engine state at the clock update.

The statements are about model M1 with the repair `Cfg.clocks`
(/verif/fixes/C07-clocks-follow-system-state.diff) and hold for *every* state `s` and every tick input
(arbitrary increments, errors, commands in flight; with or without the other two repairs) — hence at every
tick of every operation sequence.  The `asIs_*` theorems show the three ways the code as it is fails.
-/
namespace OPM.C07
open OPM.RunState

/-- by how much the clocks that count Running time advance in a tick whose clock update sees `c` -/
def advance (c : Core) (inc : Int) : Int := if c.started = true ∧ c.sys = .running then inc else 0

/-! ## The clock update itself -/

theorem clock_pt (cfg : Cfg) (c : Core) (inc : Int) : (c.clock cfg inc).pt = c.pt + advance c inc := by
  unfold Core.clock advance
  cases hs : c.started <;> by_cases hr : c.sys = .running <;> simp [hs, hr]

theorem clock_rt (cfg : Cfg) (c : Core) (inc : Int) :
    (c.clock cfg inc).rt =
      c.rt + (if c.started = true ∧ c.sys ≠ .stopped ∧ c.sys ≠ .restarting then inc else 0) := by
  unfold Core.clock
  cases hs : c.started <;> by_cases hr : (c.sys ≠ .stopped ∧ c.sys ≠ .restarting) <;> simp [hs, hr]

/-- **Every** Block Time / Scope Time timer (all open blocks, all active scopes) advances by exactly the
    increment when the clock update sees System State Running during a run, and not at all otherwise. -/
theorem clock_timers (cfg : Cfg) (hc : cfg.clocks = true) (c : Core) (inc : Int) :
    (c.clock cfg inc).blocks = c.blocks.map (· + advance c inc) ∧
    (c.clock cfg inc).scopeT = c.scopeT.map (fun kv => (kv.1, kv.2 + advance c inc)) ∧
    (c.clock cfg inc).scopeS = c.scopeS := by
  unfold Core.clock advance
  cases hs : c.started
  · simp
  · by_cases hr : c.sys = .running <;> simp [hc, hr]

theorem clock_other (cfg : Cfg) (c : Core) (inc : Int) :
    (c.clock cfg inc).runId = c.runId ∧ (c.clock cfg inc).nextRunId = c.nextRunId ∧
    (c.clock cfg inc).started = c.started ∧ (c.clock cfg inc).sys = c.sys := by
  unfold Core.clock; split <;> simp

/-! ## Read phase and interpreter phase -/

/-- `set_error_state` touches no clock, no run id, not `started`; System State becomes Paused (or stays, when
    no run is active and the error-while-idle repair is in) -/
theorem setError_frame (cfg : Cfg) (c : Core) :
    (c.setError cfg).pt = c.pt ∧ (c.setError cfg).rt = c.rt ∧ (c.setError cfg).runId = c.runId ∧
    (c.setError cfg).nextRunId = c.nextRunId ∧ (c.setError cfg).started = c.started ∧
    ((c.setError cfg).sys = c.sys ∨ (c.setError cfg).sys = .paused) ∧ (c.setError cfg).blocks = c.blocks ∧
    (c.setError cfg).scopeT = c.scopeT ∧ (c.setError cfg).scopeS = c.scopeS := by
  unfold Core.setError; split
  · simp
  · split <;> simp

/-- the Pause body and the bookkeeping of a user request touch no clock and no run id -/
theorem pause_frame (cfg : Cfg) (c : Core) :
    (c.pause cfg).pt = c.pt ∧ (c.pause cfg).rt = c.rt ∧ (c.pause cfg).runId = c.runId ∧
    (c.pause cfg).nextRunId = c.nextRunId ∧ (c.pause cfg).blocks = c.blocks ∧
    (c.pause cfg).scopeT = c.scopeT ∧ (c.pause cfg).scopeS = c.scopeS := by
  unfold Core.pause; split <;> simp

theorem userRequest_frame (i : Nat) (c : Core) :
    (c.userRequest i).pt = c.pt ∧ (c.userRequest i).rt = c.rt ∧ (c.userRequest i).runId = c.runId ∧
    (c.userRequest i).nextRunId = c.nextRunId ∧ (c.userRequest i).blocks = c.blocks ∧
    (c.userRequest i).scopeT = c.scopeT ∧ (c.userRequest i).scopeS = c.scopeS := by
  unfold Core.userRequest; split <;> simp

theorem interpItems_keep (items : List Item) (s : State) :
    let c := (items.foldl interpItem s).core
    c.pt = s.core.pt ∧ c.rt = s.core.rt ∧ c.runId = s.core.runId ∧ c.nextRunId = s.core.nextRunId ∧
      c.started = s.core.started ∧ c.sys = s.core.sys := by
  induction items generalizing s with
  | nil => simp
  | cons it items ih =>
    simp only [List.foldl_cons]
    have h := ih (interpItem s it)
    have h0 : let c := (interpItem s it).core
        c.pt = s.core.pt ∧ c.rt = s.core.rt ∧ c.runId = s.core.runId ∧ c.nextRunId = s.core.nextRunId ∧
        c.started = s.core.started ∧ c.sys = s.core.sys := by
      cases it with
      | ev e => cases e <;> simp [interpItem, Core.event] <;> split <;> simp
      | cmd c a => simp [interpItem, enqueue]
    simp only [] at h h0 ⊢
    obtain ⟨a1, a2, a3, a4, a5, a6⟩ := h
    obtain ⟨b1, b2, b3, b4, b5, b6⟩ := h0
    exact ⟨a1.trans b1, a2.trans b2, a3.trans b3, a4.trans b4, a5.trans b5, a6.trans b6⟩

/-- items that are not block/scope events -/
def noEv : Item → Bool
  | .ev _ => false
  | .cmd _ _ => true

theorem interpItems_timers (items : List Item) (s : State) (h : ∀ it ∈ items, noEv it = true) :
    let c := (items.foldl interpItem s).core
    c.blocks = s.core.blocks ∧ c.scopeT = s.core.scopeT ∧ c.scopeS = s.core.scopeS := by
  induction items generalizing s with
  | nil => simp
  | cons it items ih =>
    simp only [List.foldl_cons]
    have h1 := ih (interpItem s it) (fun x hx => h x (List.mem_cons_of_mem _ hx))
    have h0 : (interpItem s it).core = s.core := by
      cases it with
      | ev e => have := h _ List.mem_cons_self; simp [noEv] at this
      | cmd c a => simp [interpItem, enqueue]
    simp only [] at h1 ⊢
    rw [h0] at h1
    exact h1

/-- Up to the clock update a tick changes no clock, no run id, not `started`; System State stays or
    becomes Paused (an error in the read or interpreter phase). -/
theorem tickPre_keeps (cfg : Cfg) (s : State) (t : TickIn) :
    let u := (tickPre cfg s t).core
    u.pt = s.core.pt ∧ u.rt = s.core.rt ∧ u.runId = s.core.runId ∧ u.nextRunId = s.core.nextRunId ∧
      u.started = s.core.started ∧ (u.sys = s.core.sys ∨ u.sys = .paused) := by
  unfold tickPre
  simp only []
  have key : ∀ s1 : State,
      (s1.core.pt = s.core.pt ∧ s1.core.rt = s.core.rt ∧ s1.core.runId = s.core.runId ∧
        s1.core.nextRunId = s.core.nextRunId ∧ s1.core.started = s.core.started ∧
        (s1.core.sys = s.core.sys ∨ s1.core.sys = .paused)) →
      let u := (if s1.core.gate = true then
          (let s2 := t.items.foldl interpItem s1
           let s3 := if t.interpFail = true then { s2 with core := s2.core.setError cfg } else s2
           { s3 with lastInterp := true })
        else { s1 with lastInterp := false,
                       gateViolation := s1.gateViolation || !t.items.isEmpty || t.interpFail }).core
      u.pt = s.core.pt ∧ u.rt = s.core.rt ∧ u.runId = s.core.runId ∧ u.nextRunId = s.core.nextRunId ∧
        u.started = s.core.started ∧ (u.sys = s.core.sys ∨ u.sys = .paused) := by
    intro s1 ⟨a1, a2, a3, a4, a5, a6⟩
    simp only []
    split
    · have h := interpItems_keep t.items s1
      simp only [] at h
      obtain ⟨b1, b2, b3, b4, b5, b6⟩ := h
      split
      · have f := setError_frame cfg (t.items.foldl interpItem s1).core
        refine ⟨(f.1.trans b1).trans a1, (f.2.1.trans b2).trans a2, (f.2.2.1.trans b3).trans a3,
          (f.2.2.2.1.trans b4).trans a4, (f.2.2.2.2.1.trans b5).trans a5, ?_⟩
        rcases f.2.2.2.2.2.1 with h | h
        · rw [h, b6]; exact a6
        · exact Or.inr h
      · exact ⟨b1.trans a1, b2.trans a2, b3.trans a3, b4.trans a4, b5.trans a5, by rw [b6]; exact a6⟩
    · exact ⟨a1, a2, a3, a4, a5, a6⟩
  split
  · have f := setError_frame cfg s.core
    exact key _ ⟨f.1, f.2.1, f.2.2.1, f.2.2.2.1, f.2.2.2.2.1, f.2.2.2.2.2.1⟩
  · exact key _ ⟨rfl, rfl, rfl, rfl, rfl, Or.inl rfl⟩

theorem tickPre_timers (cfg : Cfg) (s : State) (t : TickIn) (h : ∀ it ∈ t.items, noEv it = true) :
    let u := (tickPre cfg s t).core
    u.blocks = s.core.blocks ∧ u.scopeT = s.core.scopeT ∧ u.scopeS = s.core.scopeS := by
  unfold tickPre
  simp only []
  have key : ∀ s1 : State,
      (s1.core.blocks = s.core.blocks ∧ s1.core.scopeT = s.core.scopeT ∧ s1.core.scopeS = s.core.scopeS) →
      let u := (if s1.core.gate = true then
          (let s2 := t.items.foldl interpItem s1
           let s3 := if t.interpFail = true then { s2 with core := s2.core.setError cfg } else s2
           { s3 with lastInterp := true })
        else { s1 with lastInterp := false,
                       gateViolation := s1.gateViolation || !t.items.isEmpty || t.interpFail }).core
      u.blocks = s.core.blocks ∧ u.scopeT = s.core.scopeT ∧ u.scopeS = s.core.scopeS := by
    intro s1 ⟨a1, a2, a3⟩
    simp only []
    split
    · have hh := interpItems_timers t.items s1 h
      simp only [] at hh
      obtain ⟨b1, b2, b3⟩ := hh
      split
      · have f := setError_frame cfg (t.items.foldl interpItem s1).core
        exact ⟨(f.2.2.2.2.2.2.1.trans b1).trans a1, (f.2.2.2.2.2.2.2.1.trans b2).trans a2,
          (f.2.2.2.2.2.2.2.2.trans b3).trans a3⟩
      · exact ⟨b1.trans a1, b2.trans a2, b3.trans a3⟩
    · exact ⟨a1, a2, a3⟩
  split
  · have f := setError_frame cfg s.core
    exact key _ ⟨f.2.2.2.2.2.2.1, f.2.2.2.2.2.2.2.1, f.2.2.2.2.2.2.2.2⟩
  · exact key _ ⟨rfl, rfl, rfl⟩

/-! ## Command phase and write phase: clocks are only ever reset, never advanced -/

/-- the scope timers and the scope stack are as they were right after the clock update, or were cleared by a run
    start (`Cfg.scopeReset`) -/
def ScopeKept (u a : A) : Prop :=
  (a.core.scopeT = u.core.scopeT ∧ a.core.scopeS = u.core.scopeS) ∨ (a.core.scopeT = [] ∧ a.core.scopeS = [])

theorem ScopeKept.of_eq {u a a' : A} (h : ScopeKept u a) (hT : a'.core.scopeT = a.core.scopeT)
    (hS : a'.core.scopeS = a.core.scopeS) : ScopeKept u a' := by
  unfold ScopeKept; rw [hT, hS]; exact h

/-- relation between the state `u` right after the clock update and a later state of the same tick -/
structure Post (u a : A) : Prop where
  pt : a.core.pt = u.core.pt ∨ a.core.pt = 0
  rt : a.core.rt = u.core.rt ∨ a.core.rt = 0
  blocks : a.core.blocks = u.core.blocks ∨ a.core.blocks = []
  scope : ScopeKept u a

theorem post_step (cfg : Cfg) (pm : Perm) (hk : pm.clk = false) (hv : pm.ev = false) (u a : A) (act : Act)
    (h : Post u a) (hen : act.enabled cfg pm a) : Post u (act.apply cfg a) := by
  obtain ⟨h1, h2, h3, h4⟩ := h
  cases act
  case startRun =>
    refine ⟨Or.inr rfl, Or.inr rfl, Or.inr rfl, ?_⟩
    by_cases hs : cfg.scopeReset = true
    · exact Or.inr ⟨by simp [Act.apply, Core.startRun, hs], by simp [Act.apply, Core.startRun, hs]⟩
    · exact h4.of_eq (by simp [Act.apply, Core.startRun, hs]) (by simp [Act.apply, Core.startRun, hs])
  case restartFinish =>
    refine ⟨?_, ?_, Or.inr rfl, ?_⟩
    · simp only [Act.apply, Core.restartFinish]; split <;> simp_all
    · simp only [Act.apply, Core.restartFinish]; split <;> simp_all
    · by_cases hs : cfg.scopeReset = true
      · exact Or.inr ⟨by simp [Act.apply, Core.restartFinish, hs], by simp [Act.apply, Core.restartFinish, hs]⟩
      · exact h4.of_eq (by simp [Act.apply, Core.restartFinish, hs]) (by simp [Act.apply, Core.restartFinish, hs])
  case stopFinish =>
    refine ⟨?_, ?_, ?_, h4.of_eq ?_ ?_⟩ <;> simp only [Act.apply, Core.stopFinish, Core.writeImage] <;> split <;>
      first | assumption | rfl
  case stopFinishC fx d =>
    refine ⟨?_, ?_, ?_, h4.of_eq ?_ ?_⟩ <;> simp only [Act.apply, Core.stopFinish, Core.writeImage] <;> split <;>
      first | (simpa using by assumption) | simp
  case restartMidC fx =>
    refine ⟨?_, ?_, ?_, h4.of_eq ?_ ?_⟩ <;> simp only [Act.apply, Core.restartMid] <;>
      first | (simpa using by assumption) | simp
  case write =>
    refine ⟨?_, ?_, ?_, h4.of_eq ?_ ?_⟩ <;> simp only [Act.apply, Core.writeImage] <;> split <;>
      first | assumption | rfl
  case ev e => simp [Act.enabled, hv] at hen
  case clock inc => simp [Act.enabled, hk] at hen
  case error =>
    have f := setError_frame cfg a.core
    exact ⟨by simp only [Act.apply]; rw [f.1]; exact h1, by simp only [Act.apply]; rw [f.2.1]; exact h2,
      by simp only [Act.apply]; rw [f.2.2.2.2.2.2.1]; exact h3,
      h4.of_eq f.2.2.2.2.2.2.2.1 f.2.2.2.2.2.2.2.2⟩
  case pause =>
    have f := pause_frame cfg a.core
    exact ⟨by simp only [Act.apply]; rw [f.1]; exact h1, by simp only [Act.apply]; rw [f.2.1]; exact h2,
      by simp only [Act.apply]; rw [f.2.2.2.2.1]; exact h3, h4.of_eq f.2.2.2.2.2.1 f.2.2.2.2.2.2⟩
  case userReq i =>
    have f := userRequest_frame i a.core
    exact ⟨by simp only [Act.apply]; rw [f.1]; exact h1, by simp only [Act.apply]; rw [f.2.1]; exact h2,
      by simp only [Act.apply]; rw [f.2.2.2.2.1]; exact h3, h4.of_eq f.2.2.2.2.2.1 f.2.2.2.2.2.2⟩
  all_goals exact ⟨h1, h2, h3, h4.of_eq rfl rfl⟩

theorem post_of_tick (cfg : Cfg) (s : State) (t : TickIn) :
    Post (abs (tickClock cfg t.inc (tickPre cfg s t))) (abs (tick cfg s t)) :=
  (tickPost_ref (cfg := cfg) (pm := ⟨true, false, false⟩) _ (Or.inl rfl)).inv
    (fun a act => post_step cfg _ rfl rfl _ a act) ⟨Or.inl rfl, Or.inl rfl, Or.inl rfl, Or.inl ⟨rfl, rfl⟩⟩

/-! ## Process Time, Run Time -/

/-- In every tick Process Time is either reset to zero (a run starts) or it grows by the increment if the
    clock update saw System State Running during a run, and by nothing otherwise. -/
theorem process_time_tick (cfg : Cfg) (s : State) (t : TickIn) :
    (tick cfg s t).core.pt = s.core.pt + advance (tickPre cfg s t).core t.inc ∨ (tick cfg s t).core.pt = 0 := by
  have hp := (post_of_tick cfg s t).pt
  have hk := (tickPre_keeps cfg s t).1
  simp only [abs_core, tickClock, clock_pt] at hp
  rcases hp with h | h
  · left; rw [h, hk]
  · right; exact h

/-- **Process Time advances only over ticks in which the system was Running**: if Process Time changed in
    a tick and was not reset, then System State was Running when the tick began and still at the clock
    update, a run was active, and the change is exactly the increment. -/
theorem process_time_only_while_running (cfg : Cfg) (s : State) (t : TickIn)
    (hne : (tick cfg s t).core.pt ≠ s.core.pt) (hnz : (tick cfg s t).core.pt ≠ 0) :
    s.core.sys = .running ∧ (tickPre cfg s t).core.sys = .running ∧ s.core.started = true ∧
      (tick cfg s t).core.pt = s.core.pt + t.inc := by
  have hk := tickPre_keeps cfg s t
  simp only [] at hk
  rcases process_time_tick cfg s t with h | h
  · unfold advance at h
    split at h
    · rename_i hc
      refine ⟨?_, hc.2, hk.2.2.2.2.1 ▸ hc.1, h⟩
      rcases hk.2.2.2.2.2 with h6 | h6
      · rw [← h6]; exact hc.2
      · rw [hc.2] at h6; cases h6
    · exact absurd (by simpa using h) hne
  · exact absurd h hnz

theorem run_time_tick (cfg : Cfg) (s : State) (t : TickIn) :
    (tick cfg s t).core.rt = s.core.rt +
        (if (tickPre cfg s t).core.started = true ∧ (tickPre cfg s t).core.sys ≠ .stopped ∧
            (tickPre cfg s t).core.sys ≠ .restarting then t.inc else 0) ∨
      (tick cfg s t).core.rt = 0 := by
  have hp := (post_of_tick cfg s t).rt
  have hk := (tickPre_keeps cfg s t).2.1
  simp only [abs_core, tickClock, clock_rt] at hp
  rcases hp with h | h
  · left; rw [h, hk]
  · right; exact h

/-- **Run Time advances only while a run is active.** -/
theorem run_time_only_while_active (cfg : Cfg) (s : State) (t : TickIn)
    (hne : (tick cfg s t).core.rt ≠ s.core.rt) (hnz : (tick cfg s t).core.rt ≠ 0) :
    s.core.started = true ∧ (tick cfg s t).core.rt = s.core.rt + t.inc := by
  have hk := tickPre_keeps cfg s t
  simp only [] at hk
  rcases run_time_tick cfg s t with h | h
  · split at h
    · rename_i hc
      exact ⟨hk.2.2.2.2.1 ▸ hc.1, h⟩
    · exact absurd (by simpa using h) hne
  · exact absurd h hnz

/-! ## Block Time, Scope Time (the values `get_value()` that thresholds compare) -/

theorem blockObs_map (l : List Int) (d : Int) :
    (l.map (· + d)).getLast?.getD 0 = if l = [] then 0 else l.getLast?.getD 0 + d := by
  cases hl : l.getLast? with
  | none =>
    have : l = [] := List.getLast?_eq_none_iff.mp hl
    simp [this]
  | some x =>
    have hne : l ≠ [] := fun e => by simp [e] at hl
    simp [List.getLast?_map, hl, hne]

theorem find_map_val (l : List (Nat × Int)) (k : Nat) (d : Int) :
    ((l.map (fun kv => (kv.1, kv.2 + d))).find? (fun kv => kv.1 == k)) =
      (l.find? (fun kv => kv.1 == k)).map (fun kv => (kv.1, kv.2 + d)) := by
  induction l with
  | nil => rfl
  | cons x xs ih =>
    simp only [List.map_cons, List.find?_cons]
    by_cases hx : (x.1 == k) = true
    · simp [hx]
    · simp [hx, ih]

/-- **Block Time advances only while Running.** In a tick whose interpreter phase starts or ends no block:
    if Block Time changed and is not zero afterwards (zero = the timers were cleared by a run start), then
    System State was Running when the tick began and at the clock update, a run was active, and Block Time
    grew by exactly the increment.  In particular it does not move while Paused, Holding, Restarting or
    after an error. -/
theorem block_time_only_while_running (cfg : Cfg) (hc : cfg.clocks = true) (s : State) (t : TickIn)
    (hev : ∀ it ∈ t.items, noEv it = true)
    (hne : (tick cfg s t).core.blockObs ≠ s.core.blockObs) (hnz : (tick cfg s t).core.blockObs ≠ 0) :
    s.core.sys = .running ∧ (tickPre cfg s t).core.sys = .running ∧ s.core.started = true ∧
      (tick cfg s t).core.blockObs = s.core.blockObs + t.inc := by
  have hk := tickPre_keeps cfg s t
  have ht := tickPre_timers cfg s t hev
  simp only [] at hk ht
  have hp := (post_of_tick cfg s t).blocks
  simp only [abs_core, tickClock, (clock_timers cfg hc _ _).1] at hp
  rcases hp with h | h
  · have hobs : (tick cfg s t).core.blockObs =
        if s.core.blocks = [] then 0 else s.core.blockObs + advance (tickPre cfg s t).core t.inc := by
      unfold Core.blockObs
      rw [h, ht.1, blockObs_map]
    by_cases he : s.core.blocks = []
    · rw [if_pos he] at hobs; exact absurd hobs hnz
    · rw [if_neg he] at hobs
      unfold advance at hobs
      split at hobs
      · rename_i hcnd
        refine ⟨?_, hcnd.2, hk.2.2.2.2.1 ▸ hcnd.1, hobs⟩
        rcases hk.2.2.2.2.2 with h6 | h6
        · rw [← h6]; exact hcnd.2
        · rw [hcnd.2] at h6; cases h6
      · exact absurd (by simpa using hobs) hne
  · exact absurd (by simp [Core.blockObs, h]) hnz

/-- **Scope Time advances only while Running** (same reading as for Block Time: a change to 0 — the scopes are
    cleared when a run starts, `Cfg.scopeReset` — is not an advance; otherwise the command phase never touches
    the scope timers, so any change is the clock advance). -/
theorem scope_time_only_while_running (cfg : Cfg) (hc : cfg.clocks = true) (s : State) (t : TickIn)
    (hev : ∀ it ∈ t.items, noEv it = true)
    (hne : (tick cfg s t).core.scopeObs ≠ s.core.scopeObs) (hnz : (tick cfg s t).core.scopeObs ≠ 0) :
    s.core.sys = .running ∧ (tickPre cfg s t).core.sys = .running ∧ s.core.started = true ∧
      (tick cfg s t).core.scopeObs = s.core.scopeObs + t.inc := by
  have hk := tickPre_keeps cfg s t
  have ht := tickPre_timers cfg s t hev
  simp only [] at hk ht
  have hp := (post_of_tick cfg s t).scope
  simp only [ScopeKept, abs_core, tickClock, (clock_timers cfg hc _ _).2.1, (clock_timers cfg hc _ _).2.2] at hp
  have hcl : (tick cfg s t).core.scopeS = [] → False := fun hS => hnz (by simp [Core.scopeObs, hS])
  rcases hp with ⟨hpT, hpS⟩ | ⟨_, hpS⟩
  case inr => exact absurd hpS hcl
  have hobs : (tick cfg s t).core.scopeObs = s.core.scopeObs ∨
      (tick cfg s t).core.scopeObs = s.core.scopeObs + advance (tickPre cfg s t).core t.inc := by
    unfold Core.scopeObs
    rw [hpT, hpS, ht.2.1, ht.2.2]
    cases hl : s.core.scopeS.getLast? with
    | none => left; rfl
    | some k =>
      simp only [find_map_val]
      cases hf : s.core.scopeT.find? (fun kv => kv.1 == k) with
      | none => left; rfl
      | some kv => right; simp
  rcases hobs with h | h
  · exact absurd h hne
  · unfold advance at h
    split at h
    · rename_i hcnd
      refine ⟨?_, hcnd.2, hk.2.2.2.2.1 ▸ hcnd.1, h⟩
      rcases hk.2.2.2.2.2 with h6 | h6
      · rw [← h6]; exact hcnd.2
      · rw [hcnd.2] at h6; cases h6
    · exact absurd (by simpa using h) hne

/-! ## Zero at run start, never decreasing during the run -/

/-- relative to the run id `r0` at the clock update: the run id is still `r0`, or cleared, or a run has
    started since — and then both clocks are zero -/
def ZeroRel (r0 : Option Nat) (a : A) : Prop :=
  a.core.runId = r0 ∨ a.core.runId = none ∨ (a.core.pt = 0 ∧ a.core.rt = 0)

theorem zeroRel_step (cfg : Cfg) (hc : cfg.clocks = true) (pm : Perm) (hk : pm.clk = false) (r0 : Option Nat)
    (a : A) (act : Act) (h : ZeroRel r0 a) (hen : act.enabled cfg pm a) : ZeroRel r0 (act.apply cfg a) := by
  cases act
  case startRun => exact Or.inr (Or.inr ⟨rfl, rfl⟩)
  case restartFinish => exact Or.inr (Or.inr ⟨by simp [Act.apply, Core.restartFinish, hc], by simp [Act.apply, Core.restartFinish, hc]⟩)
  case stopFinish =>
    refine Or.inr (Or.inl ?_)
    simp only [Act.apply, Core.stopFinish, Core.writeImage]; split <;> rfl
  case restartMid => exact Or.inr (Or.inl rfl)
  case stopFinishC fx d =>
    refine Or.inr (Or.inl ?_)
    simp only [Act.apply, Core.stopFinish, Core.writeImage]; split <;> rfl
  case restartMidC fx => exact Or.inr (Or.inl rfl)
  case write => simp only [ZeroRel, Act.apply, Core.writeImage] at h ⊢; split <;> exact h
  case ev e =>
    cases e <;> simp only [ZeroRel, Act.apply, Core.event] at h ⊢ <;> first | exact h | (split <;> exact h)
  case clock inc => simp [Act.enabled, hk] at hen
  case error =>
    have f := setError_frame cfg a.core
    simp only [ZeroRel, Act.apply] at h ⊢
    rw [f.1, f.2.1, f.2.2.1]; exact h
  case pause =>
    have f := pause_frame cfg a.core
    simp only [ZeroRel, Act.apply] at h ⊢
    rw [f.1, f.2.1, f.2.2.1]; exact h
  case userReq i =>
    have f := userRequest_frame i a.core
    simp only [ZeroRel, Act.apply] at h ⊢
    rw [f.1, f.2.1, f.2.2.1]; exact h
  all_goals exact h

/-- **Process Time and Run Time are zero when a run starts**: whenever an operation leaves the engine with
    a run id that differs from the one before it, both clocks are zero. -/
theorem zero_at_run_start (cfg : Cfg) (hc : cfg.clocks = true) (s : State) (op : Op)
    (hne : (step cfg s op).1.core.runId ≠ s.core.runId) (hsome : (step cfg s op).1.core.runId ≠ none) :
    (step cfg s op).1.core.pt = 0 ∧ (step cfg s op).1.core.rt = 0 := by
  cases op with
  | tick t =>
    have hk := tickPre_keeps cfg s t
    simp only [] at hk
    have h0 : ZeroRel s.core.runId (abs (tickClock cfg t.inc (tickPre cfg s t))) := by
      left; simp only [abs_core, tickClock, (clock_other cfg _ _).1]; exact hk.2.2.1
    have h1 := (tickPost_ref (cfg := cfg) (pm := ⟨true, false, true⟩) _ (Or.inl rfl)).inv
      (fun a act => zeroRel_step cfg hc _ rfl _ a act) h0
    rcases h1 with h | h | h
    · exact absurd h hne
    · exact absurd h hsome
    · exact h
  | user c =>
    exfalso; apply hne
    by_cases hv : s.core.valid c = true <;> simp [step, hv, enqueue]
  | userUnknown => exact absurd rfl hne
  | userBlank => exact absurd rfl hne
  | setOut i v => exact absurd rfl hne
  | errApi => exact absurd (setError_frame cfg s.core).2.2.1 hne

/-- relative to the run id `r0` at the clock update: the run id is still `r0`, or cleared, or a run has started
    since — and then no block and no scope is open -/
def ZeroRelS (r0 : Option Nat) (a : A) : Prop :=
  a.core.runId = r0 ∨ a.core.runId = none ∨ (a.core.blocks = [] ∧ a.core.scopeT = [] ∧ a.core.scopeS = [])

theorem zeroRelS_step (cfg : Cfg) (hs : cfg.scopeReset = true) (pm : Perm) (hk : pm.clk = false)
    (hv : pm.ev = false) (r0 : Option Nat) (a : A) (act : Act) (h : ZeroRelS r0 a)
    (hen : act.enabled cfg pm a) : ZeroRelS r0 (act.apply cfg a) := by
  cases act
  case startRun => exact Or.inr (Or.inr (by simp [Act.apply, Core.startRun, hs]))
  case restartFinish => exact Or.inr (Or.inr (by simp [Act.apply, Core.restartFinish, hs]))
  case stopFinish =>
    refine Or.inr (Or.inl ?_)
    simp only [Act.apply, Core.stopFinish, Core.writeImage]; split <;> rfl
  case restartMid => exact Or.inr (Or.inl rfl)
  case stopFinishC fx d =>
    refine Or.inr (Or.inl ?_)
    simp only [Act.apply, Core.stopFinish, Core.writeImage]; split <;> rfl
  case restartMidC fx => exact Or.inr (Or.inl rfl)
  case write => simp only [ZeroRelS, Act.apply, Core.writeImage] at h ⊢; split <;> exact h
  case ev e => simp [Act.enabled, hv] at hen
  case clock inc => simp [Act.enabled, hk] at hen
  case error =>
    have f := setError_frame cfg a.core
    simp only [ZeroRelS, Act.apply] at h ⊢
    rw [f.2.2.1, f.2.2.2.2.2.2.1, f.2.2.2.2.2.2.2.1, f.2.2.2.2.2.2.2.2]; exact h
  case pause =>
    have f := pause_frame cfg a.core
    simp only [ZeroRelS, Act.apply] at h ⊢
    rw [f.2.2.1, f.2.2.2.2.1, f.2.2.2.2.2.1, f.2.2.2.2.2.2]; exact h
  case userReq i =>
    have f := userRequest_frame i a.core
    simp only [ZeroRelS, Act.apply] at h ⊢
    rw [f.2.2.1, f.2.2.2.2.1, f.2.2.2.2.2.1, f.2.2.2.2.2.2]; exact h
  all_goals exact h

/-- **Block Time and Scope Time are zero when a run starts** (with /repo 29706dcf, `Cfg.scopeReset`; Block Time
    also without it): whenever an operation leaves the engine with a run id that differs from the one before
    it, no block and no scope of the earlier run is open any more, so both tags read 0. (A lemma beyond the
    property text, which demands zero at run start for Process Time and Run Time only.) -/
theorem block_scope_zero_at_run_start (cfg : Cfg) (hs : cfg.scopeReset = true) (s : State) (op : Op)
    (hne : (step cfg s op).1.core.runId ≠ s.core.runId) (hsome : (step cfg s op).1.core.runId ≠ none) :
    (step cfg s op).1.core.blockObs = 0 ∧ (step cfg s op).1.core.scopeObs = 0 := by
  cases op with
  | tick t =>
    have hk := tickPre_keeps cfg s t
    simp only [] at hk
    have h0 : ZeroRelS s.core.runId (abs (tickClock cfg t.inc (tickPre cfg s t))) := by
      left; simp only [abs_core, tickClock, (clock_other cfg _ _).1]; exact hk.2.2.1
    have h1 := (tickPost_ref (cfg := cfg) (pm := ⟨true, false, false⟩) _ (Or.inl rfl)).inv
      (fun a act => zeroRelS_step cfg hs _ rfl rfl _ a act) h0
    rcases h1 with h | h | h
    · exact absurd h hne
    · exact absurd h hsome
    · have hb : (tick cfg s t).core.blocks = [] := h.1
      have hS : (tick cfg s t).core.scopeS = [] := h.2.2
      exact ⟨by simp [step, Core.blockObs, hb], by simp [step, Core.scopeObs, hS]⟩
  | user c =>
    exfalso; apply hne
    by_cases hv : s.core.valid c = true <;> simp [step, hv, enqueue]
  | userUnknown => exact absurd rfl hne
  | userBlank => exact absurd rfl hne
  | setOut i v => exact absurd rfl hne
  | errApi => exact absurd (setError_frame cfg s.core).2.2.1 hne

/-- relative to a run `r` with clock values `p`, `q`: while the run id is `r` the clocks are at least
    `p`, `q`; ids allocated later are larger than `r` -/
def MonoRel (r : Nat) (p q : Int) (a : A) : Prop :=
  r < a.core.nextRunId ∧ (a.core.runId = some r → p ≤ a.core.pt ∧ q ≤ a.core.rt)

theorem monoRel_step (cfg : Cfg) (pm : Perm) (hk : pm.clk = false) (r : Nat) (p q : Int)
    (a : A) (act : Act) (h : MonoRel r p q a) (hen : act.enabled cfg pm a) :
    MonoRel r p q (act.apply cfg a) := by
  obtain ⟨h1, h2⟩ := h
  cases act
  case startRun =>
    refine ⟨Nat.lt_succ_of_lt h1, fun hr => ?_⟩
    simp [Act.apply, Core.startRun] at hr; omega
  case restartFinish =>
    refine ⟨Nat.lt_succ_of_lt h1, fun hr => ?_⟩
    simp [Act.apply, Core.restartFinish] at hr; omega
  case stopFinish =>
    refine ⟨?_, fun hr => ?_⟩
    · simp only [Act.apply, Core.stopFinish, Core.writeImage]; split <;> exact h1
    · simp only [Act.apply, Core.stopFinish, Core.writeImage] at hr; split at hr <;> cases hr
  case restartMid => exact ⟨h1, fun hr => by simp [Act.apply, Core.restartMid] at hr⟩
  case stopFinishC fx d =>
    refine ⟨?_, fun hr => ?_⟩
    · simp only [Act.apply, Core.stopFinish, Core.writeImage]; split <;> simpa using h1
    · simp only [Act.apply, Core.stopFinish, Core.writeImage] at hr; split at hr <;> cases hr
  case restartMidC fx =>
    exact ⟨by simpa [Act.apply, Core.restartMid] using h1, fun hr => by simp [Act.apply, Core.restartMid] at hr⟩
  case write => refine ⟨?_, ?_⟩ <;> simp only [Act.apply, Core.writeImage] <;> split <;> assumption
  case ev e =>
    cases e <;> refine ⟨?_, ?_⟩ <;> simp only [Act.apply, Core.event] <;>
      first | assumption | (split <;> assumption)
  case clock inc => simp [Act.enabled, hk] at hen
  case error =>
    have f := setError_frame cfg a.core
    simp only [MonoRel, Act.apply]
    rw [f.1, f.2.1, f.2.2.1, f.2.2.2.1]; exact ⟨h1, h2⟩
  case pause =>
    have f := pause_frame cfg a.core
    simp only [MonoRel, Act.apply]
    rw [f.1, f.2.1, f.2.2.1, f.2.2.2.1]; exact ⟨h1, h2⟩
  case userReq i =>
    have f := userRequest_frame i a.core
    simp only [MonoRel, Act.apply]
    rw [f.1, f.2.1, f.2.2.1, f.2.2.2.1]; exact ⟨h1, h2⟩
  all_goals exact ⟨h1, h2⟩

/-- **Process Time and Run Time never decrease during the run**: for every reachable state, every
    operation with a non-negative increment that leaves the run id unchanged leaves both clocks at least
    where they were. -/
theorem never_decrease (cfg : Cfg) (outs : List Int) (ops : List Op) (op : Op) (r : Nat)
    (hinc : ∀ t, op = .tick t → 0 ≤ t.inc) :
    let s := run cfg (init cfg outs) ops
    s.core.runId = some r → (step cfg s op).1.core.runId = some r →
      s.core.pt ≤ (step cfg s op).1.core.pt ∧ s.core.rt ≤ (step cfg s op).1.core.rt := by
  intro s hr hr'
  have hfresh : r < s.core.nextRunId := (C06.state_agrees_weak cfg outs ops).fresh r hr
  cases op with
  | tick t =>
    have hk := tickPre_keeps cfg s t
    simp only [] at hk
    have hi : 0 ≤ t.inc := hinc t rfl
    have h0 : MonoRel r s.core.pt s.core.rt (abs (tickClock cfg t.inc (tickPre cfg s t))) := by
      refine ⟨?_, fun _ => ?_⟩
      · simp only [abs_core, tickClock, (clock_other cfg _ _).2.1, hk.2.2.2.1]; exact hfresh
      · simp only [abs_core, tickClock, clock_pt, clock_rt, hk.1, hk.2.1]
        unfold advance
        constructor
        · split <;> omega
        · split <;> omega
    have h1 := (tickPost_ref (cfg := cfg) (pm := ⟨true, false, true⟩) _ (Or.inl rfl)).inv
      (fun a act => monoRel_step cfg _ rfl _ _ _ a act) h0
    exact h1.2 hr'
  | user c =>
    by_cases hv : s.core.valid c = true <;> simp [step, hv, enqueue]
  | userUnknown => exact ⟨Int.le_refl _, Int.le_refl _⟩
  | userBlank => exact ⟨Int.le_refl _, Int.le_refl _⟩
  | setOut i v => exact ⟨Int.le_refl _, Int.le_refl _⟩
  | errApi =>
    have f := setError_frame cfg s.core
    exact ⟨Int.le_of_eq f.1.symm, Int.le_of_eq f.2.1.symm⟩

/-! ## The code as it is: witnesses; non-vacuity -/

open OPM.C06 (safes3 tk)

/-- first interpreter tick of a run: the root block and the program scope start -/
def tkRoot : Op := .tick { adv := 8, inc := 8, items := [.ev .blockStart, .ev (.scopeActivate 0)] }

/-- **Regression witness 1.** Code as it is: Block Time and Scope Time advance during Hold
    (System State Holding before and at the clock update), while Process Time stands still. -/
theorem asIs_clocks_advance_during_hold :
    let cfg := asIs safes3
    let s := run cfg (init cfg [5, 7, 9]) [.user .start, tk, tkRoot, tk, .user .hold, tk]
    let s' := tick cfg s { adv := 8, inc := 8 }
    s.core.sys = .holding ∧ (tickPre cfg s { adv := 8, inc := 8 }).core.sys = .holding ∧
      s'.core.blockObs = s.core.blockObs + 8 ∧ s'.core.scopeObs = s.core.scopeObs + 8 ∧
      s'.core.pt = s.core.pt := by
  decide +kernel

/-- … with the repair nothing moves in that tick. -/
example :
    let cfg := repaired safes3
    let s := run cfg (init cfg [5, 7, 9]) [.user .start, tk, tkRoot, tk, .user .hold, tk]
    let s' := tick cfg s { adv := 8, inc := 8 }
    s.core.sys = .holding ∧ s'.core.blockObs = s.core.blockObs ∧ s'.core.scopeObs = s.core.scopeObs := by
  decide +kernel

/-- **Regression witness 2.** Code as it is: Restart starts a new run (new run id) with Process Time and
    Run Time carried over from the old run. -/
theorem asIs_restart_keeps_clocks :
    let cfg := asIs safes3
    let s := run cfg (init cfg [5, 7, 9]) [.user .start, tk, tkRoot, tk, .user .restart, tk, tk]
    let s' := tick cfg s { adv := 8, inc := 8 }
    s.core.runId = none ∧ s'.core.runId = some 1 ∧ s'.core.pt = 24 ∧ s'.core.rt = 24 := by
  decide +kernel

/-- **Regression witness 3** (the converse direction, not demanded by C07): the private pause flag of the
    two clock tags survives Stop, so after Pause, Stop, Start they stand still for the whole next run. -/
theorem asIs_clocks_frozen_after_pause_stop_start :
    let cfg := asIs safes3
    let s := run cfg (init cfg [5, 7, 9])
      [.user .start, tk, tkRoot, .user .pause, tk, .user .stop, tk, tk, .user .start, tk, tkRoot, tk]
    let s' := tick cfg s { adv := 8, inc := 8 }
    s.core.sys = .running ∧ s'.core.pt = s.core.pt + 8 ∧ s'.core.blockObs = s.core.blockObs ∧
      s'.core.scopeObs = s.core.scopeObs := by
  decide +kernel

/-- Non-vacuity of `block_time_only_while_running` / `scope_time_only_while_running` /
    `process_time_only_while_running`: a tick in which all three clocks do advance. -/
example :
    let cfg := repaired safes3
    let s := run cfg (init cfg [5, 7, 9]) [.user .start, tk, tkRoot, tk]
    let t : TickIn := { adv := 8, inc := 8 }
    (∀ it ∈ t.items, noEv it = true) ∧
    (tick cfg s t).core.blockObs ≠ s.core.blockObs ∧ (tick cfg s t).core.blockObs ≠ 0 ∧
    (tick cfg s t).core.scopeObs ≠ s.core.scopeObs ∧
    (tick cfg s t).core.pt ≠ s.core.pt ∧ (tick cfg s t).core.pt ≠ 0 := by
  refine ⟨by simp, ?_⟩
  decide +kernel

/-- Non-vacuity of `zero_at_run_start`: Restart completes in this tick, with non-zero clocks before. -/
example :
    let cfg := repaired safes3
    let s := run cfg (init cfg [5, 7, 9]) [.user .start, tk, tkRoot, tk, .user .restart, tk, tk]
    (step cfg s tk).1.core.runId ≠ s.core.runId ∧ (step cfg s tk).1.core.runId ≠ none ∧ s.core.pt = 24 ∧
      (step cfg s tk).1.core.pt = 0 := by
  decide +kernel

/-- Non-vacuity of `never_decrease`: a tick inside a run that keeps the run id. -/
example :
    let cfg := repaired safes3
    let s := run cfg (init cfg [5, 7, 9]) [.user .start, tk, tkRoot]
    s.core.runId = some 0 ∧ (step cfg s tk).1.core.runId = some 0 ∧ s.core.pt < (step cfg s tk).1.core.pt := by
  decide +kernel

end OPM.C07
