import OPM.Model.TickLock
import OPM.Lemmas.TickLock
import OPM.Gen.LockTable
/-!
# C40 Requests from the aggregator apply atomically between ticks

"Method edits, code injection, control commands, and cancel and force requests that arrive while the engine is
ticking take effect as if applied entirely between two ticks. No request is lost and none observes or leaves a
half-updated interpreter."

`OPM.TickLock.Abs` is the two-thread machine: the ticking thread runs the segments of a tick (`pre` outside the lock,
then the critical section `crit`), the request thread runs the segments of a request `body`; thread switches happen
between segments (the instrumented yield points); the first segment of a critical section can only start while the
other thread is not inside one.  The theorems hold for *arbitrary* state transformers as segments and for *every*
interleaving the machine allows.  `OPM.Gen.LockTable` (regenerated from `engine.py` / `engine_message_handlers.py` on
every run) says which sub-calls of `Engine.tick` are under `Engine._lock` and which request entry points take it.
-/
namespace OPM.C40
open OPM.TickLock OPM.TickLock.Abs

variable {σ : Type}

/-- **Mutual exclusion.** With a locked request body, the tick's critical section and the request body are never
both in progress — in no reachable state of any interleaving.  (Nothing is assumed about the segments.) -/
theorem mutual_exclusion (S : Sys σ) (s₀ : σ) (hl : S.locked = true) {st : St σ} (h : Reach S s₀ st) :
    ¬ (insideT st ∧ insideR st) := by
  induction h with
  | init => intro ⟨h1, _⟩; exact h1.1 rfl
  | step _ hs ih =>
    cases hs with
    | tickPre f rest hp => exact ih
    | tickCrit f rest hp hcr hen =>
      intro ⟨_, hr⟩
      have hr' : insideR _ := hr
      rcases hen with h1 | h2 | h3
      · exact ih ⟨⟨h1, by rw [hcr]; simp⟩, hr'⟩
      · rw [hl] at h2; cases h2
      · exact h3 hr'
    | req f rest hb hen =>
      intro ⟨ht, _⟩
      have ht' : insideT _ := ht
      rcases hen with h1 | h2 | h3
      · exact ih ⟨ht', ⟨h1, by rw [hb]; simp⟩⟩
      · rw [hl] at h2; cases h2
      · exact h3 ht'

/-- **Atomicity.** If the request body is a critical section of the tick's lock and commutes with the segments of the
tick that run outside the lock (hardware tick, reading the process image), then every complete interleaving of one
tick with one request ends in the state of a *serial* order: the whole request before the whole tick, or the whole
tick before the whole request.  In particular the request is not lost and no half of it is seen by the tick. -/
theorem locked_request_serializes (S : Sys σ) (s₀ : σ) (hl : S.locked = true)
    (hc : ∀ f ∈ S.pre, ∀ g ∈ S.body, Comm g f) {st : St σ} (h : Reach S s₀ st) (hf : finished st) :
    st.s = tickAll S (reqAll S s₀) ∨ st.s = reqAll S (tickAll S s₀) := by
  have inv := inv_reach S s₀ hl hc h
  obtain ⟨hp, hcr, hb⟩ := hf
  have hpre : st.preDone = S.pre := by have := inv.pre; rw [hp] at this; simpa using this
  have hcrit : st.critDone = S.crit := by have := inv.crit; rw [hcr] at this; simpa using this
  have hbody : st.bodyDone = S.body := by have := inv.body; rw [hb] at this; simpa using this
  rcases inv.shape with ⟨hcd, hs⟩ | ⟨_, hbd, hs⟩ | ⟨_, _, hs⟩ | ⟨_, _, _, hs⟩
  · left
    rw [hs, hpre, hbody]
    have : S.crit = [] := by rw [← hcrit]; exact hcd
    simp [tickAll, reqAll, this]
  · left
    rw [hs, hcrit]
    have : S.body = [] := by rw [← hbody]; exact hbd
    simp [tickAll, reqAll, this]
  · left; rw [hs, hcrit]; rfl
  · right; rw [hs, hbody]; rfl

/-! ### Without the lock the statement is false -/

/-- A tick whose critical section copies `x` to `y` and then adds `x` to `y`, and a request that adds 10 to `x`
without taking the lock. -/
def badSys : Sys (Nat × Nat) :=
  { pre := [], crit := [fun s => (s.1, s.1), fun s => (s.1, s.1 + s.2)], body := [fun s => (s.1 + 10, s.2)],
    locked := false }

/-- **An unlocked request can land inside the critical section and produce a state no serial order produces.** -/
theorem unlocked_request_not_serial :
    ∃ st : St (Nat × Nat), Reach badSys (1, 0) st ∧ finished st ∧
      st.s ≠ tickAll badSys (reqAll badSys (1, 0)) ∧ st.s ≠ reqAll badSys (tickAll badSys (1, 0)) := by
  let st₀ := start badSys (1, 0)
  have r₀ : Reach badSys (1, 0) st₀ := Reach.init
  have r₁ := Reach.step r₀ (Step.tickCrit st₀ _ _ rfl rfl (Or.inr (Or.inl rfl)))
  have r₂ := Reach.step r₁ (Step.req _ _ _ rfl (Or.inr (Or.inl rfl)))
  have r₃ := Reach.step r₂ (Step.tickCrit _ _ _ rfl rfl (Or.inr (Or.inl rfl)))
  refine ⟨_, r₃, ⟨rfl, rfl, rfl⟩, ?_, ?_⟩ <;> decide

/-- the same three segments with the lock: the machine does not allow that interleaving -/
example : ∀ st, ¬ Step { badSys with locked := true }
    { preRem := [], critDone := [fun s => (s.1, s.1)], critRem := [fun s => (s.1, s.1 + s.2)],
      bodyRem := [fun s => (s.1 + 10, s.2)], s := (1, 1) } st ∨ st.bodyDone = [] := by
  intro st
  by_cases h : st.bodyDone = []
  · exact Or.inr h
  · left
    intro hs
    cases hs with
    | tickPre f rest hp => cases hp
    | tickCrit f rest hp hcr hen => exact h rfl
    | req f rest hb hen =>
      rcases hen with h1 | h2 | h3
      · exact h1 rfl
      · cases h2
      · exact h3 ⟨by simp, by simp⟩

/-- Non-vacuity of `locked_request_serializes`: both serial orders are reachable with the lock. -/
example : ∃ st, Reach { badSys with locked := true } (1, 0) st ∧ finished st ∧ st.s = (11, 22) := by
  let S : Sys (Nat × Nat) := { badSys with locked := true }
  have r₀ : Reach S (1, 0) (start S (1, 0)) := Reach.init
  have r₁ := Reach.step r₀ (Step.req _ _ _ rfl (Or.inr (Or.inr (by intro h; exact h.1 rfl))))
  have r₂ := Reach.step r₁ (Step.tickCrit _ _ _ rfl rfl (Or.inr (Or.inr (by intro h; exact h.2 rfl))))
  have r₃ := Reach.step r₂ (Step.tickCrit _ _ _ rfl rfl (Or.inl (by simp)))
  exact ⟨_, r₃, ⟨rfl, rfl, rfl⟩, rfl⟩

/-! ### What the code is (regenerated table) -/

/-- The engine has exactly one lock (the model has one; its name does not matter). -/
theorem one_lock : OPM.Gen.LockTable.locks.length = 1 := by decide

/-- The execute phase of `Engine.tick` — tracking, interpreter, calculated tags, command manager, tag notification,
writing the process image — is under the lock (other sub-calls may be under it too), and once the tick has taken the
lock no sub-call of it runs outside the lock again. -/
theorem tick_execute_phase_under_lock :
    ["tracking.tick", "interpreter.tick", "update_calculated_tags", "command_manager.tick", "notify_tag_updates",
     "write_process_image"].all (fun l => OPM.Gen.LockTable.tickCalls.lookup l == some true) = true ∧
    (OPM.Gen.LockTable.tickCalls.dropWhile (fun c => !c.2)).all (·.2) = true := by decide

/-- The places inside the sub-calls where a tick spends its time — the hardware read, a UOD command's exec function,
the assembly of the output image register by register, the hardware write — are located in the source (`read_process_image`, `CommandManager.tick` …, `write_process_image`). -/
theorem nested_yield_points :
    OPM.Gen.LockTable.nested =
      [("hwl.read_batch", "read_process_image"), ("hwl.write_batch", "write_process_image"),
       ("write.reg", "write_process_image"), ("uod.execute", "command_manager.tick"),
       ("interp.subtick", "interpreter.tick")] := by decide

/-- **The extent of the lock**: the command phase (with every UOD exec function it runs), the notification of tag
changes and the write phase (with the hardware write) are under the tick's lock — a request that arrives while the
tick is there waits for the end of the tick. -/
theorem command_and_write_phase_under_lock :
    ["tracking.tick", "interpreter.tick", "update_calculated_tags", "command_manager.tick", "uod.execute",
     "notify_tag_updates", "write_process_image", "write.reg", "hwl.write_batch"].all
      (fun l => tickFlag OPM.Gen.LockTable.tickCalls OPM.Gen.LockTable.nested l == some true) = true := by decide

/-- The request entry points the message handlers call include the five known ones (a new entry point is welcome —
it only has to be locked, see the next theorem). -/
theorem entry_points :
    ["set_method", "execute_control_command_from_user", "inject_code", "cancel_instruction", "force_instruction"].all
      (fun n => OPM.Gen.LockTable.entries.any (·.name == n)) = true := by decide

/-- **Every request entry point does its work under the tick's lock and touches no engine state outside it.**
(Fails to compile when an entry point does not — then the hypothesis of `locked_request_serializes` is not met for
it and `unlocked_request_not_serial` applies.) -/
theorem every_entry_point_locked :
    OPM.Gen.LockTable.entries.all (fun e => e.bodyLocked && e.touchesOutside.isEmpty) = true := by decide

/-- **C40 for the code as translated**: for every entry point of the table, every interleaving of a tick with a
request through it (at the yield points) is equal to a serial order. -/
theorem c40 (e : Entry) (he : e ∈ OPM.Gen.LockTable.entries) (S : Sys σ) (hS : S.locked = e.bodyLocked) (s₀ : σ)
    (hc : ∀ f ∈ S.pre, ∀ g ∈ S.body, Comm g f) {st : St σ} (h : Reach S s₀ st) (hf : finished st) :
    st.s = tickAll S (reqAll S s₀) ∨ st.s = reqAll S (tickAll S s₀) := by
  have hall := every_entry_point_locked
  rw [List.all_eq_true] at hall
  have := hall e he
  simp only [Bool.and_eq_true] at this
  exact locked_request_serializes S s₀ (by rw [hS, this.1]) hc h hf

/-- When the part of the tick outside the lock does nothing the requests can see (`S.pre = []` — what the table
reports as `prologueShared = []`), no commutation hypothesis is needed at all. -/
theorem c40_no_prologue (e : Entry) (he : e ∈ OPM.Gen.LockTable.entries) (S : Sys σ) (hS : S.locked = e.bodyLocked)
    (hp : S.pre = []) (s₀ : σ) {st : St σ} (h : Reach S s₀ st) (hf : finished st) :
    st.s = tickAll S (reqAll S s₀) ∨ st.s = reqAll S (tickAll S s₀) :=
  c40 e he S hS s₀ (by intro f hf'; rw [hp] at hf'; cases hf') h hf

end OPM.C40
