import OPM.Model.Units
import OPM.Lemmas.Units
import OPM.Gen.UnitTable
/-!
# C21 Unit-aware comparisons are exact, consistent and symmetric

"Comparing two values whose units belong to the same quantity gives the same result as comparing the physical
quantities after converting both to a common unit. The comparison operators are mutually consistent: exactly one
of less, equal and greater holds, '!=' is the negation of '=', and '<=' is '<' or '='. Whether two units may be
compared does not depend on their order."

`areComparable` / `compareValues` are the model of the code with
`fixes/C21-operator-consistency-and-symmetry.diff`; `…Old` the model of /repo HEAD.

* order independence — full (`areComparable_symm`, for every table satisfying `WF`; `table_WF`)
* operator consistency — full (`operators_consistent`, `ne_is_not_eq`: every table, every conversion outcome)
* exactness — full for equal units (`exact_same_unit`, `exact_no_unit`); for different units the full statement
  `C21_exact_full` is **false** of the code (pint converts with 28-digit Decimals): `C21_exact_counterexample`;
  `C21_exact_partial` proves it under the hypothesis that the conversion of the second operand is exact.
* a comparison of comparable units answers — `C21_total`: full for every table whose same-quantity units are
  convertible (`T.Convertible`); `C21_total_counterexample` shows on a two-row table that it fails otherwise
  (pint's reading of 'mol%'); `C21_total_partial` is the per-pair form.
-/
namespace OPM.C21
open OPM.Units

/-! ## Order independence -/

/-- Whether two units may be compared does not depend on their order — for all unit names (supported or not,
    present or `None`), including the error outcome. -/
theorem areComparable_symm (T : UnitSys) (hT : T.WF = true) (a b : Option String) :
    areComparable T a b = areComparable T b a := by
  unfold areComparable
  by_cases hab : a = b
  · subst hab; rfl
  · have hba : ¬ b = a := fun h => hab h.symm
    simp only [hab, hba, if_false]
    cases a with
    | none => cases b <;> rfl
    | some ua =>
      cases b with
      | none => rfl
      | some ub =>
        simp only
        cases hqa : quantityOf T ua with
        | error ea =>
          have := quantityOf_error hqa; subst this
          cases hqb : quantityOf T ub with
          | error eb => have := quantityOf_error hqb; subst this; rfl
          | ok qb => rfl
        | ok qa =>
          cases hqb : quantityOf T ub with
          | error eb => rfl
          | ok qb =>
            simp only
            by_cases hq : qa = qb
            · subst hq
              obtain ⟨ca, hca⟩ := compatibleNames_ok hT hqa
              obtain ⟨cb, hcb⟩ := compatibleNames_ok hT hqb
              simp only [hca, hcb, bne_self_eq_false, Bool.false_eq_true, if_false]
              cases h1 : ca.contains ub <;> cases h2 : cb.contains ua <;> simp
            · have hq' : ¬ qb = qa := fun h => hq h.symm
              simp [hq, hq']

/-- The regenerated table satisfies `WF` (the unmodelled branches of `get_compatible_unit_names` are dead, all
    exact scales are positive). -/
theorem table_WF : OPM.Gen.unitSys.WF = true := by decide +kernel

/-- Order independence for the units the code defines now. -/
theorem table_comparable_symm (a b : Option String) :
    areComparable OPM.Gen.unitSys a b = areComparable OPM.Gen.unitSys b a :=
  areComparable_symm _ table_WF a b

-- non-vacuity: comparable pairs exist in both orders, and refusal is symmetric as well
example : areComparable OPM.Gen.unitSys (some "vol%") (some "%") = .ok true ∧
    areComparable OPM.Gen.unitSys (some "%") (some "vol%") = .ok true ∧
    areComparable OPM.Gen.unitSys (some "vol%") (some "wt%") = .ok false ∧
    areComparable OPM.Gen.unitSys (some "L/h") (some "L/d") = .ok true ∧
    areComparable OPM.Gen.unitSys (some "s") (some "X") = .error .invalidUnit := by decide +kernel

/-- Regression witness: at /repo HEAD the answer depends on the order. -/
theorem old_comparable_asymmetric :
    areComparableOld OPM.Gen.unitSys (some "%") (some "vol%") = .ok true ∧
    areComparableOld OPM.Gen.unitSys (some "vol%") (some "%") = .ok false := by decide +kernel

/-! ## Operator consistency -/

/-- For numeric operands the seven operators are mutually consistent, for every unit table, every pair of
    units and whatever the unit conversion computes: either every operator raises the same error, or there are
    three booleans `lt eq gt`, exactly one of them true, and `<`↦lt, `=`,`==`↦eq, `>`↦gt, `!=`↦¬eq,
    `<=`↦lt∨eq, `>=`↦gt∨eq. -/
theorem operators_consistent (T : UnitSys) (va vb : String) (ua ub : Option String) (x y : Rat)
    (hx : parseDec va = .num x) (hy : parseDec vb = .num y) :
    (∃ e, ∀ op, compareValues T op va ua vb ub = .error e) ∨
    (∃ lt eq gt : Bool,
      ((lt && !eq && !gt) || (!lt && eq && !gt) || (!lt && !eq && gt)) = true ∧
      compareValues T "<" va ua vb ub = .ok lt ∧
      compareValues T "=" va ua vb ub = .ok eq ∧
      compareValues T "==" va ua vb ub = .ok eq ∧
      compareValues T ">" va ua vb ub = .ok gt ∧
      compareValues T "!=" va ua vb ub = .ok (!eq) ∧
      compareValues T "<=" va ua vb ub = .ok (lt || eq) ∧
      compareValues T ">=" va ua vb ub = .ok (gt || eq)) := by
  cases hn : numOperands T x y ua ub with
  | error e =>
    left
    refine ⟨e, fun op => ?_⟩
    simp only [compareValues, operands_num ua ub hx hy, hn]
  | ok p =>
    right
    obtain ⟨a, b⟩ := p
    refine ⟨decide (a < b), decide (a = b), decide (b < a), ?_, ?_⟩
    · by_cases h1 : a < b <;> by_cases h2 : a = b <;> by_cases h3 : b < a <;> simp [h1, h2, h3] <;> grind
    · have hle : ∀ p q : Rat, decide (p ≤ q) = (decide (p < q) || decide (p = q)) := by
        intro p q
        rw [Bool.eq_iff_iff]
        simp only [decide_eq_true_eq, Bool.or_eq_true]
        exact Rat.le_iff_lt_or_eq
      have hsym : decide (b = a) = decide (a = b) := by
        rw [Bool.eq_iff_iff]
        simp only [decide_eq_true_eq]
        exact eq_comm
      simp [compareValues, operands_num ua ub hx hy, hn, applyOp, cmpNum, hle, hsym]

/-- `!=` is the negation of `=` for **all** strings (numeric or not), all units, all tables. -/
theorem ne_is_not_eq (T : UnitSys) (va vb : String) (ua ub : Option String) :
    compareValues T "!=" va ua vb ub = (compareValues T "=" va ua vb ub).map (!·) := by
  have ho : isOrderOp "!=" = isOrderOp "=" := by decide
  simp only [compareValues, ho]
  cases operands T (isOrderOp "=") va ua vb ub with
  | error e => rfl
  | ok p =>
    obtain ⟨a, b⟩ := p
    cases a <;> cases b <;> simp [applyOp, cmpNum, cmpStr, Except.map, bne]

-- non-vacuity: both alternatives of `operators_consistent` occur, with and without conversion
example : compareValues OPM.Gen.unitSys "<" "59" (some "L/h") "1" (some "L/min") = .ok true ∧
    compareValues OPM.Gen.unitSys "=" "60" (some "L/h") "1" (some "L/min") = .ok true ∧
    compareValues OPM.Gen.unitSys ">=" "61" (some "s") "1" (some "min") = .ok true ∧
    compareValues OPM.Gen.unitSys "=" "5" (some "s") "5" (some "L") = .error .incompatible ∧
    compareValues OPM.Gen.unitSys "=" "foo" none "foo" none = .ok true := by decide +kernel

/-- Regression witnesses: at /repo HEAD `24 L/d` vs `1 L/h` is both equal and greater, and `32 degF` vs `0 degC`
    is none of `<`, `=`, `>` while `=` and `!=` are both false. -/
theorem old_operators_inconsistent :
    compareValuesOld OPM.Gen.unitSys "=" "24" (some "L/d") "1" (some "L/h") = .ok true ∧
    compareValuesOld OPM.Gen.unitSys ">" "24" (some "L/d") "1" (some "L/h") = .ok true ∧
    compareValuesOld OPM.Gen.unitSys "<" "32" (some "degF") "0" (some "degC") = .ok false ∧
    compareValuesOld OPM.Gen.unitSys "=" "32" (some "degF") "0" (some "degC") = .ok false ∧
    compareValuesOld OPM.Gen.unitSys ">" "32" (some "degF") "0" (some "degC") = .ok false ∧
    compareValuesOld OPM.Gen.unitSys "!=" "32" (some "degF") "0" (some "degC") = .ok false := by
  decide +kernel

/-! ## Exactness -/

def allOps : List String := ["<", "<=", "=", "==", ">", ">=", "!="]

/-- Full statement: for two different units that may be compared, every operator answers what the exact
    comparison of the physical quantities answers. -/
def C21_exact_full (T : UnitSys) : Prop :=
  ∀ (op va vb a b : String) (ra rb : UnitRow) (x y : Rat),
    op ∈ allOps → findRow T a = some ra → findRow T b = some rb →
    areComparable T (some a) (some b) = .ok true →
    parseDec va = .num x → parseDec vb = .num y →
    compareValues T op va (some a) vb (some b) = cmpNum op (toBase ra x) (toBase rb y)

/-- Equal units (no conversion): exact, for every unit name and every operator. -/
theorem exact_same_unit (T : UnitSys) (op va vb u : String) (r : UnitRow) (x y : Rat)
    (hs : 0 < r.scale) (hx : parseDec va = .num x) (hy : parseDec vb = .num y) :
    compareValues T op va (some u) vb (some u) = cmpNum op (toBase r x) (toBase r y) := by
  have h : numOperands T x y (some u) (some u) = .ok (x, y) := by
    simp [numOperands, areComparable, isPint]
  simp only [compareValues, operands_num _ _ hx hy, h, applyOp, toBase, cmpNum_affine op x y hs]

/-- No units at all: plain exact decimal comparison. -/
theorem exact_no_unit (T : UnitSys) (op va vb : String) (x y : Rat)
    (hx : parseDec va = .num x) (hy : parseDec vb = .num y) :
    compareValues T op va none vb none = cmpNum op x y := by
  have h : numOperands T x y none none = .ok (x, y) := by
    simp [numOperands, areComparable, isPint]
  simp only [compareValues, operands_num _ _ hx hy, h, applyOp]

/-- The decidable hypothesis of `C21_exact_partial`: both units are known to pint, the quantity has a pint
    mapping, and the Decimal conversion of `y` from unit `b` into unit `a` yields exactly the exact value. -/
def conversionExact (T : UnitSys) (a b : String) (y : Rat) : Bool :=
  match findRow T a, findRow T b with
  | some ra, some rb =>
    match ra.pint, rb.pint with
    | some pa, some pb =>
      T.pintKeys.contains ra.quantity && decide (convertP T y pb pa = .ok (exactConvert rb ra y))
    | _, _ => false
  | _, _ => false

/-- Partial exactness for different units: if the pint conversion of the second operand into the unit of the
    first is exact for this value (decidable; this is what excludes the 28-digit rounding), every operator
    answers what the exact comparison of the physical quantities answers. -/
theorem C21_exact_partial (T : UnitSys) (hT : T.WF = true) (op va vb a b : String) (x y : Rat)
    (hab : a ≠ b) (hc : areComparable T (some a) (some b) = .ok true)
    (hx : parseDec va = .num x) (hy : parseDec vb = .num y)
    (hexact : conversionExact T a b y = true) :
    ∃ ra rb, findRow T a = some ra ∧ findRow T b = some rb ∧
      compareValues T op va (some a) vb (some b) = cmpNum op (toBase ra x) (toBase rb y) := by
  unfold conversionExact at hexact
  split at hexact
  · rename_i ra rb hra hrb
    split at hexact
    · rename_i pa pb hpa hpb
      simp only [Bool.and_eq_true, decide_eq_true_eq] at hexact
      obtain ⟨hk, hconv⟩ := hexact
      refine ⟨ra, rb, hra, hrb, ?_⟩
      have hs : 0 < ra.scale := (WF_row hT (findRow_mem hra)).2.2
      have hab' : ¬ (some a = some b) := fun h => hab (Option.some.inj h)
      have h : numOperands T x y (some a) (some b) = .ok (x, exactConvert rb ra y) := by
        simp only [numOperands, hc, isPint, hab', if_false, quantityOf, hra, hk, if_true, pintUnit, hrb, hpa,
          hpb, hconv]
      simp only [compareValues, operands_num _ _ hx hy, h, applyOp]
      have : exactConvert rb ra y * ra.scale + ra.offset = toBase rb y := by
        unfold exactConvert
        rw [div_mul_cancel' hs]
        grind
      rw [← this, toBase, cmpNum_affine op _ _ hs]
    · cases hexact
  · cases hexact

-- non-vacuity of `C21_exact_partial`: its hypotheses hold e.g. for `90 s` vs `1.5 min`, `1 degC` vs `274.15 K`,
-- `2 L/h` vs `48 L/d`, and the conclusion is the expected one
example : areComparable OPM.Gen.unitSys (some "s") (some "min") = .ok true ∧
    parseDec "1.5" = .num (3 / 2) ∧ conversionExact OPM.Gen.unitSys "s" "min" (3 / 2) = true ∧
    compareValues OPM.Gen.unitSys "=" "90" (some "s") "1.5" (some "min") = .ok true ∧
    conversionExact OPM.Gen.unitSys "degC" "K" (5483 / 20) = true ∧
    compareValues OPM.Gen.unitSys "=" "1" (some "degC") "274.15" (some "K") = .ok true ∧
    conversionExact OPM.Gen.unitSys "L/d" "L/h" 2 = true ∧
    compareValues OPM.Gen.unitSys ">=" "48" (some "L/d") "2" (some "L/h") = .ok true := by
  decide +kernel

-- …and the hypothesis is what fails on the counterexamples below
example : conversionExact OPM.Gen.unitSys "degF" "degC" 0 = false ∧
    conversionExact OPM.Gen.unitSys "h" "s" (5463 / 20) = false := by decide +kernel

/-- The full statement is false of the code: `32 degF = 0 degC` answers False (and `<` answers True), because
    pint converts 0 °C to 32.00000000000000000000000001 °F with 28-digit Decimals. -/
theorem C21_exact_counterexample : ¬ C21_exact_full OPM.Gen.unitSys := by
  intro h
  have h1 := h "=" "32" "0" "degF" "degC" _ _ 32 0 (by decide) rfl rfl (by decide +kernel)
    (by decide +kernel) (by decide +kernel)
  revert h1
  decide +kernel

/-- A second witness with everyday values and a purely multiplicative conversion: `0.075875 h = 273.15 s`
    answers False (the factor 1/3600 is not a 28-digit decimal). -/
theorem C21_exact_counterexample_multiplicative :
    compareValues OPM.Gen.unitSys "=" "0.075875" (some "h") "273.15" (some "s") = .ok false ∧
    (∃ ra rb, findRow OPM.Gen.unitSys "h" = some ra ∧ findRow OPM.Gen.unitSys "s" = some rb ∧
      toBase ra (607 / 8000) = toBase rb (5463 / 20)) := by
  refine ⟨by decide +kernel, _, _, rfl, rfl, ?_⟩
  decide +kernel

/-! ## A comparison of comparable units answers -/

/-- Full statement: units that may be compared can be compared (numeric operands, valid operator). -/
def C21_total_full (T : UnitSys) : Prop :=
  ∀ (op va vb a b : String) (x y : Rat),
    op ∈ allOps → areComparable T (some a) (some b) = .ok true →
    parseDec va = .num x → parseDec vb = .num y →
    ∃ r, compareValues T op va (some a) vb (some b) = .ok r

/-- Holds for every table whose units of one quantity are all convertible by pint (`T.Convertible`, a decidable
    table fact).  For the table the code defines, `Convertible` is established by the C20 repair that makes `mol%` a
    plain percentage (`OPM.C20.table_convertible`); it is false for the table of a tree without that repair. -/
theorem C21_total (T : UnitSys) (hC : T.Convertible = true) : C21_total_full T := by
  intro op va vb a b x y hop hc hx hy
  obtain ⟨p, hp⟩ := numOperands_ok hC x y hc
  obtain ⟨x', y'⟩ := p
  simp only [compareValues, operands_num _ _ hx hy, hp, applyOp]
  simp only [allOps, List.mem_cons, List.mem_nil_iff, or_false] at hop
  rcases hop with h | h | h | h | h | h | h <;> subst h <;> exact ⟨_, rfl⟩

/-- A table in which pint reads the second unit of a quantity with another dimensionality — what pint does with
    `mol%` (mole·percent) unless it is told otherwise. -/
def molPercentTable : UnitSys :=
  ⟨[⟨"%", "percentage", mkRat 1 100, 0, some ⟨0, 0, none, 0, 1⟩⟩,
    ⟨"mol%", "percentage", mkRat 1 100, 0, some ⟨2, 1, none, 2, 3⟩⟩],
   ["percentage"], []⟩

/-- The full statement does not follow from the code of `units.py` alone: for `molPercentTable` the two units are
    comparable, but the comparison raises `ValueError("Conversion error")`.  (This was the state of /repo when C21 was
    built; finding `comparison-raises:%|mol%`.) -/
theorem C21_total_counterexample : ¬ C21_total_full molPercentTable := by
  intro h
  obtain ⟨r, hr⟩ := h "=" "1" "1" "%" "mol%" 1 1 (by decide) (by decide +kernel) (by decide +kernel)
    (by decide +kernel)
  revert hr
  have : compareValues molPercentTable "=" "1" (some "%") "1" (some "mol%") = .error .conversion := by
    decide +kernel
  rw [this]
  intro hr
  cases hr

example : molPercentTable.WF = true ∧ molPercentTable.Convertible = false := by decide +kernel

/-- Partial: whenever pint can convert the second operand (which only fails for units of different pint
    dimensionality), every valid operator answers. -/
theorem C21_total_partial (T : UnitSys) (op va vb a b : String) (ra rb : UnitRow) (pa pb : PintUnit) (x y y' : Rat)
    (hop : op ∈ allOps)
    (hra : findRow T a = some ra) (hrb : findRow T b = some rb) (hab : a ≠ b)
    (hc : areComparable T (some a) (some b) = .ok true)
    (hk : T.pintKeys.contains ra.quantity = true)
    (hpa : ra.pint = some pa) (hpb : rb.pint = some pb)
    (hx : parseDec va = .num x) (hy : parseDec vb = .num y)
    (hconv : convertP T y pb pa = .ok y') :
    ∃ r, compareValues T op va (some a) vb (some b) = .ok r := by
  have hab' : ¬ (some a = some b) := fun h => hab (Option.some.inj h)
  have h : numOperands T x y (some a) (some b) = .ok (x, y') := by
    simp only [numOperands, hc, isPint, hab', if_false, quantityOf, hra, hk, if_true, pintUnit, hrb, hpa, hpb, hconv]
  simp only [compareValues, operands_num _ _ hx hy, h, applyOp]
  simp only [allOps, List.mem_cons, List.mem_nil_iff, or_false] at hop
  rcases hop with h | h | h | h | h | h | h <;> subst h <;> exact ⟨_, rfl⟩

end OPM.C21
