import OPM.Model.HwRecovery
import OPM.Lemmas.HwRecovery
/-!
# C24 No lost or stale hardware writes after an outage

"For any sequence of hardware faults, once the connection is back and a write cycle succeeds, every
output register holds the value most recently commanded by the engine. A value buffered during the
outage is never written after a newer value."

Vocabulary (OPM.Lemmas.HwRecovery): `runG` runs a history and carries the ghost map `cmd` — per
register the value of the last `write` / `write_batch` call naming it that returned without raising
(a call that raises, in Error / Disconnected, is refused and the engine is told so).  `hw` is the
memory of the concrete hardware, `Out.writes` the physical writes of one call in order.

The theorems are about the **repaired** code (`Fixed cfg`, see fixes/C24-*.diff); the model variant of
the code as found in the repository violates them (`unrepaired_*` below, replayed on the real code
by props/C24.py).  Hypothesis `Op.nodup`: a batch names a register at most once (the engine's write
cycle iterates `hwl.registers.values()`).
-/
namespace OPM.C24
open OPM.HwRecovery

/-- Full statement, part 1 (no stale write): after any history of reads, writes, failures, partial
    batch failures, time-outs and reconnects, every physical write that reaches the hardware carries
    the value most recently commanded for its register — so a buffered value is never written after
    a newer one. -/
theorem no_stale_write (cfg : Cfg) (hf : Fixed cfg) (connected : Bool) (ops : List Op) (op : Op)
    (hnd : ∀ o ∈ ops, o.nodup) (hop : op.nodup) :
    ∀ e ∈ (step cfg (runG cfg (initG connected) ops).s op).2.writes,
      (runG cfg (initG connected) (ops ++ [op])).cmd e.1 = some e.2 := by
  rw [runG_snoc]
  exact step_writes_fresh cfg hf _ op hop (good_reachable cfg hf connected ops hnd)

/-- Full statement, part 2 (no lost write): at every point of every history, every commanded value is
    either in the hardware register or still buffered — with exactly that value. -/
theorem never_lost (cfg : Cfg) (hf : Fixed cfg) (connected : Bool) (ops : List Op) (hnd : ∀ o ∈ ops, o.nodup)
    (r : RegId) (v : Val) (hc : (runG cfg (initG connected) ops).cmd r = some v) :
    (runG cfg (initG connected) ops).s.hw r = some v ∨ (r, v) ∈ (runG cfg (initG connected) ops).s.pending :=
  (good_reachable cfg hf connected ops hnd).held r v hc

/-- A buffered value is always the most recently commanded one for its register. -/
theorem buffered_is_newest (cfg : Cfg) (hf : Fixed cfg) (connected : Bool) (ops : List Op)
    (hnd : ∀ o ∈ ops, o.nodup) (r : RegId) (v : Val)
    (hp : (r, v) ∈ (runG cfg (initG connected) ops).s.pending) :
    (runG cfg (initG connected) ops).cmd r = some v :=
  (good_reachable cfg hf connected ops hnd).pend r v hp

/-- Full statement, part 3 (recovered cycle): after any history, once the connection is back (state OK
    or Issue, i.e. the call reaches the hardware) and a write cycle succeeds (the batch write and the
    flush writes it triggers succeed), the buffer is empty and **every** register holds the value most
    recently commanded for it — the registers of this cycle and all others. -/
theorem recovered_cycle_holds (cfg : Cfg) (hf : Fixed cfg) (connected : Bool) (ops : List Op)
    (hnd : ∀ o ∈ ops, o.nodup) (rs : List Reg) (ws : List WVal) (fl : List Bool)
    (hst : (runG cfg (initG connected) ops).s.st = .ok ∨ (runG cfg (initG connected) ops).s.st = .issue)
    (hdir : rs.all (·.canWrite) = true) (hrs : (rs.map (·.id)).Nodup) (hfl : fl.all id = true) :
    let g' := runG cfg (initG connected) (ops ++ [.writeBatch rs ws Option.none fl])
    g'.s.st = .ok ∧ g'.s.pending = [] ∧
    (∀ r v, g'.cmd r = some v → g'.s.hw r = some v) ∧
    (∀ e ∈ zipRW rs ws, g'.cmd e.1.id = some e.2.v ∧ g'.s.hw e.1.id = some e.2.v) := by
  intro g'
  have hg : Good g' := good_reachable cfg hf connected _ (by
    intro o ho
    rcases List.mem_append.mp ho with ho | ho
    · exact hnd o ho
    · simp only [List.mem_singleton] at ho; subst ho; exact hrs)
  have hstep : g' = stepG cfg (runG cfg (initG connected) ops) (.writeBatch rs ws Option.none fl) :=
    runG_snoc cfg _ ops _
  obtain ⟨hp, hok, hres, _⟩ := writeBatch_ok_pending cfg hf (runG cfg (initG connected) ops).s rs ws fl hst hdir hfl
  have hp' : g'.s.pending = [] := by rw [hstep]; exact hp
  have hheld : ∀ r v, g'.cmd r = some v → g'.s.hw r = some v := by
    intro r v hc
    rcases hg.held r v hc with h | h
    · exact h
    · rw [hp'] at h; cases h
  refine ⟨by rw [hstep]; exact hok, hp', hheld, ?_⟩
  intro e he
  have hc : g'.cmd e.1.id = some e.2.v := by
    rw [hstep]
    simp only [stepG, cmdUpd, hres, Res.raised, Bool.false_eq_true, if_false]
    exact cmdWrite_mem _ (zip_keys_nodup rs ws hrs) _ e he
  exact ⟨hc, hheld _ _ hc⟩

/-- Full statement, part 3' (every successful write call): after any history, any `write` / `write_batch`
    call that reached the hardware and whose hardware calls — the main call and every flush write that was
    attempted — all succeeded leaves the buffer empty and **every** register that was ever commanded at its
    most recently commanded value, whichever registers the call itself named. -/
theorem successful_call_leaves_all_registers_current (cfg : Cfg) (hf : Fixed cfg) (connected : Bool)
    (ops : List Op) (op : Op) (hnd : ∀ o ∈ ops, o.nodup) (hop : op.nodup)
    (hw : op.isWrite = true)
    (hc : (step cfg (runG cfg (initG connected) ops).s op).2.contact = some true)
    (hff : (step cfg (runG cfg (initG connected) ops).s op).2.flushFail = false) :
    (runG cfg (initG connected) (ops ++ [op])).s.pending = [] ∧
    ∀ r v, (runG cfg (initG connected) (ops ++ [op])).cmd r = some v →
      (runG cfg (initG connected) (ops ++ [op])).s.hw r = some v := by
  have hg : Good (runG cfg (initG connected) (ops ++ [op])) := good_reachable cfg hf connected _ (by
    intro o ho
    rcases List.mem_append.mp ho with ho | ho
    · exact hnd o ho
    · simp only [List.mem_singleton] at ho; subst ho; exact hop)
  have hp : (runG cfg (initG connected) (ops ++ [op])).s.pending = [] := by
    rw [runG_snoc]; exact step_ok_pending cfg hf _ op hc hff hw
  refine ⟨hp, ?_⟩
  intro r v hcv
  rcases hg.held r v hcv with h | h
  · exact h
  · rw [hp] at h; cases h

/-! ## Non-vacuity and regression witnesses -/

def B : Reg := ⟨2, .w⟩
def C : Reg := ⟨3, .w⟩
def n (k : Int) : WVal := ⟨.num (8 * k), false⟩
def repaired : Cfg := { t1 := 80, t2 := 160, bk := [0, 2] }
def unrepaired : Cfg := { t1 := 80, t2 := 160, bk := [0, 2], asIsPending := true, asIsFloat := true }

/-- the outage scenario: a cycle fails (5 is buffered for B), the next cycle succeeds with the newer
    value 7, the following cycle is unchanged -/
def outage : List Op :=
  [.writeBatch [B, C] [n 5, n 1] (some 0) [], .writeBatch [B, C] [n 7, n 1] Option.none [],
   .writeBatch [B, C] [n 7, n 1] Option.none []]

/-- repaired code: B holds 7 (hypotheses of the theorems above are satisfiable, conclusion observed) -/
example : (runG repaired (initG true) outage).s.hw 2 = some (.num 56) ∧
          (runG repaired (initG true) outage).cmd 2 = some (.num 56) ∧
          (runG repaired (initG true) outage).s.pending = [] := by decide

/-- Regression witness: the model variant of the code as found writes the buffered 5 over the newer 7
    on the unchanged cycle and leaves it there (this is what `no_stale_write` / `recovered_cycle_holds`
    exclude). -/
theorem unrepaired_writes_stale_value :
    (runG unrepaired (initG true) outage).cmd 2 = some (.num 56) ∧
    (runG unrepaired (initG true) outage).s.hw 2 = some (.num 40) ∧
    (step unrepaired (runG unrepaired (initG true) (outage.take 2)).s (outage.getD 2 (.tick true))).2.writes
      = [(2, .num 40), (3, .num 8)] := by decide

/-- Regression witness: the unrepaired filter drops a float commanded after a non-numeric value
    (no fault involved): the register keeps `None` although 1.5 was commanded and the write "succeeded". -/
theorem unrepaired_filter_loses_float :
    (runG unrepaired (initG true)
      [.writeBatch [B] [⟨.none, false⟩] Option.none [], .writeBatch [B] [⟨.num 12, true⟩] Option.none []]).s.hw 2
      = some Val.none ∧
    (runG repaired (initG true)
      [.writeBatch [B] [⟨.none, false⟩] Option.none [], .writeBatch [B] [⟨.num 12, true⟩] Option.none []]).s.hw 2
      = some (.num 12) := by decide

/-- the hypotheses of `successful_call_leaves_all_registers_current` are satisfiable with a register
    outside the call: B=5 is buffered by a failed cycle, a later single write to register 4 flushes it -/
example :
    (step repaired (runG repaired (initG true) [.writeBatch [B, C] [n 5, n 1] (some 0) []]).s
      (.write ⟨4, .w⟩ (n 1) true [])).2.contact = some true ∧
    (step repaired (runG repaired (initG true) [.writeBatch [B, C] [n 5, n 1] (some 0) []]).s
      (.write ⟨4, .w⟩ (n 1) true [])).2.flushFail = false ∧
    (runG repaired (initG true) [.writeBatch [B, C] [n 5, n 1] (some 0) [], .write ⟨4, .w⟩ (n 1) true []]).s.hw 2
      = some (.num 40) := by decide

end OPM.C24
