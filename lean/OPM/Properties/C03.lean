import OPM.Model.Interp
import OPM.Lemmas.Interp
import OPM.Lemmas.InterpC03
import OPM.Lemmas.InterpC03Wait
import OPM.Lemmas.InterpC03WaitInv
set_option linter.unusedVariables false
set_option linter.unusedSimpArgs false
/-!
# C03 Thresholds and Wait durations are honoured

"An instruction with threshold T never starts before the clock of its scope (block time inside a
block, scope time otherwise, or the registered volume/CV accumulator for the current Base unit) has
reached T. It starts no later than the first tick at which the clock has reached T and the preceding
instruction has completed. The instruction after 'Wait: d' starts no earlier than d seconds after
the Wait started and no later than one tick interval after that."

Model: `OPM.Model.Interp` (frame-stack machine of `pinterpreter.py`).  The clocks are inputs of the
model per tick (`TickIn.scopeClock`, `TickIn.blockClock`, `TickIn.time`): whatever the engine's
Scope Time / Block Time tags show when `PInterpreter.tick` runs, and the tick time.

All theorems are for every program (including the pathological Alarm/Watch/macro nestings) and —
except where `GensOk` is assumed, which holds in every reachable state (`reachable_ok`) — for every
state, hence for every schedule of ticks, clock values, condition tags and cancel / force / command
completion / inject requests.
-/
namespace OPM.C03
open OPM.Interp

/-! ## the clock a threshold is compared with -/

/-- `is_in_block` of `_is_awaiting_threshold`: the Block tag is neither `None` nor `""`. -/
def inBlock (s : St) : Bool :=
  match s.blockTag with | none => false | some b => b ≠ ""

/-- The clock `_is_awaiting_threshold` reads in state `s`: Block Time iff the Block tag is non-empty. -/
def thrClock (s : St) : Rat := if inBlock s then s.blockClock else s.scopeClock

/-- `_is_awaiting_threshold(n)` is false exactly if the node is completed, has no threshold, is forced,
    or the clock of the current scope has reached the threshold converted to the current base unit. -/
theorem awaiting_false_iff (p : Prog) (s : St) (n : Nat) :
    awaitingThreshold p s n = false ↔
      ((s.rt n).completed = true ∨ (node p n).threshold = none ∨ (s.rt n).forced = true ∨
        ∃ T, (node p n).threshold = some T ∧ T * s.baseFactor ≤ thrClock s) := by
  unfold awaitingThreshold thrClock inBlock
  simp only [getRt_eq]
  by_cases hc : (s.rt n).completed = true
  · simp [hc]
  · cases ht : (node p n).threshold with
    | none => simp [hc]
    | some T =>
      by_cases hf : (s.rt n).forced = true
      · simp [hc, hf]
      · simp only [hc, hf, if_false, Bool.false_eq_true, false_or, Option.some.injEq, exists_eq_left',
          decide_eq_false_iff_not, Rat.not_lt, reduceCtorEq]
        exact Iff.rfl

/-! ## (1) never before the threshold -/

/-- **Guard, micro-step, flag.**  In any micro-step of any generator, in any state of any method:
    if the `started` flag of `k` flips from false to true, then the step was the wrapper's step at
    `k`'s threshold point and there the node was completed, had no threshold, was forced, or the clock
    of the current scope had reached `T` in the current base unit — or `k` is a Blank/Comment line
    (whose body sets the flag again after the wrapper has passed the threshold). -/
theorem start_flag_guard_step (p : Prog) (s : St) (stack : List Frame) (k : Nat)
    (h0 : (s.rt k).started = false) (h1 : (((stepGen p s stack).1).rt k).started = true) :
    (stack.head? = some (.wrapThr k) ∧
      ((s.rt k).completed = true ∨ (node p k).threshold = none ∨ (s.rt k).forced = true ∨
        ∃ T, (node p k).threshold = some T ∧ T * s.baseFactor ≤ thrClock s)) ∨
    (∃ pc, stack.head? = some (.body k pc) ∧ (node p k).kind = .blank false) := by
  rcases stepGen_started p s stack k h0 h1 with ⟨hh, ha⟩ | h
  · exact Or.inl ⟨hh, (awaiting_false_iff p s k).mp ha⟩
  · exact Or.inr h

/-- **Guard, micro-step, event.**  A micro-step keeps the events of the tick and adds new ones in
    front; a new `start n` event is emitted only by the wrapper of `n` at its threshold point, in a
    state where `n` was already started (re-entry of a started node, e.g. the interrupt generator of a
    Watch) or `_is_awaiting_threshold(n)` is false. -/
theorem start_event_guard_step (p : Prog) (s : St) (stack : List Frame) :
    ∃ added, (stepGen p s stack).1.events = added ++ s.events ∧
      ∀ n, Event.start n ∈ added →
        stack.head? = some (.wrapThr n) ∧ ((s.rt n).started = true ∨ awaitingThreshold p s n = false) := by
  rcases stepGen_events p s stack with ⟨l, el, pl⟩
  refine ⟨l, el, ?_⟩
  intro n hn
  rcases pl _ hn rfl with ⟨m, em, hh, hg⟩
  cases em
  exact ⟨hh, hg⟩

/-- Inside a tick the clocks are the tick's inputs (no micro-step changes them). -/
theorem clocks_constant_in_tick (p : Prog) (s : St) (i : TickIn) (s1 : St) (h : Within p (tickStart s i) s1) :
    s1.tickTime = i.time ∧ s1.scopeClock = i.scopeClock ∧ s1.blockClock = i.blockClock := by
  have := within_clk h
  unfold clk tickStart at this
  simp only [Prod.mk.injEq] at this
  exact this

/-- **C03, first clause (tick level).**  For every method, every state `s` and every tick input `i`: if
    instruction `k` (not a Blank/Comment line) with threshold `T` is not started before the tick and is
    started after it, then at some point `s1` of this tick the node was completed or forced, or
    `T` (converted with the base unit current at `s1`) had been reached by the tick's Block Time input
    if the Block tag was non-empty at `s1`, by the tick's Scope Time input otherwise. -/
theorem threshold_honoured_tick (p : Prog) (s : St) (i : TickIn) (k : Nat) (T : Rat)
    (hT : (node p k).threshold = some T) (hnb : (node p k).kind ≠ .blank false)
    (h0 : (s.rt k).started = false) (h1 : (((tick p s i).1).rt k).started = true) :
    ∃ s1, Within p (tickStart s i) s1 ∧
      ((s1.rt k).completed = true ∨ (s1.rt k).forced = true ∨
        T * s1.baseFactor ≤ (if inBlock s1 then i.blockClock else i.scopeClock)) := by
  have hw := tick_within p s i
  have h0' : ((tickStart s i).rt k).started = false := h0
  rcases within_started p hw k h0' h1 with ⟨s1, hw1, ha | hb⟩
  · refine ⟨s1, hw1, ?_⟩
    rcases (awaiting_false_iff p s1 k).mp ha with hc | hn | hf | ⟨T', hT', hle⟩
    · exact Or.inl hc
    · rw [hT] at hn; cases hn
    · exact Or.inr (Or.inl hf)
    · rw [hT] at hT'; cases hT'
      right; right
      have hc := clocks_constant_in_tick p s i s1 hw1
      unfold thrClock at hle
      rw [hc.2.1, hc.2.2] at hle
      exact hle
  · exact absurd hb hnb

/-- **C03, first clause (tick level, event form).**  A `start k` event of a tick was emitted at a point
    `s1` of the tick where `k` was already started, completed or forced, or its threshold had been
    reached by the clock of the scope current at `s1`. -/
theorem threshold_honoured_tick_event (p : Prog) (s : St) (i : TickIn) (k : Nat) (T : Rat)
    (hT : (node p k).threshold = some T) (h1 : Event.start k ∈ (tick p s i).1.events) :
    ∃ s1, Within p (tickStart s i) s1 ∧
      ((s1.rt k).started = true ∨ (s1.rt k).completed = true ∨ (s1.rt k).forced = true ∨
        T * s1.baseFactor ≤ (if inBlock s1 then i.blockClock else i.scopeClock)) := by
  have hw := tick_within p s i
  rcases within_start_event p hw k h1 with h | ⟨s1, hw1, hg⟩
  · simp [tickStart] at h
  · refine ⟨s1, hw1, ?_⟩
    rcases hg with hs | ha
    · exact Or.inl hs
    · rcases (awaiting_false_iff p s1 k).mp ha with hc | hn | hf | ⟨T', hT', hle⟩
      · exact Or.inr (Or.inl hc)
      · rw [hT] at hn; cases hn
      · exact Or.inr (Or.inr (Or.inl hf))
      · rw [hT] at hT'; cases hT'
        right; right; right
        have hc := clocks_constant_in_tick p s i s1 hw1
        unfold thrClock at hle
        rw [hc.2.1, hc.2.2] at hle
        exact hle

/-! ## (2) promptness: no later than the first tick with the clock at T and the predecessor done -/

/-- **Threshold point, passing.**  If `_is_awaiting_threshold(n)` is false when the wrapper of `n` is at its
    threshold point, the very same step sets `started`, emits `start n` and only then ends the tick
    (`visit_Node`'s unconditional EndTick): the node is started in this tick. -/
theorem threshold_point_passes (p : Prog) (s : St) (n : Nat) (below : List Frame)
    (ha : awaitingThreshold p s n = false) :
    stepFrame p s (.wrapThr n) below =
      .next (emit (setRt s n (fun r => { r with started := true })) (.start n)) [.wrapDispatch n] .endTick := by
  unfold stepFrame
  simp [ha]

/-- **Threshold point, waiting.**  While `_is_awaiting_threshold(n)` holds for a node that is neither
    started nor completed (and not inside an ended block) the wrapper ends the tick without changing
    anything and stays at the threshold point: the condition is evaluated again in the next tick. -/
theorem threshold_point_waits (p : Prog) (s : St) (n : Nat) (below : List Frame)
    (hs : (s.rt n).started = false) (hc : (s.rt n).completed = false)
    (ha : awaitingThreshold p s n = true) (hb : inEndedBlock p s below n = false) :
    stepFrame p s (.wrapThr n) below = .next s [.wrapThr n] .endTick := by
  unfold stepFrame
  simp [ha, hs, hc, hb]

/-- …and inside an ended block it leaves without ever starting (`End block` semantics, C05). -/
theorem threshold_point_leaves_ended_block (p : Prog) (s : St) (n : Nat) (below : List Frame)
    (hs : (s.rt n).started = false) (hc : (s.rt n).completed = false)
    (ha : awaitingThreshold p s n = true) (hb : inEndedBlock p s below n = true) :
    stepFrame p s (.wrapThr n) below = .next s [] .cont := by
  unfold stepFrame
  simp [ha, hs, hc, hb]

/-- A generator whose top frame is the threshold point of `n` starts `n` in the tick in which
    `_is_awaiting_threshold(n)` is false when it runs (for every generator, every state). -/
theorem runGen_prompt (p : Prog) (fuel : Nat) (s : St) (n : Nat) (below : List Frame)
    (ha : awaitingThreshold p s n = false) :
    runGen p (fuel + 1) s (.wrapThr n :: below) =
      (emit (setRt s n (fun r => { r with started := true })) (.start n), .wrapDispatch n :: below, true) := by
  simp only [runGen, stepGen, threshold_point_passes p s n below ha, List.cons_append, List.nil_append]

/-- …and does nothing at all in a tick in which the threshold is still awaited. -/
theorem runGen_waits (p : Prog) (fuel : Nat) (s : St) (n : Nat) (below : List Frame)
    (hs : (s.rt n).started = false) (hc : (s.rt n).completed = false)
    (ha : awaitingThreshold p s n = true) (hb : inEndedBlock p s below n = false) :
    runGen p (fuel + 1) s (.wrapThr n :: below) = (s, .wrapThr n :: below, true) := by
  simp only [runGen, stepGen, threshold_point_waits p s n below hs hc ha hb, List.cons_append, List.nil_append]

/-- **C03, second clause (tick level, main generator).**  If the main visitor stands at the threshold point
    of `n` and `_is_awaiting_threshold(n)` is false for the clocks of this tick, then `start n` is among
    the events of this tick — whatever the interrupts do afterwards. -/
theorem main_prompt_tick (p : Prog) (s : St) (i : TickIn) (g : Gen) (n : Nat) (below : List Frame)
    (hg : getGen s 0 = some g) (hst : g.stack = .wrapThr n :: below)
    (ha : awaitingThreshold p (tickStart s i) n = false) :
    Event.start n ∈ (tick p s i).1.events := by
  -- the main generator runs first, from `tickStart`
  have hmain : Event.start n ∈ (runGid p microFuel (tickStart s i) 0).1.events := by
    unfold runGid
    have hg' : getGen (tickStart s i) 0 = some g := hg
    rw [hg']
    simp only [hst]
    have : microFuel = (microFuel - 1) + 1 := by decide
    rw [this, runGen_prompt p _ _ n below ha]
    simp [setGenStack, emit]
  -- everything after that only adds events
  have h1 := within_foldInterrupts p ((runGid p microFuel (tickStart s i) 0).1.imap.map (·.2))
    (runGid p microFuel (tickStart s i) 0)
  have h2 := within_events_mono h1 _ hmain
  exact h2

/-- Companion: while the threshold is awaited the main visitor changes nothing in that tick. -/
theorem main_waits_tick (p : Prog) (s : St) (i : TickIn) (g : Gen) (n : Nat) (below : List Frame)
    (hg : getGen s 0 = some g) (hst : g.stack = .wrapThr n :: below)
    (hs : (s.rt n).started = false) (hc : (s.rt n).completed = false)
    (ha : awaitingThreshold p (tickStart s i) n = true)
    (hb : inEndedBlock p (tickStart s i) below n = false) :
    runGid p microFuel (tickStart s i) 0 = (setGenStack (tickStart s i) 0 (.wrapThr n :: below), true) := by
  unfold runGid
  have hg' : getGen (tickStart s i) 0 = some g := hg
  rw [hg']
  simp only [hst]
  have : microFuel = (microFuel - 1) + 1 := by decide
  rw [this, runGen_waits p _ (tickStart s i) n below hs hc ha hb]

/-- **From "predecessor done" to the threshold point, in the same tick.**  When the visit of child
    number `inx` of `n` returns (frames `wrapAfter c`, `children n inx true`), the parent's loop advances
    and — unless `n` was completed / had its children declared complete, or the next child `c'` is
    completed or inside an ended block — reaches the threshold point of the next child without any
    EndTick in between; if `_is_awaiting_threshold(c')` is false there, `c'` is started in this very tick. -/
theorem successor_started_same_tick (p : Prog) (s : St) (n inx c c' : Nat) (below : List Frame) (fuel : Nat)
    (hkid : (node p n).children[inx + 1]? = some c')
    (hn : (s.rt n).completed = false) (hcc : (s.rt n).childrenComplete = false)
    (hci : (s.rt n).childIndex ≤ inx) (hc' : (s.rt c').completed = false)
    (hblk : inEndedBlock p s (.children n (inx + 1) false :: below) c' = false)
    (hthr : awaitingThreshold p s c' = false) :
    ∃ s', runGen p (fuel + 5) s (.wrapAfter c :: .children n inx true :: below) =
        (s', .wrapDispatch c' :: .children n (inx + 1) true :: below, true) ∧
      (s'.rt c').started = true ∧ Event.start c' ∈ s'.events := by
  -- state after the parent's `child_index += 1`
  let s1 := setRt s n (fun r => { r with childIndex := r.childIndex + 1 })
  have hn1 : (s1.rt n).completed = false := by simp [s1, hn]
  have hcc1 : (s1.rt n).childrenComplete = false := by simp [s1, hcc]
  have hci1 : ¬ (inx + 1 < (s1.rt n).childIndex) := by simp [s1]; omega
  have hblk1 : inEndedBlock p s1 (.children n (inx + 1) false :: below) c' = false := by
    exact (inEndedBlock_setRt p s n c' (.children n (inx + 1) false :: below)
      (fun r => { r with childIndex := r.childIndex + 1 }) (fun _ => rfl)).trans hblk
  have hc1 : (s1.rt c').completed = false := by
    simp only [s1, rt_setRt]; split
    · rename_i h; subst h; exact hc'
    · exact hc'
  -- state after `begin_visit`
  let s2 := setRt s1 c' (fun r => { r with hasRecord := true })
  have hthr2 : awaitingThreshold p s2 c' = false := by
    exact ((awaiting_setRt p s1 c' c' (fun r => { r with hasRecord := true }) (fun _ => ⟨rfl, rfl⟩)).trans
      (awaiting_setRt p s n c' (fun r => { r with childIndex := r.childIndex + 1 }) (fun _ => ⟨rfl, rfl⟩))).trans hthr
  refine ⟨emit (setRt s2 c' (fun r => { r with started := true })) (.start c'), ?_, ?_, ?_⟩
  · have e1 : stepGen p s (.wrapAfter c :: .children n inx true :: below) =
        (s, .children n inx true :: below, .cont) := by simp [stepGen, stepFrame]
    have e2 : stepGen p s (.children n inx true :: below) =
        (s1, .children n (inx + 1) false :: below, .cont) := by simp [stepGen, stepFrame, s1]
    have e3 : stepGen p s1 (.children n (inx + 1) false :: below) =
        (s1, .wrapEnter c' :: .children n (inx + 1) true :: below, .cont) := by
      simp only [stepGen, stepFrame, getRt_eq, hkid, hn1, hcc1, hblk1]
      simp [hci1]
    have e4 : stepGen p s1 (.wrapEnter c' :: .children n (inx + 1) true :: below) =
        (s2, .wrapThr c' :: .children n (inx + 1) true :: below, .cont) := by
      simp [stepGen, stepFrame, hc1, s2]
    have e5 := runGen_prompt p fuel s2 c' (.children n (inx + 1) true :: below) hthr2
    have : fuel + 5 = ((((fuel + 1) + 1) + 1) + 1) + 1 := by omega
    rw [this]
    rw [runGen, e1]; simp only []
    rw [runGen, e2]; simp only []
    rw [runGen, e3]; simp only []
    rw [runGen, e4]; simp only []
    exact e5
  · simp
  · simp [emit]

/-! ## (3) Wait -/

/-- **Entering `Wait: d`** (`d ≥ 0.1 s`): the start time is this tick's time unless one was persisted,
    the deadline `duration_end_time = wait_start_time + d − 0.1` is fixed, and the loop is entered in the
    same micro-run (no EndTick, nothing else changes). -/
theorem wait_enter (p : Prog) (s : St) (n : Nat) (d : Rat) (below : List Frame)
    (hk : (node p n).kind = .wait d) (hd : ¬ (d - 1/10 < 0)) :
    stepBody p s n 0 below =
      .next (setRt s n (fun r => { r with waitStart := some ((s.rt n).waitStart.getD s.tickTime) }))
        [.waitLoop n ((s.rt n).waitStart.getD s.tickTime + d - 1/10)] .cont := by
  unfold stepBody
  simp [hk, hd]

/-- `Wait: d` with `d < 0.1 s` returns at once without completing the node and without an EndTick: the
    line stays "started" for ever (what the code does; relevant to C02/C15, not a timing error: the
    successor is entered in the same tick). -/
theorem wait_shorter_than_correction_never_completes (p : Prog) (s : St) (n : Nat) (d : Rat) (below : List Frame)
    (hk : (node p n).kind = .wait d) (hd : d - 1/10 < 0) :
    ∃ s', stepBody p s n 0 below = .next s' [] .cont ∧ (s'.rt n).completed = (s.rt n).completed ∧
      s'.events = s.events := by
  unfold stepBody
  simp [hk, hd]
  rfl

/-- **The Wait loop holds** (EndTick, nothing changes) in every tick whose time is before the deadline,
    unless the node is forced. -/
theorem wait_holds (p : Prog) (s : St) (n : Nat) (endT : Rat) (below : List Frame)
    (hlt : s.tickTime < endT) (hf : (s.rt n).forced = false) (hws : (s.rt n).waitStart.isSome = true) :
    stepFrame p s (.waitLoop n endT) below = .next s [.waitLoop n endT] .endTick := by
  unfold stepFrame
  have : (s.rt n).waitStart.isNone = false := by
    cases h : (s.rt n).waitStart <;> simp_all
  simp [hlt, hf, this]

/-- **The Wait loop releases** in the first tick whose time has reached the deadline (or when forced):
    the node is completed in that tick, then EndTick — the parent continues with the successor in the
    next tick (`successor_started_same_tick`). -/
theorem wait_releases (p : Prog) (s : St) (n : Nat) (endT : Rat) (below : List Frame)
    (h : endT ≤ s.tickTime ∨ (s.rt n).forced = true) :
    stepFrame p s (.waitLoop n endT) below = .next (finishNode s n) [.body n 2] .endTick := by
  unfold stepFrame
  rcases h with h | h
  · have : ¬ (s.tickTime < endT) := Rat.not_lt.mpr h
    simp [this]
  · simp [h]

/-! ### reachable states -/

/-- States reachable by any schedule of ticks (any clocks, tick times, tag values) and requests; command
    completion is reported for command nodes only (`tracking.mark_completed(request)`). -/
inductive Reachable (p : Prog) : St → Prop
  | init : Reachable p (init p)
  | tick (s : St) (i : TickIn) : Reachable p s → Reachable p (tick p s i).1
  | cancel (s s' : St) (n : Nat) : Reachable p s → cancel p s n = some s' → Reachable p s'
  | force (s s' : St) (n : Nat) : Reachable p s → force p s n = some s' → Reachable p s'
  | complete (s : St) (n : Nat) : Reachable p s → isCmd p n = true → Reachable p (completeCmd s n)
  | inject (s : St) (n : Nat) : Reachable p s → Reachable p (inject p s n)

/-- In every reachable state all generator stacks are well formed (`callRet` frames belong to Call
    macro nodes and registered Macro nodes). -/
theorem reachable_ok (p : Prog) (s : St) (h : Reachable p s) : GensOk p s := by
  induction h with
  | init =>
    refine ⟨by intro e he; simp [init] at he, ?_⟩
    intro g hg
    simp [init] at hg
    subst hg
    exact stackOk_wrapEnter p 0
  | tick s i _ ih => exact (tick_withinI (tickInv_ok p) s i ih).2
  | cancel s s' n _ hc ih =>
    unfold cancel at hc
    split at hc
    · cases hc; exact ih
    · cases hc
  | force s s' n _ hc ih =>
    unfold force at hc
    split at hc
    · cases hc; exact ih
    · cases hc
  | complete s n _ _ ih =>
    unfold completeCmd
    split <;> exact ih
  | inject s n _ ih =>
    unfold inject
    apply ok_registerInterrupt
    exact ok_foldl (p := p) (fun s k => setRt s k (fun r => { r with hasRecord := true })) (fun s a hs => hs) _ s ih

/-- **Wait completion guard (micro-step).**  On a well-formed stack (every reachable one, `reachable_ok`),
    the `completed` flag of a `Wait` node flips only in a step of its own loop frame `waitLoop k endT`
    that found `endT ≤ tick_time`, or the node forced. -/
theorem wait_completion_guard_step (p : Prog) (s : St) (stack : List Frame) (k : Nat)
    (hst : StackOk p stack) (hw : isWait p k = true)
    (h0 : (s.rt k).completed = false) (h1 : (((stepGen p s stack).1).rt k).completed = true) :
    ∃ endT, stack.head? = some (.waitLoop k endT) ∧ (endT ≤ s.tickTime ∨ (s.rt k).forced = true) := by
  rcases stepGen_completed_wait p s stack k hw h0 h1 with h | ⟨n, m, hh, hkm⟩
  · exact h
  · exfalso
    cases stack with
    | nil => cases hh
    | cons f below =>
      simp only [List.head?, Option.some.injEq] at hh
      subst hh
      have hf : FrameOk p (.callRet n m) := hst _ (List.mem_cons_self ..)
      rcases hkm with e | e
      · subst e
        have := hf.1
        unfold isWait at hw; unfold isCall at this
        split at hw <;> simp_all
      · subst e
        have := hf.2
        unfold isWait at hw; unfold isMacro at this
        split at hw <;> simp_all

theorem gw_setRt_keep (p : Prog) (s : St) (n : Nat) (f : NodeRt → NodeRt)
    (hf : ∀ r, (f r).waitStart = r.waitStart) (h : Gw p s) : Gw p (setRt s n f) := by
  refine ⟨h.1, ?_⟩
  intro g hg
  refine waitInv_mono p s _ _ ?_ (h.2 g hg)
  intro k ws hk
  simp only [rt_setRt]; split
  · rename_i e; subst e; rw [hf]; exact hk
  · exact hk

/-- In every reachable state of a method without Alarm / Call macro, every Wait loop frame of every
    generator carries the deadline `wait_start_time + d − 0.1` of its node. -/
theorem reachable_wait_inv (p : Prog) (hnr : noReset p = true) (s : St) (h : Reachable p s) : Gw p s := by
  induction h with
  | init =>
    refine ⟨reachable_ok p _ Reachable.init, ?_⟩
    intro g hg
    simp [init] at hg
    subst hg
    exact waitInv_wrapEnter p _ 0
  | tick s i _ ih => exact (tick_withinI (tickInv_wait p hnr) s i ih).2
  | cancel s s' n _ hc ih =>
    unfold cancel at hc
    split at hc
    · cases hc; exact gw_setRt_keep p s n _ (fun _ => rfl) ih
    · cases hc
  | force s s' n _ hc ih =>
    unfold force at hc
    split at hc
    · cases hc; exact gw_setRt_keep p s n _ (fun _ => rfl) ih
    · cases hc
  | complete s n _ _ ih =>
    unfold completeCmd
    split
    · exact ih
    · exact gw_setRt_keep p s n _ (fun _ => rfl) ih
  | inject s n hr ih =>
    have key : ∀ (l : List Nat) (s : St), Gw p s →
        Gw p (l.foldl (fun s k => setRt s k (fun r => { r with hasRecord := true })) s) := by
      intro l
      induction l with
      | nil => intro s h; exact h
      | cons a l ihl => intro s h; exact ihl _ (gw_setRt_keep p s a _ (fun _ => rfl) h)
    have h1 := key (n :: descendants p n) s ih
    unfold inject
    refine ⟨ok_registerInterrupt n h1.1, ?_⟩
    intro g hg
    have hws : ∀ k ws, ((List.foldl (fun s k => setRt s k (fun r => { r with hasRecord := true })) s
        (n :: descendants p n)).rt k).waitStart = some ws →
        ((registerInterrupt p (List.foldl (fun s k => setRt s k (fun r => { r with hasRecord := true })) s
          (n :: descendants p n)) n).rt k).waitStart = some ws := by
      intro k ws hk
      simp only [rt_registerInterrupt]; split
      · rename_i e; subst e; exact hk
      · exact hk
    rcases (gx_registerInterrupt p _ n).mem g hg with h | ⟨m, h⟩
    · exact waitInv_mono p _ _ _ hws (h1.2 g h)
    · rw [h]; exact waitInv_wrapEnter p _ m

/-- **C03, Wait, lower bound (tick level), methods without Alarm / Call macro.**  In every reachable
    state, for every tick input: if `Wait: d` (node `k`) is not completed before the tick and completed
    after it, then at a point `s1` of this tick the node's persisted start time was `ws` and
    `ws + d − 0.1 ≤ tick time`, or the node was forced.  `ws` is the time of the tick in which the Wait
    body first ran (`wait_enter`) and never changes afterwards (`stepGen_ws`). -/
theorem wait_lower_bound_noReset (p : Prog) (hnr : noReset p = true) (s : St) (i : TickIn) (k : Nat)
    (hr : Reachable p s) (hw : isWait p k = true)
    (h0 : (s.rt k).completed = false) (h1 : (((tick p s i).1).rt k).completed = true) :
    ∃ s1 d ws, Within p (tickStart s i) s1 ∧ (node p k).kind = .wait d ∧ (s1.rt k).waitStart = some ws ∧
      (ws + d - 1/10 ≤ i.time ∨ (s1.rt k).forced = true) := by
  have hG := reachable_wait_inv p hnr s hr
  have hw1 := (tick_withinI (tickInv_wait p hnr) s i hG).1
  have h0' : ((tickStart s i).rt k).completed = false := h0
  rcases withinI_wait p (fun s st h => h.2.1) hw1 k hw h0' h1 with ⟨s1, endT, below, hws, hI, hg⟩
  rcases hI.2.2 k endT (List.mem_cons_self ..) with ⟨d, ws, hk, hwst, he⟩
  refine ⟨s1, d, ws, hws.toWithin, hk, hwst, ?_⟩
  have hc := clocks_constant_in_tick p s i s1 hws.toWithin
  rw [hc.1, he] at hg
  exact hg

/-- The same statement for *all* methods — kept visible.  It is neither proved nor refuted here: with an
    Alarm or macro re-run the flags (incl. `wait_start_time`) of a subtree are reset while an old
    generator may still hold a loop frame; the invariant behind `wait_lower_bound_noReset` is then not
    available.  (`wait_completion_guard_step` holds for all methods.) -/
def C03_wait_lower_bound_all_methods : Prop :=
  ∀ (p : Prog) (s : St) (i : TickIn) (k : Nat), Reachable p s → isWait p k = true →
    (s.rt k).completed = false → (((tick p s i).1).rt k).completed = true →
    ∃ s1 d ws, Within p (tickStart s i) s1 ∧ (node p k).kind = .wait d ∧ (s1.rt k).waitStart = some ws ∧
      (ws + d - 1/10 ≤ i.time ∨ (s1.rt k).forced = true)

/-- Between ticks a Wait node is never completed by a request (cancel / force / inject do not touch
    `completed`; completion reports are for command nodes). -/
theorem wait_not_completed_by_requests (p : Prog) (s : St) (k : Nat) (hw : isWait p k = true) :
    (∀ s' n, cancel p s n = some s' → (s'.rt k).completed = (s.rt k).completed) ∧
    (∀ s' n, force p s n = some s' → (s'.rt k).completed = (s.rt k).completed) ∧
    (∀ n, isCmd p n = true → ((completeCmd s n).rt k).completed = (s.rt k).completed) ∧
    (∀ n, ((inject p s n).rt k).completed = (s.rt k).completed) := by
  refine ⟨?_, ?_, ?_, ?_⟩
  · intro s' n hc
    unfold cancel at hc
    split at hc
    · cases hc; simp only [rt_setRt]; split
      · rename_i e; subst e; rfl
      · rfl
    · cases hc
  · intro s' n hc
    unfold force at hc
    split at hc
    · cases hc; simp only [rt_setRt]; split
      · rename_i e; subst e; rfl
      · rfl
    · cases hc
  · intro n hn
    unfold completeCmd
    split
    · rfl
    · simp only [rt_setRt]; split
      · rename_i e; subst e
        unfold isWait at hw; unfold isCmd at hn
        split at hw <;> simp_all
      · rfl
  · intro n
    unfold inject
    simp only [rt_registerInterrupt]
    have key : ∀ (l : List Nat) (s : St),
        ((l.foldl (fun s k => setRt s k (fun r => { r with hasRecord := true })) s).rt k).completed =
          (s.rt k).completed :=
      fun l s => proj_foldl_keep (·.completed) _ (fun s a j => by
        simp only [rt_setRt]; split
        · rename_i e; subst e; rfl
        · rfl) l s k
    split
    · rename_i e; subst e; exact key _ s
    · exact key _ s

/-! ### the window on a regular tick sequence -/

/-- **Arithmetic of the Wait loop on a regular tick sequence.**  Let the loop be entered in the tick at
    time `t0` (so `endT = t0 + d − 1/10`), let the ticks in which the interpreter runs be `t0 + j·Δ`, and
    let `k` be the first of them with `t0 + k·Δ ≥ endT` (`wait_holds` / `wait_releases`: the Wait completes
    in tick `k`, the successor reaches its threshold point in tick `k+1`).  Then the successor starts
    `σ = (k+1)·Δ` after the Wait began waiting, with `d + (Δ − 0.1) ≤ σ`, and `σ < d + (Δ − 0.1) + Δ`
    unless the loop exits at once. -/
theorem wait_window (t0 d Δ : Rat) (k : Nat)
    (hexit : t0 + d - 1/10 ≤ t0 + (k : Rat) * Δ)
    (hfirst : ∀ j : Nat, j < k → t0 + (j : Rat) * Δ < t0 + d - 1/10) :
    d + (Δ - 1/10) ≤ ((k : Rat) + 1) * Δ ∧ (0 < k → ((k : Rat) + 1) * Δ < d + (Δ - 1/10) + Δ) := by
  constructor
  · grind
  · intro hk
    obtain ⟨k', rfl⟩ : ∃ k', k = k' + 1 := ⟨k - 1, by omega⟩
    have := hfirst k' (by omega)
    have e : ((k' + 1 : Nat) : Rat) = (k' : Rat) + 1 := by simp
    rw [e]
    grind

/-- **C03, third clause, for the default tick interval Δ = 0.1 s** (the quantifier of the property): the
    instruction after `Wait: d` (`d ≥ 0.1`) reaches its threshold point no earlier than `d` and no later
    than `d + Δ` after the Wait began waiting. -/
theorem wait_window_default_interval (t0 d : Rat) (k : Nat) (hd : 1/10 ≤ d)
    (hexit : t0 + d - 1/10 ≤ t0 + (k : Rat) * (1/10))
    (hfirst : ∀ j : Nat, j < k → t0 + (j : Rat) * (1/10) < t0 + d - 1/10) :
    d ≤ ((k : Rat) + 1) * (1/10) ∧ ((k : Rat) + 1) * (1/10) ≤ d + 1/10 := by
  have h := wait_window t0 d (1/10) k hexit hfirst
  refine ⟨by grind, ?_⟩
  by_cases hk : 0 < k
  · have := h.2 hk; grind
  · have : k = 0 := by omega
    subst this
    simp
    grind

/-- The same window claimed for *every* tick interval — kept visible; it is false, because the
    correction is the constant 0.1 s, not one tick interval. -/
def C03_wait_window_any_interval : Prop :=
  ∀ (t0 d Δ : Rat) (k : Nat), 0 < Δ → 1/10 ≤ d →
    t0 + d - 1/10 ≤ t0 + (k : Rat) * Δ →
    (∀ j : Nat, j < k → t0 + (j : Rat) * Δ < t0 + d - 1/10) →
    d ≤ ((k : Rat) + 1) * Δ ∧ ((k : Rat) + 1) * Δ ≤ d + Δ

/-- Witness: `Wait: 0.5s` with ticks every 1/32 s — the loop exits in tick 13 (13/32 ≥ 0.4) and the
    successor starts 14/32 = 0.4375 s after the Wait began, before 0.5 s.  (Outside the property's
    quantifier, which fixes the default interval of 0.1 s.) -/
theorem C03_wait_window_any_interval_counterexample : ¬ C03_wait_window_any_interval := by
  intro h
  have := h 0 (1/2) (1/32) 13 (by decide +kernel) (by decide +kernel) (by decide +kernel) (by
    intro j hj
    have : j ≤ 12 := by omega
    have h2 : (j : Rat) ≤ 12 := by exact_mod_cast this
    grind)
  revert this
  decide +kernel

/-- …and for a longer interval the successor is late: `Wait: 0.5s` with Δ = 1 s exits in tick 1 and the
    successor starts 2 s after the Wait began (> d + Δ = 1.5 s). -/
theorem wait_late_with_long_interval :
    ¬ (∀ (d Δ : Rat) (k : Nat), 0 < Δ → 1/10 ≤ d → d - 1/10 ≤ (k : Rat) * Δ →
        (∀ j : Nat, j < k → (j : Rat) * Δ < d - 1/10) → ((k : Rat) + 1) * Δ ≤ d + Δ) := by
  intro h
  have := h (1/2) 1 1 (by decide +kernel) (by decide +kernel) (by decide +kernel) (by
    intro j hj
    have : j = 0 := by omega
    subst this
    decide +kernel)
  revert this
  decide +kernel

/-! ### the other reading of "the Wait started" (recorded interpretation, not a finding)

`wait_window_default_interval` measures from the tick in which the Wait *began waiting* (`wait_start_time`, the
run-log state "Started", what the repository's own tests measure).  The Wait's `started` flag (and the run-log
item's start time) is one tick earlier, because of the unconditional EndTick of `visit_Node`.  Measured from
there the successor starts `(k+2)·Δ` later: inside `[d, d+Δ]` only if `d` is a multiple of the interval (and
then at the upper edge, so that float rounding of `(start + d) − 0.1` on the real engine pushes it out: measured
`d + 2Δ` for d ≥ 0.3 s). -/

/-- measured from the tick in which the Wait itself got started (one tick before it begins waiting) the successor
    starts `(k+2)·Δ` later -/
def C03_wait_window_from_own_start : Prop :=
  ∀ (t0 d : Rat) (k : Nat), 1/10 ≤ d →
    t0 + d - 1/10 ≤ t0 + (k : Rat) * (1/10) →
    (∀ j : Nat, j < k → t0 + (j : Rat) * (1/10) < t0 + d - 1/10) →
    d ≤ ((k : Rat) + 2) * (1/10) ∧ ((k : Rat) + 2) * (1/10) ≤ d + 1/10

theorem C03_wait_window_from_own_start_counterexample : ¬ C03_wait_window_from_own_start := by
  intro h
  have := h 0 (1/4) 2 (by decide +kernel) (by decide +kernel) (by
    intro j hj
    have : j ≤ 1 := by omega
    have h2 : (j : Rat) ≤ 1 := by exact_mod_cast this
    grind)
  revert this
  decide +kernel

theorem wait_window_from_own_start_on_grid (t0 : Rat) (m k : Nat) (hm : 1 ≤ m)
    (hexit : t0 + (m : Rat) * (1/10) - 1/10 ≤ t0 + (k : Rat) * (1/10))
    (hfirst : ∀ j : Nat, j < k → t0 + (j : Rat) * (1/10) < t0 + (m : Rat) * (1/10) - 1/10) :
    (m : Rat) * (1/10) ≤ ((k : Rat) + 2) * (1/10) ∧ ((k : Rat) + 2) * (1/10) ≤ (m : Rat) * (1/10) + 1/10 := by
  have hkm : k + 1 ≤ m := by
    by_cases hk : 0 < k
    · obtain ⟨k', rfl⟩ : ∃ k', k = k' + 1 := ⟨k - 1, by omega⟩
      have := hfirst k' (by omega)
      have h3 : (k' : Rat) + 1 < (m : Rat) := by grind
      have h4 : ((k' + 1 : Nat) : Rat) < (m : Rat) := by
        have e : ((k' + 1 : Nat) : Rat) = (k' : Rat) + 1 := by simp
        rw [e]; exact h3
      have : k' + 1 < m := by exact_mod_cast h4
      omega
    · omega
  have h5 : ((k + 1 : Nat) : Rat) ≤ (m : Rat) := by exact_mod_cast hkm
  have e : ((k + 1 : Nat) : Rat) = (k : Rat) + 1 := by simp
  rw [e] at h5
  constructor <;> grind

/-! ## the full first clause, its counter-example, and the partial theorem

The first clause of C03 at full strength has no "completed" escape: an instruction with a threshold
starts only if it is forced or its clock has reached `T`.  `_is_awaiting_threshold` returns `False` for a
node whose `completed` flag is set, and the command manager sets `completed` on a *re-armed* command
line when the long-running command of the previous Alarm invocation completes
(`tracking.mark_completed(request)` updates the node of the record, whatever invocation the request
belongs to).  The line then starts at once.  Reproduced on the real engine (findings.d/C03.json). -/

/-- C03, first clause, full strength (micro-step form, reachable states): no `completed` escape. -/
def C03_threshold_full : Prop :=
  ∀ (p : Prog) (s0 : St) (i : TickIn) (s : St) (stack : List Frame) (k : Nat) (T : Rat),
    Reachable p s0 → Within p (tickStart s0 i) s →
    (node p k).threshold = some T → (node p k).kind ≠ .blank false →
    (s.rt k).started = false → (((stepGen p s stack).1).rt k).started = true →
    (s.rt k).forced = true ∨ T * s.baseFactor ≤ thrClock s

/-- What holds: the same with the hypothesis that the node is not `completed` when the wrapper evaluates
    the threshold (for every method and every state, reachable or not). -/
theorem C03_threshold_partial (p : Prog) (s : St) (stack : List Frame) (k : Nat) (T : Rat)
    (hT : (node p k).threshold = some T) (hnb : (node p k).kind ≠ .blank false)
    (hnc : (s.rt k).completed = false)
    (h0 : (s.rt k).started = false) (h1 : (((stepGen p s stack).1).rt k).started = true) :
    (s.rt k).forced = true ∨ T * s.baseFactor ≤ thrClock s := by
  rcases start_flag_guard_step p s stack k h0 h1 with ⟨_, hc | hn | hf | ⟨T', hT', hle⟩⟩ | ⟨pc, _, hb⟩
  · rw [hnc] at hc; cases hc
  · rw [hT] at hn; cases hn
  · exact Or.inl hf
  · rw [hT] at hT'; cases hT'; exact Or.inr hle
  · exact absurd hb hnb

/-- `Alarm: T0 >= 1` with the body `0.03125 CmdC` (base unit min: 1.875 s). -/
def alarmDemo : Prog := #[
  { kind := .program, parent := none, children := [1], threshold := none, keyPath := [0] },
  { kind := .alarm ⟨0, .ge, 1⟩, parent := some 0, children := [2], threshold := none, keyPath := [0, 1] },
  { kind := .cmd "CmdC" false, parent := some 1, children := [], threshold := some (1/32), keyPath := [0, 1, 2] }]

/-- ticks with the given Scope/Block clock values, condition tag T0 = 1 -/
def alarmRun (clocks : List Rat) : St :=
  clocks.foldl (fun s c => (tick alarmDemo s ⟨0, c, c, [1]⟩).1) (init alarmDemo)

theorem alarmRun_reachable (clocks : List Rat) : Reachable alarmDemo (alarmRun clocks) := by
  unfold alarmRun
  suffices h : ∀ (l : List Rat) (s : St), Reachable alarmDemo s →
      Reachable alarmDemo (l.foldl (fun s c => (tick alarmDemo s ⟨0, c, c, [1]⟩).1) s) from
    h clocks _ Reachable.init
  intro l
  induction l with
  | nil => intro s h; exact h
  | cons c l ih => intro s h; exact ih _ (Reachable.tick _ _ h)

/-- The state before the offending tick: first invocation with the clock at 2 s (threshold passed, command handed
    to the engine, Alarm re-armed), second invocation waiting at clock 0.1 s, then the engine reports the
    completion of the first invocation's command. -/
def alarmWitness : St := completeCmd (alarmRun [2, 2, 2, 2, 2, 2, 2, 1/10, 1/10, 1/10]) 2

/-- In the witness state the interrupt generator of the Alarm stands at the threshold point of the command line,
    which is not started, not forced, marked completed; one micro-step with the clocks at 0.2 s starts it although
    `1/32 min = 1.875 s` has not been reached. -/
theorem C03_threshold_counterexample : ¬ C03_threshold_full := by
  intro h
  have hr : Reachable alarmDemo alarmWitness :=
    Reachable.complete _ 2 (alarmRun_reachable _) (by decide +kernel)
  have := h alarmDemo alarmWitness ⟨0, 2/10, 2/10, [1]⟩ (tickStart alarmWitness ⟨0, 2/10, 2/10, [1]⟩)
    [.wrapThr 2, .children 1 0 true, .body 1 3, .wrapAfter 1] 2 (1/32) hr (Within.refl _)
    (by decide +kernel)
    (by intro hk; have e : (node alarmDemo 2).kind = .cmd "CmdC" false := rfl
        rw [e] at hk; cases hk)
    (by decide +kernel) (by decide +kernel)
  revert this
  decide +kernel

/-- the stack used above is the stored stack of the Alarm's generator in the witness state, and the following two
    ticks emit `start 2` and hand the command to the engine again -/
example : (alarmWitness.gens.map (·.stack)).contains [.wrapThr 2, .children 1 0 true, .body 1 3, .wrapAfter 1] = true ∧
    (alarmWitness.rt 2).completed = true ∧ (alarmWitness.rt 2).started = false ∧
    Event.start 2 ∈ (tick alarmDemo alarmWitness ⟨0, 2/10, 2/10, [1]⟩).1.events ∧
    Event.effect 2 "cmd:CmdC" ∈
      (tick alarmDemo (tick alarmDemo alarmWitness ⟨0, 2/10, 2/10, [1]⟩).1 ⟨0, 3/10, 3/10, [1]⟩).1.events := by
  decide +kernel

/-! ## runs: one generator resumed tick after tick in an arbitrary environment

`S j` is the state in which the generator is resumed for the `j`-th time (j = 0, 1, …): whatever the
other generators, the command manager, cancel / force requests and the next tick's clock inputs have
made of the state in between — no assumption except the ones stated.  Ticks in which the interpreter
does not run (Pause, Hold) simply do not occur in the sequence; the tick *time* (`St.tickTime`, the
engine's tick time, wall clock) and the scope / block clocks are whatever the engine feeds. -/

/-- **C03, second clause, over a run.**  A generator that stands at the threshold point of `n` does
    nothing at all in every resumption in which the threshold is still awaited, and starts `n` in the
    first resumption in which `_is_awaiting_threshold(n)` is false. -/
theorem threshold_run (p : Prog) (n : Nat) (below : List Frame) (fuel : Nat) (S : Nat → St) (k : Nat)
    (hwait : ∀ j, j < k → ((S j).rt n).started = false ∧ ((S j).rt n).completed = false ∧
      awaitingThreshold p (S j) n = true ∧ inEndedBlock p (S j) below n = false)
    (hgo : awaitingThreshold p (S k) n = false) :
    (∀ j, j < k → runGen p (fuel + 1) (S j) (.wrapThr n :: below) = (S j, .wrapThr n :: below, true)) ∧
    runGen p (fuel + 1) (S k) (.wrapThr n :: below) =
      (emit (setRt (S k) n (fun r => { r with started := true })) (.start n), .wrapDispatch n :: below, true) :=
  ⟨fun j hj => runGen_waits p fuel (S j) n below (hwait j hj).1 (hwait j hj).2.1 (hwait j hj).2.2.1 (hwait j hj).2.2.2,
   runGen_prompt p fuel (S k) n below hgo⟩

/-- …from the moment the line is *entered* (`begin_visit`: the record is created — by C02 exactly when the
    visit of the previous line has returned): the same micro-run reaches the threshold point. -/
theorem entered_line_reaches_threshold_point (p : Prog) (s : St) (c : Nat) (below : List Frame) (fuel : Nat)
    (hc : (s.rt c).completed = false) :
    runGen p (fuel + 2) s (.wrapEnter c :: below) =
      runGen p (fuel + 1) (setRt s c (fun r => { r with hasRecord := true })) (.wrapThr c :: below) := by
  have e : stepGen p s (.wrapEnter c :: below) =
      (setRt s c (fun r => { r with hasRecord := true }), .wrapThr c :: below, .cont) := by
    simp [stepGen, stepFrame, hc]
  rw [runGen, e]

/-- The state change of `begin_visit` is invisible to the threshold test and the ended-block test. -/
theorem entered_line_starts_at_first_eligible_run (p : Prog) (c : Nat) (below : List Frame) (fuel : Nat)
    (S : Nat → St) (k : Nat) (hc0 : ((S 0).rt c).completed = false)
    (hwait : ∀ j, j < k → ((S j).rt c).started = false ∧ ((S j).rt c).completed = false ∧
      awaitingThreshold p (S j) c = true ∧ inEndedBlock p (S j) below c = false)
    (hgo : awaitingThreshold p (S k) c = false) :
    -- the run in which the line is entered:
    (runGen p (fuel + 2) (S 0) (.wrapEnter c :: below)).2.1 =
      (if k = 0 then .wrapDispatch c :: below else .wrapThr c :: below) ∧
    (k = 0 → Event.start c ∈ (runGen p (fuel + 2) (S 0) (.wrapEnter c :: below)).1.events) ∧
    -- later resumptions at the threshold point:
    (∀ j, 0 < j → j < k → runGen p (fuel + 1) (S j) (.wrapThr c :: below) = (S j, .wrapThr c :: below, true)) ∧
    (0 < k → runGen p (fuel + 1) (S k) (.wrapThr c :: below) =
      (emit (setRt (S k) c (fun r => { r with started := true })) (.start c), .wrapDispatch c :: below, true)) := by
  let s0 := setRt (S 0) c (fun r => { r with hasRecord := true })
  have ha0 : awaitingThreshold p s0 c = awaitingThreshold p (S 0) c :=
    awaiting_setRt p (S 0) c c _ (fun _ => ⟨rfl, rfl⟩)
  have hb0 : inEndedBlock p s0 below c = inEndedBlock p (S 0) below c :=
    inEndedBlock_setRt p (S 0) c c below _ (fun _ => rfl)
  rw [entered_line_reaches_threshold_point p (S 0) c below fuel hc0]
  refine ⟨?_, ?_, ?_, ?_⟩
  · by_cases hk : k = 0
    · subst hk
      rw [runGen_prompt p fuel s0 c below (ha0.trans hgo)]; simp
    · have h := hwait 0 (by omega)
      have hs : (s0.rt c).started = false := by simp [s0, h.1]
      have hcc : (s0.rt c).completed = false := by simp [s0, h.2.1]
      rw [runGen_waits p fuel s0 c below hs hcc (ha0.trans h.2.2.1) (hb0.trans h.2.2.2)]; simp [hk]
  · intro hk; subst hk
    rw [runGen_prompt p fuel s0 c below (ha0.trans hgo)]; simp [emit]
  · intro j _ hj
    have h := hwait j hj
    exact runGen_waits p fuel (S j) c below h.1 h.2.1 h.2.2.1 h.2.2.2
  · intro _
    exact runGen_prompt p fuel (S k) c below hgo


/-- **C03, second clause, over ticks (main visitor).**  `s j` is the state before the `j`-th tick (anything may
    have happened between the ticks), `i j` its clock inputs.  While the main visitor stands at the threshold
    point of `n`: in every tick in which the threshold is awaited for that tick's clocks the visitor changes
    nothing, and in the first tick in which it is not awaited `start n` is among the tick's events. -/
theorem main_threshold_ticks (p : Prog) (n : Nat) (below : List Frame) (s : Nat → St) (i : Nat → TickIn) (k : Nat)
    (hgen : ∀ j, j ≤ k → ∃ g, getGen (s j) 0 = some g ∧ g.stack = .wrapThr n :: below)
    (hwait : ∀ j, j < k → ((s j).rt n).started = false ∧ ((s j).rt n).completed = false ∧
      awaitingThreshold p (tickStart (s j) (i j)) n = true ∧ inEndedBlock p (tickStart (s j) (i j)) below n = false)
    (hgo : awaitingThreshold p (tickStart (s k) (i k)) n = false) :
    (∀ j, j < k → runGid p microFuel (tickStart (s j) (i j)) 0 =
        (setGenStack (tickStart (s j) (i j)) 0 (.wrapThr n :: below), true)) ∧
    Event.start n ∈ (tick p (s k) (i k)).1.events := by
  constructor
  · intro j hj
    obtain ⟨g, hg, hst⟩ := hgen j (by omega)
    have h := hwait j hj
    exact main_waits_tick p (s j) (i j) g n below hg hst h.1 h.2.1 h.2.2.1 h.2.2.2
  · obtain ⟨g, hg, hst⟩ := hgen k (Nat.le_refl k)
    exact main_prompt_tick p (s k) (i k) g n below hg hst hgo

/-! ### Wait over a run -/

/-- Entering `Wait: d` (`d ≥ 0.1`) and the first test of the loop happen in the same micro-run. -/
theorem wait_enter_run (p : Prog) (s : St) (n : Nat) (d : Rat) (below : List Frame) (fuel : Nat)
    (hk : (node p n).kind = .wait d) (hd : ¬ (d - 1/10 < 0)) :
    runGen p (fuel + 2) s (.body n 0 :: below) =
      runGen p (fuel + 1)
        (setRt s n (fun r => { r with waitStart := some ((s.rt n).waitStart.getD s.tickTime) }))
        (.waitLoop n ((s.rt n).waitStart.getD s.tickTime + d - 1/10) :: below) := by
  have e : stepGen p s (.body n 0 :: below) =
      (setRt s n (fun r => { r with waitStart := some ((s.rt n).waitStart.getD s.tickTime) }),
       .waitLoop n ((s.rt n).waitStart.getD s.tickTime + d - 1/10) :: below, .cont) := by
    simp only [stepGen, stepFrame, wait_enter p s n d below hk hd, List.cons_append, List.nil_append]
  rw [runGen, e]

/-- **The Wait loop over a run.**  `S j` = the state in which the generator holding the loop frame is resumed
    for the `j`-th time.  While the tick time is before the deadline (and the node is not forced) each
    resumption ends the tick and changes nothing; the first resumption whose tick time has reached the
    deadline (or that finds the node forced) completes the Wait and ends the tick. -/
theorem wait_loop_run (p : Prog) (n : Nat) (endT : Rat) (below : List Frame) (fuel : Nat) (S : Nat → St) (k : Nat)
    (hhold : ∀ j, j < k → (S j).tickTime < endT ∧ ((S j).rt n).forced = false ∧
      ((S j).rt n).waitStart.isSome = true)
    (hexit : endT ≤ (S k).tickTime ∨ ((S k).rt n).forced = true) :
    (∀ j, j < k → runGen p (fuel + 1) (S j) (.waitLoop n endT :: below) = (S j, .waitLoop n endT :: below, true)) ∧
    runGen p (fuel + 1) (S k) (.waitLoop n endT :: below) = (finishNode (S k) n, .body n 2 :: below, true) := by
  constructor
  · intro j hj
    have h := hhold j hj
    simp only [runGen, stepGen, wait_holds p (S j) n endT below h.1 h.2.1 h.2.2, List.cons_append, List.nil_append]
  · simp only [runGen, stepGen, wait_releases p (S k) n endT below hexit, List.cons_append, List.nil_append]

/-- After the Wait has completed, the next resumption returns from the Wait's visit and — under the hypotheses
    of `successor_started_same_tick` — starts the next line in that very tick. -/
theorem wait_successor_started (p : Prog) (s : St) (n par inx c' : Nat) (d : Rat) (below : List Frame) (fuel : Nat)
    (hk : (node p n).kind = .wait d)
    (hkid : (node p par).children[inx + 1]? = some c')
    (hn : (s.rt par).completed = false) (hcc : (s.rt par).childrenComplete = false)
    (hci : (s.rt par).childIndex ≤ inx) (hc' : (s.rt c').completed = false)
    (hblk : inEndedBlock p s (.children par (inx + 1) false :: below) c' = false)
    (hthr : awaitingThreshold p s c' = false) :
    ∃ s', runGen p (fuel + 6) s (.body n 2 :: .wrapAfter n :: .children par inx true :: below) =
        (s', .wrapDispatch c' :: .children par (inx + 1) true :: below, true) ∧
      (s'.rt c').started = true ∧ Event.start c' ∈ s'.events ∧ s'.tickTime = s.tickTime := by
  have e : stepGen p s (.body n 2 :: .wrapAfter n :: .children par inx true :: below) =
      (s, .wrapAfter n :: .children par inx true :: below, .cont) := by
    have eb : stepBody p s n 2 (.wrapAfter n :: .children par inx true :: below) = .next s [] .cont := by
      unfold stepBody; simp [hk]
    simp [stepGen, stepFrame, eb]
  obtain ⟨s', hrun, hst, hev⟩ :=
    successor_started_same_tick p s par inx n c' below fuel hkid hn hcc hci hc' hblk hthr
  refine ⟨s', ?_, hst, hev, ?_⟩
  · have : fuel + 6 = (fuel + 5) + 1 := by omega
    rw [this, runGen, e]; exact hrun
  · have hw := within_runGen p (fuel + 5) s (.wrapAfter n :: .children par inx true :: below)
    rw [hrun] at hw
    have := within_clk hw
    exact congrArg (fun x => x.1) this


/-- **C03, third clause, on the frame machine.**  A `Wait: d` (`d ≥ 0.1 s`) is entered for the first time in the
    resumption `S 0` of its generator (tick time `T 0`); `S j` are the states of the later resumptions of that
    generator, `T j` their tick times; `k` is the first resumption whose tick time has reached
    `T 0 + d − 0.1` (`hhold`, `hexit`: nothing is assumed about `k` but that).  Then, whatever the rest of the
    method and the other generators do in between (as long as nobody forces the Wait or resets its start time):
    the Wait's frame waits through the resumptions `< k`, completes in resumption `k`, and in resumption `k+1`
    the visit returns and the next line `c'` is started (given the hypotheses of `successor_started_same_tick`
    for that state: parent live, `c'` not completed / not in an ended block / threshold not awaited). -/
theorem wait_run (p : Prog) (n par inx c' : Nat) (d : Rat) (below : List Frame) (fuel : Nat) (S : Nat → St) (k : Nat)
    (hk : (node p n).kind = .wait d) (hd : ¬ (d - 1/10 < 0))
    (hfirst : ((S 0).rt n).waitStart = none)
    (hhold : ∀ j, j < k → (S j).tickTime < (S 0).tickTime + d - 1/10 ∧ ((S j).rt n).forced = false ∧
      (0 < j → ((S j).rt n).waitStart.isSome = true))
    (hexit : (S 0).tickTime + d - 1/10 ≤ (S k).tickTime)
    (hkid : (node p par).children[inx + 1]? = some c')
    (hn : ((S (k + 1)).rt par).completed = false) (hcc : ((S (k + 1)).rt par).childrenComplete = false)
    (hci : ((S (k + 1)).rt par).childIndex ≤ inx) (hc' : ((S (k + 1)).rt c').completed = false)
    (hblk : inEndedBlock p (S (k + 1)) (.children par (inx + 1) false :: below) c' = false)
    (hthr : awaitingThreshold p (S (k + 1)) c' = false) :
    -- resumption 0 (the wrapper resumes after `visit_Node`'s EndTick): the Wait is entered; it waits, or (k = 0, i.e. d = 0.1) completes at once
    (runGen p (fuel + 3) (S 0) (.wrapDispatch n :: .children par inx true :: below)).2 =
      (if k = 0 then (.body n 2 :: .wrapAfter n :: .children par inx true :: below, true)
       else (.waitLoop n ((S 0).tickTime + d - 1/10) :: .wrapAfter n :: .children par inx true :: below, true)) ∧
    -- resumptions 1 … k-1: nothing happens
    (∀ j, 0 < j → j < k →
      runGen p (fuel + 1) (S j) (.waitLoop n ((S 0).tickTime + d - 1/10) :: .wrapAfter n :: .children par inx true :: below) =
        (S j, .waitLoop n ((S 0).tickTime + d - 1/10) :: .wrapAfter n :: .children par inx true :: below, true)) ∧
    -- resumption k: the Wait completes
    (0 < k →
      runGen p (fuel + 1) (S k) (.waitLoop n ((S 0).tickTime + d - 1/10) :: .wrapAfter n :: .children par inx true :: below) =
        (finishNode (S k) n, .body n 2 :: .wrapAfter n :: .children par inx true :: below, true)) ∧
    -- resumption k+1: the next line is started, in the tick with time `T (k+1)`
    (∃ s', runGen p (fuel + 6) (S (k + 1)) (.body n 2 :: .wrapAfter n :: .children par inx true :: below) =
        (s', .wrapDispatch c' :: .children par (inx + 1) true :: below, true) ∧
      Event.start c' ∈ s'.events ∧ s'.tickTime = (S (k + 1)).tickTime) := by
  have hws : ((S 0).rt n).waitStart.getD (S 0).tickTime = (S 0).tickTime := by rw [hfirst]; rfl
  let s0 := setRt (S 0) n (fun r => { r with waitStart := some (((S 0).rt n).waitStart.getD (S 0).tickTime) })
  have hrun0 := wait_enter_run p (S 0) n d (.wrapAfter n :: .children par inx true :: below) fuel hk hd
  rw [hws] at hrun0
  -- the loop as seen by resumption j: `s0` for j = 0, `S j` afterwards
  let L : Nat → St := fun j => if j = 0 then setRt (S 0) n (fun r => { r with waitStart := some (S 0).tickTime }) else S j
  have hL0 : L 0 = setRt (S 0) n (fun r => { r with waitStart := some (S 0).tickTime }) := rfl
  have hLj : ∀ j, 0 < j → L j = S j := by intro j hj; simp [L]; omega
  have hholdL : ∀ j, j < k → (L j).tickTime < (S 0).tickTime + d - 1/10 ∧ ((L j).rt n).forced = false ∧
      ((L j).rt n).waitStart.isSome = true := by
    intro j hj
    have h := hhold j hj
    by_cases h0 : j = 0
    · subst h0
      rw [hL0]
      exact ⟨h.1, by simp [h.2.1], by simp⟩
    · rw [hLj j (by omega)]; exact ⟨h.1, h.2.1, h.2.2 (by omega)⟩
  have hexitL : (S 0).tickTime + d - 1/10 ≤ (L k).tickTime ∨ ((L k).rt n).forced = true := by
    left
    by_cases h0 : k = 0
    · subst h0; rw [hL0]; exact hexit
    · rw [hLj k (by omega)]; exact hexit
  have hloop := wait_loop_run p n ((S 0).tickTime + d - 1/10) (.wrapAfter n :: .children par inx true :: below)
    fuel L k hholdL hexitL
  have hdisp : runGen p (fuel + 3) (S 0) (.wrapDispatch n :: .children par inx true :: below) =
      runGen p (fuel + 2) (S 0) (.body n 0 :: .wrapAfter n :: .children par inx true :: below) := by
    have e : stepGen p (S 0) (.wrapDispatch n :: .children par inx true :: below) =
        (S 0, .body n 0 :: .wrapAfter n :: .children par inx true :: below, .cont) := by
      simp [stepGen, stepFrame]
    have : fuel + 3 = (fuel + 2) + 1 := by omega
    rw [this, runGen, e]
  refine ⟨?_, ?_, ?_, ?_⟩
  · rw [hdisp, hrun0]
    by_cases h0 : k = 0
    · subst h0
      have := hloop.2; rw [hL0] at this; rw [this]; simp
    · have := hloop.1 0 (by omega); rw [hL0] at this; rw [this]; simp [h0]
  · intro j hj0 hjk
    have := hloop.1 j hjk; rw [hLj j hj0] at this; exact this
  · intro hk0
    have := hloop.2; rw [hLj k hk0] at this; exact this
  · obtain ⟨s', h1, _, h3, h4⟩ :=
      wait_successor_started p (S (k + 1)) n par inx c' d below fuel hk hkid hn hcc hci hc' hblk hthr
    exact ⟨s', h1, h3, h4⟩

/-- **The window, from the tick times of the run.**  With `T j` the tick times of the resumptions of `wait_run`
    (`k` the first with `T k ≥ T 0 + d − 0.1`, the next line starting in resumption `k+1`): if consecutive
    resumptions are at least `gmin` apart, the next line starts no earlier than `d − 0.1 + gmin` after the Wait
    began waiting; if the last two gaps together are at most `gmax`, it starts earlier than `d − 0.1 + gmax`
    after it.  Pause and Hold only remove resumptions (the interpreter is not ticked) while the tick time goes
    on: they enlarge gaps, so the lower bound is unaffected, and the upper bound holds whenever the two
    resumptions around the deadline are regular. -/
theorem wait_run_window (T : Nat → Rat) (d gmin gmax : Rat) (k : Nat)
    (hhold : ∀ j, j < k → T j < T 0 + d - 1/10) (hexit : T 0 + d - 1/10 ≤ T k)
    (hmin : gmin ≤ T (k + 1) - T k) (hmax : 0 < k → T (k + 1) - T (k - 1) ≤ gmax) :
    d - 1/10 + gmin ≤ T (k + 1) - T 0 ∧ (0 < k → T (k + 1) - T 0 < d - 1/10 + gmax) := by
  constructor
  · grind
  · intro hk
    have h1 := hhold (k - 1) (by omega)
    have h2 := hmax hk
    grind

/-- **Default interval, with timing error.**  Ticks every 0.1 s up to an error `ε` per gap (float rounding of the
    tick times, scheduling jitter): the line after `Wait: d` (`d ≥ 0.1`) starts within `[d − ε, d + 0.1 + 2ε)` of
    the tick in which the Wait began waiting — the property's window `[d, d + Δ]` up to the timing error; for
    `d` on the 0.1 s grid both `d` and `d + 0.1` occur (the comparison `tick_time < start + d − 0.1` is then
    decided by rounding), off the grid the tick is determined. -/
theorem wait_run_window_default_interval (T : Nat → Rat) (d ε : Rat) (k : Nat) (hd : 1/10 ≤ d) (hε : 0 ≤ ε)
    (hhold : ∀ j, j < k → T j < T 0 + d - 1/10) (hexit : T 0 + d - 1/10 ≤ T k)
    (hgap : ∀ j, j ≤ k → 1/10 - ε ≤ T (j + 1) - T j ∧ T (j + 1) - T j ≤ 1/10 + ε) :
    d - ε ≤ T (k + 1) - T 0 ∧ T (k + 1) - T 0 < d + 1/10 + 2 * ε := by
  have hw := wait_run_window T d (1/10 - ε) (2/10 + 2 * ε) k hhold hexit (hgap k (Nat.le_refl k)).1 (by
    intro hk
    have h1 := (hgap k (Nat.le_refl k)).2
    have h2 := (hgap (k - 1) (by omega)).2
    have e : k - 1 + 1 = k := by omega
    rw [e] at h2
    grind)
  refine ⟨by grind, ?_⟩
  by_cases hk : k = 0
  · subst hk
    have h1 := (hgap 0 (Nat.le_refl 0)).2
    simp at h1
    grind
  · have := hw.2 (by omega)
    grind

/-! ## non-vacuity: a concrete method run in the kernel -/

/-- `Base: s / Mark: a / 1.5 Mark: b / Wait: 0.5s / Mark: c` -/
def demo : Prog := #[
  { kind := .program, parent := none, children := [1, 2, 3, 4, 5], threshold := none, keyPath := [0] },
  { kind := .base 1 "s", parent := some 0, children := [], threshold := none, keyPath := [0, 1] },
  { kind := .mark "a", parent := some 0, children := [], threshold := none, keyPath := [0, 2] },
  { kind := .mark "b", parent := some 0, children := [], threshold := some (3/2), keyPath := [0, 3] },
  { kind := .wait (1/2), parent := some 0, children := [], threshold := none, keyPath := [0, 4] },
  { kind := .mark "c", parent := some 0, children := [], threshold := none, keyPath := [0, 5] }]

/-- `k` ticks at times Δ, 2Δ, …; the scope clock shows the time of the previous tick (as the engine's
    Scope Time tag does when the interpreter runs). -/
def demoRun (Δ : Rat) (k : Nat) : St :=
  (List.range k).foldl (fun s j => (tick demo s ⟨(j + 1 : Nat) * Δ, (j : Nat) * Δ, (j : Nat) * Δ, []⟩).1) (init demo)

example : noReset demo = true ∧ isWait demo 4 = true := by decide +kernel

/-- Δ = 1/10: `1.5 Mark: b` is not started after 15 ticks (clock 1.4) and started in tick 16 (clock 1.5): the
    hypotheses of `threshold_honoured_tick` are met and its bound is tight. -/
example : ((demoRun (1/10) 15).rt 3).started = false ∧ ((demoRun (1/10) 16).rt 3).started = true := by
  decide +kernel

/-- Δ = 1/10: the Wait gets `started` in tick 18, begins waiting in tick 19 (`wait_start_time` = 1.9), completes
    in tick 23 (time 2.3 = 1.9 + 0.5 − 0.1) and `Mark: c` starts in tick 24: 0.5 s = d after the Wait began
    waiting, 0.6 s = d + Δ after its `started` flag. -/
example : ((demoRun (1/10) 17).rt 4).started = false ∧ ((demoRun (1/10) 18).rt 4).started = true ∧
    ((demoRun (1/10) 18).rt 4).waitStart = none ∧ ((demoRun (1/10) 19).rt 4).waitStart = some (19/10) ∧
    ((demoRun (1/10) 22).rt 4).completed = false ∧ ((demoRun (1/10) 23).rt 4).completed = true ∧
    ((demoRun (1/10) 23).rt 5).started = false ∧ ((demoRun (1/10) 24).rt 5).started = true := by
  decide +kernel

/-- Δ = 1/8: waiting begins in tick 16 (2.0), the Wait completes in tick 20 (2.5 ≥ 2.4), `Mark: c` starts in
    tick 21: 0.625 s = d + Δ after the Wait began waiting (0.75 s = d + 2Δ after its `started` flag in tick 15). -/
example : ((demoRun (1/8) 14).rt 4).started = false ∧ ((demoRun (1/8) 15).rt 4).started = true ∧
    ((demoRun (1/8) 16).rt 4).waitStart = some 2 ∧
    ((demoRun (1/8) 19).rt 4).completed = false ∧ ((demoRun (1/8) 20).rt 4).completed = true ∧
    ((demoRun (1/8) 20).rt 5).started = false ∧ ((demoRun (1/8) 21).rt 5).started = true := by
  decide +kernel

/-- the same method with `Wait: 0.25s` -/
def demoQ : Prog := demo.set! 4 { kind := .wait (1/4), parent := some 0, children := [], threshold := none, keyPath := [0, 4] }

def demoQRun (k : Nat) : St :=
  (List.range k).foldl (fun s j => (tick demoQ s ⟨(j + 1 : Nat) * (1/10), (j : Nat) * (1/10), (j : Nat) * (1/10), []⟩).1)
    (init demoQ)

/-- Δ = 1/10, `Wait: 0.25s`: `started` in tick 18, waiting from tick 19, completed in tick 21 (2.1 ≥ 1.9 + 0.15),
    `Mark: c` started in tick 22: 0.3 s after the Wait began waiting (inside [0.25, 0.35]), 0.4 s after its
    `started` flag (outside) — `C03_wait_window_from_own_start_counterexample` on a run of the model. -/
example : ((demoQRun 17).rt 4).started = false ∧ ((demoQRun 18).rt 4).started = true ∧
    ((demoQRun 19).rt 4).waitStart = some (19/10) ∧
    ((demoQRun 20).rt 4).completed = false ∧ ((demoQRun 21).rt 4).completed = true ∧
    ((demoQRun 21).rt 5).started = false ∧ ((demoQRun 22).rt 5).started = true := by
  decide +kernel

theorem demoRun_reachable (Δ : Rat) (k : Nat) : Reachable demo (demoRun Δ k) := by
  unfold demoRun
  induction k with
  | zero => exact Reachable.init
  | succ k ih =>
    rw [List.range_succ, List.foldl_append]
    exact Reachable.tick _ _ ih

/-- hypotheses of `main_prompt_tick` / `start_flag_guard_step`: after 15 ticks the main visitor stands at the
    threshold point of `1.5 Mark: b`; with the clocks of tick 16 the threshold is no longer awaited, with those of
    tick 15 it was. -/
example : (getGen (demoRun (1/10) 15) 0).map (·.stack) =
      some [.wrapThr 3, .children 0 2 true, .body 0 1, .wrapAfter 0] ∧
    awaitingThreshold demo (tickStart (demoRun (1/10) 15) ⟨16/10, 15/10, 15/10, []⟩) 3 = false ∧
    awaitingThreshold demo (tickStart (demoRun (1/10) 14) ⟨15/10, 14/10, 14/10, []⟩) 3 = true := by
  decide +kernel

/-- hypotheses of `successor_started_same_tick`: after 23 ticks the Wait's visit is about to return (its last
    frame `body 4 2` pops to `wrapAfter 4 :: children 0 3 true :: …`), the parent is live and `Mark: c` is the next
    child, not awaiting anything. -/
example : (getGen (demoRun (1/10) 23) 0).map (·.stack) =
      some [.body 4 2, .wrapAfter 4, .children 0 3 true, .body 0 1, .wrapAfter 0] ∧
    (node demo 0).children[3 + 1]? = some 5 ∧ ((demoRun (1/10) 23).rt 0).completed = false ∧
    ((demoRun (1/10) 23).rt 0).childrenComplete = false ∧ ((demoRun (1/10) 23).rt 0).childIndex ≤ 3 ∧
    ((demoRun (1/10) 23).rt 5).completed = false ∧
    inEndedBlock demo (demoRun (1/10) 23) [.children 0 (3 + 1) false, .body 0 1, .wrapAfter 0] 5 = false ∧
    awaitingThreshold demo (demoRun (1/10) 23) 5 = false := by
  decide +kernel

theorem demoRun_succ (Δ : Rat) (k : Nat) :
    demoRun Δ (k + 1) = (tick demo (demoRun Δ k) ⟨(k + 1 : Nat) * Δ, (k : Nat) * Δ, (k : Nat) * Δ, []⟩).1 := by
  unfold demoRun
  rw [List.range_succ, List.foldl_append]
  rfl

/-- `wait_lower_bound_noReset` applies to the demo run (tick 23 completes the Wait): its conclusion there is
    `19/10 + 1/2 − 1/10 ≤ 23/10`, an equality — the bound is tight. -/
example : ∃ s1 d ws, Within demo (tickStart (demoRun (1/10) 22)
      ⟨(22 + 1 : Nat) * (1/10), (22 : Nat) * (1/10), (22 : Nat) * (1/10), []⟩) s1 ∧
    (node demo 4).kind = .wait d ∧ (s1.rt 4).waitStart = some ws ∧
    (ws + d - 1/10 ≤ (22 + 1 : Nat) * (1/10) ∨ (s1.rt 4).forced = true) :=
  wait_lower_bound_noReset demo (by decide +kernel) (demoRun (1/10) 22) _ 4
    (demoRun_reachable _ 22) (by decide +kernel) (by decide +kernel) (by
      rw [← demoRun_succ]
      decide +kernel)

/-- hypotheses of `wait_window_default_interval` are satisfiable: d = 1/2, exit at k = 4. -/
example : (0 : Rat) + 1/2 - 1/10 ≤ 0 + ((4 : Nat) : Rat) * (1/10) ∧
    ((3 : Nat) : Rat) * (1/10) < (1/2 : Rat) - 1/10 := by decide +kernel

/-- resumption states of the main visitor in the demo run (Δ = 1/10): `S 0` = tick 19, in which `Wait: 0.5s` begins
    waiting -/
def demoS (j : Nat) : St :=
  tickStart (demoRun (1/10) (18 + j)) ⟨(18 + j + 1 : Nat) * (1/10), (18 + j : Nat) * (1/10), (18 + j : Nat) * (1/10), []⟩

/-- the hypotheses of `wait_run` hold on the demo run with `k = 4` (tick 23), so `Mark: c` starts in resumption 5
    (tick 24), 0.5 s after the Wait began waiting; and the stored stacks are the ones the theorem speaks of -/
example : (getGen (demoS 0) 0).map (·.stack) = some [.wrapDispatch 4, .children 0 3 true, .body 0 1, .wrapAfter 0] ∧
    ((demoS 0).rt 4).waitStart = none ∧
    (∀ j, j < 4 → (demoS j).tickTime < (demoS 0).tickTime + 1/2 - 1/10 ∧ ((demoS j).rt 4).forced = false ∧
      (0 < j → ((demoS j).rt 4).waitStart.isSome = true)) ∧
    (demoS 0).tickTime + 1/2 - 1/10 ≤ (demoS 4).tickTime ∧
    ((demoS 5).rt 0).completed = false ∧ ((demoS 5).rt 0).childrenComplete = false ∧
    ((demoS 5).rt 0).childIndex ≤ 3 ∧ ((demoS 5).rt 5).completed = false ∧
    inEndedBlock demo (demoS 5) [.children 0 (3 + 1) false, .body 0 1, .wrapAfter 0] 5 = false ∧
    awaitingThreshold demo (demoS 5) 5 = false ∧
    (getGen (demoS 4) 0).map (·.stack) =
      some [.waitLoop 4 ((demoS 0).tickTime + 1/2 - 1/10), .wrapAfter 4, .children 0 3 true, .body 0 1, .wrapAfter 0] ∧
    (demoS 5).tickTime - (demoS 0).tickTime = 1/2 := by
  decide +kernel

end OPM.C03
