import OPM.Model.Access
import OPM.Lemmas.Access
import OPM.Gen.Routes
/-!
# C32 Role-based access control covers every unit and run endpoint

"A user who lacks every role a process unit or recent run requires can neither read its data, directly or
through the method-editor service, nor send it commands, method edits, cancels or forces; such requests are
refused, and listings omit the unit or run. Units and runs that require no roles are open to everyone."

`Gen.Routes.routes` is regenerated on every run from the FastAPI route table and the source of every
endpoint (which object it takes, whether it calls the role guard before touching the object's data).

The unchanged code does **not** satisfy the full statement: the two method-editor (LSP) endpoints,
`GET /api/lsp/engine/{engine_id}/pcode.tmLanguage.json` and the websocket `/api/lsp/websocket`, read unit
data (command and tag names, live tag values on hover) without looking at the user's roles — the websocket
carries no identity at all. `C32_full` is the full statement, `C32_counterexample` refutes it on the regenerated
table, `C32_partial` proves it for every endpoint outside the LSP router.
-/
namespace OPM.C32
open OPM.Access OPM.Gen.Routes

/-- the user lacks every role the object requires (and it requires at least one) -/
def LacksEveryRole (res : Res) (user : List String) : Prop :=
  res.required ≠ [] ∧ ∀ r, r ∈ res.required → r ∉ user

/-! ## `has_access` -/

theorem access_iff (required user : List String) :
    hasAccess required user = true ↔ required = [] ∨ ∃ r, r ∈ required ∧ r ∈ user :=
  hasAccess_iff required user

theorem lacking_every_role_no_access (res : Res) (user : List String) (h : LacksEveryRole res user) :
    hasAccess res.required user = false :=
  hasAccess_false_of_disjoint res.required user h.1 h.2

/-- `auth.has_access`, as translated from its source on this run, is the model's `hasAccess` on all role
lists: no extra way in (super-role, wildcard …) and no extra way out. -/
theorem has_access_source_is_hasAccess (required user : List String) :
    hasAccessExpr.eval required user = some (hasAccess required user) := by
  -- whatever way the rule is written, it can only look at: required empty? user empty? intersection non-empty?
  have table : ∀ er eu n : Bool, (n = true → er = false ∧ eu = false) →
      hasAccessExpr.evalAbs er eu n = some (er || n) := by decide
  rw [eval_eq_evalAbs, table _ _ _ (both_nonEmpty_consistent required user)]
  simp only [hasAccess, nonEmpty_filter_eq_any]

/-! ## Endpoints that call their guard first (any world, any request) -/

/-- A guarded endpoint refuses a user who lacks every required role with 403 and the handler body never
runs: nothing is read, nothing reaches the unit. -/
theorem guarded_endpoint_refuses (r : Route) (hg : r.guardedOk = true) (ht : r.touches = true)
    (hobj : r.takesObject = true) (w : World) (id : String) (user : List String) (res : Res)
    (hf : lookupTarget r w id = some res) (hl : LacksEveryRole res user) :
    respond r w id user = .forbidden res.required ∧ reaches r w id user = false := by
  have ha := lacking_every_role_no_access res user hl
  obtain ⟨p, m, h, ro, target, guard, touches, command⟩ := r
  simp only at ht; subst ht
  cases target <;> simp [Route.takesObject] at hobj
  · simp only [Route.guardedOk, Bool.not_true, Bool.false_or, decide_eq_true_eq] at hg
    subst hg
    simp only [lookupTarget] at hf
    have : respond ⟨p, m, h, ro, .unit, .unitOrFail, true, command⟩ w id user = .forbidden res.required := by
      simp [respond, guarded_forbidden w.units id user res hf ha]
    simp [reaches, this]
  · simp only [Route.guardedOk, Bool.not_true, Bool.false_or, decide_eq_true_eq] at hg
    subst hg
    simp only [lookupTarget] at hf
    have : respond ⟨p, m, h, ro, .run, .runOrFail, true, command⟩ w id user = .forbidden res.required := by
      simp [respond, guarded_forbidden w.runs id user res hf ha]
    simp [reaches, this]

/-- …and lets everybody through when the object requires no roles, and everybody who has one of them. -/
theorem guarded_endpoint_admits (r : Route) (hg : r.guardedOk = true) (ht : r.touches = true)
    (hobj : r.takesObject = true) (w : World) (id : String) (user : List String) (res : Res)
    (hf : lookupTarget r w id = some res)
    (hopen : res.required = [] ∨ ∃ x, x ∈ res.required ∧ x ∈ user) :
    respond r w id user = .pass := by
  have ha := (hasAccess_iff res.required user).mpr hopen
  obtain ⟨p, m, h, ro, target, guard, touches, command⟩ := r
  simp only at ht; subst ht
  cases target <;> simp [Route.takesObject] at hobj
  · simp only [Route.guardedOk, Bool.not_true, Bool.false_or, decide_eq_true_eq] at hg
    subst hg
    simp only [lookupTarget] at hf
    simp [respond, guarded_pass w.units id user res hf ha]
  · simp only [Route.guardedOk, Bool.not_true, Bool.false_or, decide_eq_true_eq] at hg
    subst hg
    simp only [lookupTarget] at hf
    simp [respond, guarded_pass w.runs id user res hf ha]

/-- A filtered unit listing shows an id only if an **online** unit of that id is accessible to the user, or no
unit of that id is online and (in the listing that includes recent engines) a recent-engine row of that id is
accessible. The online unit's roles win: a stale open RecentEngines row does not justify listing a unit that is
online and restricted now. -/
theorem unit_listing_only_accessible (r : Route) (hg : r.guardedOk = true)
    (ht : r.target = .unitsWithRecent ∨ r.target = .unitsOnline)
    (w : World) (user : List String) (ids : List String) (hr : respond r w "" user = .list ids)
    (id : String) (hid : id ∈ ids) :
    (∃ res, res ∈ w.units ∧ res.id = id ∧ hasAccess res.required user = true) ∨
    ((∀ res, res ∈ w.units → res.id ≠ id) ∧ r.target = .unitsWithRecent ∧
      ∃ res, res ∈ w.recent ∧ res.id = id ∧ hasAccess res.required user = true) := by
  obtain ⟨p, m, h, ro, target, guard, touches, command⟩ := r
  rcases ht with ht | ht <;> simp only at ht <;> subst ht <;>
    simp only [Route.guardedOk, decide_eq_true_eq] at hg <;> subst hg <;>
    simp only [respond, Resp.list.injEq] at hr <;> subst hr
  · simp only [unitListing, if_true, List.mem_append, List.mem_map, List.mem_filter, mem_visible,
      Bool.not_eq_true', List.contains_eq_mem, decide_eq_false_iff_not] at hid
    rcases hid with ⟨res, ⟨h1, h2⟩, h3⟩ | ⟨res, ⟨⟨h1, h2⟩, hn⟩, h3⟩
    · exact Or.inl ⟨res, h1, h3, h2⟩
    · refine Or.inr ⟨?_, rfl, res, h1, h3, h2⟩
      intro u hu e
      exact hn ⟨u, hu, e.trans h3.symm⟩
  · simp only [unitListing, Bool.false_eq_true, if_false, List.append_nil, List.mem_map, mem_visible] at hid
    obtain ⟨res, ⟨h1, h2⟩, h3⟩ := hid
    exact Or.inl ⟨res, h1, h3, h2⟩

/-- A filtered run listing shows a run only if a stored run of that id is accessible to the user. -/
theorem run_listing_only_accessible (r : Route) (hg : r.guardedOk = true) (ht : r.target = .runs)
    (w : World) (user : List String) (ids : List String) (hr : respond r w "" user = .list ids)
    (id : String) (hid : id ∈ ids) :
    ∃ res, res ∈ w.runs ∧ res.id = id ∧ hasAccess res.required user = true := by
  obtain ⟨p, m, h, ro, target, guard, touches, command⟩ := r
  simp only at ht; subst ht
  simp only [Route.guardedOk, decide_eq_true_eq] at hg; subst hg
  simp only [respond, Resp.list.injEq] at hr; subst hr
  simp only [List.mem_map, mem_visible] at hid
  obtain ⟨res, ⟨h1, h2⟩, h3⟩ := hid
  exact ⟨res, h1, h3, h2⟩

/-- the reconnect-with-tightened-roles scenario: online `u` requires `A`, its old recent-engine row is open -/
example : respond ⟨"/api/process_units", "GET", "get_units", "process_unit", .unitsWithRecent, .filter, true, false⟩
    ⟨[⟨"u", ["A"]⟩], [⟨"u", []⟩, ⟨"x", []⟩], []⟩ "" [] = .list ["x"] := by decide

/-- …and every accessible online unit / run is listed (nothing is hidden from those entitled). -/
theorem listing_contains_accessible (r : Route) (hg : r.guardedOk = true) (w : World) (user : List String)
    (res : Res) (ha : hasAccess res.required user = true) :
    (r.target = .unitsWithRecent ∨ r.target = .unitsOnline → res ∈ w.units →
        ∃ ids, respond r w "" user = .list ids ∧ res.id ∈ ids) ∧
    (r.target = .runs → res ∈ w.runs → ∃ ids, respond r w "" user = .list ids ∧ res.id ∈ ids) := by
  obtain ⟨p, m, h, ro, target, guard, touches, command⟩ := r
  constructor
  · intro ht hm
    rcases ht with ht | ht <;> simp only at ht <;> subst ht <;>
      simp only [Route.guardedOk, decide_eq_true_eq] at hg <;> subst hg
    · refine ⟨_, rfl, ?_⟩
      simp only [unitListing, List.mem_append, List.mem_map, mem_visible]
      exact Or.inl ⟨res, ⟨hm, ha⟩, rfl⟩
    · refine ⟨_, rfl, ?_⟩
      simp only [unitListing, List.mem_append, List.mem_map, mem_visible]
      exact Or.inl ⟨res, ⟨hm, ha⟩, rfl⟩
  · intro ht hm
    simp only at ht; subst ht
    simp only [Route.guardedOk, decide_eq_true_eq] at hg; subst hg
    refine ⟨_, rfl, ?_⟩
    simp only [List.mem_map, mem_visible]
    exact ⟨res, ⟨hm, ha⟩, rfl⟩

/-! ## The property over the regenerated route table -/

/-- Full statement: every endpoint that takes a unit or run and touches its data refuses a user who lacks
every required role (nothing read, nothing forwarded), and every listing is filtered. -/
def C32_full : Prop :=
  (∀ r ∈ routes, r.takesObject = true → r.touches = true →
    ∀ (w : World) (id : String) (user : List String) (res : Res),
      lookupTarget r w id = some res → LacksEveryRole res user →
      (∃ m, respond r w id user = .forbidden m) ∧ reaches r w id user = false) ∧
  (∀ r ∈ routes, r.isListing = true → r.guard = .filter)

/-- Table fact re-evaluated by the kernel: every endpoint outside the LSP router is guarded. -/
theorem non_lsp_routes_guarded :
    routes.all (fun r => r.router = "lsp" || r.guardedOk) = true := by decide +kernel

/-- The unguarded endpoints are exactly the two method-editor endpoints. -/
theorem unguarded_routes :
    (routes.filter (fun r => !r.guardedOk)).map (·.path) =
      ["/api/lsp/engine/{engine_id}/pcode.tmLanguage.json", "/api/lsp/websocket"] := by decide +kernel

/-- Proved part: the full statement for every endpoint outside the LSP router. -/
theorem C32_partial :
    (∀ r ∈ routes, r.router ≠ "lsp" → r.takesObject = true → r.touches = true →
      ∀ (w : World) (id : String) (user : List String) (res : Res),
        lookupTarget r w id = some res → LacksEveryRole res user →
        respond r w id user = .forbidden res.required ∧ reaches r w id user = false) ∧
    (∀ r ∈ routes, r.router ≠ "lsp" → r.isListing = true → r.guard = .filter) := by
  have tbl := List.all_eq_true.mp non_lsp_routes_guarded
  constructor
  · intro r hr hn hobj ht w id user res hf hl
    have hg := tbl r hr
    simp only [Bool.or_eq_true, decide_eq_true_eq] at hg
    exact guarded_endpoint_refuses r (hg.resolve_left hn) ht hobj w id user res hf hl
  · intro r hr hn hl
    have hg := tbl r hr
    simp only [Bool.or_eq_true, decide_eq_true_eq] at hg
    have hg' := hg.resolve_left hn
    obtain ⟨p, m, h, ro, target, guard, touches, command⟩ := r
    cases target <;> simp [Route.isListing] at hl <;> simpa [Route.guardedOk] using hg'

/-- Units and runs that require no roles are open to everyone, on every endpoint outside the LSP router
(the LSP endpoints are open to everyone anyway). -/
theorem no_roles_required_open (r : Route) (hr : r ∈ routes) (hn : r.router ≠ "lsp")
    (hobj : r.takesObject = true) (ht : r.touches = true) (w : World) (id : String) (user : List String)
    (res : Res) (hf : lookupTarget r w id = some res) (hopen : res.required = []) :
    respond r w id user = .pass := by
  have hg := List.all_eq_true.mp non_lsp_routes_guarded r hr
  simp only [Bool.or_eq_true, decide_eq_true_eq] at hg
  exact guarded_endpoint_admits r (hg.resolve_left hn) ht hobj w id user res hf (Or.inl hopen)

/-! ## Histories: required roles are a property of the unit that run events never change -/

/-- After any history of engine events, the roles the routers see for a connected unit are exactly what its
last UodInfo said (`specRoles` ignores `RunStartedMsg` / `RunStoppedMsg` altogether). -/
theorem roles_from_last_uodinfo (h : List Event) (u : String) :
    rolesOf (runHistory h) u = specRoles h u :=
  foldl_agrees h AState.init (fun _ => none) (by intro v; simp [rolesOf, findU, AState.init]) u

/-- One-step form: a run start or stop leaves the roles of every unit as they were. -/
theorem run_events_preserve_roles (s : AState) (u r v : String) :
    rolesOf (step s (.runStarted u r)) v = rolesOf s v ∧ rolesOf (step s (.runStopped u r)) v = rolesOf s v :=
  ⟨step_agrees s (rolesOf s) (.runStarted u r) (fun _ => rfl) v,
   step_agrees s (rolesOf s) (.runStopped u r) (fun _ => rfl) v⟩

/-- The recent run stored at a run stop carries the unit's roles. -/
theorem stored_run_carries_unit_roles (s : AState) (u r cur : String) (x : UnitSt)
    (hf : findU s.online u = some x) (hr : x.run = some cur) :
    (⟨cur, x.roles⟩ : Res) ∈ (step s (.runStopped u r)).runs := by
  simp [step, hf, hr]

/-- The recent-engine row written at a run start / run stop carries the unit's roles (those of its last
UodInfo, by `roles_from_last_uodinfo`) and the run that is active afterwards. -/
theorem run_event_row_carries_unit_roles (s : AState) (u r cur : String) (x : UnitSt)
    (hf : findU s.online u = some x) :
    (⟨u, x.roles, some r⟩ : RecentRow) ∈ (step s (.runStarted u r)).recent ∧
    (x.run = some cur → (⟨u, x.roles, none⟩ : RecentRow) ∈ (step s (.runStopped u r)).recent) := by
  have mem_upsert : ∀ (row : RecentRow) (l : List RecentRow), row ∈ upsertRecent row l := by
    intro row l
    simp only [upsertRecent]
    split
    · rename_i hany
      simp only [List.any_eq_true, decide_eq_true_eq] at hany
      obtain ⟨y, hy, hid⟩ := hany
      exact List.mem_map.mpr ⟨y, hy, by simp [hid]⟩
    · simp
  constructor
  · simp only [step, hf]
    split
    · exact mem_upsert _ _
    · split <;> exact mem_upsert _ _
  · intro hr
    simp only [step, hf, hr]
    exact mem_upsert _ _

/-- The recent-engine row written at a disconnect carries the unit's roles. -/
theorem disconnect_row_carries_unit_roles (s : AState) (u : String) (x : UnitSt)
    (hf : findU s.online u = some x) :
    (⟨u, x.roles, x.run⟩ : RecentRow) ∈ (step s (.disconnect u)).recent := by
  simp only [step, hf, upsertRecent]
  split
  · rename_i hany
    simp only [List.any_eq_true, decide_eq_true_eq] at hany
    obtain ⟨y, hy, hid⟩ := hany
    exact List.mem_map.mpr ⟨y, hy, by simp [hid]⟩
  · simp

/-- End to end: whatever happened before (runs started and stopped, reconnects with other roles …), a
user who lacks every role of the unit's last UodInfo is refused by every endpoint outside the LSP router. -/
theorem history_protection (h : List Event) (u : String) (R user : List String)
    (hs : specRoles h u = some R) (hne : R ≠ []) (hd : ∀ x, x ∈ R → x ∉ user)
    (r : Route) (hr : r ∈ routes) (hn : r.router ≠ "lsp") (ht : r.target = .unit) (htouch : r.touches = true) :
    respond r (worldOf (runHistory h)) u user = .forbidden R ∧
      reaches r (worldOf (runHistory h)) u user = false := by
  have h1 := roles_from_last_uodinfo h u
  rw [hs] at h1
  simp only [rolesOf] at h1
  cases hf : findU (runHistory h).online u with
  | none => simp [hf] at h1
  | some x =>
    simp only [hf, Option.map_some, Option.some.injEq] at h1
    have hlk : lookupTarget r (worldOf (runHistory h)) u = some ⟨x.id, R⟩ := by
      simp [lookupTarget, ht, find_worldOf_units, hf, h1]
    exact C32_partial.1 r hr hn (by simp [Route.takesObject, ht]) htouch _ u user ⟨x.id, R⟩ hlk ⟨hne, hd⟩

/-- non-vacuity: roles set, a run started and stopped, reconnect with other roles -/
example : specRoles [.connect "u" ["A"], .runStarted "u" "r1", .runStopped "u" "r1", .disconnect "u",
      .connect "u" ["B"], .runStarted "u" "r2"] "u" = some ["B"] ∧
    (runHistory [.connect "u" ["A"], .runStarted "u" "r1", .runStopped "u" "r1", .disconnect "u",
      .connect "u" ["B"], .runStarted "u" "r2"]).runs = [⟨"r1", ["A"]⟩] ∧
    (runHistory [.connect "u" ["A"], .runStarted "u" "r1"]).recent = [⟨"u", ["A"], some "r1"⟩] := by decide

/-! ## The full statement fails on the unchanged code -/

def grammarRoute : Route :=
  ⟨"/api/lsp/engine/{engine_id}/pcode.tmLanguage.json", "GET", "get_pcode_tm_grammar", "lsp", .unit, .none, true, false⟩
def editorSocket : Route :=
  ⟨"/api/lsp/websocket", "WS", "lsp_server_endpoint", "lsp", .unit, .none, true, false⟩
def secretWorld : World := ⟨[⟨"u1", ["A"]⟩], [], []⟩

/-- A user without any role reads unit `u1` (which requires role `A`) through both editor endpoints. -/
theorem editor_endpoints_ignore_roles :
    grammarRoute ∈ routes ∧ editorSocket ∈ routes ∧
    respond grammarRoute secretWorld "u1" [] = .pass ∧ reaches editorSocket secretWorld "u1" [] = true := by
  decide +kernel

theorem C32_counterexample : ¬ C32_full := by
  intro h
  have h1 := h.1 editorSocket editor_endpoints_ignore_roles.2.1 (by decide) (by decide) secretWorld "u1" []
    ⟨"u1", ["A"]⟩ (by decide) ⟨by decide, by intro r _; simp⟩
  rw [editor_endpoints_ignore_roles.2.2.2] at h1
  exact absurd h1.2 (by decide)

/-! ## Non-vacuity -/

def commandRoute : Route :=
  ⟨"/api/process_unit/{unit_id}/execute_command", "POST", "execute_command", "process_unit", .unit, .unitOrFail, true, true⟩
def world2 : World := ⟨[⟨"u1", ["A", "B"]⟩, ⟨"u2", []⟩], [⟨"u3", ["C"]⟩, ⟨"u1", ["A", "B"]⟩], [⟨"r1", ["A"]⟩, ⟨"r2", []⟩]⟩

example : commandRoute ∈ routes ∧ LacksEveryRole ⟨"u1", ["A", "B"]⟩ ["C"] ∧
    lookupTarget commandRoute world2 "u1" = some ⟨"u1", ["A", "B"]⟩ ∧
    respond commandRoute world2 "u1" ["C"] = .forbidden ["A", "B"] ∧
    respond commandRoute world2 "u1" ["B"] = .pass ∧
    respond commandRoute world2 "u2" [] = .pass ∧
    respond commandRoute world2 "zz" ["A"] = .notFound := by
  refine ⟨by decide +kernel, ⟨by decide, ?_⟩, by decide, by decide, by decide, by decide, by decide⟩
  intro r hr; simp at hr; rcases hr with e | e <;> subst e <;> decide

example : respond ⟨"/api/process_units", "GET", "get_units", "process_unit", .unitsWithRecent, .filter, true, false⟩
    world2 "" ["C"] = .list ["u2", "u3"] := by decide
example : respond ⟨"/api/recent_runs/", "GET", "get_recent_runs", "recent_runs", .runs, .filter, true, false⟩
    world2 "" [] = .list ["r2"] := by decide

end OPM.C32
