import OPM.Model.Accept
import OPM.Lemmas.Accept
import OPM.Gen.UnitTable
/-!
# C20 A method the analyzer accepts does not fail on names, args or units

"If semantic analysis, given the engine's own tag and command definitions, reports no errors for a method, then
running that method never fails because of an undefined tag or command, an invalid command argument, or incompatible
units in a condition."

Model: `OPM.Accept`.  `publish G true` is what the engine publishes about itself, `analyzerItems G true nodes` the
verdict of the condition / Simulate / command analyzers on that publication (fewer analyzers than the editor runs, so
"no item" here is implied by "no error" there), `engineFails G true n` whether instruction `n` fails on the engine for
its name, its argument or its units.  `true` = the code with the two C20 fix diffs.

* `C20_accept` — the property, for every engine definition without custom-parser commands, all node lists, all
  regex / similarity oracles satisfying `OraclesOk`, every unit table that is `Convertible` (`table_convertible`).
* `C20_full` (the same without excluding custom parsers) is **false**: `C20_counterexample_custom_parser`.
* `old_…` : the three ways the statement failed before the repairs, as Lean witnesses.
-/
namespace OPM.C20
open OPM.Units OPM.Analyzer OPM.Accept

/-- All units of one quantity the code defines are convertible into each other by pint.  (False before
    `fixes/C20-units-molpercent-and-simulate-conversion.diff`: pint read `mol%` as mole·percent.) -/
theorem table_convertible : OPM.Gen.unitSys.Convertible = true := by decide +kernel

/-- The statement of the property on the model: an analyzer-clean method has no instruction the engine rejects for
    an unknown command, an unknown tag, its argument or its units. -/
def C20_statement (G : Engine) (nodes : List ENode) : Prop :=
  analyzerItems G true nodes = .ok [] →
    ∀ n ∈ nodes, ∀ f, engineFails G true n = some f → f.isC20 = false

/-- **C20.**  Hypotheses: the unit table is convertible; uod command names are unique and are not keywords, published
    system commands are keywords (`NamesOk`); the internal patterns are anchored, `re.search` on the published `Base`
    pattern is `acceptBase`, `REGEX_INT ⇒ int()` (`OraclesOk`, each clause true of the real `re`/`int` for every string); the two parses of every line fit together (`parseAgree`); no uod command has a
    custom (non-regex) argument parser. -/
theorem C20_accept (G : Engine) (nodes : List ENode)
    (hC : G.units.Convertible = true) (hN : NamesOk G) (hO : OraclesOk G)
    (hcust : ∀ c ∈ G.uodCmds, c.parser ≠ .custom)
    (hP : ∀ n ∈ nodes, parseAgree G n = true) : C20_statement G nodes := by
  intro hclean n hn f hf
  have hmem : toANode G (publish G true) n ∈ nodes.map (toANode G (publish G true)) := List.mem_map_of_mem hn
  obtain ⟨h1, h2, h3⟩ := analyze_nil hclean _ hmem
  have hp := hP n hn
  cases hk : n.ekind with
  | errorInstr => exact absurd (error_not_clean hN hk hp h3) id
  | uodCommand => rw [uod_ok hN hcust hk hp h3] at hf; cases hf
  | engineCommand => rw [engine_ok hN hO hk hp h3] at hf; cases hf
  | interpCommand => rw [interp_ok hN hO hk hp h3] at hf; cases hf
  | watch =>
    simp only [parseAgree, hk, beq_iff_eq] at hp
    simp only [engineFails, hk] at hf
    exact cond_ok hC (Or.inl hp) h1 hf
  | alarm =>
    simp only [parseAgree, hk, beq_iff_eq] at hp
    simp only [engineFails, hk] at hf
    exact cond_ok hC (Or.inr hp) h1 hf
  | simulate =>
    simp only [parseAgree, hk, beq_iff_eq] at hp
    simp only [engineFails, hk] at hf
    exact simulate_ok hC hp h2 hf
  | simulateOff =>
    simp only [parseAgree, hk, beq_iff_eq] at hp
    simp only [engineFails, hk] at hf
    have := simulateOff_ok hp h2
    split at hf
    · rename_i hnone; exact absurd hnone this
    · cases hf
  | other => simp only [engineFails, hk] at hf; cases hf

/-! ## The per-construct facts the theorem rests on, stated on their own -/

/-- Units: whenever the analyzer finds tag unit and condition unit comparable, `compare_values` cannot fail for a
    reason that has to do with units — for any operator and any values. -/
theorem clean_condition_units_ok (T : UnitSys) (hC : T.Convertible = true) (op va vb : String)
    (ua ub : Option String) (hcmp : areComparable T ua ub = .ok true) (e : Err)
    (h : compareValues T op va ua vb ub = .error e) : e.isValueError = true :=
  compareValues_comparable_error hC hcmp h

/-- Arguments: the validator the editor builds for a uod command with a regex parser is `re.search` with the very
    regex the engine parses with. -/
theorem clean_uod_argument_ok (G : Engine) (hN : NamesOk G) (c : UodCmd) (hc : c ∈ G.uodCmds) (rx args : String)
    (hp : c.parser = .regex rx) :
    pubValid G (publish G true) c.name args = uodArgOk G c args := by
  simp only [pubValid, find_uod_regex hN true hc hp, uodArgOk, hp]

/-! ## Non-vacuity, the excluded case, regression witnesses -/

def rxPump : String := "^\\s*(?P<number>[0-9]+)\\s* ?(?P<number_unit>%)\\s*$"

/-- a small engine: tags `Conc [%]`, `Flow [L/h]`; uod commands `Pump` (regex) and `Note` (default parser);
    system commands `Base`, `Wait`, `Watch`, `Simulate`; base units s, min, h -/
def demoEngine (cmds : List UodCmd) (searchT : List (String × String)) : Engine :=
  { tags := [⟨"Conc", some "%"⟩, ⟨"Flow", some "L/h"⟩], uodCmds := cmds,
    examples := ["Base", "Wait", "Watch", "Simulate"],
    specs := [("Base", "^\\s*(L|h|min|s|mL|CV|DV|g|kg)\\s*$"), ("Wait", "^wait$"), ("Watch", ""), ("Simulate", "")],
    baseUnits := ["s", "min", "h"], keywords := ["Base", "Wait", "Watch", "Simulate", "Mark"],
    search := fun r a => searchT.contains (r, a) || (r == baseRegex ["s", "min", "h"] && acceptBase ["s", "min", "h"] a),
    matchP := fun r a => searchT.contains (r, a) || (r == baseRegex ["s", "min", "h"] && acceptBase ["s", "min", "h"] a),
    customOk := fun _ _ => false, intOk := fun _ => false, similar := fun _ _ => false, units := OPM.Gen.unitSys }

def pumpLine (args : String) : ENode :=
  ⟨⟨0, .command true, none, "Pump", "Pump: " ++ args, args, true, true⟩, .uodCommand, false, ""⟩

def watchLine (unit : String) : ENode :=
  ⟨⟨1, .watch, some ⟨some "Conc", ">", "5 " ++ unit, some "5", some unit⟩, "Watch", "", "Conc > 5 " ++ unit, true, true⟩,
   .watch, true, "7.5"⟩

def baseLine (unit : String) : ENode :=
  ⟨⟨2, .command false, none, "Base", "", unit, true, true⟩, .interpCommand, false, ""⟩

def simulateLine (tag unit : String) : ENode :=
  ⟨⟨3, .simulate, some ⟨some tag, "=", "5 " ++ unit, some "5", some unit⟩, "Simulate", "", tag ++ " = 5 " ++ unit, true, true⟩,
   .simulate, true, ""⟩

def regexCmds : List UodCmd := [⟨"Pump", .regex rxPump⟩, ⟨"Note", .default⟩]
def demoSearch : List (String × String) := [(rxPump, "5 %")]

-- non-vacuity: a clean method exists (hypothesis and conclusion of `C20_accept` are both inhabited) …
example : analyzerItems (demoEngine regexCmds demoSearch) true
      [pumpLine "5 %", watchLine "mol%", baseLine "min", simulateLine "Flow" "L/min"] = .ok [] ∧
    ([pumpLine "5 %", watchLine "mol%", baseLine "min", simulateLine "Flow" "L/min"].map
      (engineFails (demoEngine regexCmds demoSearch) true)) = [none, none, none, none] ∧
    ([pumpLine "5 %", watchLine "mol%", baseLine "min", simulateLine "Flow" "L/min"].all
      (parseAgree (demoEngine regexCmds demoSearch))) = true := by decide +kernel

-- … and both sides reject the same bad lines
example : analyzerItems (demoEngine regexCmds demoSearch) true [pumpLine "5", watchLine "kg", baseLine "L"] =
      .ok [⟨.condition, "IncompatibleUnits", 1, true, false⟩, ⟨.command, "CommandArgsInvalid", 0, true, false⟩,
           ⟨.command, "CommandArgsInvalid", 2, true, false⟩] ∧
    ([pumpLine "5", watchLine "kg", baseLine "L"].map (engineFails (demoEngine regexCmds demoSearch) true)) =
      [some .badArgument, some .unitError, some .badArgument] := by decide +kernel

/-- Full statement: `C20_statement` for every engine definition whose names, oracles and parses are in order —
    custom-parser commands included. -/
def C20_full : Prop :=
  ∀ (G : Engine) (nodes : List ENode), G.units.Convertible = true → NamesOk G → OraclesOk G →
    (∀ n ∈ nodes, parseAgree G n = true) → C20_statement G nodes

def customCmds : List UodCmd := [⟨"Pump", .custom⟩]

theorem demo_namesOk (cmds : List UodCmd) (h : cmds = regexCmds ∨ cmds = customCmds) (s : List (String × String)) :
    NamesOk (demoEngine cmds s) := by
  rcases h with rfl | rfl
  · refine ⟨?_, ?_, ?_⟩
    · intro c hc c' hc' he
      simp only [demoEngine, regexCmds, List.mem_cons, List.mem_nil_iff, or_false] at hc hc'
      rcases hc with rfl | rfl <;> rcases hc' with rfl | rfl <;> first | rfl | (revert he; decide)
    · intro c hc
      simp only [demoEngine, regexCmds, List.mem_cons, List.mem_nil_iff, or_false] at hc
      rcases hc with rfl | rfl <;> rfl
    · intro n hn
      simp only [demoEngine, List.mem_cons, List.mem_nil_iff, or_false] at hn
      rcases hn with rfl | rfl | rfl | rfl <;> rfl
  · refine ⟨?_, ?_, ?_⟩
    · intro c hc c' hc' _
      simp only [demoEngine, customCmds, List.mem_cons, List.mem_nil_iff, or_false] at hc hc'
      rw [hc, hc']
    · intro c hc
      simp only [demoEngine, customCmds, List.mem_cons, List.mem_nil_iff, or_false] at hc
      rw [hc]; rfl
    · intro n hn
      simp only [demoEngine, List.mem_cons, List.mem_nil_iff, or_false] at hn
      rcases hn with rfl | rfl | rfl | rfl <;> rfl

/-- The full statement is false of the code: a uod command with a custom Python argument parser is published
    without validator, so the analyzer accepts `Pump: abc`, and the engine's parser rejects it. -/
theorem C20_counterexample_custom_parser : ¬ C20_full := by
  intro h
  have hs := h (demoEngine customCmds []) [pumpLine "abc"] table_convertible (demo_namesOk _ (Or.inr rfl) _)
    ⟨fun _ _ _ _ hs => hs, fun a => by simp [demoEngine], by simp [demoEngine],
     fun r _ hl _ => by
       have hn : (demoEngine customCmds []).specs.lookup "Run counter" = none := by decide
       rw [hn] at hl; cases hl⟩
    (by decide +kernel) (by decide +kernel) (pumpLine "abc") (List.mem_singleton.mpr rfl) .badArgument (by decide +kernel)
  cases hs

/-- Before `fixes/C20-base-units-published-from-uod.diff`: the published `Base` pattern was the static unit list, so
    `Base: L` was clean for an engine whose providers are s, min, h — and failed on it. -/
theorem old_base_published_static :
    analyzerItems (demoEngine regexCmds [("^\\s*(L|h|min|s|mL|CV|DV|g|kg)\\s*$", "L")]) false [baseLine "L"] = .ok [] ∧
    engineFails (demoEngine regexCmds [("^\\s*(L|h|min|s|mL|CV|DV|g|kg)\\s*$", "L")]) false (baseLine "L")
      = some .badArgument := by decide +kernel

/-- Before `fixes/C20-units-molpercent-and-simulate-conversion.diff`: `Simulate: Flow = 5 L/min` (tag in L/h) was
    clean and failed with float·Decimal; with the repair it converts. -/
theorem old_simulate_conversion_fails :
    analyzerItems (demoEngine regexCmds []) false [simulateLine "Flow" "L/min"] = .ok [] ∧
    engineFails (demoEngine regexCmds []) false (simulateLine "Flow" "L/min") = some .unitError ∧
    engineFails (demoEngine regexCmds []) true (simulateLine "Flow" "L/min") = none := by decide +kernel

/-- Before the same diff pint read `mol%` as mole·percent: on such a table (`Convertible` false) a clean
    `Watch: Conc > 5 mol%` on a `%` tag fails with a unit error. -/
theorem old_molpercent_condition_fails :
    let T : UnitSys := ⟨[⟨"%", "percentage", mkRat 1 100, 0, some ⟨0, 0, none, 0, 1⟩⟩,
                         ⟨"mol%", "percentage", mkRat 1 100, 0, some ⟨2, 1, none, 2, 3⟩⟩], ["percentage"], []⟩
    let G : Engine := { demoEngine regexCmds [] with units := T }
    T.Convertible = false ∧ analyzerItems G true [watchLine "mol%"] = .ok [] ∧
      engineFails G true (watchLine "mol%") = some .unitError := by decide +kernel

end OPM.C20
