import OPM.Model.PlotPersist
import OPM.Lemmas.PlotPersist
/-!
# C29 Plot-log persistence is monotone, throttled and faithful

"Tag values recorded in a run's plot log have strictly increasing timestamps and are recorded at most once per
data-log interval. A recorded value is never older than one already recorded, and every recorded value was reported
by the engine for that tag at or before the recorded time."

Setting of every theorem: an arbitrary history `pre` (UodInfoMsg, run starts and stops, tag messages, in any order)
has been handled; a run is active; now an arbitrary stream `msgs` of TagsUpdatedMsg arrives (any run id field, any
tags, any order of tick times, duplicates, tags never seen before).  `rowsWritten pol pre msgs` are the
PlotLogEntryValue rows written while handling `msgs`, in insertion order.  `Row.time` is the stored tick_time,
`Row.src` the tick_time the engine reported the stored value with (ghost field of the model).
Every theorem is for every `Policy` (upsert overwrites / keeps the newer report; threshold `>` / `>=`); `asIs` is /repo.

Full statement and what is proved: the property speaks about *a run's plot log*.  If the engine's connection is lost
and re-established inside the run (`Op.reconnect`), `latest_persisted_tick_time` is gone and the first message after the
re-registration is recorded unconditionally: `C29_full` (streams with reconnects) is false (`C29_counterexample`,
recorded as a finding); `C29_partial` = the statements for streams without a reconnect — from *any* earlier history,
so they hold for every reconnect-free stretch of a run, in particular for the whole run when there is no reconnect.
-/
namespace OPM.C29
open OPM.PlotPersist

def stateAfter (pol : Policy) (pre : List Op) : State := (runOps (initWith pol) pre).1
def rowsWritten (pol : Policy) (pre msgs : List Op) : List Row := (runOps (stateAfter pol pre) msgs).2

/-- the variant of the implementation never changes -/
theorem pol_stateAfter (pol : Policy) (pre : List Op) : (stateAfter pol pre).pol = pol := by
  have gen : ∀ (ops : List Op) (s : State), (runOps s ops).1.pol = s.pol := by
    intro ops
    induction ops with
    | nil => intro s; rfl
    | cons op ops ih =>
      intro s
      rw [runOps_cons, ih]
      cases op with
      | uod r i => rfl
      | newRun => rfl
      | stopRun => rfl
      | reconnect => rfl
      | dupStart => rfl
      | tags mr ups => simp only [step]; split <;> rfl
  exact gen pre (initWith pol)

/-- A stream of tag-update messages. -/
def TagStream (msgs : List Op) : Prop := ∀ op ∈ msgs, IsTags op

/-- Everything proved about the rows at once (the reader-facing statements below are projections of this). -/
theorem stream_rows_ok (pol : Policy) (pre msgs : List Op) (rid : Nat) (L : Option Rat)
    (hrun : (stateAfter pol pre).run = some (rid, L)) (hmsgs : TagStream msgs) :
    RowsOK pol (stateAfter pol pre).interval (stateAfter pol pre).entries rid L (Reported (stateAfter pol pre) msgs)
      (rowsWritten pol pre msgs) := by
  have := rows_ok msgs hmsgs (stateAfter pol pre) rid L hrun
    (nodup_runOps pre (initWith pol) (by simp [initWith, keys]))
  rwa [pol_stateAfter] at this

/-- **Monotone.** Timestamps never decrease along the table, and the rows of one tag have strictly increasing
    timestamps (rows with equal timestamps belong to one batch and to different tags). -/
theorem timestamps_strictly_increasing (pol : Policy) (pre msgs : List Op) (rid : Nat) (L : Option Rat)
    (hrun : (stateAfter pol pre).run = some (rid, L)) (hmsgs : TagStream msgs) :
    (rowsWritten pol pre msgs).Pairwise (fun a b => a.time ≤ b.time ∧ (a.name = b.name → a.time < b.time)) := by
  have h := stream_rows_ok pol pre msgs rid L hrun hmsgs
  refine h.pair.imp_of_mem ?_
  intro a b _ hb hab
  have hbs := (h.each b hb).2.1
  rcases hab with ⟨h1, h2⟩ | ⟨h1, _, _⟩
  · exact ⟨by rw [h1]; exact Rat.le_refl, fun he => absurd he h2⟩
  · exact ⟨by grind, fun _ => by grind⟩

/-- **Throttled.** Two rows are either in the same batch (same timestamp) or more than the data-log interval
    apart; in particular two rows of one tag are more than the interval apart (and with the default interval
    `math.inf` a tag is recorded at most once). -/
theorem at_most_once_per_interval (pol : Policy) (pre msgs : List Op) (rid : Nat) (L : Option Rat)
    (hrun : (stateAfter pol pre).run = some (rid, L)) (hmsgs : TagStream msgs) :
    (rowsWritten pol pre msgs).Pairwise (fun a b =>
      (a.time = b.time ∧ a.name ≠ b.name) ∨
      ((stateAfter pol pre).interval ≠ none ∧
        ∀ d, (stateAfter pol pre).interval = some d → Gap pol d (b.time - a.time))) := by
  have h := stream_rows_ok pol pre msgs rid L hrun hmsgs
  refine h.pair.imp ?_
  intro a b hab
  rcases hab with h1 | ⟨_, h2, h3⟩
  · exact Or.inl h1
  · exact Or.inr ⟨h2, h3⟩

/-- **Never older.** A later row of a tag holds a value that the engine reported with a strictly later tick time
    than the value of every earlier row of that tag — even later than the earlier row's *timestamp*. -/
theorem never_older (pol : Policy) (pre msgs : List Op) (rid : Nat) (L : Option Rat)
    (hrun : (stateAfter pol pre).run = some (rid, L)) (hmsgs : TagStream msgs) :
    (rowsWritten pol pre msgs).Pairwise (fun a b => a.name = b.name → a.src < b.src ∧ a.time < b.src) := by
  have h := stream_rows_ok pol pre msgs rid L hrun hmsgs
  refine h.pair.imp_of_mem ?_
  intro a b ha _ hab he
  have has := (h.each a ha).2.1
  rcases hab with ⟨_, h2⟩ | ⟨h1, _, _⟩
  · exact absurd he h2
  · exact ⟨by grind, h1⟩

/-- **Faithful.** Every row belongs to the active run, to a tag that has a plot-log entry, and stores a value that
    the engine reported for that tag (it was in the tag map before the stream or is a tag value of one of the
    messages) with a tick time not later than the row's timestamp. -/
theorem faithful (pol : Policy) (pre msgs : List Op) (rid : Nat) (L : Option Rat)
    (hrun : (stateAfter pol pre).run = some (rid, L)) (hmsgs : TagStream msgs) :
    ∀ r ∈ rowsWritten pol pre msgs,
      r.run = rid ∧ r.name ∈ (stateAfter pol pre).entries ∧ r.src ≤ r.time ∧
      ((r.name, (⟨r.value, r.src⟩ : TagVal)) ∈ (stateAfter pol pre).tags ∨
        ∃ op ∈ msgs, ∃ u ∈ updatesOf op, u.name = r.name ∧ u.value = r.value ∧ u.time = r.src) := by
  intro r hr
  obtain ⟨h1, h2, h3, h4⟩ := (stream_rows_ok pol pre msgs rid L hrun hmsgs).each r hr
  refine ⟨h1, h3, h2, ?_⟩
  rcases h4 with h4 | ⟨op, hop, u, hu, he⟩
  · exact Or.inl h4
  · refine Or.inr ⟨op, hop, u, hu, ?_⟩
    simp only [ofUpdate, Prod.mk.injEq, TagVal.mk.injEq] at he
    exact ⟨he.1.symm, he.2.1.symm, he.2.2.symm⟩

/-- **Continuation.** If a batch was already persisted in this run at time `l`, every new row is later than `l` by
    more than the interval and stores a value reported after `l`; so the four statements above extend to the rows
    written earlier in the run (whose timestamps are ≤ `l`, see `whole_run`). -/
theorem after_last_persisted (pol : Policy) (pre msgs : List Op) (rid : Nat) (l : Rat)
    (hrun : (stateAfter pol pre).run = some (rid, some l)) (hmsgs : TagStream msgs) :
    ∀ r ∈ rowsWritten pol pre msgs,
      l < r.src ∧ l < r.time ∧ (stateAfter pol pre).interval ≠ none ∧
      ∀ d, (stateAfter pol pre).interval = some d → Gap pol d (r.time - l) := by
  intro r hr
  have h := stream_rows_ok pol pre msgs rid (some l) hrun hmsgs
  obtain ⟨h1, h2, h3⟩ := h.afterL l rfl r hr
  have := (h.each r hr).2.1
  exact ⟨h1, by grind, h2, h3⟩

/-- The latest_persisted_tick_time bounds every timestamp written so far in the run. -/
theorem persisted_time_bounds (pol : Policy) (pre msgs : List Op) (rid : Nat) (L : Option Rat)
    (hrun : (stateAfter pol pre).run = some (rid, L)) (hmsgs : TagStream msgs) :
    ∀ rid' l, (runOps (stateAfter pol pre) msgs).1.run = some (rid', some l) →
      rid' = rid ∧ (∀ l₀, L = some l₀ → l₀ ≤ l) ∧ ∀ r ∈ rowsWritten pol pre msgs, r.time ≤ l := by
  have hk := nodup_runOps pre (initWith pol) (by simp [initWith, keys])
  have gen : ∀ (msgs : List Op), (∀ op ∈ msgs, IsTags op) → ∀ (s : State) (L : Option Rat),
      s.run = some (rid, L) → (keys s.tags).Nodup → ∀ rid' l, (runOps s msgs).1.run = some (rid', some l) →
        rid' = rid ∧ (∀ l₀, L = some l₀ → l₀ ≤ l) ∧ ∀ r ∈ (runOps s msgs).2, r.time ≤ l := by
    intro msgs
    induction msgs with
    | nil =>
      intro _ s L hrun _ rid' l hl
      simp only [runOps] at hl ⊢
      rw [hrun] at hl
      simp only [Option.some.injEq, Prod.mk.injEq] at hl
      refine ⟨hl.1.symm, ?_, by simp⟩
      intro l₀ h₀; rw [h₀] at hl; cases hl.2; exact Rat.le_refl
    | cons op ops ih =>
      intro hops s L hrun hk rid' l hl
      have hop := hops op (by simp)
      match op, hop with
      | .tags mr ups, _ =>
        obtain ⟨_, _, _, hk₁, _, hcase⟩ := step_tags_active s rid L mr ups hrun hk
        rw [runOps_cons] at hl ⊢
        rcases hcase with ⟨hrun₁, hrows⟩ | ⟨h, hrun₁, hb⟩
        · have := ih (fun o ho => hops o (by simp [ho])) _ L hrun₁ hk₁ rid' l hl
          simp only [hrows, List.nil_append]
          exact this
        · obtain ⟨h1, h2, h3⟩ := ih (fun o ho => hops o (by simp [ho])) _ (some h) hrun₁ hk₁ rid' l hl
          have hle := h2 h rfl
          refine ⟨h1, ?_, ?_⟩
          · intro l₀ h₀; have := hb.later l₀ h₀; grind
          · intro r hr
            rcases List.mem_append.mp hr with hr | hr
            · rw [hb.time r hr]; exact hle
            · exact h3 r hr
  exact gen msgs hmsgs (stateAfter pol pre) L hrun hk

/-- **Whole run.** From the RunStartedMsg on, as long as only tag updates arrive, all four statements hold for all
    rows of the run (nothing was persisted before: `latest_persisted_tick_time = None`). -/
theorem whole_run (pol : Policy) (pre msgs : List Op) (hmsgs : TagStream msgs) :
    let rows := rowsWritten pol (pre ++ [.newRun]) msgs
    rows.Pairwise (fun a b => a.time ≤ b.time ∧ (a.name = b.name → a.time < b.time ∧ a.src < b.src)) ∧
    ∀ r ∈ rows, r.src ≤ r.time := by
  have hrun : ∃ rid, (stateAfter pol (pre ++ [.newRun])).run = some (rid, none) := by
    have : ∀ (ops : List Op) (s : State), (runOps s (ops ++ [.newRun])).1.run = some ((runOps s ops).1.nextRun, none) := by
      intro ops
      induction ops with
      | nil => intro s; simp [runOps, step]
      | cons o os ih => intro s; simp only [List.cons_append, runOps_cons]; exact ih _
    exact ⟨_, this pre (initWith pol)⟩
  obtain ⟨rid, hrun⟩ := hrun
  intro rows
  have h1 := timestamps_strictly_increasing pol _ msgs rid none hrun hmsgs
  have h2 := never_older pol _ msgs rid none hrun hmsgs
  refine ⟨?_, fun r hr => (faithful pol _ msgs rid none hrun hmsgs r hr).2.2.1⟩
  have := h1.and h2
  exact this.imp (fun ⟨⟨a, b⟩, c⟩ => ⟨a, fun he => ⟨b he, (c he).1⟩⟩)

/-! Non-vacuity: a run with interval 5 s, entries for `a` and `b`; updates out of order, duplicated, with a tag
    (`c`) that has no entry and one (`b`) whose newer value is overwritten by an older report. -/
def exPre : List Op := [.uod ["a", "b"] (some 5), .tags none [⟨"b", "i:0", 0⟩], .newRun]
def exMsgs : List Op :=
  [.tags (some 0) [⟨"a", "i:1", 1⟩, ⟨"c", "i:9", 1⟩],      -- first batch at t = 1: a, b (b from before the run)
   .tags (some 0) [⟨"a", "i:2", 4⟩],                        -- 4 - 1 ≤ 5: nothing
   .tags (some 0) [⟨"a", "i:2", 4⟩, ⟨"b", "i:5", 6⟩],      -- duplicate + b: 6 - 1 ≤ 5: nothing
   .tags (some 0) [⟨"b", "i:4", 3⟩],                        -- an older report of b arrives late (overwrites i:5)
   .tags none [⟨"a", "i:7", 50⟩],                           -- message without run id: ignored altogether
   .tags (some 0) [⟨"c", "i:8", 7⟩]]                        -- 7 - 1 > 5: batch at t = 7 with a = i:2 and b = i:4

example : (stateAfter asIs exPre).run = some (0, none) ∧ TagStream exMsgs ∧
    rowsWritten asIs exPre exMsgs =
      [⟨0, "b", 1, "i:0", 0⟩, ⟨0, "a", 1, "i:1", 1⟩, ⟨0, "b", 7, "i:4", 3⟩, ⟨0, "a", 7, "i:2", 4⟩] := by
  refine ⟨by decide +kernel, ?_, by decide +kernel⟩
  intro op hop
  simp only [exMsgs, List.mem_cons, List.not_mem_nil, or_false] at hop
  rcases hop with rfl | rfl | rfl | rfl | rfl | rfl <;> trivial


/-- The `keepNewer` variant on the same input stores `b = i:5` (the newest report) in the second batch. -/
example : rowsWritten { keepNewer := true } exPre exMsgs =
      [⟨0, "b", 1, "i:0", 0⟩, ⟨0, "a", 1, "i:1", 1⟩, ⟨0, "b", 7, "i:5", 6⟩, ⟨0, "a", 7, "i:2", 4⟩] := by
  decide +kernel

/-! ### the whole run, reconnects included -/

/-- a stream of tag updates during which the connection may be lost and re-established -/
def RunStream (msgs : List Op) : Prop := ∀ op ∈ msgs, IsTags op ∨ op = .reconnect

/-- **Full statement** (first clause only — it already fails): the rows of one tag in the run's plot log have strictly
    increasing timestamps, for every stream of tag updates and reconnects during the run. -/
def C29_full (pol : Policy) : Prop :=
  ∀ (pre msgs : List Op) (rid : Nat) (L : Option Rat),
    (stateAfter pol pre).run = some (rid, L) → RunStream msgs →
      (rowsWritten pol pre msgs).Pairwise (fun a b => a.name = b.name → a.time < b.time)

def cexPre : List Op := [.uod ["a"] (some 0), .newRun]
/-- a value reported at 5 is recorded; the connection is lost; an older report (3) arrives after the re-registration -/
def cexMsgs : List Op := [.tags (some 0) [⟨"a", "i:1", 5⟩], .reconnect, .tags (some 0) [⟨"a", "i:2", 3⟩]]
/-- the same message delivered again after the re-registration (at-least-once delivery) -/
def cexMsgsDup : List Op := [.tags (some 0) [⟨"a", "i:1", 5⟩], .reconnect, .tags (some 0) [⟨"a", "i:1", 5⟩]]

theorem cex_rows (pol : Policy) :
    rowsWritten pol cexPre cexMsgs = [⟨0, "a", 5, "i:1", 5⟩, ⟨0, "a", 3, "i:2", 3⟩] ∧
    rowsWritten pol cexPre cexMsgsDup = [⟨0, "a", 5, "i:1", 5⟩, ⟨0, "a", 5, "i:1", 5⟩] := by
  obtain ⟨k, st⟩ := pol
  cases k <;> cases st <;> decide +kernel

/-- With a reconnect inside the run the plot log gets a *decreasing* (or repeated) timestamp, in every variant. -/
theorem C29_counterexample (pol : Policy) : ¬ C29_full pol := by
  intro h
  have hrun : (stateAfter pol cexPre).run = some (0, none) := by
    obtain ⟨k, st⟩ := pol
    cases k <;> cases st <;> decide +kernel
  have hs : RunStream cexMsgs := by
    intro op hop
    simp only [cexMsgs, List.mem_cons, List.not_mem_nil, or_false] at hop
    rcases hop with rfl | rfl | rfl
    · exact Or.inl trivial
    · exact Or.inr rfl
    · exact Or.inl trivial
  have := h cexPre cexMsgs 0 none hrun hs
  rw [(cex_rows pol).1] at this
  revert this
  decide +kernel

/-- **What holds**: without a reconnect inside the stream (reconnects before it are fine) — all four clauses. -/
theorem C29_partial (pol : Policy) (pre msgs : List Op) (rid : Nat) (L : Option Rat)
    (hrun : (stateAfter pol pre).run = some (rid, L)) (hmsgs : TagStream msgs) :
    (rowsWritten pol pre msgs).Pairwise (fun a b =>
      (a.time ≤ b.time ∧ (a.name = b.name → a.time < b.time)) ∧
      ((a.time = b.time ∧ a.name ≠ b.name) ∨
        ((stateAfter pol pre).interval ≠ none ∧
          ∀ d, (stateAfter pol pre).interval = some d → Gap pol d (b.time - a.time))) ∧
      (a.name = b.name → a.src < b.src ∧ a.time < b.src)) ∧
    ∀ r ∈ rowsWritten pol pre msgs,
      r.run = rid ∧ r.name ∈ (stateAfter pol pre).entries ∧ r.src ≤ r.time ∧
      ((r.name, (⟨r.value, r.src⟩ : TagVal)) ∈ (stateAfter pol pre).tags ∨
        ∃ op ∈ msgs, ∃ u ∈ updatesOf op, u.name = r.name ∧ u.value = r.value ∧ u.time = r.src) :=
  ⟨((timestamps_strictly_increasing pol pre msgs rid L hrun hmsgs).and
      (at_most_once_per_interval pol pre msgs rid L hrun hmsgs)).and
      (never_older pol pre msgs rid L hrun hmsgs) |>.imp (fun ⟨⟨a, b⟩, c⟩ => ⟨a, b, c⟩),
   faithful pol pre msgs rid L hrun hmsgs⟩

/-- e.g. the stretch after a reconnect: the run is still active there, so `C29_partial` applies to what follows -/
example : (stateAfter asIs (cexPre ++ [.tags (some 0) [⟨"a", "i:1", 5⟩], .reconnect])).run = some (0, none) := by
  decide +kernel

/-- The one way a tag message can fail: nothing at all is known about any tag when the first batch is due. -/
example : (step (stateAfter asIs [.newRun]) (.tags (some 0) [])).2 = .valueError := by decide +kernel

end OPM.C29
