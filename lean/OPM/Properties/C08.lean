import OPM.Model.RunState
import OPM.Model.RunStateOut
import OPM.Lemmas.RunState
import OPM.Lemmas.RunStateOut
import OPM.Properties.C06
/-!
# C08 Outputs with a safe value are safe whenever no run is progressing

"Every output register that has a safe value holds that value on the hardware from engine start until the
first run starts, after every Stop, and throughout every pause, unless the user explicitly commands that
output during the pause. While no run is active the engine writes no other value to such an output."

Observed at the hardware write boundary: `Core.writes` is the log of every `write_batch` call (values, and
the engine's `started` / `paused` flags at that moment), `Core.hw` the last values written.  `Core.touched`
(history variable) lists the outputs a user-sourced command wrote since the current pause began.

The statements are about model M1 + outputs with the repair
/verif/fixes/C08-safe-outputs-when-not-progressing.diff (`startWrite`, `pauseGate`, `errSafe`; plus `guard`
from C06) and hold for every operation sequence in which errors are injected only while a run is active
(`QuietFrom`).  The three `asIs_*` theorems are the failing histories of the code as it is.
-/
namespace OPM.C08
open OPM.RunState

/-- every value present at an index that has a safe value is that safe value, unless the index is excepted -/
def SafeVals (safes : List (Option Int)) (vals : List Int) (except : List Nat) : Prop :=
  ∀ i x v, vals[i]? = some x → safes[i]? = some (some v) → x = v ∨ i ∈ except

theorem safeVals_applySafe (safes : List (Option Int)) (o : List Int) : SafeVals safes (applySafe safes o) [] := by
  induction safes generalizing o with
  | nil =>
    intro i x v _ h2
    simp at h2
  | cons s ss ih =>
    cases o with
    | nil => intro i x v h1; simp [applySafe] at h1
    | cons a o =>
      intro i x v h1 h2
      cases i with
      | zero =>
        simp only [applySafe, List.getElem?_cons_zero, Option.some.injEq] at h1 h2
        subst h2
        left; simpa using h1.symm
      | succ j =>
        simp only [applySafe, List.getElem?_cons_succ] at h1 h2
        exact (ih o j x v h1 h2).imp id (fun h => by cases h)

theorem safeVals_set (safes : List (Option Int)) (vals : List Int) (ex : List Nat) (k : Nat) (w : Int)
    (h : SafeVals safes vals ex) : SafeVals safes (vals.set k w) (k :: ex) := by
  intro i x v h1 h2
  by_cases hik : i = k
  · right; exact hik ▸ List.mem_cons_self
  · have : (vals.set k w)[i]? = vals[i]? := by
      rw [List.getElem?_set]
      simp [Ne.symm hik]
    rw [this] at h1
    exact (h i x v h1 h2).imp id (List.mem_cons_of_mem _)

theorem SafeVals.mono {safes vals} {ex ex' : List Nat} (h : SafeVals safes vals ex) (hs : ∀ i ∈ ex, i ∈ ex') :
    SafeVals safes vals ex' := fun i x v h1 h2 => (h i x v h1 h2).imp id (hs i)

/-- one `write_batch` is acceptable: made with no run active ⇒ safe values; made while paused ⇒ safe values
    except on outputs the user commanded during that pause -/
def WriteOk (safes : List (Option Int)) (w : WriteRec) : Prop :=
  (w.active = false → SafeVals safes w.vals []) ∧
  (w.active = true → w.paused = true → SafeVals safes w.vals w.touchedRun)

/-- The C08 invariant of the engine fields. `restartGap` (history): the run was ended by the first half of a
    Restart and no run has started since, i.e. the engine is between the two halves of a Restart. -/
structure Safe8 (cfg : Cfg) (a : A) : Prop where
  /-- no run active (and not inside a Restart): the hardware image is safe -/
  hw : a.core.started = false → a.core.restartGap = false → SafeVals cfg.safes a.core.hw []
  /-- paused run: the output *tags* are safe except where the user commanded them during this pause -/
  tags : a.core.started = true → a.core.paused = true → SafeVals cfg.safes a.core.outs a.core.touchedRun
  /-- every write so far was acceptable -/
  log : ∀ w ∈ a.core.writes, WriteOk cfg.safes w

theorem stopFinish_started (cfg : Cfg) (c : Core) : (c.stopFinish cfg).started = false := rfl

theorem stopFinish_paused (cfg : Cfg) (c : Core) : (c.stopFinish cfg).paused = false := by
  unfold Core.stopFinish Core.writeImage; simp only []; split <;> rfl

theorem setError_running (cfg : Cfg) (hes : cfg.errSafe = true) (c : Core) (hst : c.started = true) :
    (c.setError cfg).writes = c.writes ∧ (c.setError cfg).hw = c.hw ∧
    (c.paused = true → (c.setError cfg).outs = c.outs ∧ (c.setError cfg).touchedRun = c.touchedRun) ∧
    (c.paused = false → (c.setError cfg).outs = applySafe cfg.safes c.outs) := by
  unfold Core.setError
  cases hp : c.paused <;> simp [hst, hes]

/-- all repairs that C08 needs -/
def Repaired (cfg : Cfg) : Prop :=
  cfg.guard = true ∧ cfg.startWrite = true ∧ cfg.pauseGate = true ∧ cfg.errSafe = true

theorem safe8_step (cfg : Cfg) (hc : Repaired cfg) (a : A) (act : Act) (hA : C06.Agree a) (h : Safe8 cfg a)
    (hen : act.enabled cfg ⟨false, true, true⟩ a) : Safe8 cfg (act.apply cfg a) := by
  obtain ⟨hg, _, hpg, hes⟩ := hc
  obtain ⟨h1, h2, h3⟩ := h
  have hstop : a.core.started = false → a.core.sys = .stopped := fun hs => hA.stopped_iff.mpr hs
  cases act
  case startRun =>
    exact ⟨fun hs => by simp [Act.apply, Core.startRun] at hs,
      fun _ hp => by simp [Act.apply, Core.startRun] at hp, h3⟩
  case restartFinish =>
    exact ⟨fun hs => by simp [Act.apply, Core.restartFinish] at hs,
      fun _ hp => by simp [Act.apply, Core.restartFinish] at hp, h3⟩
  case pause =>
    simp only [Act.apply, Core.pause]
    split
    · exact ⟨h1, h2, h3⟩
    · refine ⟨h1, fun _ _ => ?_, h3⟩
      exact (safeVals_applySafe _ _).mono (fun i hi => by cases hi)
  case unpause =>
    exact ⟨h1, fun _ hp => by simp [Act.apply, Core.unpause] at hp, h3⟩
  case hold => exact ⟨h1, h2, h3⟩
  case unhold => exact ⟨h1, h2, h3⟩
  case stopBegin => exact ⟨h1, h2, h3⟩
  case restartBegin =>
    refine ⟨fun hs _ => ?_, h2, h3⟩
    have hs' : a.core.started = false := hs
    exact absurd (hstop hs') hen.1
  case restartMid =>
    exact ⟨fun _ hr => by simp [Act.apply, Core.restartMid] at hr,
      fun hs => by simp [Act.apply, Core.restartMid] at hs, h3⟩
  case restartMidC fx =>
    refine ⟨fun _ hr => by simp [Act.apply, Core.restartMid] at hr,
      fun hs => by simp [Act.apply, Core.restartMid] at hs, fun w hw => h3 w ?_⟩
    simpa [Act.apply, Core.restartMid] using hw
  case stopFinishC fx d =>
    refine ⟨fun _ hr => ?_, fun hs => ?_, ?_⟩
    rotate_left
    · have := stopFinish_started cfg (applyFx fx a.core)
      simp only [Act.apply] at hs
      rw [this] at hs; cases hs
    rotate_left
    · simp only [Act.apply, Core.stopFinish, Core.writeImage, applyFx_started] at hr ⊢
      by_cases hs : a.core.started = true
      · simp only [hs, if_true]
        exact safeVals_applySafe _ _
      · simp only [hs, Bool.false_eq_true, if_false] at hr ⊢
        simp only [applyFx_hw]
        exact h1 (by simpa using hs) (by simpa using hr)
    · intro w hw
      simp only [Act.apply, Core.stopFinish, Core.writeImage, applyFx_started] at hw
      by_cases hs : a.core.started = true
      · simp only [hs, if_true, List.mem_append, List.mem_singleton, applyFx_writes] at hw
        rcases hw with hw | hw
        · exact h3 w hw
        · refine ⟨fun h => ?_, fun _ h => ?_⟩ <;> simp [hw] at h
      · simp only [hs, Bool.false_eq_true, if_false, applyFx_writes] at hw
        exact h3 w hw
  case dropRestart =>
    refine ⟨fun hs _ => ?_, h2, h3⟩
    have hs' : a.core.started = false := hs
    exact absurd (hstop hs') hen.2
  case stopFinish =>
    refine ⟨fun _ hr => ?_, fun hs => ?_, ?_⟩
    rotate_left
    · have := stopFinish_started cfg a.core
      simp only [Act.apply] at hs
      rw [this] at hs; cases hs
    rotate_left
    · simp only [Act.apply, Core.stopFinish, Core.writeImage]
      by_cases hs : a.core.started = true
      · simp only [hs, if_true]
        exact safeVals_applySafe _ _
      · simp only [Act.apply, Core.stopFinish, Core.writeImage, hs, Bool.false_eq_true, if_false] at hr
        simp only [hs, Bool.false_eq_true, if_false]
        exact h1 (by simpa using hs) hr
    · intro w hw
      simp only [Act.apply, Core.stopFinish, Core.writeImage] at hw
      by_cases hs : a.core.started = true
      · simp only [hs, if_true, List.mem_append, List.mem_singleton] at hw
        rcases hw with hw | hw
        · exact h3 w hw
        · refine ⟨fun h => ?_, fun _ h => ?_⟩ <;> simp [hw] at h
      · simp only [hs, Bool.false_eq_true, if_false] at hw
        exact h3 w hw
  case error =>
    have hst : a.core.started = true := by
      rcases hen with h | h
      · cases h
      · exact h
    obtain ⟨e1, e2, e3, e4⟩ := setError_running cfg hes a.core hst
    refine ⟨fun hs => ?_, fun _ _ => ?_, ?_⟩
    · have : (Act.apply cfg Act.error a).core.started = a.core.started := setError_started cfg a.core
      rw [this, hst] at hs; cases hs
    · show SafeVals cfg.safes (a.core.setError cfg).outs (a.core.setError cfg).touchedRun
      by_cases hp : a.core.paused = true
      · rw [(e3 hp).1, (e3 hp).2]; exact h2 hst hp
      · rw [e4 (by simpa using hp)]
        exact (safeVals_applySafe _ _).mono (fun i hi => by cases hi)
    · intro w hw
      have hw' : w ∈ (a.core.setError cfg).writes := hw
      rw [e1] at hw'; exact h3 w hw'
  case write =>
    simp only [Act.apply, Core.writeImage]
    by_cases hs : a.core.started = true
    · simp only [hs, if_true]
      refine ⟨fun h => (by cases h), fun _ hp => h2 hs hp, ?_⟩
      intro w hw
      simp only [List.mem_append, List.mem_singleton] at hw
      rcases hw with hw | hw
      · exact h3 w hw
      · refine ⟨fun h => ?_, fun _ hp => ?_⟩
        · simp [hw] at h
        · rw [hw] at hp ⊢
          exact h2 hs hp
    · simp only [hs, Bool.false_eq_true, if_false]
      exact ⟨h1, h2, h3⟩
  case ev e =>
    cases e <;> refine ⟨?_, ?_, ?_⟩ <;> simp only [Act.apply, Core.event] <;>
      first | assumption | (split <;> assumption)
  case setOut i v =>
    exact ⟨h1, fun hs hp => safeVals_set _ _ _ _ _ (h2 hs hp), h3⟩
  case clock inc =>
    refine ⟨?_, ?_, ?_⟩ <;> simp only [Act.apply, Core.clock] <;> split <;> assumption
  case uwrite i v u =>
    refine ⟨h1, fun hs hp => ?_, h3⟩
    cases u
    · have hp' : a.core.paused = true := hp
      rw [hen hpg rfl] at hp'; cases hp'
    · exact safeVals_set _ _ _ _ _ (h2 hs hp)
  case userReq i =>
    simp only [Act.apply, Core.userRequest]
    split <;> exact ⟨h1, h2, h3⟩

/-! ## Operation sequences -/

/-- errors are injected only while a run is active; command arguments are well formed -/
def QuietFrom (cfg : Cfg) : OState → List OpO → Prop
  | _, [] => True
  | o, op :: ops => op.okAt o ∧ QuietFrom cfg (stepO cfg o op).1 ops

theorem safe8_init (cfg : Cfg) (hc : Repaired cfg) (outs : List Int) : Safe8 cfg (abs (initO cfg outs).base) := by
  obtain ⟨_, hsw, _, _⟩ := hc
  refine ⟨fun _ _ => ?_, fun hs => ?_, ?_⟩
  · simp only [initO, init, hsw, if_true, abs_core]
    exact safeVals_applySafe _ _
  · simp [initO, init, hsw] at hs
  · intro w hw
    simp only [initO, init, hsw, if_true, abs_core, List.mem_singleton] at hw
    subst hw
    exact ⟨fun _ => safeVals_applySafe _ _, fun h => by cases h⟩

theorem runO_safe (cfg : Cfg) (hc : Repaired cfg) (ops : List OpO) (o : OState) (hq : QuietFrom cfg o ops)
    (h1 : AllReq okReq o.base) (h2 : C06.Agree (abs o.base)) (h3 : Safe8 cfg (abs o.base)) :
    C06.Agree (abs (runO cfg o ops).base) ∧ Safe8 cfg (abs (runO cfg o ops).base) := by
  induction ops generalizing o with
  | nil => exact ⟨h2, h3⟩
  | cons op ops ih =>
    have hA : o.base.core.sys ≠ .stopped → o.base.core.started = true := by
      intro hs
      cases hb : o.base.core.started
      · exact absurd (h2.stopped_iff.mpr hb) hs
      · rfl
    obtain ⟨r, q⟩ := stepO_ref (cfg := cfg) o op hq.1 h1 h2.trk hA
    have both := r.inv (P := fun a => C06.Agree a ∧ Safe8 cfg a)
      (fun a act hp hen => ⟨C06.agree_step cfg hc.1 _ (fun h => by cases h) a act hp.1 hen,
        safe8_step cfg hc a act hp.1 hp.2 hen⟩)
      ⟨h2, h3⟩
    exact ih _ hq.2 q both.1 both.2

theorem reachable_safe (cfg : Cfg) (hc : Repaired cfg) (outs : List Int) (ops : List OpO)
    (hq : QuietFrom cfg (initO cfg outs) ops) :
    C06.Agree (abs (runO cfg (initO cfg outs) ops).base) ∧ Safe8 cfg (abs (runO cfg (initO cfg outs) ops).base) :=
  runO_safe cfg hc ops _ hq (C06.allReq_init cfg outs) (C06.agree_init cfg outs) (safe8_init cfg hc outs)

/-- **C08, clause 1 for "no run active".** After every operation of every schedule: if no run is active
    (from engine start until the first run starts; after every Stop) the last value written to every output
    register with a safe value is that safe value. (Excluded: the single tick between the two halves of a
    Restart, which C08 does not list: `restartGap` = the run was ended by the first half of a Restart — which
    writes nothing — and no run has started since.) -/
theorem safe_when_no_run (cfg : Cfg) (hc : Repaired cfg) (outs : List Int) (ops : List OpO)
    (hq : QuietFrom cfg (initO cfg outs) ops) :
    let s := (runO cfg (initO cfg outs) ops).base
    s.core.started = false → s.core.restartGap = false → SafeVals cfg.safes s.core.hw [] :=
  (reachable_safe cfg hc outs ops hq).2.hw

/-- **C08, clause 2 and the pause clause at the write boundary.** Every `write_batch` ever made: if no run
    was active it carried the safe values; if the engine was paused it carried, for every output with a safe
    value, the safe value or a value commanded by the user during that pause. -/
theorem writes_safe (cfg : Cfg) (hc : Repaired cfg) (outs : List Int) (ops : List OpO)
    (hq : QuietFrom cfg (initO cfg outs) ops) :
    ∀ w ∈ (runO cfg (initO cfg outs) ops).base.core.writes, WriteOk cfg.safes w :=
  (reachable_safe cfg hc outs ops hq).2.log

/-- the engine writes only at engine start and while a run is active -/
theorem inactive_write_is_first (cfg : Cfg) (a : A) (act : Act) :
    ∀ w ∈ (act.apply cfg a).core.writes, w ∈ a.core.writes ∨ w.active = true := by
  intro w hw
  cases act
  case write =>
    simp only [Act.apply, Core.writeImage] at hw
    split at hw
    · simp only [List.mem_append, List.mem_singleton] at hw
      exact hw.imp id (fun h => by rw [h])
    · exact Or.inl hw
  case stopFinish =>
    simp only [Act.apply, Core.stopFinish, Core.writeImage] at hw
    split at hw
    · simp only [List.mem_append, List.mem_singleton] at hw
      exact hw.imp id (fun h => by rw [h])
    · exact Or.inl hw
  case stopFinishC fx d =>
    simp only [Act.apply, Core.stopFinish, Core.writeImage] at hw
    split at hw
    · simp only [List.mem_append, List.mem_singleton, applyFx_writes] at hw
      exact hw.imp id (fun h => by rw [h])
    · exact Or.inl (by simpa using hw)
  case restartMidC fx => exact Or.inl (by simpa [Act.apply, Core.restartMid] using hw)
  case error =>
    have : (Act.apply cfg Act.error a).core.writes = a.core.writes := by
      simp only [Act.apply, Core.setError]; split
      · rfl
      · split <;> rfl
    exact Or.inl (this ▸ hw)
  case pause =>
    have : (Act.apply cfg Act.pause a).core.writes = a.core.writes := by
      simp only [Act.apply, Core.pause]; split <;> rfl
    exact Or.inl (this ▸ hw)
  case userReq i =>
    have : (Act.apply cfg (Act.userReq i) a).core.writes = a.core.writes := by
      simp only [Act.apply, Core.userRequest]; split <;> rfl
    exact Or.inl (this ▸ hw)
  case ev e =>
    cases e <;> simp only [Act.apply, Core.event] at hw <;> first | exact Or.inl hw | (split at hw <;> exact Or.inl hw)
  case clock inc =>
    simp only [Act.apply, Core.clock] at hw
    split at hw <;> exact Or.inl hw
  all_goals exact Or.inl hw

/-- **C08, "throughout every pause".** After every tick that leaves the run paused, the hardware image is
    safe on every output with a safe value, except those the user commanded during this pause. -/
theorem safe_after_paused_tick (cfg : Cfg) (hc : Repaired cfg) (outs : List Int) (ops : List OpO) (t : TickInO)
    (hq : QuietFrom cfg (initO cfg outs) (ops ++ [.tick t])) :
    let s := (runO cfg (initO cfg outs) (ops ++ [.tick t])).base
    s.core.started = true → s.core.paused = true → SafeVals cfg.safes s.core.hw s.core.touchedRun := by
  intro s hs hp
  have hrun : runO cfg (initO cfg outs) (ops ++ [.tick t]) =
      tickO cfg (runO cfg (initO cfg outs) ops) t := by
    simp [runO, List.foldl_append, stepO]
  have hsplit : ∀ (o : OState) (l : List OpO), QuietFrom cfg o (l ++ [.tick t]) →
      QuietFrom cfg o l ∧ (OpO.tick t).okAt (runO cfg o l) := by
    intro o l
    induction l generalizing o with
    | nil => intro h; exact ⟨trivial, h.1⟩
    | cons x xs ih =>
      intro h
      obtain ⟨a, b⟩ := ih _ h.2
      exact ⟨⟨h.1, a⟩, b⟩
  obtain ⟨hq1, hok⟩ := hsplit _ _ hq
  obtain ⟨hA, hS⟩ := reachable_safe cfg hc outs ops hq1
  have hall : AllReq okReq (runO cfg (initO cfg outs) ops).base := by
    have : ∀ (l : List OpO) (o : OState), QuietFrom cfg o l → AllReq okReq o.base → C06.Agree (abs o.base) →
        AllReq okReq (runO cfg o l).base := by
      intro l
      induction l with
      | nil => intro o _ h _; exact h
      | cons x xs ih =>
        intro o hq' h1 h2
        have hA' : o.base.core.sys ≠ .stopped → o.base.core.started = true := by
          intro hs'
          cases hb : o.base.core.started
          · exact absurd (h2.stopped_iff.mpr hb) hs'
          · rfl
        obtain ⟨r, q⟩ := stepO_ref (cfg := cfg) o x hq'.1 h1 h2.trk hA'
        exact ih _ hq'.2 q (r.inv (fun a act => C06.agree_step cfg hc.1 _ (fun h => by cases h) a act) h2)
    exact this ops _ hq1 (C06.allReq_init cfg outs) (C06.agree_init cfg outs)
  obtain ⟨r, _⟩ := preWrite_ref (cfg := cfg) (runO cfg (initO cfg outs) ops) t hok hall hA.trk
  have both := r.inv (P := fun a => C06.Agree a ∧ Safe8 cfg a)
    (fun a act hp hen => ⟨C06.agree_step cfg hc.1 _ (fun h => by cases h) a act hp.1 hen,
        safe8_step cfg hc a act hp.1 hp.2 hen⟩)
    ⟨hA, hS⟩
  have hcore : s.core = (preWrite cfg (runO cfg (initO cfg outs) ops) t).base.core.writeImage := by
    show (runO cfg (initO cfg outs) (ops ++ [.tick t])).base.core = _
    rw [hrun]; rfl
  rw [hcore] at hs hp ⊢
  simp only [Core.writeImage] at hs hp ⊢
  split at hs
  · rename_i hst
    simp only [hst, if_true] at hp ⊢
    exact both.2.tags hst hp
  · rename_i hst; exact absurd hs hst

/-! ## The exemption, read strictly

The theorems above exempt an output during a pause when a user-sourced command *wrote* it during that pause
(`touchedRun`). The property says "unless the user explicitly commands that output *during the pause*":
`touched` lists the outputs for which a user request was *accepted* while paused. With that reading the
statement is `C08_full`; it is false of the code (`C08_counterexample`: a user command started before the
Pause keeps running — user-sourced commands are not inhibited by Pause — and holds its output at an unsafe
value for the whole pause). `C08_partial` = what is proved: the lenient exemption. Recorded as a finding. -/

def WriteOkStrict (safes : List (Option Int)) (w : WriteRec) : Prop :=
  (w.active = false → SafeVals safes w.vals []) ∧
  (w.active = true → w.paused = true → SafeVals safes w.vals w.touched)

/-- **Full statement (strict exemption).** -/
def C08_full (cfg : Cfg) : Prop :=
  ∀ (outs : List Int) (ops : List OpO), QuietFrom cfg (initO cfg outs) ops →
    ∀ w ∈ (runO cfg (initO cfg outs) ops).base.core.writes, WriteOkStrict cfg.safes w

/-- **What is proved** (all repairs in): every write is acceptable with the lenient exemption. -/
theorem C08_partial (cfg : Cfg) (hc : Repaired cfg) (outs : List Int) (ops : List OpO)
    (hq : QuietFrom cfg (initO cfg outs) ops) :
    ∀ w ∈ (runO cfg (initO cfg outs) ops).base.core.writes, WriteOk cfg.safes w :=
  writes_safe cfg hc outs ops hq

/-- user command `L0` (writes 70 to output 0 for three ticks) requested during the run, then Pause -/
def beforePause : List OpO :=
  [.user .start, .tick { adv := 8, inc := 8 }, .tick { adv := 8, inc := 8 }, .userU 1 70 3,
   .tick { adv := 8, inc := 8 }, .user .pause, .tick { adv := 8, inc := 8 }, .tick { adv := 8, inc := 8 },
   .tick { adv := 8, inc := 8 }]

/-- **Counterexample.** Even with every repair in, the pause writes 70 (safe value 0) to output 0 although no
    user request was accepted during the pause; the value stays after the command has completed. -/
theorem C08_counterexample : ¬ C08_full (repaired10 OPM.C06.safes3) := by
  intro h
  have hq : QuietFrom (repaired10 OPM.C06.safes3) (initO (repaired10 OPM.C06.safes3) [5, 7, 9]) beforePause := by
    simp [QuietFrom, beforePause, OpO.okAt, TickInO.okAt]
  have hw := h [5, 7, 9] beforePause hq ⟨true, true, [70, 1, 9], [], [0]⟩ (by decide +kernel)
  have := hw.2 rfl rfl 0 70 0 (by decide) (by decide)
  revert this
  decide

/-! ## The code as it is: witnesses; non-vacuity -/

open OPM.C06 (safes3)

def tk : OpO := .tick { adv := 8, inc := 8 }
def asIs8 : Cfg := { repaired safes3 with startWrite := false, pauseGate := false, errSafe := false }

/-- **Witness 1.** Code as it is: nothing is written at engine start, so until the first Start the hardware
    holds whatever it held. -/
theorem asIs_no_write_at_engine_start :
    (runO asIs8 (initO asIs8 [5, 7, 9]) [tk, tk]).base.core.writes = [] ∧
    (runO (repaired8 safes3) (initO (repaired8 safes3) [5, 7, 9]) [tk, tk]).base.core.writes
      = [⟨false, false, [0, 1, 9], [], []⟩] := by
  decide +kernel

/-- a method command that writes 55 to output 0 for nine ticks, scheduled by the interpreter -/
def tkLong : OpO := .tick { adv := 8, inc := 8, items := [.u 1 55 9] }

/-- **Witness 2.** Code as it is: the method's command keeps executing while paused and writes 55 over the
    safe value 0 in every tick of the pause. -/
theorem asIs_method_command_writes_while_paused :
    let ops := [OpO.user .start, tk, tkLong, tk, .user .pause, tk, tk]
    let s := (runO asIs8 (initO asIs8 [5, 7, 9]) ops).base
    s.core.paused = true ∧ s.core.hw = [55, 1, 9] ∧ s.core.touchedRun = [] ∧
    (let s' := (runO (repaired8 safes3) (initO (repaired8 safes3) [5, 7, 9]) ops).base
     s'.core.paused = true ∧ s'.core.hw = [0, 1, 9]) := by
  decide +kernel

/-- **Witness 3.** Code as it is: an error pauses the run but the outputs stay as they are. -/
theorem asIs_error_pause_keeps_outputs :
    let ops := [OpO.user .start, tk, .userU 0 60 1, tk, .errApi, tk]
    let s := (runO asIs8 (initO asIs8 [5, 7, 9]) ops).base
    s.core.paused = true ∧ s.core.sys = .paused ∧ s.core.hw = [60, 1, 9] ∧ s.core.touchedRun = [] ∧
    (let s' := (runO (repaired8 safes3) (initO (repaired8 safes3) [5, 7, 9]) ops).base
     s'.core.paused = true ∧ s'.core.hw = [0, 1, 9] ∧ s'.core.prev = some [some 60, some 1, none]) := by
  decide +kernel

/-- Non-vacuity: a quiet schedule in which the user commands an output during the pause — that output is
    excepted, the other safe-valued output is safe. -/
example :
    let cfg := repaired8 safes3
    let ops := [OpO.user .start, tk, tkLong, tk, .user .pause, tk, .userU 0 60 1, tk]
    QuietFrom cfg (initO cfg [5, 7, 9]) ops ∧
    (let s := (runO cfg (initO cfg [5, 7, 9]) ops).base
     s.core.started = true ∧ s.core.paused = true ∧ s.core.hw = [60, 1, 9] ∧ s.core.touched = [0] ∧ s.core.touchedRun = [0]) := by
  refine ⟨?_, by decide +kernel⟩
  simp [QuietFrom, OpO.okAt, TickInO.okAt, tk, tkLong, ItemO.quiet]

/-- Non-vacuity: after Stop the hardware image is safe although the method's command wrote 55. -/
example :
    let cfg := repaired8 safes3
    let s := (runO cfg (initO cfg [5, 7, 9]) [OpO.user .start, tk, tkLong, tk, .user .stop, tk, tk]).base
    s.core.started = false ∧ s.core.hw = [0, 1, 9] ∧ s.core.writes.length = 6 := by
  decide +kernel

end OPM.C08
