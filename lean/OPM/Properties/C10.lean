import OPM.Model.CmdMgr
import OPM.Model.CmdMgrSpec
import OPM.Lemmas.CmdMgrRecC
/-!
# C10 Stop and Restart leave no command running and start cleanly

"When Stop or Restart completes, no UOD command is still executing or holding an instance, and every UOD
command started in the run is shown as completed, failed or cancelled in the run log sent when the run ends.
Tag simulations are cleared and the ended run's id is cleared. After Restart the method runs again from its
first line under a new run id."

Model: `OPM.Model.CmdMgr` with the repair `fixes/C11-uod-cancel-paths.diff` (committed) and, where a theorem
says `cfg.fixStop = true`, the repair proposed in `fixes/C10-dispose-instances-on-stop.diff`.  Stop and Restart are resident
generator commands (`internal_commands_impl.py`): phase 1 = `cancel_all_commands`, phase 2 = tracking off,
`emit_on_stop` (simulations stop, run log reported), run id cleared, new interpreter (method re-parsed) and new
command manager; Restart phase 3 = new run id, tracking on.

Proved here for every reachable state: between phase 1 and phase 2 no instance exists and no UOD request is
held (so phase 2 finds nothing to clean up); what phase 2 and phase 3 leave behind; with `fixStop` also:
`uod.command_instances` is empty when Stop completes (no never-initialised instance either:
`stop_leaves_no_instance`) and every command started in the run has a conclusive state in the run log that is
reported (`started_commands_concluded`, from the record invariant `Rec`).
The unchanged code violates the property: `asis_*`.
-/
namespace OPM.C10
open OPM.CmdMgr

def reach (cfg : Cfg) (ops : List Op) : State := run { cfg := cfg } ops

theorem reach_good (cfg : Cfg) (hfix : cfg.fixCancel = true) (ops : List Op) : Good (reach cfg ops) :=
  good_run (good_init cfg hfix) ops

/-- While a lifecycle command is resident the manager holds exactly its request. -/
theorem resident_alone {s : State} (g : Good s) {ρ : Life} (h : s.resident = some ρ) :
    ∃ l, s.queue = [] ∧ s.executing = [l] ∧ l.name = ρ.name ∧ l.isUod = false ∧
      (ρ = ⟨.stop, 1⟩ ∨ ρ = ⟨.restart, 1⟩ ∨ ρ = ⟨.restart, 2⟩) := by
  have hr := g.life.res
  rw [h] at hr
  obtain ⟨hcases, hq, ⟨r, hrm, hrn⟩, h1, h2⟩ := hr
  have hru : r.isUod = false := by rcases hcases with rfl | rfl | rfl <;> simp_all [Req.isUod]
  have hno : noUod s.executing := by
    rcases hcases with rfl | rfl | rfl
    · exact (h1 rfl).2.1
    · exact (h1 rfl).2.1
    · exact fun x hx => g.life.idle (h2 rfl).2 x (List.mem_append_right _ hx)
  have hall : ∀ x ∈ s.executing, x = r := fun x hx =>
    g.life.one x (List.mem_append_right _ hx) r (List.mem_append_right _ hrm) (hno x hx) hru
  refine ⟨r, hq, ?_, hrn, hru, hcases⟩
  have hnd := g.core.ids
  cases he : s.executing with
  | nil => rw [he] at hrm; cases hrm
  | cons a t =>
    rw [he] at hall hnd
    have ha := hall a (List.mem_cons_self ..)
    subst ha
    cases t with
    | nil => rfl
    | cons b t' =>
      have hb := hall b (by simp)
      subst hb
      simp at hnd

/-- **No command survives the first phase.** Whenever Stop / Restart waits for its second phase — i.e. from the
end of the tick in which it cancelled and finalized "all commands" — no UOD instance exists, every instance ever
created (= that has had a callback) has been finalized, and the manager holds no UOD request, queued or
executing.  (Instances that were created for a request with rejected arguments and never initialised are not
instances in this sense: see the example before `asis_instance_survives_stop`.) -/
theorem nothing_running_while_stopping (cfg : Cfg) (hfix : cfg.fixCancel = true) (ops : List Op) (n : Name)
    (h : (reach cfg ops).resident = some ⟨n, 1⟩) :
    liveObjs (reach cfg ops) = [] ∧ (∀ o ∈ (reach cfg ops).objs, o.finalized = true) ∧
    (∀ r ∈ (reach cfg ops).queue ++ (reach cfg ops).executing, r.isUod = false) := by
  have g := reach_good cfg hfix ops
  obtain ⟨l, hq, hex, _, hlu, _⟩ := resident_alone g h
  have hno : ∀ r ∈ (reach cfg ops).executing, r.isUod = true → r.id ∈ (reach cfg ops).done := by
    intro r hr hu; rw [hex] at hr; simp at hr; subst hr; rw [hlu] at hu; cases hu
  have hdead := g.core.no_live hno
  refine ⟨?_, fun o ho => g.core.dead o ho (hdead o ho), ?_⟩
  · simp only [liveObjs, List.filter_eq_nil_iff]
    intro o ho; simp [hdead o ho]
  · intro r hr; rw [hq, hex] at hr; simp at hr; subst hr; exact hlu

/-- **Stop completes.** The tick in which Stop runs its second phase: the run is over, its run log (all records
of the run) has been handed to the `on_stop` listeners, no tag is simulated, the run id is cleared, tracking is
off, the interpreter has been reset (the method will start from its first line), and the new command manager
holds nothing; no instance exists. -/
theorem stop_completes (cfg : Cfg) (hfix : cfg.fixCancel = true) (ops : List Op)
    (h : (reach cfg ops).resident = some ⟨.stop, 1⟩) :
    let s := reach cfg ops
    let s' := (tick s).1
    s'.started = false ∧ s'.stopping = false ∧ s'.runId = none ∧ s'.simulated = [] ∧ s'.tracking = false ∧
    s'.stopLog = s.stopLog ++ [s.track] ∧ s'.resets = s.resets + 1 ∧ s'.resident = none ∧
    s'.executing = [] ∧ s'.queue = [] ∧ s'.track = [] ∧ liveObjs s' = [] := by
  intro s s'
  have g : Good s := reach_good cfg hfix ops
  obtain ⟨l, hq, hex, hln, hlu, _⟩ := resident_alone g h
  have hmex : (merged s).executing = [l] := by simp [merged, hq, hex]
  have hres : (merged s).resident = some ⟨.stop, 1⟩ := h
  have hx : executeReq (merged s) l = (executeLife (merged s) l, false) := by
    unfold executeReq; rw [hln]
  have hs' : s' = finish (lifeDone (endRun (merged s) []) l) false := by
    show (tick s).1 = _
    unfold tick
    simp only [hmex, loop]
    rw [if_neg (by simp [isDone, merged]), hx, executeLife_stop_end hres hln hmex]
  have g' : Good s' := good_tick g
  have hfin : s' = resetState (lifeDone (endRun (merged s) []) l) [] := by
    rw [hs', finish_reset _ [] (by simp [lifeDone, endRun])]; rfl
  have hlive : liveObjs s' = [] := by
    have hdead := g'.core.no_live (fun r hr _ => by rw [hfin] at hr; simp [resetState] at hr)
    simp only [liveObjs, List.filter_eq_nil_iff]
    intro o ho; simp [hdead o ho]
  refine ⟨?_, ?_, ?_, ?_, ?_, ?_, ?_, ?_, ?_, ?_, ?_, hlive⟩ <;>
    (rw [hfin]; simp [resetState, lifeDone, endRun, merged])

/-- **Restart, second phase**: the same clean-up; the Restart request is all the new manager holds. -/
theorem restart_ends_run (cfg : Cfg) (hfix : cfg.fixCancel = true) (ops : List Op)
    (h : (reach cfg ops).resident = some ⟨.restart, 1⟩) :
    let s := reach cfg ops
    let s' := (tick s).1
    s'.started = false ∧ s'.stopping = false ∧ s'.runId = none ∧ s'.simulated = [] ∧ s'.tracking = false ∧
    s'.stopLog = s.stopLog ++ [s.track] ∧ s'.resets = s.resets + 1 ∧ s'.resident = some ⟨.restart, 2⟩ ∧
    s'.executing = s.executing ∧ s'.queue = [] ∧ s'.track = [] ∧ liveObjs s' = [] := by
  intro s s'
  have g : Good s := reach_good cfg hfix ops
  obtain ⟨l, hq, hex, hln, hlu, _⟩ := resident_alone g h
  have hmex : (merged s).executing = [l] := by simp [merged, hq, hex]
  have hres : (merged s).resident = some ⟨.restart, 1⟩ := h
  have hx : executeReq (merged s) l = (executeLife (merged s) l, false) := by
    unfold executeReq; rw [hln]
  have hpend : (merged s).restartPending = some l := by
    have hr := g.life.res
    rw [h] at hr
    obtain ⟨_, _, _, h1, _⟩ := hr
    obtain ⟨p, hp1, hp2, _⟩ := (h1 rfl).2.2 rfl
    rw [hex] at hp2
    simp at hp2; subst hp2
    exact hp1
  have hs' : s' = finish { endRun (merged s) [l] with resident := some ⟨.restart, 2⟩ } false := by
    show (tick s).1 = _
    unfold tick
    simp only [hmex, loop]
    rw [if_neg (by simp [isDone, merged]), hx, executeLife_restart_end hres hln hmex, hpend]
  have g' : Good s' := good_tick g
  have hfin : s' = resetState { endRun (merged s) [l] with resident := some ⟨.restart, 2⟩ } [l] := by
    rw [hs', finish_reset _ [l] (by simp [endRun])]; rfl
  have hlive : liveObjs s' = [] := by
    have hdead := g'.core.no_live (fun r hr hu => by
      rw [hfin] at hr; simp [resetState] at hr; subst hr; rw [hlu] at hu; cases hu)
    simp only [liveObjs, List.filter_eq_nil_iff]
    intro o ho; simp [hdead o ho]
  refine ⟨?_, ?_, ?_, ?_, ?_, ?_, ?_, ?_, ?_, ?_, ?_, hlive⟩ <;>
    (rw [hfin]; simp [resetState, endRun, merged, hex])

/-- **Restart, third phase**: a new run begins under the next run id (run ids are allocated from a counter that
this step increments), tracking is on again, nothing from the old run is held. -/
theorem restart_begins_run (cfg : Cfg) (hfix : cfg.fixCancel = true) (ops : List Op)
    (h : (reach cfg ops).resident = some ⟨.restart, 2⟩) :
    let s := reach cfg ops
    let s' := (tick s).1
    s.runId = none → (s'.started = true ∧ s'.runId = some s.nextRun ∧ s'.nextRun = s.nextRun + 1 ∧
      s'.tracking = true ∧ s'.resident = none ∧ s'.executing = [] ∧ s'.queue = [] ∧ s'.resets = s.resets ∧
      liveObjs s' = []) := by
  intro s s' _
  have g : Good s := reach_good cfg hfix ops
  obtain ⟨l, hq, hex, hln, hlu, _⟩ := resident_alone g h
  have hmex : (merged s).executing = [l] := by simp [merged, hq, hex]
  have hres : (merged s).resident = some ⟨.restart, 2⟩ := h
  have hx : executeReq (merged s) l = (executeLife (merged s) l, false) := by
    unfold executeReq; rw [hln]
  have hs' : s' = finish (lifeDone (beginRun (merged s)) l) false := by
    show (tick s).1 = _
    unfold tick
    simp only [hmex, loop]
    rw [if_neg (by simp [isDone, merged]), hx, executeLife_restart_begin hres hln]
  have g' : Good s' := good_tick g
  have hfin : s' = commit (lifeDone (beginRun (merged s)) l) := by
    rw [hs', finish_commit _ (by simp [lifeDone, beginRun, merged])]; rfl
  have hdone : l.id ∈ (lifeDone (beginRun (merged s)) l).done := by
    simp only [lifeDone]; rw [markDone_done_mem]
    exact Or.inr ⟨rfl, l, by simp [beginRun, hmex], rfl⟩
  have hexe : s'.executing = [] := by
    rw [hfin]
    apply List.eq_nil_iff_forall_not_mem.mpr
    intro x hx'
    obtain ⟨h1, h2⟩ := (mem_commit_executing _ x).mp hx'
    have : x = l := by simpa [lifeDone, beginRun, hmex] using h1
    subst this; exact h2 hdone
  have hlive : liveObjs s' = [] := by
    have hdead := g'.core.no_live (fun r hr _ => by rw [hexe] at hr; cases hr)
    simp only [liveObjs, List.filter_eq_nil_iff]
    intro o ho; simp [hdead o ho]
  refine ⟨?_, ?_, ?_, ?_, ?_, hexe, ?_, ?_, hlive⟩ <;>
    (rw [hfin]; simp [commit, lifeDone, beginRun, merged, hq])

/-! ### with `fixes/C10-dispose-instances-on-stop.diff`: the records and the instance map -/

theorem reach_rec (cfg : Cfg) (hfix : cfg.fixCancel = true) (hS : cfg.fixStop = true) (hI : cfg.fixInstr = true)
    (ops : List Op) : Rec (reach cfg ops) :=
  rec_run (good_init cfg hfix) (rec_init cfg hS hI) ops

/-- **Every started command is concluded in the reported run log.** Whenever Stop / Restart waits for its second
phase, every record of the run that has a Started state has a Completed, Failed or Cancelled state — and these
records are what the second phase hands to the `on_stop` listeners (`stop_completes`, `restart_ends_run`:
`stopLog = stopLog ++ [track]`). -/
theorem started_commands_concluded (cfg : Cfg) (hfix : cfg.fixCancel = true) (hS : cfg.fixStop = true)
    (hI : cfg.fixInstr = true) (ops : List Op) (n : Name) (h : (reach cfg ops).resident = some ⟨n, 1⟩) :
    concluded (reach cfg ops).track = true := by
  have g := reach_good cfg hfix ops
  have r := reach_rec cfg hfix hS hI ops
  obtain ⟨l, _, hex, _, hlu, _⟩ := resident_alone g h
  simp only [concluded, List.all_eq_true, Bool.or_eq_true, Bool.not_eq_true']
  intro t ht
  cases hst : t.hasMark .started with
  | false => exact Or.inl rfl
  | true =>
    right
    cases hc : t.concluded with
    | true => exact hc
    | false =>
      obtain ⟨q, hq, _, hu, _⟩ := r.held t ht hst hc
      rw [hex] at hq
      simp at hq
      subst hq
      rw [hlu] at hu; cases hu

/-- **Stop leaves no instance.** After the tick of Stop's second phase `uod.command_instances` is empty: no
initialised instance (`liveObjs`) and no never-initialised one (`stale`); the run log that was reported is the
run's records, all started commands concluded. -/
theorem stop_leaves_no_instance (cfg : Cfg) (hfix : cfg.fixCancel = true) (hS : cfg.fixStop = true)
    (hI : cfg.fixInstr = true) (ops : List Op) (h : (reach cfg ops).resident = some ⟨.stop, 1⟩) :
    let s := reach cfg ops
    let s' := (tick s).1
    liveObjs s' = [] ∧ s'.stale = [] ∧ s'.stopLog = s.stopLog ++ [s.track] ∧ concluded s.track = true := by
  intro s s'
  have hc := stop_completes cfg hfix ops h
  have hr : Rec s' := rec_tick (reach_good cfg hfix ops) (reach_rec cfg hfix hS hI ops)
  exact ⟨hc.2.2.2.2.2.2.2.2.2.2.2, hr.stale, hc.2.2.2.2.2.1, started_commands_concluded cfg hfix hS hI ops .stop h⟩

/-- The same for Restart's second phase. -/
theorem restart_leaves_no_instance (cfg : Cfg) (hfix : cfg.fixCancel = true) (hS : cfg.fixStop = true)
    (hI : cfg.fixInstr = true) (ops : List Op) (h : (reach cfg ops).resident = some ⟨.restart, 1⟩) :
    let s := reach cfg ops
    let s' := (tick s).1
    liveObjs s' = [] ∧ s'.stale = [] ∧ s'.stopLog = s.stopLog ++ [s.track] ∧ concluded s.track = true := by
  intro s s'
  have hc := restart_ends_run cfg hfix ops h
  have hr : Rec s' := rec_tick (reach_good cfg hfix ops) (reach_rec cfg hfix hS hI ops)
  exact ⟨hc.2.2.2.2.2.2.2.2.2.2.2, hr.stale, hc.2.2.2.2.2.1,
    started_commands_concluded cfg hfix hS hI ops .restart h⟩

/-- In no reachable state is a never-initialised instance kept. -/
theorem no_uninitialised_instance (cfg : Cfg) (hfix : cfg.fixCancel = true) (hS : cfg.fixStop = true)
    (hI : cfg.fixInstr = true) (ops : List Op) : (reach cfg ops).stale = [] :=
  (reach_rec cfg hfix hS hI ops).stale

/-- Non-vacuity and end-to-end: a method-like history (two commands, one long, a simulation), Stop, three
ticks: everything is finalized, the reported run log shows both commands concluded. -/
example :
    let cfg : Cfg := { cmds := [⟨1, none⟩, ⟨6, none⟩] }
    let s := reach cfg [.user .start, .tick, .req 0, .req 1, .sim 2, .tick, .tick, .user .stop, .tick]
    s.resident = some ⟨.stop, 1⟩ ∧ liveObjs s = [] ∧
    (let s' := (tick s).1
     s'.started = false ∧ s'.runId = none ∧ s'.simulated = [] ∧ (s'.stopLog.map concluded) = [true] ∧
     s'.stopLog.map (fun tr => tr.map (fun t => t.marks.map (·.1))) =
       [[[.created, .started, .cmdSet, .completed], [.created, .started, .cmdSet, .cancelled]]]) := by
  decide +kernel

/-- The same with the run paused by an error (a failing command) when Stop arrives: the paused command is not
executed any more, Stop finalizes it, the run log shows it concluded. -/
example :
    let cfg : Cfg := { cmds := [⟨6, none⟩, ⟨0, some 1⟩] }
    let s := reach cfg [.user .start, .tick, .req 0, .req 1, .tick, .tick, .tick, .user .stop, .tick]
    s.paused = true ∧ s.resident = some ⟨.stop, 1⟩ ∧ liveObjs s = [] ∧
    (let s' := (tick s).1
     s'.paused = false ∧ s'.started = false ∧ s'.stopLog.map concluded = [true]) := by
  decide +kernel

/-- What Stop does *not* clean up (the code as it is; recorded finding): an instance that was created for a
request with rejected arguments and never initialised stays in `uod.command_instances` across Stop when no
request of that name is left to cancel.  It has had no callback (`objs` is empty), it just occupies the name. -/
theorem asis_uninitialised_instance_survives_stop :
    let cfg : Cfg := { cmds := [⟨6, none⟩], fixStop := false }
    let s := reach cfg [.user .start, .tick, .req 0 true, .tick, .user .stop, .tick, .tick]
    s.started = false ∧ s.stale = [(0, 1)] ∧ s.objs = [] ∧ s.events = [] := by decide +kernel

/-- …with `fixes/C10-dispose-instances-on-stop.diff` (`fixStop`) nothing is left. -/
theorem fixed_rejected_arguments :
    let cfg : Cfg := { cmds := [⟨6, none⟩] }
    let s := reach cfg [.user .start, .tick, .req 0 true, .tick, .user .stop, .tick, .tick]
    s.started = false ∧ s.stale = [] ∧ s.objs = [] ∧ s.events = [] := by decide +kernel

/-! ### The unchanged code -/

/-- Unchanged code: a command requested in the same tick as Stop, ahead of it in the queue, is started *after*
Stop's clean-up and survives the stop: the instance is still there when the run is over, it is never finalized,
and the reported run log shows it as started. -/
theorem asis_instance_survives_stop :
    let cfg : Cfg := { cmds := [⟨6, none⟩], fixCancel := false, fixStop := false }
    let s := reach cfg [.user .start, .tick, .req 0, .user .stop, .tick, .tick]
    s.started = false ∧ (liveObjs s).map (·.name) = [0] ∧ s.stopLog.map concluded = [false] := by
  decide +kernel

/-- …the repaired code on the same history. -/
theorem fixed_same_history :
    let cfg : Cfg := { cmds := [⟨6, none⟩] }
    let s := reach cfg [.user .start, .tick, .req 0, .user .stop, .tick, .tick]
    s.started = false ∧ liveObjs s = [] ∧ s.stopLog.map concluded = [true] := by
  decide +kernel

end OPM.C10
