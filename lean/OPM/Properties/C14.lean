import OPM.Model.Merge
import OPM.Lemmas.Interp
import OPM.Properties.C01
import OPM.Lemmas.InterpC14
import OPM.Lemmas.InterpC14Run
/-!
# C14 Injected code runs once in the current scope, even across edits

"Code injected during a run executes exactly once, at the next ticks in which the run is not paused
or on hold, and does not change which method lines have started or completed. A UOD command started
by injected code completes and is finalized even if the method is edited meanwhile."

Model: `OPM.Interp.inject` (`PInterpreter.inject_node`: the injected subtree is registered as an
interrupt) and `OPM.Merge.edit`.  The last sentence is false of the code as it is (a merge
re-registers interrupts by looking their node up in the *new* method; injected nodes are not
there): kept visible as `C14_full_edit`, refuted by `C14_counterexample`, and the as-is behaviour is
`OPM.C01.merge_drops_unknown_interrupts`.
-/
namespace OPM.C14
open OPM.Interp OPM.Merge

theorem rt_fold_setRt_notMem (l : List Nat) (f : NodeRt → NodeRt) (s : St) (k : Nat) (hk : k ∉ l) :
    ((l.foldl (fun s j => setRt s j f) s).rt k) = s.rt k := by
  induction l generalizing s with
  | nil => rfl
  | cons a l ih =>
    simp only [List.foldl]
    rw [ih _ (fun h => hk (List.mem_cons_of_mem _ h))]
    simp only [rt_setRt]
    split
    · rename_i e; exact absurd (e ▸ List.mem_cons_self) hk
    · rfl

/-- Injection itself leaves the runtime record of every node outside the injected subtree
    untouched: no method line becomes started, completed, failed, cancelled … by `inject_node`. -/
theorem inject_keeps_method_flags (p : Prog) (s : St) (n k : Nat)
    (hk : k ∉ n :: descendants p n) : ((inject p s n).rt k) = s.rt k := by
  unfold inject
  simp only [rt_registerInterrupt]
  have hne : k ≠ n := fun e => hk (e ▸ List.mem_cons_self)
  rw [if_neg hne]
  exact rt_fold_setRt_notMem _ _ s k hk

/-- Injection registers exactly one new generator, rooted at the injected node, at the end of the
    interrupt map (so it runs after the existing interrupts, starting with the next tick). -/
theorem inject_registers_once (p : Prog) (s : St) (n : Nat) (hn : ¬ s.imap.any (fun e => e.1 = n) = true)
    (hkind : (node p n).kind = .injected) :
    (inject p s n).imap = s.imap ++ [(n, s.nextGid)] ∧ (inject p s n).nextGid = s.nextGid + 1 := by
  unfold inject registerInterrupt
  simp only [hkind]
  have himap : ∀ (l : List Nat) (s : St),
      (l.foldl (fun s j => setRt s j (fun r => { r with hasRecord := true })) s).imap = s.imap ∧
      (l.foldl (fun s j => setRt s j (fun r => { r with hasRecord := true })) s).nextGid = s.nextGid := by
    intro l
    induction l with
    | nil => intro s; exact ⟨rfl, rfl⟩
    | cons a l ih => intro s; simp only [List.foldl]; exact ih _
  obtain ⟨h1, h2⟩ := himap (n :: descendants p n) s
  constructor
  · show dictSet _ n _ = _
    rw [h1, h2]
    unfold dictSet
    rw [if_neg (by rw [h1] at *; exact hn)]
  · show _ + 1 = _
    rw [h2]

/-! ## running the injected code: frame and "at most once", lifted over micro-steps -/

/-- **Frame of a running snippet.** Let `D` be a set of nodes closed under children, all of whose nodes
    are Mark / Wait / UOD command / Notify-like / blank lines or the injected wrapper.  Running a
    generator whose frames belong to `D` to its next `EndTick` — from *any* state — changes no runtime
    record outside `D` (no method line becomes started, completed, failed, cancelled …), registers and
    unregisters no interrupt, no macro, leaves block tag, base unit and all generators alone, and its
    stack stays in `D` (induction over the micro-steps).  What it may change: the records of `D`, the
    Mark tag, the event log, the error slot. -/
theorem neutral_snippet_subtick_frame (p : Prog) (D : Nat → Bool)
    (hkind : ∀ k, D k = true → neutralKind (node p k).kind = true)
    (hclosed : ∀ k, D k = true → ∀ c ∈ (node p k).children, D c = true)
    (fuel : Nat) (s : St) (stack : List Frame) (h : ∀ g ∈ stack, frameIn D g = true) :
    Outside D s (runGen p fuel s stack).1 ∧ ∀ g ∈ (runGen p fuel s stack).2.1, frameIn D g = true :=
  runGen_neutral p D hkind hclosed fuel s stack h

/-- Injection followed by the first sub-tick of the injected generator: method records untouched. -/
theorem inject_and_first_subtick_keep_method_flags (p : Prog) (D : Nat → Bool) (n : Nat)
    (hD : ∀ k ∈ n :: descendants p n, D k = true)
    (hkind : ∀ k, D k = true → neutralKind (node p k).kind = true)
    (hclosed : ∀ k, D k = true → ∀ c ∈ (node p k).children, D c = true)
    (fuel : Nat) (s : St) (k : Nat) (hk : D k = false) :
    ((runGen p fuel (inject p s n) [.wrapEnter n]).1.rt k) = s.rt k := by
  have hn : D n = true := hD n List.mem_cons_self
  have h1 := (runGen_neutral p D hkind hclosed fuel (inject p s n) [.wrapEnter n]
    (by intro g hg; simp only [List.mem_cons, List.mem_nil_iff, or_false] at hg; subst hg
        simpa [frameIn, frameNode] using hn)).1.rt k hk
  rw [h1]
  apply inject_keeps_method_flags
  intro hmem
  rw [hD k hmem] at hk
  cases hk

/-- **At most once per registration.** In a program without `Call macro` whose nodes are numbered in
    tree order, the generator that `inject` registers for the injected wrapper `n` (it starts as
    `[wrapEnter n]`) starts the injected body at most once in its whole life — whatever the other
    generators, requests, tag values and pauses (ticks that do not happen) do in between: the states
    between its micro-steps are universally quantified. -/
theorem injected_body_starts_at_most_once (p : Prog) (n : Nat)
    (hnc : noCalls p = true) (hord : ordered p = true) (hn : isInjected p n = true) (ss : List St) :
    genStartsI p n ss [.wrapEnter n] ≤ 1 :=
  genStartsI_early p n hnc hord hn ss _ (Or.inl rfl)

/-- **At most once in a whole run.** Program without `Call macro`, numbered in tree order; the injected
    wrapper `n` is nobody's child (it is not part of the program); code is injected in a state whose
    generators have gids below the counter and do not mention `n` (`readyFor`).  Then over *any* run of
    ticks (with arbitrary clock / tag inputs — a pause or hold is a stretch without ticks), command
    completions, cancel and force requests, the injected body is started at most once in total:
    no second generator is ever registered for `n`, no other generator ever reaches it, and its own
    generator starts it at most once. -/
theorem injected_body_starts_at_most_once_in_a_run (p : Prog) (n : Nat)
    (hnc : noCalls p = true) (hord : ordered p = true)
    (hch : ∀ k, n ∉ (node p k).children) (hn : isInjected p n = true)
    (s : St) (hs : readyFor n s = true) (ops : List ROp) :
    runStarts p n (inject p s n) ops ≤ 1 :=
  run_bodyStarts_le_one p n hnc hord hch hn s hs ops

/-- The clause about edits, over the model: an interrupt that is registered before an accepted live
    edit is still registered (under the same line id) afterwards. -/
def C14_full_edit : Prop :=
  ∀ (mm : MM) (new : Method), (edit mm new).2 = .merged →
    ∀ e ∈ mm.st.imap, ∃ k ∈ ((edit mm new).1.st.imap).map (·.1), idOf new k = idOf mm.m e.1

/-! Witness: method `Wait: 2s`, a `Mark: inj` injected after two ticks (node 2 under the injected
    node 3 … in the model: nodes 2 = injected, 3 = mark), then a live edit appending a line. -/

def wProg : Prog := #[
  { kind := .program, parent := none, children := [1], threshold := none, keyPath := [0] },
  { kind := .wait 2, parent := some 0, children := [], threshold := none, keyPath := [0, 1] },
  { kind := .injected, parent := none, children := [3], threshold := none, keyPath := [9], inProgram := false },
  { kind := .mark "inj", parent := some 2, children := [], threshold := none, keyPath := [9, 3], inProgram := false }]

def wProg' : Prog := #[
  { kind := .program, parent := none, children := [1, 2], threshold := none, keyPath := [0] },
  { kind := .wait 2, parent := some 0, children := [], threshold := none, keyPath := [0, 1] },
  { kind := .mark "c", parent := some 0, children := [], threshold := none, keyPath := [0, 2] }]

def wOld : Method := ⟨wProg, #[0, 1, 100, 101], #["P", "Wait|2s", "Inj", "Mark|inj"], [(1, "Wait: 2s")]⟩
def wNew : Method := ⟨wProg', #[0, 1, 2], #["P", "Wait|2s", "Mark|c"], [(1, "Wait: 2s"), (2, "Mark: c")]⟩

def wSt : St :=
  let s := (List.range 3).foldl (fun s i => (tick wProg s ⟨(i : Nat) / 8, (i : Nat) / 8, 0, []⟩).1) (init wProg)
  inject wProg s 2

def wMM : MM := { m := wOld, st := wSt }

theorem C14_witness :
    wSt.imap.map (·.1) = [2] ∧ (edit wMM wNew).2 = .merged ∧ (edit wMM wNew).1.st.imap = [] := by
  decide +kernel

theorem C14_counterexample : ¬ C14_full_edit := by
  intro h
  have := h wMM wNew (by decide +kernel) (2, 1) (by decide +kernel)
  revert this
  decide +kernel

/-! Non-vacuity: the witness program (`Wait: 2s` + injected `Mark: inj`, nodes 2 and 3). -/

def wD : Nat → Bool := fun k => k == 2 || k == 3

example : (∀ k ∈ 2 :: descendants wProg 2, wD k = true) ∧ noCalls wProg = true ∧ ordered wProg = true ∧
    isInjected wProg 2 = true := by decide +kernel

example : ∀ k, wD k = true → neutralKind (node wProg k).kind = true := by
  intro k hk
  have : k = 2 ∨ k = 3 := by simpa [wD] using hk
  rcases this with e | e <;> subst e <;> decide +kernel

example : ∀ k, wD k = true → ∀ c ∈ (node wProg k).children, wD c = true := by
  intro k hk
  have : k = 2 ∨ k = 3 := by simpa [wD] using hk
  rcases this with e | e <;> subst e <;> decide +kernel

/-- the hypotheses of `injected_body_starts_at_most_once_in_a_run` hold of the witness, and the bound
    is attained: over eight ticks the injected body starts exactly once -/
def wBefore : St :=
  (List.range 3).foldl (fun s i => (tick wProg s ⟨(i : Nat) / 8, (i : Nat) / 8, 0, []⟩).1) (init wProg)

example : ∀ k, 2 ∉ (node wProg k).children := by
  intro k
  rcases k with _ | _ | _ | _ | k
  · decide
  · decide
  · decide
  · decide
  · have hsz : wProg.size = 4 := rfl
    have : node wProg (k + 4) = default := node_default wProg (k + 4) (by rw [hsz]; omega)
    rw [this]
    exact List.not_mem_nil

example : readyFor 2 wBefore = true ∧ wSt = inject wProg wBefore 2 ∧
    runStarts wProg 2 (inject wProg wBefore 2)
      ((List.range 8).map (fun i => ROp.tick ⟨(3 + i : Nat) / 8, (3 + i : Nat) / 8, 0, []⟩)) = 1 := by
  refine ⟨by decide +kernel, rfl, by decide +kernel⟩

def wTicksFrom (s : St) (from_ n : Nat) : St :=
  (List.range n).foldl (fun s i => (tick wProg s ⟨(from_ + i : Nat) / 8, (from_ + i : Nat) / 8, 0, []⟩).1) s

/-- the injected code of the witness does run — once — when nothing interferes: five ticks later the
    Mark tag is `inj`, the wrapper has completed, and node 1 (the method's `Wait`) is as in the run
    without the injection -/
example :
    (wTicksFrom wSt 3 5).marks = ["inj"] ∧ ((wTicksFrom wSt 3 5).rt 2).completed = true ∧
    (wTicksFrom wSt 3 5).rt 1 = (wTicksFrom (init wProg) 0 8).rt 1 := by
  decide +kernel

/-! ## as-is: an injected Block never ends

`End block` / `End blocks` look for locked blocks among the nodes of the *program*
(`lockedBlocks`: `inProgram`); an injected Block is not one of them.  Method `Wait: 2s`; injected
`Block: Q / Mark: i1 / End block` (nodes 2–5).  Sixty ticks later the Mark has been set, `End block`
has completed, and the Block still holds its lock, is not completed, the Block tag still reads `Q`
and the injected wrapper has not completed. -/

def bProg : Prog := #[
  { kind := .program, parent := none, children := [1], threshold := none, keyPath := [0] },
  { kind := .wait 2, parent := some 0, children := [], threshold := none, keyPath := [0, 1] },
  { kind := .injected, parent := none, children := [3], threshold := none, keyPath := [9], inProgram := false },
  { kind := .block "Q", parent := some 2, children := [4, 5], threshold := none, keyPath := [9, 1], inProgram := false },
  { kind := .mark "i1", parent := some 3, children := [], threshold := none, keyPath := [9, 1, 1], inProgram := false },
  { kind := .endBlock, parent := some 3, children := [], threshold := none, keyPath := [9, 1, 2], inProgram := false }]

def bRun (n : Nat) : St :=
  let s := (List.range 3).foldl (fun s i => (tick bProg s ⟨(i : Nat) / 8, (i : Nat) / 8, 0, []⟩).1) (init bProg)
  (List.range n).foldl (fun s i => (tick bProg s ⟨(3 + i : Nat) / 8, (3 + i : Nat) / 8, (i : Nat) / 8, []⟩).1)
    (inject bProg s 2)

theorem C14_witness_injected_block_never_ends :
    (bRun 60).marks = ["i1"] ∧ ((bRun 60).rt 5).completed = true ∧
    ((bRun 60).rt 3).lockAcquired = true ∧ ((bRun 60).rt 3).completed = false ∧
    (bRun 60).blockTag = some "Q" ∧ ((bRun 60).rt 2).completed = false := by
  decide +kernel

/-- As-is behaviour: whatever is registered after a merge stems from an old interrupt whose line id
    exists in the new method — injected code (fresh ids) is dropped. -/
theorem merge_keeps_only_known_interrupts (mm : MM) (new : Method) (h : (edit mm new).2 = .merged) (k : Nat)
    (hk : k ∈ ((edit mm new).1.st.imap).map (·.1)) :
    ∃ e ∈ mm.st.imap, indexOfId new (idOf mm.m e.1) = some k :=
  OPM.C01.merge_drops_unknown_interrupts mm new h k hk

end OPM.C14
