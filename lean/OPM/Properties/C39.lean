import OPM.Model.Archive
import OPM.Lemmas.Archive
/-!
# C39 The local run archive reads back exactly

"Every data row of the engine's local run archive has exactly the columns of its header, and reading the file
back yields the archived values unchanged, including mark texts containing separators, commas or escape
characters."

`OPM.Archive` models `ArchiverTag.prepare_tags_file / write_tags_row`, `Tag.archive`, `MarkTag.archive` and the
csv dialect (writer and reader of CPython's `_csv` for QUOTE_NONE + escapechar `\`, file opened with
`newline=''`).  The statements quantify over all field strings, all tag lists and all operation histories.
-/
namespace OPM.C39
open OPM.Archive

/-! ## The dialect round-trips every row (all strings, including `,` `\` `"` `;` CR LF) -/

/-- Every row except the single-empty-field record is written (CPython raises `csv.Error` for `[""]`). -/
theorem writeRow_total (row : Row) (h : row ≠ [[]]) : ∃ t, writeRow row = .ok t :=
  ⟨_, writeRow_ok row h⟩

/-- Full statement for the dialect: if the rows `rows` were written one after the other (every `writerow`
    succeeded) and produced the file text `text`, reading the file returns exactly `rows`. -/
theorem read_written_rows (rows : List Row) (text : List Char) (h : writeRows rows = .ok text) :
    readFile text = .ok rows := by
  have key : ∀ (rows : List Row) (text : List Char), writeRows rows = .ok text →
      text = encodeRows rows ∧ ∀ r ∈ rows, r ≠ [[]] := by
    intro rows
    induction rows with
    | nil => intro text h; simp [writeRows] at h; exact ⟨by rw [h]; rfl, by simp⟩
    | cons r rs ih =>
      intro text h
      have hr : r ≠ [[]] := by
        intro e; subst e; simp [writeRows, writeRow] at h
      simp only [writeRows, writeRow_ok r hr] at h
      cases hrs : writeRows rs with
      | error e => simp [hrs] at h
      | ok ts =>
        simp only [hrs, Except.ok.injEq] at h
        obtain ⟨h1, h2⟩ := ih ts hrs
        refine ⟨by rw [← h, h1]; simp [encodeRows], ?_⟩
        intro r' hr'
        rcases List.mem_cons.mp hr' with e | e
        · exact e ▸ hr
        · exact h2 r' e
  obtain ⟨h1, h2⟩ := key rows text h
  rw [h1]
  exact read_encodeRows rows h2

/-- Every list of writable rows is written. -/
theorem writeRows_total (rows : List Row) (h : ∀ r ∈ rows, r ≠ [[]]) : ∃ t, writeRows rows = .ok t := by
  induction rows with
  | nil => exact ⟨[], rfl⟩
  | cons r rs ih =>
    obtain ⟨ts, hts⟩ := ih (fun r' hr' => h r' (by simp [hr']))
    exact ⟨joinFields r ++ ['\r', '\n'] ++ ts, by simp only [writeRows, writeRow_ok r (h r (by simp)), hts]⟩

/-- One row: the reader inverts the writer. -/
theorem read_one_row (row : Row) (t : List Char) (h : writeRow row = .ok t) : readFile t = .ok [row] := by
  apply read_written_rows [row] t
  simp [writeRows, h]

/-- Non-vacuity: a mark text with the mark separator, a comma, a backslash, a quote, CR and LF. -/
example : ∃ t, writeRow [['t'], "a; b, c\\d\"e\r\nf".toList, []] = .ok t ∧
    readFile t = .ok [[['t'], "a; b, c\\d\"e\r\nf".toList, []]] := by
  obtain ⟨t, ht⟩ := writeRow_total [['t'], "a; b, c\\d\"e\r\nf".toList, []] (by simp)
  exact ⟨t, ht, read_one_row _ _ ht⟩

/-- The guard of `writeRow_total` is needed: the one-empty-field record cannot be written … -/
theorem single_empty_field_unwritable : writeRow [[]] = .error .singleEmptyField := by rfl

/-- … and it is exactly the record that would not read back (an empty line reads as the empty record). -/
theorem empty_line_reads_as_empty_record : readFile ['\r', '\n'] = .ok [[]] := by rfl

/-! ## The archiver: header columns and read-back, for all tag lists and histories -/

/-- A freshly constructed archiver over `tags` (no file yet). -/
def init (tags : List Tag) : State := { tags := tags }

/-- Invariant of the archiver state. -/
structure Good (s : State) : Prop where
  file_eq : s.file = encodeRows s.log
  writable : ∀ r ∈ s.log, r ≠ [[]]
  cols : ∀ r ∈ s.log, r.length = 1 + columns s.tags
  ready : s.fileReady = true → s.fileExists = true
  header : s.fileExists = true → s.log ≠ []
  fin : ∀ p ∈ s.finished, p.1 = encodeRows p.2 ∧ (∀ r ∈ p.2, r ≠ [[]]) ∧
    (∀ r ∈ p.2, r.length = 1 + columns s.tags) ∧ p.2 ≠ []

theorem good_init (tags : List Tag) : Good (init tags) :=
  ⟨rfl, by simp [init], by simp [init], by simp [init], by simp [init], by simp [init]⟩

theorem good_tags {s : State} (g : Good s) (tags' : List Tag)
    (hk : tags'.map (·.kind) = s.tags.map (·.kind)) : Good { s with tags := tags' } :=
  ⟨g.file_eq, g.writable, by rw [show columns tags' = columns s.tags from columns_of_kinds _ _ hk]; exact g.cols,
   g.ready, g.header, by rw [show columns tags' = columns s.tags from columns_of_kinds _ _ hk]; exact g.fin⟩

theorem good_append {s : State} (g : Good s) (tags' : List Tag)
    (hk : tags'.map (·.kind) = s.tags.map (·.kind)) (r : Row) (txt : List Char)
    (hw : writeRow r = .ok txt) (hlen : r.length = 1 + columns s.tags) (ex rd : Bool)
    (hrd : rd = true → ex = true) :
    Good { s with tags := tags', fileExists := ex, fileReady := rd, file := s.file ++ txt,
                  log := s.log ++ [r] } := by
  have hr : r ≠ [[]] := by intro e; subst e; simp [writeRow] at hw
  rw [writeRow_ok r hr] at hw
  cases hw
  have hc : columns tags' = columns s.tags := columns_of_kinds _ _ hk
  refine ⟨?_, ?_, ?_, hrd, by simp, by show ∀ p ∈ s.finished, _; rw [hc]; exact g.fin⟩
  · simp [g.file_eq, encodeRows_append, encodeRows]
  · intro r' h'
    rcases List.mem_append.mp h' with h' | h'
    · exact g.writable r' h'
    · simp at h'; exact h' ▸ hr
  · intro r' h'
    show r'.length = 1 + columns tags'
    rw [hc]
    rcases List.mem_append.mp h' with h' | h'
    · exact g.cols r' h'
    · simp at h'; exact h' ▸ hlen

theorem good_step (s : State) (op : Op) (g : Good s) : Good (stepOp s op) := by
  cases op with
  | start =>
    simp only [stepOp]
    split
    · rename_i hex
      exact ⟨g.file_eq, g.writable, g.cols, fun _ => hex, g.header, g.fin⟩
    · split
      · rename_i txt hw
        exact good_append g _ (archiveAll_kinds s.tags) _ txt hw (headerRow_length s.tags) true true (fun _ => rfl)
      · exact absurd (by assumption) (by simp [writeRow_ok _ (headerRow_ne s.tags _)])
  | row now =>
    simp only [stepOp]
    split
    · rename_i hr
      split
      · rename_i txt hw
        have := good_append g _ (archiveAll_kinds s.tags) _ txt hw (dataRow_length now s.tags)
          s.fileExists s.fileReady g.ready
        exact this
      · exact good_tags g _ (archiveAll_kinds s.tags)
    · exact g
  | set i v => exact good_tags g _ (updTag_kinds _ _ _ (fun _ => by split <;> rfl))
  | sim i v => exact good_tags g _ (updTag_kinds _ _ _ (fun _ => by split <;> rfl))
  | stopSim i => exact good_tags g _ (updTag_kinds _ _ _ (fun _ => rfl))
  | mark i text => exact good_tags g _ (updTag_kinds _ _ _ (fun _ => rfl))
  | startLow => exact g
  | stop =>
    simp only [stepOp]
    refine ⟨rfl, by simp, by simp, by simp, by simp, ?_⟩
    intro p hp
    rcases List.mem_append.mp hp with h | h
    · exact g.fin p h
    · split at h
      · rename_i hex
        simp at h; subst h
        exact ⟨g.file_eq, g.writable, g.cols, g.header hex⟩
      · simp at h

theorem good_run (ops : List Op) : ∀ s, Good s → Good (run s ops) := by
  induction ops with
  | nil => intro s g; exact g
  | cons op ops ih => intro s g; exact ih _ (good_step s op g)

/-- The number of columns is fixed by the tag classes, which no operation changes. -/
theorem columns_run (ops : List Op) : ∀ s, columns (run s ops).tags = columns s.tags := by
  induction ops with
  | nil => intro s; rfl
  | cons op ops ih =>
    intro s
    show columns (run (stepOp s op) ops).tags = _
    rw [ih]
    apply columns_of_kinds
    cases op <;> simp only [stepOp]
    · split
      · rfl
      · split <;> exact archiveAll_kinds s.tags
    · split
      · split <;> exact archiveAll_kinds s.tags
      · rfl
    all_goals first | rfl | exact updTag_kinds _ _ _ (fun _ => by first | rfl | (split <;> rfl))

/-- **Read-back.** For every tag list and every history of operations, reading the archive file with the
    dialect it was written with returns exactly the rows that were archived (`log` = header row followed by
    `[time] + [values returned by archive()]` of every `write_tags_row`), whatever the mark texts and values
    contain. -/
theorem archive_reads_back (tags : List Tag) (ops : List Op) :
    readFile (run (init tags) ops).file = .ok (run (init tags) ops).log := by
  have g := good_run ops _ (good_init tags)
  rw [g.file_eq]
  exact read_encodeRows _ g.writable

/-- **Columns.** For every tag list and every history, every row of the archive — in particular every data
    row — has exactly as many columns as the header row (the first row), namely one per tag with a column. -/
theorem rows_have_header_columns (tags : List Tag) (ops : List Op) (hdr : Row) (rest : List Row)
    (h : (run (init tags) ops).log = hdr :: rest) :
    hdr.length = 1 + columns tags ∧ ∀ r ∈ rest, r.length = hdr.length := by
  have g := good_run ops _ (good_init tags)
  have hc : columns (run (init tags) ops).tags = columns tags := columns_run ops (init tags)
  have h1 := g.cols hdr (by rw [h]; simp)
  rw [hc] at h1
  refine ⟨h1, fun r hr => ?_⟩
  have h2 := g.cols r (by rw [h]; simp [hr])
  rw [hc] at h2
  rw [h1, h2]

/-- Rows are only written after the header: a file that is ready has its header first. -/
theorem header_first (tags : List Tag) (ops : List Op) (h : (run (init tags) ops).fileReady = true) :
    (run (init tags) ops).log ≠ [] :=
  let g := good_run ops _ (good_init tags)
  g.header (g.ready h)

/-- **Every file the archiver leaves behind** (the runs that were stopped; runs started while the disk-space guard
    refuses leave no file and get no rows): it starts with a header row, every row has the header's columns, and
    reading it back returns exactly the rows that were archived into it. -/
theorem finished_archives_read_back (tags : List Tag) (ops : List Op) (file : List Char) (log : List Row)
    (h : (file, log) ∈ (run (init tags) ops).finished) :
    readFile file = .ok log ∧ log ≠ [] ∧ ∀ r ∈ log, r.length = 1 + columns tags := by
  have g := good_run ops _ (good_init tags)
  obtain ⟨h1, h2, h3, h4⟩ := g.fin _ h
  simp only at h1 h2 h3 h4
  have hc : columns (run (init tags) ops).tags = columns tags := columns_run ops (init tags)
  refine ⟨by rw [h1]; exact read_encodeRows _ h2, h4, fun r hr => by rw [← hc]; exact h3 r hr⟩

/-- What `read_last_run_archive` opens after a stop is the file of that run, if the run has one. -/
theorem last_run_is_finished (s : State) (t : List Char) (h : (stepOp s .stop).lastRun = some t) :
    t = s.file ∧ s.fileExists = true := by
  simp only [stepOp] at h
  split at h
  · rename_i hex; simp at h; exact ⟨h.symm, hex⟩
  · cases h

/-! ### Non-vacuity: a concrete history with nasty mark texts -/

def demoTags : List Tag :=
  [{ kind := .plain, name := ['F'], unit := some ['L', '/', 'h'] }, { kind := .mark, name := ['M'] },
   { kind := .skipped, name := ['A'] }]

def demoOps : List Op :=
  [.start, .set 0 (.flt false 5 4), .mark 1 "a, b".toList, .mark 1 "c\\d;".toList, .row ['1'], .row ['2']]

example : (run (init demoTags) demoOps).log =
    [[timeHeader, "F [L/h]".toList, ['M']], [['1'], "1.25000".toList, "a, b; c\\d;".toList],
     [['2'], "1.25000".toList, []]] := by decide +kernel

example : readFile (run (init demoTags) demoOps).file = .ok (run (init demoTags) demoOps).log :=
  archive_reads_back _ _

/-- Two runs, the second one started on a full disk: one file, no rows for the second run. -/
example : ((run (init demoTags) (demoOps ++ [.stop, .startLow, .row ['3'], .stop])).finished.map (·.2.length),
    (run (init demoTags) (demoOps ++ [.stop, .startLow, .row ['3'], .stop])).lastRun) = ([3], none) := by
  decide +kernel

/-- As the code is: the header line evaluates `archive()` too, so a mark set before `on_start` is consumed by
    the header and never reaches a data row (observation, not part of the property). -/
example : (run (init demoTags) [.mark 1 ['x'], .start, .row ['1']]).log =
    [[timeHeader, "F [L/h]".toList, ['M']], [['1'], [], []]] := by decide +kernel

/-! ## Runs whose tag collection differs from the previous run's

`ArchiverTag.on_start` asks its `tags_accessor` anew at every start, so a later run on the same archiver may
work on other tags, in another order, with the column-less archiver tag elsewhere.  `State` has one tag list;
replacing it while no run is active (after `on_stop`) is the model of that.  A run depends only on the per-run
part of the state and `on_stop` resets that part, hence the run after a change of collection *is* the run of a
fresh archiver over the new tags: every file it leaves has the new header's columns and reads back exactly. -/

/-- The part of the archiver's state a run works on (everything but the files already finished). -/
def core (s : State) : List Tag × Bool × Bool × List Char × List Row :=
  (s.tags, s.fileExists, s.fileReady, s.file, s.log)

theorem step_frame (s s' : State) (op : Op) (h : core s = core s') :
    core (stepOp s op) = core (stepOp s' op) ∧
    ∃ new, (stepOp s op).finished = s.finished ++ new ∧ (stepOp s' op).finished = s'.finished ++ new := by
  obtain ⟨t, fe, fr, f, l, fin, lr⟩ := s
  obtain ⟨t', fe', fr', f', l', fin', lr'⟩ := s'
  simp only [core, Prod.mk.injEq] at h
  obtain ⟨rfl, rfl, rfl, rfl, rfl⟩ := h
  cases op
  case stop => exact ⟨by simp [stepOp, core], if fe then [(f, l)] else [], rfl, rfl⟩
  all_goals
    simp only [stepOp, core] <;> (try split) <;> (try split) <;>
    first
    | exact ⟨rfl, [], by simp⟩
    | exact ⟨trivial, [], by simp⟩
    | (refine ⟨by simp, [], by simp⟩)

theorem run_frame (ops : List Op) (s s' : State) (h : core s = core s') :
    core (run s ops) = core (run s' ops) ∧
    ∃ new, (run s ops).finished = s.finished ++ new ∧ (run s' ops).finished = s'.finished ++ new := by
  induction ops generalizing s s' with
  | nil => exact ⟨h, [], by simp [run]⟩
  | cons op ops ih =>
    obtain ⟨h1, n1, e1, e1'⟩ := step_frame s s' op h
    obtain ⟨h2, n2, e2, e2'⟩ := ih (stepOp s op) (stepOp s' op) h1
    refine ⟨by simpa [run] using h2, n1 ++ n2, ?_, ?_⟩
    · have : run s (op :: ops) = run (stepOp s op) ops := rfl
      rw [this, e2, e1, List.append_assoc]
    · have : run s' (op :: ops) = run (stepOp s' op) ops := rfl
      rw [this, e2', e1', List.append_assoc]

/-- `on_stop` leaves nothing of the run behind but its finished file: with another tag list put in place, the
    per-run state is that of a new archiver over those tags. -/
theorem stop_then_retag_is_fresh (s : State) (tags' : List Tag) :
    core { stepOp s .stop with tags := tags' } = core (init tags') := by
  simp [core, stepOp, init]

/-- **A later run over a changed collection.** After any state `s`, Stop, a different tag list `tags'` and any
    further history: every archive file left behind is either one that was already finished at the Stop, or it
    reads back exactly, starts with a header and every row has one column per column-bearing tag of the NEW list
    (+ time).  Nothing of the previous collection (its size, the positions of its column-less tags) plays a part. -/
theorem changed_collection_run (s : State) (tags' : List Tag) (ops : List Op) (file : List Char) (log : List Row)
    (h : (file, log) ∈ (run { stepOp s .stop with tags := tags' } ops).finished) :
    (file, log) ∈ (stepOp s .stop).finished ∨
    (readFile file = .ok log ∧ log ≠ [] ∧ ∀ r ∈ log, r.length = 1 + columns tags') := by
  obtain ⟨_, new, e, e'⟩ := run_frame ops _ _ (stop_then_retag_is_fresh s tags')
  rw [e] at h
  rcases List.mem_append.mp h with h | h
  · exact Or.inl h
  · refine Or.inr (finished_archives_read_back tags' ops file log ?_)
    rw [e']; simpa [init] using h

/-- Non-vacuity: the second run has the archiver tag first and one tag more; its file has the new header. -/
example :
    let s := run (init demoTags) demoOps
    let tags' : List Tag := [{ kind := .skipped, name := ['A'] }, { kind := .plain, name := ['G'] },
                             { kind := .mark, name := ['M'] }, { kind := .plain, name := ['H'] }]
    ((run { stepOp s .stop with tags := tags' } [.start, .set 1 (.int 3), .row ['9'], .stop]).finished.map
      (fun f => f.2.map (·.length))) = [[3, 3, 3], [4, 4]] := by decide +kernel

end OPM.C39
