import OPM.Model.ArgRegex
import OPM.Lemmas.ArgRegex
import OPM.Lemmas.ArgRegexIntro
import OPM.Lemmas.ArgRegexLang
/-!
# C22 Command argument patterns accept exactly their documented language

"Numeric argument patterns accept exactly decimal numbers (signed unless restricted to non-negative, integers
only when restricted), optionally followed by one of the declared units, and deliver the number and unit
unchanged. Categorical patterns accept exactly one exclusive option or a '+'-separated list of additive options,
and never an empty value. The unit and option lists that the UI and editor derive from a pattern are exactly those
it was built from."

The acceptors of `OPM.ArgRegex` mirror `re.search` on the patterns of `RegexNumber` / `RegexCategorical` (repaired
builder); the statements quantify over all unit / option lists and all argument strings.
-/
namespace OPM.C22
open OPM.ArgRegex

/-! ## Numeric patterns -/

/-- The documented reading of an argument `s` as number `n` and unit `u`:
    `s = ws* n ws* [unit ws*]` where `n` is a decimal number (`IsNumber`: digits, optionally a fraction unless
    integers only, a leading `-` unless non-negative) and the unit is one of the declared units — exactly one when
    units were declared (`openpectus/test/lsp/test_argument_specs.py: test_regex_number_w_required_unit`), none
    when no units were declared. -/
def DocNumber (units : List Str) (nonNeg intOnly : Bool) (s n : Str) (u : Option Str) : Prop :=
  IsNumber nonNeg intOnly n ∧ ∃ w1 w2, allSpace w1 = true ∧ allSpace w2 = true ∧
    ((units = [] ∧ u = none ∧ s = w1 ++ n ++ w2) ∨
     (∃ x w3, x ∈ units ∧ u = some x ∧ allSpace w3 = true ∧ s = w1 ++ n ++ w2 ++ x ++ w3))

/-- Soundness / delivery: if the pattern accepts `s`, the groups `number` and `number_unit` are a documented
    reading of `s` — the number and the unit are the texts that stand in `s`, unchanged. -/
theorem number_delivers_documented_parts (units : List Str) (nn io : Bool) (s n : Str) (u : Option Str)
    (h : acceptNumber units nn io s = some (n, u)) : DocNumber units nn io s n u := by
  unfold acceptNumber at h
  obtain ⟨c, hc, hf⟩ := List.exists_of_findSome?_eq_some h
  obtain ⟨hnum, hsplit⟩ := numCands_sound nn io _ c.1 c.2 hc
  have hs : s = s.takeWhile isSpace ++ (c.1 ++ c.2) := by
    rw [← hsplit]; exact List.takeWhile_append_dropWhile.symm
  split at hf
  · rename_i hemp
    split at hf
    · rename_i hsp
      cases hf
      exact ⟨hnum, _, c.2, allSpace_takeWhile s, hsp,
        Or.inl ⟨List.isEmpty_iff.mp hemp, rfl, by rw [List.append_assoc]; exact hs⟩⟩
    · cases hf
  · cases hcu : contUnits units c.2 with
    | none => simp [hcu] at hf
    | some x =>
      simp only [hcu, Option.map_some, Option.some.injEq, Prod.mk.injEq] at hf
      obtain ⟨rfl, rfl⟩ := hf
      obtain ⟨hx, w2, w3, hrest, h2, h3⟩ := contUnits_sound units c.2 x hcu
      refine ⟨hnum, _, w2, allSpace_takeWhile s, h2, Or.inr ⟨x, w3, hx, rfl, h3, ?_⟩⟩
      rw [hrest] at hs
      exact hs.trans (by simp only [List.append_assoc])

/-- Completeness: every string with a documented reading is accepted. -/
theorem number_accepts_documented (units : List Str) (nn io : Bool) (s n : Str) (u : Option Str)
    (h : DocNumber units nn io s n u) : (acceptNumber units nn io s).isSome = true := by
  obtain ⟨hnum, w1, w2, h1, h2, hcase⟩ := h
  obtain ⟨c0, rest0, hn0, hc0⟩ := isNumber_head_not_space nn io n hnum
  -- after the leading white space the text starts with the number
  have hdrop : ∀ tail : Str, (w1 ++ n ++ tail).dropWhile isSpace = n ++ tail := by
    intro tail
    rw [List.append_assoc, dropWhile_space_append w1 _ h1, hn0]
    simp [hc0]
  unfold acceptNumber
  rw [List.findSome?_isSome_iff]
  rcases hcase with ⟨hu, _, hs⟩ | ⟨x, w3, hx, _, h3, hs⟩
  · refine ⟨(n, w2), ?_, ?_⟩
    · rw [hs, hdrop w2]; exact numCands_complete nn io n w2 hnum
    · simp [hu, h2]
  · refine ⟨(n, w2 ++ x ++ w3), ?_, ?_⟩
    · have : s = w1 ++ n ++ (w2 ++ x ++ w3) := by rw [hs]; simp
      rw [this, hdrop]; exact numCands_complete nn io n _ hnum
    · have hne : units.isEmpty = false := by cases units <;> simp_all
      simp only [hne, Bool.false_eq_true, if_false, Option.isSome_map]
      exact contUnits_complete units w2 x w3 hx h2 h3

/-- **Numeric patterns accept exactly the documented language** (all unit lists, both restrictions, all
    strings). -/
theorem number_accepts_iff_documented (units : List Str) (nn io : Bool) (s : Str) :
    (acceptNumber units nn io s).isSome = true ↔ ∃ n u, DocNumber units nn io s n u := by
  constructor
  · intro h
    obtain ⟨⟨n, u⟩, hnu⟩ := Option.isSome_iff_exists.mp h
    exact ⟨n, u, number_delivers_documented_parts units nn io s n u hnu⟩
  · rintro ⟨n, u, h⟩
    exact number_accepts_documented units nn io s n u h

/-- The optional numeric pattern additionally accepts blank input, delivering no number. -/
theorem optional_number_accepts_iff (units : List Str) (nn io : Bool) (s : Str) :
    (acceptNumberOptional units nn io s).isSome = true ↔
      (∃ n u, DocNumber units nn io s n u) ∨ allSpace s = true := by
  rw [← number_accepts_iff_documented]
  unfold acceptNumberOptional
  cases h : acceptNumber units nn io s with
  | some p => simp
  | none => simp only; split <;> simp_all

/-- Units for which the documented reading is unambiguous: non-empty, not starting with white space, a digit
    or `.`, not ending with white space. (All real unit names are of this kind.) -/
def UnitOk (x : Str) : Prop :=
  x ≠ [] ∧ (∀ c r, x = c :: r → isSpace c = false ∧ isDigit c = false ∧ c ≠ '.') ∧ EndsNonSpace x

/-- **Uniqueness of the reading**: with such units a string has at most one documented reading … -/
theorem number_reading_unique (units : List Str) (hu : ∀ x ∈ units, UnitOk x) (nn io : Bool) (s n n' : Str)
    (u u' : Option Str) (h : DocNumber units nn io s n u) (h' : DocNumber units nn io s n' u') :
    n = n' ∧ u = u' := by
  -- normal form: after the leading white space, `n ++ tail` where the tail is white space / unit / white space
  have norm : ∀ (n : Str) (u : Option Str), DocNumber units nn io s n u →
      IsNumber nn io n ∧ ∃ t, s.dropWhile isSpace = n ++ t ∧
        ((units = [] ∧ u = none ∧ allSpace t = true) ∨
         (∃ w2 x w3, x ∈ units ∧ u = some x ∧ allSpace w2 = true ∧ allSpace w3 = true ∧ t = w2 ++ x ++ w3)) := by
    intro n u ⟨hnum, w1, w2, h1, h2, hc⟩
    obtain ⟨c0, r0, hn0, hc0⟩ := isNumber_head_not_space nn io n hnum
    have hdrop : ∀ tail : Str, (w1 ++ n ++ tail).dropWhile isSpace = n ++ tail := by
      intro tail
      rw [List.append_assoc, dropWhile_space_append w1 _ h1, hn0]
      simp [hc0]
    refine ⟨hnum, ?_⟩
    rcases hc with ⟨hu0, hun, hs⟩ | ⟨x, w3, hx, hux, h3, hs⟩
    · exact ⟨w2, by rw [hs, hdrop], Or.inl ⟨hu0, hun, h2⟩⟩
    · refine ⟨w2 ++ x ++ w3, ?_, Or.inr ⟨w2, x, w3, hx, hux, h2, h3, rfl⟩⟩
      have : s = w1 ++ n ++ (w2 ++ x ++ w3) := by rw [hs]; simp
      rw [this, hdrop]
  -- a tail never continues a number
  have tailHead : ∀ (t : Str) (u : Option Str),
      ((units = [] ∧ u = none ∧ allSpace t = true) ∨
       (∃ w2 x w3, x ∈ units ∧ u = some x ∧ allSpace w2 = true ∧ allSpace w3 = true ∧ t = w2 ++ x ++ w3)) →
      ∀ c r, t = c :: r → ¬(isDigit c = true ∨ c = '.') := by
    intro t u ht c r htc hcd
    have hns := digit_or_dot_not_space c hcd
    rcases ht with ⟨_, _, hsp⟩ | ⟨w2, x, w3, hx, _, h2, _, ht⟩
    · rw [htc] at hsp
      simp [allSpace] at hsp
      rw [hsp.1] at hns; cases hns
    · cases w2 with
      | nil =>
        obtain ⟨hne, hhead, _⟩ := hu x hx
        cases x with
        | nil => exact hne rfl
        | cons y ys =>
          rw [ht] at htc
          simp only [List.nil_append, List.cons_append, List.cons.injEq] at htc
          obtain ⟨_, hd, hdot⟩ := hhead y ys rfl
          rcases hcd with hcd | hcd
          · rw [← htc.1, hd] at hcd; cases hcd
          · exact hdot (htc.1.trans hcd)
      | cons y ys =>
        rw [ht] at htc
        simp only [List.cons_append, List.cons.injEq] at htc
        simp [allSpace] at h2
        rw [← htc.1, h2.1] at hns; cases hns
  obtain ⟨hn, t, hs, ht⟩ := norm n u h
  obtain ⟨hn', t', hs', ht'⟩ := norm n' u' h'
  have heq : n ++ t = n' ++ t' := hs.symm.trans hs'
  have hnn : n = n' := number_prefix_unique nn io n n' t t' hn hn' heq (tailHead t u ht) (tailHead t' u' ht')
  refine ⟨hnn, ?_⟩
  subst hnn
  have htt : t = t' := List.append_cancel_left heq
  subst htt
  rcases ht with ⟨hu0, hun, _⟩ | ⟨w2, x, w3, hx, hux, h2, h3, hte⟩
  · rcases ht' with ⟨_, hun', _⟩ | ⟨_, x', _, hx', _, _, _, _⟩
    · rw [hun, hun']
    · rw [hu0] at hx'; simp at hx'
  · rcases ht' with ⟨h0, _, _⟩ | ⟨w2', x', w3', hx', hux', h2', h3', hte'⟩
    · rw [h0] at hx; simp at hx
    · -- both tails are `ws unit ws`: strip the white space on both sides
      have hstart : ∀ y ∈ units, ∀ w, StartsNonSpace (y ++ w) := by
        intro y hy w c r hcr
        obtain ⟨hne, hhead, _⟩ := hu y hy
        cases y with
        | nil => exact absurd rfl hne
        | cons a as =>
          simp only [List.cons_append, List.cons.injEq] at hcr
          rw [← hcr.1]; exact (hhead a as rfl).1
      have e1 : t.dropWhile isSpace = x ++ w3 := by
        rw [hte, List.append_assoc]; exact dropWhile_space_of_start w2 _ h2 (hstart x hx w3)
      have e2 : t.dropWhile isSpace = x' ++ w3' := by
        rw [hte', List.append_assoc]; exact dropWhile_space_of_start w2' _ h2' (hstart x' hx' w3')
      have := strip_unique x x' w3 w3' (e1.symm.trans e2) h3 h3' (hu x hx).2.2 (hu x' hx').2.2
      rw [hux, hux', this]

/-- … hence the delivered number and unit are *the* number and unit of the argument. -/
theorem number_delivered_unchanged (units : List Str) (hu : ∀ x ∈ units, UnitOk x) (nn io : Bool) (s n n' : Str)
    (u u' : Option Str) (hdoc : DocNumber units nn io s n u)
    (hacc : acceptNumber units nn io s = some (n', u')) : n' = n ∧ u' = u :=
  number_reading_unique units hu nn io s n' n u' u
    (number_delivers_documented_parts units nn io s n' u' hacc) hdoc

example : UnitOk "L/h".toList :=
  ⟨by simp, by intro c r h; simp at h; obtain ⟨rfl, _⟩ := h; decide,
   by intro ys c h
      have : c = 'h' := by
        have := congrArg List.getLast? h
        simp at this; exact this.symm
      subst this; decide⟩

/-! Non-vacuity. -/
example : acceptNumber ["L/h".toList, ['%']] false false " -1.5 L/h ".toList =
    some ("-1.5".toList, some "L/h".toList) := by decide
example : acceptNumber [] true true "12".toList = some ("12".toList, none) := by decide
example : acceptNumber [] true true "-12".toList = none := by decide
example : acceptNumber [] false true "1.5".toList = none := by decide
example : acceptNumber ["L/h".toList] false false "5".toList = none := by decide
example : DocNumber ["L/h".toList, ['%']] false false "5.%".toList "5.".toList (some ['%']) :=
  ⟨Or.inl (NumBody.frac ['5'] [] rfl (by simp) (by intro c hc; simp at hc; subst hc; decide) (by intro c hc; simp at hc)),
   [], [], rfl, rfl, Or.inr ⟨['%'], [], by simp, rfl, rfl, rfl⟩⟩

/-! ## Categorical patterns -/

/-- The documented categorical values: one exclusive option, or additive options joined by single `+`. -/
def DocCategorical (ex ad : List Str) (o : Str) : Prop :=
  o ∈ ex ∨ ∃ items : List Str, items ≠ [] ∧ (∀ a ∈ items, a ∈ ad) ∧ o = plusJoin items

/-- Soundness: whatever the pattern accepts is a documented value followed by white space only, and the
    `option` group is that value, unchanged. -/
theorem categorical_sound (ex ad : List Str) (s o : Str) (h : acceptCategorical ex ad s = some o) :
    DocCategorical ex ad o ∧ ∃ w, s = o ++ w ∧ allSpace w = true := by
  unfold acceptCategorical at h
  split at h
  · rename_i e he
    cases h
    have hp := List.find?_some he
    simp only [Bool.and_eq_true] at hp
    exact ⟨Or.inl (List.mem_of_find?_eq_some he), _, prefix_split hp.1, hp.2⟩
  · obtain ⟨a, ha, hf⟩ := List.exists_of_findSome?_eq_some h
    split at hf
    · rename_i hp
      obtain ⟨items, w, h1, h2, h3, h4⟩ := addLoop_sound ad _ _ _ _ hf
      refine ⟨Or.inr ⟨a :: items, by simp, ?_, by rw [h2]; rfl⟩, w, ?_, h4⟩
      · intro x hx
        rcases List.mem_cons.mp hx with e | e
        · exact e ▸ ha
        · exact h1 x e
      · have := prefix_split hp
        rw [h3] at this
        rw [this, h2]; simp
    · cases hf

/-- Completeness: every documented value, followed by any white space, is accepted. -/
theorem categorical_complete (ex ad : List Str) (o w : Str) (hd : DocCategorical ex ad o)
    (hw : allSpace w = true) : (acceptCategorical ex ad (o ++ w)).isSome = true := by
  unfold acceptCategorical
  split
  · rfl
  · rename_i hnone
    rcases hd with hex | ⟨items, hne, hmem, rfl⟩
    · -- an exclusive option would have been found
      have := (List.find?_eq_none.mp hnone) o hex
      simp [isPrefixOf_append, hw] at this
    · cases items with
      | nil => exact absurd rfl hne
      | cons a as =>
        rw [List.findSome?_isSome_iff]
        refine ⟨a, hmem a (by simp), ?_⟩
        have e : plusJoin (a :: as) ++ w = a ++ (plusTail as ++ w) := by simp [plusJoin]
        rw [e]
        simp only [isPrefixOf_append, if_true, List.drop_left]
        apply addLoop_complete ad w hw as (fun x hx => hmem x (by simp [hx]))
        have := length_le_plusTail as
        simp; omega

/-- **Categorical patterns accept exactly the documented language** (for all option lists, all strings). -/
theorem categorical_accepts_iff_documented (ex ad : List Str) (s : Str) :
    (acceptCategorical ex ad s).isSome = true ↔
      ∃ o w, s = o ++ w ∧ allSpace w = true ∧ DocCategorical ex ad o := by
  constructor
  · intro h
    obtain ⟨o, ho⟩ := Option.isSome_iff_exists.mp h
    obtain ⟨hd, w, hs, hw⟩ := categorical_sound ex ad s o ho
    exact ⟨o, w, hs, hw, hd⟩
  · rintro ⟨o, w, rfl, hw, hd⟩
    exact categorical_complete ex ad o w hd hw

/-- **Never an empty value**: with non-empty options the delivered `option` is never empty … -/
theorem categorical_never_empty (ex ad : List Str) (hne : ∀ x ∈ ex ++ ad, x ≠ []) (s o : Str)
    (h : acceptCategorical ex ad s = some o) : o ≠ [] := by
  obtain ⟨hd, _⟩ := categorical_sound ex ad s o h
  rcases hd with hex | ⟨items, hi, hmem, rfl⟩
  · exact hne o (by simp [hex])
  · cases items with
    | nil => exact absurd rfl hi
    | cons a as =>
      have : a ≠ [] := hne a (by simp [hmem a (by simp)])
      simp [plusJoin, this]

/-- … and the empty (or blank) argument is rejected. -/
theorem categorical_rejects_blank (ex ad : List Str) (hne : ∀ x ∈ ex ++ ad, x ≠ []) (s : Str)
    (hs : allSpace s = true) (hsp : ∀ x ∈ ex ++ ad, ∀ c, x.head? = some c → isSpace c = false) :
    acceptCategorical ex ad s = none := by
  cases h : acceptCategorical ex ad s with
  | none => rfl
  | some o =>
    exfalso
    have hne' := categorical_never_empty ex ad hne s o h
    obtain ⟨hd, w, hsw, _⟩ := categorical_sound ex ad s o h
    -- `o` starts with the first character of an option, which is not white space, but `s` is blank
    have hhead : ∀ c, o.head? = some c → isSpace c = false := by
      rcases hd with hex | ⟨items, hi, hmem, rfl⟩
      · exact hsp o (by simp [hex])
      · cases items with
        | nil => exact absurd rfl hi
        | cons a as =>
          have ha : a ≠ [] := hne a (by simp [hmem a (by simp)])
          intro c hc
          apply hsp a (by simp [hmem a (by simp)]) c
          cases a with
          | nil => exact absurd rfl ha
          | cons x xs => simpa [plusJoin] using hc
    cases o with
    | nil => exact hne' rfl
    | cons c cs =>
      have := hhead c rfl
      rw [hsw] at hs
      simp [allSpace] at hs
      rw [hs.1] at this
      cases this

/-- With options that do not end in white space the delivered option is *the* documented value of the
    argument: any documented reading `s = o' ++ white space` has `o' = o`. -/
theorem categorical_delivered_unchanged (ex ad : List Str) (hok : ∀ x ∈ ex ++ ad, x ≠ [] ∧ EndsNonSpace x)
    (s o o' w' : Str) (hacc : acceptCategorical ex ad s = some o) (hs : s = o' ++ w') (hw' : allSpace w' = true)
    (hd' : DocCategorical ex ad o') : o = o' := by
  obtain ⟨hd, w, hsw, hw⟩ := categorical_sound ex ad s o hacc
  have ends : ∀ v, DocCategorical ex ad v → EndsNonSpace v := by
    intro v hv
    rcases hv with hex | ⟨items, hi, hmem, rfl⟩
    · exact (hok v (by simp [hex])).2
    · -- the value ends with its last item
      have key : ∀ (items : List Str), items ≠ [] → (∀ a ∈ items, a ∈ ad) → EndsNonSpace (plusJoin items) := by
        intro items
        induction items with
        | nil => intro h; exact absurd rfl h
        | cons a as ih =>
          intro _ hm
          have ha := hok a (by simp [hm a (by simp)])
          cases as with
          | nil => simpa [plusJoin, plusTail] using ha.2
          | cons b bs =>
            have hb := ih (by simp) (fun z hz => hm z (by simp [hz]))
            intro ys c hyc
            have hne : plusJoin (b :: bs) ≠ [] := by
              have := (hok b (by simp [hm b (by simp)])).1
              simp [plusJoin, this]
            obtain ⟨zs, d, hzd⟩ := exists_concat_of_ne_nil _ hne
            have e : plusJoin (a :: b :: bs) = (a ++ '+' :: zs) ++ [d] := by
              have : plusJoin (a :: b :: bs) = a ++ '+' :: plusJoin (b :: bs) := by simp [plusJoin, plusTail]
              rw [this, hzd]; simp
            rw [e] at hyc
            have := List.append_inj' hyc rfl
            have hcd : c = d := by simpa using this.2.symm
            rw [hcd]; exact hb zs d hzd
      exact key items hi hmem
  exact strip_unique o o' w w' (hsw.symm.trans hs) hw hw' (ends o hd) (ends o' hd')

/-! Non-vacuity and the near-misses of the unrepaired pattern, on the repaired one. -/
example : acceptCategorical [['X']] [['A'], ['B']] "A+B".toList = some "A+B".toList := by decide
example : acceptCategorical [['X']] [['A'], ['B']] "X \n".toList = some ['X'] := by decide
example : acceptCategorical [] [['A'], ['B']] [] = none := by decide
example : acceptCategorical [['X']] [['A'], ['B']] "AB".toList = none := by decide
example : acceptCategorical [['X']] [['A'], ['B']] "+A".toList = none := by decide
example : acceptCategorical [['X']] [['A'], ['B']] "A++B".toList = none := by decide
example : acceptCategorical [['X']] [['A'], ['B']] "X+A".toList = none := by decide
example : DocCategorical [['X']] [['A'], ['B']] "A+B".toList := Or.inr ⟨[['A'], ['B']], by simp, by simp, rfl⟩

/-- Regression witnesses: the pattern built before the repair accepted the empty value, a concatenation without
    `+`, a leading `+` and an empty item. -/
theorem old_pattern_accepted_undocumented :
    acceptCategoricalOld [] [['A'], ['B']] [] = some [] ∧
    acceptCategoricalOld [['X']] [['A'], ['B']] "AB".toList = some "AB".toList ∧
    acceptCategoricalOld [['X']] [['A'], ['B']] "+A".toList = some "+A".toList ∧
    acceptCategoricalOld [['X']] [['A'], ['B']] "A++B".toList = some "A++B".toList ∧
    acceptCategoricalOld [['A'], ['B']] [] [] = some [] := by decide

/-! ## The emitted regular expressions

`astNumber` / `astNumberOptional` / `astCategorical` are the abstract syntax of the patterns the builders emit: on
every run the pattern text returned by the Python builder is parsed with CPython's regex parser and decided
structurally equal to these ASTs (driver op `ast`, see Model/ArgRegexAst.lean for the normalisation).  `Lang` is the
standard declarative semantics of regular expressions.  The theorems below say that the language of the emitted
expression is exactly the documented language — and therefore exactly what the acceptors accept. -/

/-- **The numeric pattern denotes the documented language**, for all unit lists, both flags, all strings. -/
theorem regex_number_language (units : List Str) (nn io : Bool) (s : Str) :
    Lang (astNumber units nn io) s ↔ ∃ n u, DocNumber units nn io s n u := by
  unfold astNumber DocNumber
  rw [lang_mkSeq]
  cases hu : units with
  | nil =>
    simp only [List.isEmpty_nil, if_true, List.append_nil, List.cons_append, List.nil_append, lang_seqL_cons,
      lang_seqL_nil, lang_spaces, lang_grp, lang_numAlts]
    constructor
    · rintro ⟨w1, y, rfl, h1, n, y1, rfl, hn, w2, y2, rfl, h2, w3, y3, rfl, h3, rfl⟩
      exact ⟨n, none, hn, w1, w2 ++ w3, h1, by simp [allSpace_append, h2, h3], Or.inl ⟨trivial, rfl, by simp⟩⟩
    · rintro ⟨n, u, hn, w1, w2, h1, h2, ⟨_, _, rfl⟩ | ⟨x, _, hx, _⟩⟩
      · exact ⟨w1, n ++ w2, by simp, h1, n, w2, rfl, hn, w2, [], by simp, h2, [], [], rfl, rfl, rfl⟩
      · simp at hx
  | cons x0 xs =>
    simp only [List.isEmpty_cons, Bool.false_eq_true, if_false, List.cons_append, List.nil_append, lang_seqL_cons,
      lang_seqL_nil, lang_spaces, lang_grp, lang_numAlts, lang_opt, lang_alts_lit]
    constructor
    · rintro ⟨w1, y, rfl, h1, n, y1, rfl, hn, w2, y2, rfl, h2, sp, y3, rfl, hsp, x, y4, rfl, hx, w3, y5, rfl, h3, rfl⟩
      have hsp' : allSpace sp = true := by
        rcases hsp with h | rfl
        · have : sp = [' '] := by simpa [Lang] using h
          subst this; decide
        · rfl
      exact ⟨n, some x, hn, w1, w2 ++ sp, h1, by simp [allSpace_append, h2, hsp'],
        Or.inr ⟨x, w3, hx, rfl, h3, by simp⟩⟩
    · rintro ⟨n, u, hn, w1, w2, h1, h2, ⟨h0, _, _⟩ | ⟨x, w3, hx, _, h3, rfl⟩⟩
      · cases h0
      · exact ⟨w1, n ++ w2 ++ x ++ w3, by simp, h1, n, w2 ++ x ++ w3, by simp, hn, w2, x ++ w3, by simp, h2,
          [], x ++ w3, rfl, Or.inr rfl, x, w3, rfl, hx, w3, [], by simp, h3, rfl⟩

/-- **The categorical pattern denotes the documented language**, for all option lists and all strings. -/
theorem regex_categorical_language (ex ad : List Str) (s : Str) :
    Lang (astCategorical ex ad) s ↔ ∃ o w, s = o ++ w ∧ allSpace w = true ∧ DocCategorical ex ad o := by
  unfold astCategorical
  simp only [lang_mkSeq, lang_seqL_cons, lang_seqL_nil, lang_spaces, lang_grp, lang_mkAlt, List.mem_append,
    List.mem_singleton]
  -- the value part
  have hval : ∀ o : Str,
      (∃ r, (r ∈ (if ex.isEmpty then [Re.never] else ex.map lit) ∨
          r = mkSeq [mkAlt (ad.map lit), .star (mkSeq [.chr '+', mkAlt (ad.map lit)])]) ∧ Lang r o) ↔
        DocCategorical ex ad o := by
    intro o
    unfold DocCategorical
    constructor
    · rintro ⟨r, hr | rfl, ho⟩
      · left
        cases hex : ex with
        | nil => simp [hex] at hr; subst hr; simp [Lang] at ho
        | cons e es =>
          rw [hex] at hr
          simp only [List.isEmpty_cons, Bool.false_eq_true, if_false] at hr
          obtain ⟨x, hx, rfl⟩ := List.mem_map.mp hr
          rw [lang_lit] at ho; exact ho ▸ hx
      · right
        rw [lang_mkSeq] at ho
        simp only [lang_seqL_cons, lang_seqL_nil, lang_alts_lit, lang_plus_items] at ho
        obtain ⟨a, y, rfl, ha, t, e, rfl, ⟨items, hi, rfl⟩, rfl⟩ := ho
        refine ⟨a :: items, by simp, ?_, by simp [plusJoin]⟩
        intro x hx
        rcases List.mem_cons.mp hx with h | h
        · exact h ▸ ha
        · exact hi x h
    · rintro (hex | ⟨items, hne, hmem, rfl⟩)
      · refine ⟨lit o, Or.inl ?_, (lang_lit o o).mpr rfl⟩
        have : ex.isEmpty = false := by cases ex <;> simp_all
        simp only [this, Bool.false_eq_true, if_false]
        exact List.mem_map.mpr ⟨o, hex, rfl⟩
      · cases items with
        | nil => exact absurd rfl hne
        | cons a as =>
          refine ⟨_, Or.inr rfl, ?_⟩
          rw [lang_mkSeq]
          simp only [lang_seqL_cons, lang_seqL_nil, lang_alts_lit, lang_plus_items]
          exact ⟨a, plusTail as, rfl, hmem a (by simp), plusTail as, [], by simp,
            ⟨as, fun x hx => hmem x (by simp [hx]), rfl⟩, rfl⟩
  constructor
  · rintro ⟨o, y, rfl, ho, w, e, rfl, hw, rfl⟩
    exact ⟨o, w, by simp, hw, (hval o).mp ho⟩
  · rintro ⟨o, w, rfl, hw, hd⟩
    exact ⟨o, w, rfl, (hval o).mpr hd, w, [], by simp, hw, rfl⟩

/-- The emitted numeric expression and the acceptor (the model of `re.search` that the correspondence ties to
    CPython, captured groups included) accept the same strings. -/
theorem regex_number_is_acceptor (units : List Str) (nn io : Bool) (s : Str) :
    Lang (astNumber units nn io) s ↔ (acceptNumber units nn io s).isSome = true := by
  rw [regex_number_language, number_accepts_iff_documented]

theorem regex_categorical_is_acceptor (ex ad : List Str) (s : Str) :
    Lang (astCategorical ex ad) s ↔ (acceptCategorical ex ad s).isSome = true := by
  rw [regex_categorical_language, categorical_accepts_iff_documented]

theorem regex_number_optional_is_acceptor (units : List Str) (nn io : Bool) (s : Str) :
    Lang (astNumberOptional units nn io) s ↔ (acceptNumberOptional units nn io s).isSome = true := by
  unfold astNumberOptional
  rw [lang_mkAlt, optional_number_accepts_iff, ← regex_number_language]
  simp [lang_spaces]

/-- The normalisation "`$` is the end of the string" is sound for these patterns: `$` also matches before a final
    line feed, but a string `t ++ "\n"` with `t` in the language is in the language itself (the patterns end in
    `\s*`). -/
theorem dollar_is_end (units : List Str) (nn io : Bool) (ex ad : List Str) (t : Str) :
    (Lang (astNumber units nn io) t → Lang (astNumber units nn io) (t ++ ['\n'])) ∧
    (Lang (astCategorical ex ad) t → Lang (astCategorical ex ad) (t ++ ['\n'])) := by
  constructor
  · rw [regex_number_language, regex_number_language]
    rintro ⟨n, u, hn, w1, w2, h1, h2, ⟨h0, hu, rfl⟩ | ⟨x, w3, hx, hu, h3, rfl⟩⟩
    · exact ⟨n, u, hn, w1, w2 ++ ['\n'], h1, by rw [allSpace_append, h2]; decide, Or.inl ⟨h0, hu, by simp⟩⟩
    · exact ⟨n, u, hn, w1, w2, h1, h2, Or.inr ⟨x, w3 ++ ['\n'], hx, hu, by rw [allSpace_append, h3]; decide, by simp⟩⟩
  · rw [regex_categorical_language, regex_categorical_language]
    rintro ⟨o, w, rfl, hw, hd⟩
    exact ⟨o, w ++ ['\n'], by simp, by rw [allSpace_append, hw]; decide, hd⟩

/-! Non-vacuity: the ASTs are the familiar patterns. -/
example : Lang (astCategorical [['X']] [['A'], ['B']]) "A+B ".toList :=
  (regex_categorical_is_acceptor _ _ _).mpr (by decide)
example : ¬ Lang (astCategorical [['X']] [['A'], ['B']]) "AB".toList := by
  rw [regex_categorical_is_acceptor]; decide
example : Lang (astNumber ["L/h".toList] false false) " -1.5 L/h".toList :=
  (regex_number_is_acceptor _ _ _ _).mpr (by decide)

/-! ## Introspection: the lists the UI / editor derive from a pattern are the lists it was built from -/

/-- **Units.** `get_units()` of `RegexNumber(units, …)` and of `RegexNumberOptional(units, …)` is `units`, for
    every list of non-empty unit names — any characters, including `|`, `)`, `\` and the other regex
    metacharacters. (No units declared: the empty list.) -/
theorem units_introspection (units : List Str) (nn io : Bool) (hne : ∀ u ∈ units, u ≠ []) :
    getUnits (buildNumber units nn io) = some units ∧
    getUnits (buildNumberOptional units nn io) = some units := by
  by_cases hu : units = []
  · subst hu
    constructor <;> (cases nn <;> cases io <;> decide +kernel)
  · have hb := buildNumber_units units nn io hu
    constructor
    · unfold getUnits
      rw [hb, namedGroups_unit, findSub_tagUnit]
      simp only [Bool.not_true, Bool.false_eq_true, if_false]
      have : (numHead nn io ++ (tagUnit ++ (joinAlts (units.map (escWith isSpecialUnit)) ++ ')' :: numPost))).drop
          ((numHead nn io).length + tagUnit.length) = joinAlts (units.map (escWith isSpecialUnit)) ++ ')' :: numPost := by
        rw [← List.append_assoc, show (numHead nn io).length + tagUnit.length = (numHead nn io ++ tagUnit).length by simp,
          List.drop_left]
      rw [this, unitPart_scan units hne]
    · unfold getUnits buildNumberOptional
      rw [hb]
      have e : '(' :: (numHead nn io ++ (tagUnit ++ (joinAlts (units.map (escWith isSpecialUnit)) ++ ')' :: numPost))) ++
          optPost = ('(' :: numHead nn io) ++ (tagUnit ++ (joinAlts (units.map (escWith isSpecialUnit)) ++
            ')' :: (numPost ++ optPost))) := by simp
      rw [e, namedGroups_unit]
      have e2 : ('(' :: numHead nn io) ++ (tagUnit ++ (joinAlts (units.map (escWith isSpecialUnit)) ++
            ')' :: (numPost ++ optPost))) = '(' :: numHead nn io ++ (tagUnit ++ (joinAlts (units.map (escWith isSpecialUnit)) ++
            ')' :: (numPost ++ optPost))) := rfl
      rw [e2, findSub_tagUnit_opt]
      simp only [Bool.not_true, Bool.false_eq_true, if_false]
      have : ('(' :: numHead nn io ++ (tagUnit ++ (joinAlts (units.map (escWith isSpecialUnit)) ++
            ')' :: (numPost ++ optPost)))).drop ((numHead nn io).length + 1 + tagUnit.length) =
          joinAlts (units.map (escWith isSpecialUnit)) ++ ')' :: (numPost ++ optPost) := by
        rw [← List.cons_append, ← List.append_assoc,
          show (numHead nn io).length + 1 + tagUnit.length = ('(' :: numHead nn io ++ tagUnit).length by simp; omega,
          List.drop_left]
      rw [this, unitPart_scan units hne]

/-- **Exclusive options.** `get_exclusive_options()` of `RegexCategorical(ex, ad)` is `ex`. -/
theorem exclusive_introspection (ex ad : List Str) (hne : ∀ x ∈ ex, x ≠ []) :
    getExclusive (buildCategorical ex ad) = some ex := by
  unfold getExclusive buildCategorical
  simp only [List.append_assoc]
  rw [namedGroups_option, findSub_tagOption, findSub_catMid1]
  simp only [Bool.not_true, Bool.false_eq_true, if_false]
  have := slice_mid catPre (altsOrNever ex)
    (catMid1 ++ (altsOrNever ad ++ (catMid2 ++ (altsOrNever ad ++ catPost))))
  have e : 4 + tagOption.length + 1 = catPre.length := by decide
  have e2 : 13 + (altsOrNever ex).length = catPre.length + (altsOrNever ex).length := by simp [catPre]
  rw [e, e2, this, splitAlts_alts ex hne]

/-- **Additive options.** `get_additive_options()` of `RegexCategorical(ex, ad)` is `ad`. -/
theorem additive_introspection (ex ad : List Str) (hne : ∀ x ∈ ad, x ≠ []) :
    getAdditive (buildCategorical ex ad) = some ad := by
  unfold getAdditive buildCategorical
  simp only [List.append_assoc]
  rw [namedGroups_option, findSub_catMid1, findSub_catMid2]
  simp only [Bool.not_true, Bool.false_eq_true, if_false]
  have := slice_mid (catPre ++ (altsOrNever ex ++ catMid1)) (altsOrNever ad) (catMid2 ++ (altsOrNever ad ++ catPost))
  simp only [List.append_assoc] at this
  have e : 13 + (altsOrNever ex).length + 2 = (catPre ++ (altsOrNever ex ++ catMid1)).length := by
    simp [catPre, catMid1]; omega
  rw [e, this, splitAlts_alts ad hne]

/-- **The UI route.** What `build_commands` publishes for a command with a numeric pattern — the command
    description's unit list and, when the command is paired with a process value, that reading's unit list — is
    the list the pattern was built from, whatever the unit of the paired tag is (compatible, incompatible, none). -/
theorem published_units_are_pattern_units (units : List Str) (nn io : Bool) (hne : ∀ u ∈ units, u ≠ [])
    (hu : units ≠ []) (tagUnits : List Str) (dflt : Option (List Str)) :
    publishedUnits tagUnits (buildNumber units nn io) = some units ∧
    readingUnits dflt (buildNumber units nn io) = some (some units) ∧
    publishedUnits tagUnits (buildNumberOptional units nn io) = some units ∧
    readingUnits dflt (buildNumberOptional units nn io) = some (some units) := by
  obtain ⟨h1, h2⟩ := units_introspection units nn io hne
  have key : ∀ regex : Str, getUnits regex = some units → (namedGroups regex).contains nameUnit = true := by
    intro regex h
    cases hc : (namedGroups regex).contains nameUnit with
    | true => rfl
    | false =>
      simp only [getUnits, hc, Bool.not_false, if_true, Option.some.injEq] at h
      exact absurd h.symm hu
  have k1 := key _ h1
  have k2 := key _ h2
  simp only [publishedUnits, readingUnits, k1, k2, if_true, h1, h2, Option.map_some, and_self]

/-- Without declared units nothing is derived from the pattern: the description falls back to the paired tag. -/
example : publishedUnits [['k', 'g'], ['g']] (buildNumber [] false false) = some [['k', 'g'], ['g']] := by
  decide +kernel

/-- A numeric pattern yields no options. -/
theorem number_pattern_has_no_options (nn io : Bool) :
    getExclusive (buildNumber [] nn io) = some [] ∧ getAdditive (buildNumber [] nn io) = some [] := by
  constructor <;> (cases nn <;> cases io <;> decide +kernel)

/-! Non-vacuity, and the regression witnesses for the unrepaired introspection. -/
example : getExclusive (buildCategorical ["a|b".toList, "(?!)".toList] ["C++".toList]) =
    some ["a|b".toList, "(?!)".toList] := exclusive_introspection _ _ (by simp)
example : getAdditive (buildCategorical [] ["p|q".toList, "|(".toList]) = some ["p|q".toList, "|(".toList] :=
  additive_introspection _ _ (by simp)
example : getUnits (buildNumber ["(L/h)/%".toList, "a|b".toList] false false) =
    some ["(L/h)/%".toList, "a|b".toList] := (units_introspection _ _ _ (by simp)).1

/-- The unrepaired `get_units` split a unit at an escaped `|` and mis-read `RegexNumberOptional`. -/
theorem old_get_units_wrong :
    getUnitsOld (buildNumber ["a|b".toList] false false) = some [['a'], ['b']] ∧
    getUnitsOld (buildNumberOptional [['s'], ['h']] true false) = some [['s'], "h)s*$".toList] := by
  decide +kernel

end OPM.C22
