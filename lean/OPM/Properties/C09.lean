import OPM.Model.RunState
import OPM.Lemmas.RunState
import OPM.Properties.C06
/-!
# C09 Unpause restores exactly the outputs from before that pause

"Unpause restores exactly the output values that were in effect immediately before the most recent Pause
of the same run. It never applies values captured in an earlier run or before an earlier, already-undone
pause."

`Core.prev` is `Engine._prev_state`. Three history variables of the model give the words of the statement
a meaning: `lastCap` = what the most recent Pause captured (the output values immediately before it, for
the registers that have a safe value — the ones Pause overwrites), `capRun` = the run id at that Pause,
`capLive` = no Unpause has been executed since that Pause.  They are written by `Core.pause` /
`Core.unpause` only and never read by the model.

The statements are about model M1 with the repair `Cfg.prevFix`
(/verif/fixes/C09-clear-prev-state-with-run-id.diff) and hold for *every* operation sequence (errors at
any time, ill-formed arguments, with or without the other two repairs) and at every intermediate state at
which an action is performed (`Reach`).  `asIs_counterexample` is the failing history of the code as it is.
-/
namespace OPM.C09
open OPM.RunState

/-! ## What Pause captures and what Unpause applies (any state) -/

/-- Pause records the output values in effect immediately before it, under the current run id, and puts
    the outputs into their safe state. -/
theorem pause_captures (cfg : Cfg) (c : Core) (h : cfg.pauseOnce = false ∨ c.paused = false) :
    (c.pause cfg).prev = some (capture cfg.safes c.outs) ∧
    (c.pause cfg).lastCap = some (capture cfg.safes c.outs) ∧
    (c.pause cfg).capRun = c.runId ∧ (c.pause cfg).capLive = true ∧
    (c.pause cfg).outs = applySafe cfg.safes c.outs := by
  unfold Core.pause
  rcases h with h | h <;> simp [h]

/-- when a pause *begins* (the engine was not paused) the Pause body records what it captured as the onset
    capture; a Pause body that runs while already paused never changes the onset capture -/
theorem pause_onset (cfg : Cfg) (c : Core) :
    (c.paused = false → (c.pause cfg).onsetCap = some (capture cfg.safes c.outs)) ∧
    (c.paused = true → (c.pause cfg).onsetCap = c.onsetCap) := by
  unfold Core.pause
  constructor
  · intro h; simp [h]
  · intro h; split <;> simp [h]

/-- Unpause applies the stored values if there are any, nothing otherwise, and forgets them. -/
theorem unpause_applies (c : Core) :
    c.unpause.prev = none ∧ c.unpause.capLive = false ∧
    (c.prev = none → c.unpause.outs = c.outs) ∧
    (∀ v, c.prev = some v → c.unpause.outs = overlay v c.outs) := by
  refine ⟨rfl, rfl, ?_, ?_⟩
  · intro h; simp [Core.unpause, h]
  · intro v h; simp [Core.unpause, h]

theorem capture_nil (o : List Int) : capture [] o = o.map (fun _ => none) := by
  cases o <;> rfl

theorem applySafe_nil (o : List Int) : applySafe [] o = o := by
  cases o <;> rfl

theorem overlay_map_none {α : Type} (l : List α) (o' : List Int) :
    overlay (l.map (fun _ => none)) o' = o' := by
  induction l generalizing o' with
  | nil => cases o' <;> rfl
  | cons x xs ih => cases o' <;> simp [overlay, ih]

/-- Applying a capture of `o` to any later output values `o'` gives back `o` on the registers that have a
    safe value and leaves `o'` on the others. -/
theorem overlay_capture_get (sf : List (Option Int)) (o o' : List Int) (hlen : o'.length = o.length)
    (i : Nat) :
    (overlay (capture sf o) o')[i]? =
      (match sf[i]? with
       | some (some _) => o[i]?
       | _ => o'[i]?) := by
  induction sf generalizing o o' i with
  | nil => simp [capture_nil, overlay_map_none]
  | cons x xs ih =>
    cases o with
    | nil =>
      have : o' = [] := List.length_eq_zero_iff.mp hlen
      subst this
      simp only [capture, overlay, List.getElem?_nil]
      split <;> rfl
    | cons a o =>
      cases o' with
      | nil => simp at hlen
      | cons b o' =>
        have hl : o'.length = o.length := by simpa using hlen
        cases i with
        | zero => cases x <;> simp [capture, overlay]
        | succ j =>
          have := ih o o' hl j
          simpa [capture, overlay] using this

/-- Pause immediately followed by Unpause (nothing written in between) restores the outputs exactly. -/
theorem overlay_capture_applySafe (sf : List (Option Int)) (o : List Int) :
    overlay (capture sf o) (applySafe sf o) = o := by
  induction sf generalizing o with
  | nil => rw [capture_nil, applySafe_nil, overlay_map_none]
  | cons x xs ih =>
    cases o with
    | nil => rfl
    | cons a o => cases x <;> simp [capture, applySafe, overlay, ih]

/-! ## The invariant: stored values are always those of the most recent, not yet undone Pause of this run -/

structure PrevOK (a : A) : Prop where
  ok : ∀ v, a.core.prev = some v →
    a.core.lastCap = some v ∧ a.core.capRun = a.core.runId ∧ a.core.capLive = true

theorem prevOK_step (cfg : Cfg) (hp : cfg.prevFix = true) (pm : Perm) (a : A) (act : Act) (h : PrevOK a)
    (_hen : act.enabled cfg pm a) : PrevOK (act.apply cfg a) := by
  obtain ⟨h⟩ := h
  cases act
  case pause =>
    refine ⟨?_⟩
    simp only [Act.apply, Core.pause]
    split
    · exact h
    · intro v hv; simp at hv ⊢; exact hv
  case userReq i =>
    refine ⟨?_⟩
    simp only [Act.apply, Core.userRequest]
    split <;> exact h
  case unpause => exact ⟨fun v hv => by simp [Act.apply, Core.unpause] at hv⟩
  case startRun => exact ⟨fun v hv => by simp [Act.apply, Core.startRun, Core.clearPrev, hp] at hv⟩
  case restartMid => exact ⟨fun v hv => by simp [Act.apply, Core.restartMid, Core.clearPrev, hp] at hv⟩
  case restartFinish => exact ⟨fun v hv => by simp [Act.apply, Core.restartFinish, Core.clearPrev, hp] at hv⟩
  case stopFinish =>
    refine ⟨fun v hv => ?_⟩
    simp only [Act.apply, Core.stopFinish, Core.writeImage, Core.clearPrev, hp] at hv
    split at hv <;> simp at hv
  case restartMidC fx => exact ⟨fun v hv => by simp [Act.apply, Core.restartMid, Core.clearPrev, hp] at hv⟩
  case stopFinishC fx d =>
    refine ⟨fun v hv => ?_⟩
    simp only [Act.apply, Core.stopFinish, Core.writeImage, Core.clearPrev, hp] at hv
    split at hv <;> simp at hv
  case write => refine ⟨?_⟩; simp only [Act.apply, Core.writeImage]; split <;> exact h
  case ev e =>
    cases e <;> refine ⟨?_⟩ <;> simp only [Act.apply, Core.event] <;> first | exact h | (split <;> exact h)
  case clock inc => refine ⟨?_⟩; simp only [Act.apply, Core.clock]; split <;> exact h
  case error =>
    refine ⟨?_⟩
    simp only [Act.apply, Core.setError]
    split
    · exact h
    · split
      · intro v hv; simp at hv ⊢; exact hv
      · exact h
  all_goals exact ⟨h⟩

theorem prevOK_init (cfg : Cfg) (outs : List Int) : PrevOK (abs (init cfg outs)) := by
  refine ⟨fun v hv => ?_⟩
  unfold init at hv
  split at hv <;> simp [abs] at hv

/-- Every state at which the engine performs an action in any operation sequence — in particular every
    state in which an Unpause body runs — satisfies the invariant. -/
theorem prevOK_reach (cfg : Cfg) (hp : cfg.prevFix = true) (outs : List Int) (a : A)
    (h : Reach cfg ⟨true, true, true⟩ (abs (init cfg outs)) a) : PrevOK a :=
  h.inv (fun b act => prevOK_step cfg hp _ b act) (prevOK_init cfg outs)

/-- the states after each operation are among them -/
theorem prevOK_run (cfg : Cfg) (hp : cfg.prevFix = true) (outs : List Int) (ops : List Op) :
    PrevOK (abs (run cfg (init cfg outs) ops)) :=
  prevOK_reach cfg hp outs _ (run_ref_err ops _)

/-- **C09.** Whenever an Unpause is executed (user, method, expiry of a timed Pause, cancellation of a
    timed Pause by Stop/Restart) in a state `a` that the engine can be in: either nothing is stored and the
    outputs stay as they are, or the outputs with a safe value are set to exactly the values captured by
    the most recent Pause, that Pause was executed under the current run id, and no Unpause has been
    executed since it; the outputs without a safe value are not touched.  Afterwards nothing is stored. -/
theorem unpause_restores_latest_pause_of_same_run (cfg : Cfg) (hp : cfg.prevFix = true) (outs : List Int)
    (a : A) (h : Reach cfg ⟨true, true, true⟩ (abs (init cfg outs)) a) :
    a.core.unpause.prev = none ∧
    (a.core.prev = none → a.core.unpause.outs = a.core.outs) ∧
    (∀ v, a.core.prev = some v →
        a.core.unpause.outs = overlay v a.core.outs ∧
        a.core.lastCap = some v ∧ a.core.capRun = a.core.runId ∧ a.core.capLive = true) := by
  have hu := unpause_applies a.core
  refine ⟨hu.1, hu.2.2.1, fun v hv => ?_⟩
  have hk := (prevOK_reach cfg hp outs a h).ok v hv
  exact ⟨hu.2.2.2 v hv, hk⟩

/-- … and what the most recent Pause captured are the output values immediately before it
    (`pause_captures`), so on every register with a safe value the value after Unpause is the value before
    that Pause, whatever was written in between (`overlay_capture_get`). -/
theorem pause_unpause_roundtrip (cfg : Cfg) (c : Core) (later : List Int)
    (hlen : later.length = c.outs.length) (i : Nat) :
    (overlay (capture cfg.safes c.outs) later)[i]? =
      (match cfg.safes[i]? with
       | some (some _) => c.outs[i]?
       | _ => later[i]?) :=
  overlay_capture_get cfg.safes c.outs later hlen i

/-! ## Errors while paused; Unpause with no pause in effect -/

/-- **An error while already paused does not disturb the snapshot**: `set_error_state` on a paused engine
    leaves the stored values, the outputs and the record of the most recent Pause as they are (with or without
    the C08 repair that lets an error pause capture). -/
theorem error_while_paused_keeps_snapshot (cfg : Cfg) (c : Core) (hp : c.paused = true) :
    (c.setError cfg).prev = c.prev ∧ (c.setError cfg).outs = c.outs ∧
    (c.setError cfg).lastCap = c.lastCap ∧ (c.setError cfg).capRun = c.capRun ∧
    (c.setError cfg).capLive = c.capLive ∧ (c.setError cfg).paused = true := by
  unfold Core.setError
  split
  · simp [hp]
  · simp [hp]

/-- nothing is stored while the engine is not paused -/
structure NoSnap (a : A) : Prop where
  ok : a.core.paused = false → a.core.prev = none

theorem noSnap_step (cfg : Cfg) (hp : cfg.prevFix = true) (pm : Perm) (a : A) (act : Act) (h : NoSnap a)
    (_hen : act.enabled cfg pm a) : NoSnap (act.apply cfg a) := by
  obtain ⟨h⟩ := h
  cases act
  case pause =>
    refine ⟨fun hq => ?_⟩
    simp only [Act.apply, Core.pause] at hq ⊢
    split at hq
    · rename_i hc
      simp only [Bool.and_eq_true] at hc
      simp [hc.2] at hq
    · simp at hq
  case userReq i =>
    refine ⟨?_⟩
    simp only [Act.apply, Core.userRequest]
    split <;> exact h
  case unpause => exact ⟨fun _ => rfl⟩
  case startRun => exact ⟨fun _ => by simp [Act.apply, Core.startRun, Core.clearPrev, hp]⟩
  case restartMid => exact ⟨fun _ => by simp [Act.apply, Core.restartMid, Core.clearPrev, hp]⟩
  case restartFinish => exact ⟨fun _ => by simp [Act.apply, Core.restartFinish, Core.clearPrev, hp]⟩
  case stopFinish =>
    refine ⟨fun _ => ?_⟩
    simp only [Act.apply, Core.stopFinish, Core.writeImage, Core.clearPrev, hp]
    split <;> rfl
  case restartMidC fx => exact ⟨fun _ => by simp [Act.apply, Core.restartMid, Core.clearPrev, hp]⟩
  case stopFinishC fx d =>
    refine ⟨fun _ => ?_⟩
    simp only [Act.apply, Core.stopFinish, Core.writeImage, Core.clearPrev, hp]
    split <;> rfl
  case error =>
    refine ⟨fun hq => ?_⟩
    simp only [Act.apply, Core.setError] at hq ⊢
    split
    · rename_i hc
      simp only [hc, if_true] at hq
      exact h hq
    · rename_i hc
      simp only [hc, Bool.false_eq_true, if_false] at hq
      split at hq <;> simp at hq
  case write => refine ⟨?_⟩; simp only [Act.apply, Core.writeImage]; split <;> exact h
  case ev e =>
    cases e <;> refine ⟨?_⟩ <;> simp only [Act.apply, Core.event] <;> first | exact h | (split <;> exact h)
  case clock inc => refine ⟨?_⟩; simp only [Act.apply, Core.clock]; split <;> exact h
  all_goals exact ⟨h⟩

/-- **An Unpause with no pause in effect changes no output** — an `Unpause` instruction of the method while
    not paused, or the timer of a timed Pause that the user ended early: in every state the engine can be in
    while not paused nothing is stored, so the Unpause body leaves the outputs exactly as they are. -/
theorem unpause_without_pause_changes_nothing (cfg : Cfg) (hp : cfg.prevFix = true) (outs : List Int)
    (a : A) (h : Reach cfg ⟨true, true, true⟩ (abs (init cfg outs)) a) (hnp : a.core.paused = false) :
    a.core.prev = none ∧ a.core.unpause.outs = a.core.outs := by
  have hn : NoSnap a := h.inv (fun b act => noSnap_step cfg hp _ b act)
    ⟨fun _ => by unfold init; split <;> rfl⟩
  exact ⟨hn.ok hnp, (unpause_applies a.core).2.2.1 (hn.ok hnp)⟩

/-! ## "The most recent Pause" = the moment the pause began

The statements above read "the most recent Pause" as the most recent *execution of a Pause body* (`lastCap`).
A Pause body can run while the engine is already paused (two Pause requests accepted before one tick; a user
Pause and a method Pause in one tick; a queued Pause after an error pause): it then captures the *safe* values
and the outputs from before the pause are lost. Read as the property means it — the values in effect before
the pause *began* (`onsetCap`, written only when `paused` goes from false to true) — the statement is
`C09_full`; it is false of the code as it is (`C09_counterexample`), true with the repair `Cfg.pauseOnce`
(/verif/fixes/C09-double-pause-capture.diff: a Pause while already paused keeps the snapshot, `C09_repaired`);
`C09_partial` is what holds of the code as it is. -/

structure PrevOnset (a : A) : Prop where
  ok : ∀ v, a.core.prev = some v → a.core.onsetCap = some v ∧ a.core.capRun = a.core.runId
  nosnap : a.core.paused = false → a.core.prev = none

/-- **Full statement.** In every state the engine can be in (any operation sequence, errors included): the
    stored values, if any, are exactly what was captured when the current pause began, under the current run
    id — so Unpause (`unpause_applies`) writes back the output values from immediately before the pause. -/
def C09_full (cfg : Cfg) : Prop :=
  ∀ (outs : List Int) (a : A), Reach cfg ⟨true, true, true⟩ (abs (init cfg outs)) a → PrevOnset a

theorem prevOnset_step (cfg : Cfg) (hp : cfg.prevFix = true) (ho : cfg.pauseOnce = true) (pm : Perm) (a : A)
    (act : Act) (h : PrevOnset a) (_hen : act.enabled cfg pm a) : PrevOnset (act.apply cfg a) := by
  obtain ⟨h, hn⟩ := h
  have hns := (noSnap_step cfg hp pm a act ⟨hn⟩ _hen).ok
  refine ⟨?_, hns⟩
  cases act
  case pause =>
    simp only [Act.apply, Core.pause, ho, Bool.true_and]
    by_cases hq : a.core.paused = true
    · simp only [hq, if_true]; exact h
    · simp only [hq, Bool.false_eq_true, if_false]
      intro v hv; simp at hv ⊢; exact hv
  case userReq i =>
    simp only [Act.apply, Core.userRequest]
    split <;> exact h
  case unpause => exact fun v hv => by simp [Act.apply, Core.unpause] at hv
  case startRun => exact fun v hv => by simp [Act.apply, Core.startRun, Core.clearPrev, hp] at hv
  case restartMid => exact fun v hv => by simp [Act.apply, Core.restartMid, Core.clearPrev, hp] at hv
  case restartFinish => exact fun v hv => by simp [Act.apply, Core.restartFinish, Core.clearPrev, hp] at hv
  case stopFinish =>
    intro v hv
    simp only [Act.apply, Core.stopFinish, Core.writeImage, Core.clearPrev, hp] at hv
    split at hv <;> simp at hv
  case restartMidC fx => exact fun v hv => by simp [Act.apply, Core.restartMid, Core.clearPrev, hp] at hv
  case stopFinishC fx d =>
    intro v hv
    simp only [Act.apply, Core.stopFinish, Core.writeImage, Core.clearPrev, hp] at hv
    split at hv <;> simp at hv
  case write => simp only [Act.apply, Core.writeImage]; split <;> exact h
  case ev e =>
    cases e <;> simp only [Act.apply, Core.event] <;> first | exact h | (split <;> exact h)
  case clock inc => simp only [Act.apply, Core.clock]; split <;> exact h
  case error =>
    simp only [Act.apply, Core.setError]
    split
    · exact h
    · split
      · intro v hv; simp at hv ⊢; exact hv
      · by_cases hq : a.core.paused = true
        · simp only [hq, if_true]; exact h
        · intro v hv
          simp only [] at hv
          rw [hn (by simpa using hq)] at hv; cases hv
  all_goals exact h

/-- **C09 with the double-Pause repair: the full statement holds.** -/
theorem C09_repaired (cfg : Cfg) (hp : cfg.prevFix = true) (ho : cfg.pauseOnce = true) : C09_full cfg := by
  intro outs a h
  refine h.inv (fun b act => prevOnset_step cfg hp ho _ b act) ⟨fun v hv => ?_, fun _ => ?_⟩
  · unfold init at hv; split at hv <;> simp [abs] at hv
  · unfold init; split <;> rfl

/-- After Unpause the outputs with a safe value hold exactly the values from immediately before the pause
    began (with the repair). -/
theorem unpause_restores_onset (cfg : Cfg) (hp : cfg.prevFix = true) (ho : cfg.pauseOnce = true)
    (outs : List Int) (a : A) (h : Reach cfg ⟨true, true, true⟩ (abs (init cfg outs)) a) :
    ∀ v, a.core.prev = some v →
      a.core.unpause.outs = overlay v a.core.outs ∧ a.core.onsetCap = some v ∧ a.core.capRun = a.core.runId := by
  intro v hv
  have hk := (C09_repaired cfg hp ho outs a h).ok v hv
  exact ⟨(unpause_applies a.core).2.2.2 v hv, hk⟩

/-- **What holds of the code as it is**: the stored values are those of the most recent *execution* of a
    Pause body (or error pause), of the same run, not yet undone. -/
theorem C09_partial (cfg : Cfg) (hp : cfg.prevFix = true) (outs : List Int) (a : A)
    (h : Reach cfg ⟨true, true, true⟩ (abs (init cfg outs)) a) : PrevOK a :=
  prevOK_reach cfg hp outs a h

/-! ## The code as it is: witness; non-vacuity -/

open OPM.C06 (safes3 tk)

/-- Run 1: output 0 := 33, Pause, Stop.  Run 2: output 0 := 44, an error pauses the run, Unpause. -/
def witness : List Op :=
  [.user .start, tk, .setOut 0 33, .user .pause, tk, .user .stop, tk, tk,
   .user .start, tk, .setOut 0 44, .errApi, .user .unpause, tk]

/-- **Regression witness.** Code as it is: the Unpause of run 2 applies the value 33 captured in run 1
    (stored values exist although no Pause happened in run 2). -/
theorem asIs_counterexample :
    let cfg := asIs safes3
    let before := run cfg (init cfg [5, 7, 9]) (witness.take 13)
    let s := run cfg (init cfg [5, 7, 9]) witness
    before.core.outs = [44, 1, 9] ∧ before.core.prev = some [some 33, some 1, none] ∧
      before.core.capRun = some 0 ∧ before.core.runId = some 1 ∧
      s.core.outs = [33, 1, 9] ∧ ¬ PrevOK (abs before) := by
  refine ⟨by decide +kernel, by decide +kernel, by decide +kernel, by decide +kernel, by decide +kernel, ?_⟩
  intro h
  have := (h.ok [some 33, some 1, none] (by decide +kernel)).2.1
  revert this
  decide +kernel

/-- With the repair the same history leaves the outputs of run 2 alone. -/
example :
    let cfg := repaired safes3
    let s := run cfg (init cfg [5, 7, 9]) witness
    s.core.outs = [44, 1, 9] ∧ s.core.prev = none ∧ s.core.paused = false := by
  decide +kernel

/-- Non-vacuity: a state in which values are stored, and the Unpause that restores them although the
    outputs were changed during the pause. -/
example :
    let cfg := repaired safes3
    let s := run cfg (init cfg [5, 7, 9])
      [.user .start, tk, .setOut 0 33, .setOut 2 70, .user .pause, tk, .setOut 0 2, .setOut 2 71]
    let s' := run cfg s [.user .unpause, tk]
    s.core.prev = some [some 33, some 1, none] ∧ s.core.outs = [2, 1, 71] ∧
      s'.core.outs = [33, 1, 71] ∧ s'.core.prev = none := by
  decide +kernel

/-- Two Pause requests accepted before one tick (both valid at request time), then Unpause. -/
def doublePause : List Op :=
  [.user .start, tk, .setOut 0 33, .user .pause, .user .pause, tk]

/-- **Counterexample (code as it is).** After the double Pause the stored values are the safe values 0, 1
    although the pause began with output 0 at 33; Unpause then "restores" 0. With the repair it restores 33. -/
theorem C09_counterexample : ¬ C09_full (repaired8 safes3) := by
  intro h
  have hr := h [5, 7, 9] _ (run_ref_err (cfg := repaired8 safes3) doublePause (init (repaired8 safes3) [5, 7, 9]))
  have := (hr.ok [some 0, some 1, none] (by decide +kernel)).1
  revert this
  decide +kernel

theorem double_pause_outputs :
    (run (repaired8 safes3) (init (repaired8 safes3) [5, 7, 9]) (doublePause ++ [.user .unpause, tk])).core.outs
      = [0, 1, 9] ∧
    (run (repaired10 safes3) (init (repaired10 safes3) [5, 7, 9]) (doublePause ++ [.user .unpause, tk])).core.outs
      = [33, 1, 9] := by
  decide +kernel

/-- Non-vacuity: a timed method Pause ended early by the user; the outputs are changed; when the timer runs
    out the resident Pause calls Unpause again — nothing is re-applied. And an error while paused leaves the
    snapshot alone. -/
example :
    let cfg := repaired8 safes3
    let tkP : Op := .tick { adv := 8, inc := 8, items := [.cmd .pause (.dur 24)] }
    let s := run cfg (init cfg [5, 7, 9])
      [.user .start, tk, .setOut 0 33, tkP, .user .unpause, tk, .setOut 0 44, tk, tk, tk, tk]
    let p := run cfg (init cfg [5, 7, 9]) [.user .start, tk, .setOut 0 33, .user .pause, tk, .errApi, tk]
    s.core.paused = false ∧ s.core.outs = [44, 1, 9] ∧ s.core.prev = none ∧
      p.core.paused = true ∧ p.core.prev = some [some 33, some 1, none] ∧
      (run cfg p [.user .unpause, tk]).core.outs = [33, 1, 9] := by
  decide +kernel

end OPM.C09
