import OPM.Model.CmdMgr
import OPM.Model.CmdMgrSpec
import OPM.Lemmas.CmdMgrRecC
import OPM.Model.Interp
import OPM.Lemmas.Interp
import OPM.Lemmas.InterpC04Runs
/-!
# C12 Cancel and Force requests take effect exactly as offered

"A cancelled instruction never performs its effect afterwards: a cancelled Watch never runs its body, a
cancelled timed Pause or Hold ends at once, and a cancelled UOD command is finalized. A forced Watch, Wait or
threshold instruction proceeds without waiting. Cancel or force requests for run-log items that are not offered
as cancellable or forcible are rejected and change nothing."

Two models.  Command half: `OPM.Model.CmdMgr` (`cancel_instruction` / `force_instruction` of the command
manager, with the repair `fixes/C11-uod-cancel-paths.diff`, `cfg.fixInstr`): requests for unknown ids, for
ended commands and for nodes that refuse are rejected and change nothing; an accepted cancel of a started UOD
command finalizes its instance in the same call and removes the request; a finalized instance never executes
again.  The full statement "an accepted cancel ⇒ the command never executes afterwards" is *false* for a UOD
item that is cancelled before its command started (`C12_counterexample`; recorded finding).
Interpreter half: `OPM.Model.Interp` (micro-step machine of pinterpreter.py): a cancelled Watch leaves without
running its body, a forced Watch activates, a forced Wait ends, a forced threshold is not awaited; requests are
accepted iff the node is cancellable / forcible.  (Timed Pause/Hold: model M1, property C06/C09 files.)
-/
namespace OPM.C12
open OPM.CmdMgr

def reach (cfg : Cfg) (ops : List Op) : State := run { cfg := cfg } ops

theorem reach_good (cfg : Cfg) (hfix : cfg.fixCancel = true) (ops : List Op) : Good (reach cfg ops) :=
  good_run (good_init cfg hfix) ops

/-! ## Command half: rejected requests change nothing -/

/-- Cancel for an id nobody knows: `ValueError`, nothing changes. -/
theorem cancel_unknown_rejected (s : State) (i : Nat) (h : getTrack s.track i = none) :
    cancel s i = (s, .err) := by
  unfold cancel; rw [h]

/-- Force for an id nobody knows: logged and answered with success (a deviation from the letter of the
property), but nothing changes. -/
theorem force_unknown_changes_nothing (s : State) (hd : s.done = []) (i : Nat)
    (h : getTrack s.track i = none) : (force s i).1 = s := by
  unfold force; rw [h]; exact commit_of_done_nil hd

/-- Cancel for a UOD command that has ended (completed, failed, cancelled: finalized): rejected, nothing changes. -/
theorem cancel_ended_rejected (s : State) (hfix : s.cfg.fixInstr = true) (i : Nat) (t : Track) (o : Cmd)
    (ht : getTrack s.track i = some t) (ho : trackObj s t = some o) (hf : o.finalized = true) :
    cancel s i = (s, .err) := by
  unfold cancel; rw [ht]; simp only; rw [ho]; simp only
  unfold cancelStarted; simp [hfix, hf]

/-- Force for a UOD command that has ended: rejected, nothing changes. -/
theorem force_ended_rejected (s : State) (hfix : s.cfg.fixInstr = true) (i : Nat) (t : Track) (o : Cmd)
    (ht : getTrack s.track i = some t) (ho : trackObj s t = some o) (hf : o.finalized = true) :
    force s i = (s, .err) := by
  unfold force; rw [ht]; simp only; rw [ho]; simp [hfix, hf]

/-- Cancel / force for a UOD item whose node refuses (already cancelled or forced) before its command
started: rejected, nothing changes. -/
theorem cancel_refused_rejected (s : State) (htk : s.tracking = true) (i : Nat) (t : Track)
    (ht : getTrack s.track i = some t) (hc : t.cmd = none) (hfree : t.free = false) :
    cancel s i = (s, .err) := by
  have ho : trackObj s t = none := by unfold trackObj; rw [hc]
  unfold cancel; rw [ht]; simp only; rw [ho]; simp only; rw [hc]; simp only
  unfold markCancelled; simp [htk, ht, hfree]

theorem force_refused_rejected (s : State) (htk : s.tracking = true) (i : Nat) (t : Track)
    (ht : getTrack s.track i = some t) (hc : t.cmd = none) (hfree : t.free = false) :
    force s i = (s, .err) := by
  have ho : trackObj s t = none := by unfold trackObj; rw [hc]
  unfold force; rw [ht]; simp only; rw [ho]; simp only
  unfold markForced; simp [htk, ht, hfree]

/-- Non-vacuity of the rejections: a completed command's item, an unknown id. -/
example :
    let cfg : Cfg := { cmds := [⟨1, none⟩, ⟨6, none⟩] }
    let s := reach cfg [.user .start, .tick, .req 0, .tick]
    (s.track.map (fun t => (t.id, t.item))) = [(1, some (false, false))] ∧
    (cancel s 1).2 = .err ∧ (cancel s 1).1.events = s.events ∧ (force s 1).2 = .err ∧ (cancel s 7).2 = .err := by
  decide +kernel

/-! ## Command half: an accepted cancel of a running command -/

/-- **A cancelled UOD command is finalized.** In every reachable state: a cancel request for the id of a
request the manager executes, whose command has started and not ended, is accepted; in the same call every
instance of that command name is finalized and released, the request leaves the manager, and no exec callback
runs. -/
theorem cancel_running_finalizes (cfg : Cfg) (hfix : cfg.fixCancel = true) (ops : List Op) (i k : Nat)
    (t : Track) (o : Cmd) (r : Req) :
    let s := reach cfg ops
    s.cfg.fixInstr = true → getTrack s.track i = some t → trackObj s t = some o → o.finalized = false →
    s.executing.find? (fun r => r.id == i) = some r → r.name = .uod k →
    (cancel s i).2 = .ok ∧
    (∀ o' ∈ (cancel s i).1.objs, o'.inMap = true → o'.name ≠ k) ∧
    r ∉ (cancel s i).1.executing ∧
    ∃ evs, (cancel s i).1.events = s.events ++ evs ∧ execsOf evs = [] := by
  intro s hfi ht ho hf hr hk
  have g : Good s := reach_good cfg hfix ops
  have hrm : r ∈ s.executing := List.mem_of_find?_eq_some hr
  have hu : r.isUod = true := by simp [Req.isUod, hk]
  have q := cancelCommand_spec g.core g.fix hrm hk (fun htk => g.trackEx htk r hrm hu)
  have hc : cancel s i = (commit (cancelCommand s r), .ok) := by
    unfold cancel; rw [ht]; simp only; rw [ho]; simp only
    unfold cancelStarted; simp [hfi, hf, hr]
  rw [hc]
  refine ⟨rfl, ?_, ?_, ?_⟩
  · intro o' ho' hm; exact q.noLive o' (by simpa [commit] using ho') hm
  · intro hmem
    have := ((mem_commit_executing _ r).mp hmem).2
    exact this ((q.done r.id).mpr (Or.inr rfl))
  · obtain ⟨evs, e1, e2⟩ := q.evs
    exact ⟨evs, by simpa [commit] using e1, execsOf_finals evs e2⟩

/-- **…and never executes afterwards.** In every reachable state the callbacks of a finalized instance end
with its `final`: no exec (and no second final) follows. -/
theorem finalized_never_executes_again (cfg : Cfg) (hfix : cfg.fixCancel = true) (ops : List Op) :
    ∀ o ∈ (reach cfg ops).objs, o.finalized = true →
      ∃ pre, traceOf (reach cfg ops).events o.serial = pre ++ [Ev.final o.serial] ∧
        Ev.final o.serial ∉ pre ∧ ∀ e ∈ pre, e = Ev.init o.serial ∨ ∃ it, e = Ev.exec o.serial o.name it := by
  intro o ho hf
  have g := reach_good cfg hfix ops
  refine ⟨(if o.initialized then [Ev.init o.serial] else []) ++
      (List.range o.iters).map (fun i => Ev.exec o.serial o.name i), ?_, ?_, ?_⟩
  · rw [g.core.trace o ho]; simp [expected, hf]
  · intro hm
    rcases List.mem_append.mp hm with hm | hm
    · split at hm <;> simp at hm
    · simp at hm
  · intro e he
    rcases List.mem_append.mp he with he | he
    · split at he
      · simp at he; exact Or.inl he
      · cases he
    · obtain ⟨it, _, rfl⟩ := List.mem_map.mp he
      exact Or.inr ⟨it, rfl⟩

/-- The two together, named as the part of the property that holds. -/
theorem C12_partial (cfg : Cfg) (hfix : cfg.fixCancel = true) (ops : List Op) (i k : Nat)
    (t : Track) (o : Cmd) (r : Req) :
    let s := reach cfg ops
    s.cfg.fixInstr = true → getTrack s.track i = some t → trackObj s t = some o → o.finalized = false →
    s.executing.find? (fun r => r.id == i) = some r → r.name = .uod k →
    (cancel s i).2 = .ok ∧ (∀ o' ∈ (cancel s i).1.objs, o'.inMap = true → o'.name ≠ k) :=
  fun a b c d e f => ⟨(cancel_running_finalizes cfg hfix ops i k t o r a b c d e f).1,
    (cancel_running_finalizes cfg hfix ops i k t o r a b c d e f).2.1⟩

/-- Non-vacuity: a running 6-iteration command is cancelled by id after two iterations. -/
example :
    let cfg : Cfg := { cmds := [⟨6, none⟩] }
    let s := reach cfg [.user .start, .tick, .req 0, .tick, .tick]
    offeredCancel s 1 = true ∧ (cancel s 1).2 = .ok ∧
    (cancel s 1).1.events = [.init 0, .exec 0 0 0, .exec 0 0 1, .final 0] ∧
    (run (cancel s 1).1 [.tick, .tick]).events = [.init 0, .exec 0 0 0, .exec 0 0 1, .final 0] := by
  decide +kernel

/-- …also while the run is paused (the command is not executed then, but the cancel finalizes it). -/
example :
    let cfg : Cfg := { cmds := [⟨6, none⟩] }
    let s := reach cfg [.user .start, .tick, .req 0, .tick, .pause true, .tick]
    s.paused = true ∧ s.events = [.init 0, .exec 0 0 0] ∧ (cancel s 1).2 = .ok ∧
    (cancel s 1).1.events = [.init 0, .exec 0 0 0, .final 0] ∧ liveObjs (cancel s 1).1 = [] := by
  decide +kernel

/-! ## The clause that fails -/

/-- Exec callbacks, after the state `s0`, of instances owned by request `i`. -/
def execsOfRequestAfter (s0 s : State) (i : Nat) : List Ev :=
  (s.events.drop s0.events.length).filter (fun e =>
    match e with
    | .exec ser _ _ => (match getObj s.objs ser with | some o => o.owner == i | none => false)
    | _ => false)

/-- Full statement: after an accepted cancel the command of that item never executes. -/
def C12_full : Prop :=
  ∀ (cfg : Cfg) (ops more : List Op) (i : Nat), cfg.fixCancel = true → cfg.fixInstr = true →
    (cancel (reach cfg ops) i).2 = .ok →
    execsOfRequestAfter (cancel (reach cfg ops) i).1 (run (cancel (reach cfg ops) i).1 more) i = []

/-- It fails (also with the repair): a UOD item is offered as cancellable as soon as its node is visited; a
cancel that arrives before the command manager started the command is accepted, marks the node cancelled — and
the command is started and runs to completion all the same. -/
theorem C12_counterexample : ¬ C12_full := by
  intro h
  have := h { cmds := [⟨2, none⟩] } [.user .start, .tick, .req 0] [.tick, .tick] 1 rfl rfl (by decide +kernel)
  revert this
  decide +kernel

/-! ## Requests for items that are not offered

With the record invariant (`Rec`, repaired code incl. `fixes/C10-dispose-instances-on-stop.diff`) the offered
flags of a run-log item can be read off the record: the flags are those of the last state.  A cancel / force
request for a UOD item that is not offered as cancellable / forcible is rejected and changes nothing — at the
command site (the item's command has started) always, at the node site (it has not) unless the item was
*concluded without its node being touched*, which is what a request with rejected arguments leaves behind
(Failed, node neither cancelled nor forced): there the request is accepted (`unoffered_counterexample`; the
implementation does the same: recorded finding). -/

theorem exists_snoc {α : Type} : ∀ (l : List α), l ≠ [] → ∃ pre x, l = pre ++ [x]
  | [], h => absurd rfl h
  | [a], _ => ⟨[], a, rfl⟩
  | a :: b :: t, _ => by
    obtain ⟨pre, x, e⟩ := exists_snoc (b :: t) (by simp)
    exact ⟨a :: pre, x, by rw [e]; rfl⟩

/-- The run-log flags of a record whose conclusive state, if any, is the last one. -/
theorem projGo_spec : ∀ (marks : List (Mark × Bool)) (cmd : Bool),
    (∀ pre m, marks = pre ++ [m] → ∀ p ∈ pre, p.1.conclusive = false) → marks ≠ [] →
    ∃ pre m fr, marks = pre ++ [(m, fr)] ∧
      projGo marks cmd = some (if m.conclusive then (false, false)
        else (fr || cmd || pre.any (fun p => p.1 == .cmdSet) || m == .cmdSet, fr)) := by
  intro marks
  induction marks with
  | nil => intro _ _ h; exact absurd rfl h
  | cons a rest ih =>
    intro cmd hlast _
    obtain ⟨m, fr⟩ := a
    cases rest with
    | nil =>
      refine ⟨[], m, fr, rfl, ?_⟩
      simp only [projGo, List.any_nil, Bool.or_false]
      split <;> rfl
    | cons b rest' =>
      have hm : m.conclusive = false := by
        obtain ⟨pre0, x0, e0⟩ := exists_snoc (b :: rest') (by simp)
        exact hlast ((m, fr) :: pre0) x0 (by rw [e0]; rfl) (m, fr) (List.mem_cons_self ..)
      obtain ⟨pre, m', fr', e, hp⟩ := ih (cmd || m == .cmdSet) (by
        intro pre' m'' he p hp
        exact hlast ((m, fr) :: pre') m'' (by rw [he]; rfl) p (List.mem_cons_of_mem _ hp)) (by simp)
      refine ⟨(m, fr) :: pre, m', fr', by rw [e]; rfl, ?_⟩
      have : projGo ((m, fr) :: b :: rest') cmd = projGo (b :: rest') (cmd || m == .cmdSet) := by
        simp [projGo, hm]
      rw [this, hp]
      congr 1
      split
      · rfl
      · simp only [List.any_cons, Prod.mk.injEq, and_true]
        generalize (m == Mark.cmdSet) = x
        generalize (pre.any fun p => p.1 == Mark.cmdSet) = y
        generalize (m' == Mark.cmdSet) = z
        cases fr' <;> cases cmd <;> cases x <;> cases y <;> cases z <;> rfl

/-- What "not offered" means for a record that satisfies the record invariant. -/
theorem item_of_tok {t : Track} (h : TOK t) :
    ∃ pre m fr, t.marks = pre ++ [(m, fr)] ∧
      t.item = some (if m.conclusive then (false, false) else (fr || t.hasMark .cmdSet, fr)) ∧
      (m.conclusive = true → t.concluded = true) ∧
      (m.conclusive = false → t.concluded = false ∧ fr = t.free) := by
  have hne : t.marks ≠ [] := by
    intro e
    have := h.created
    simp [Track.hasMark, e] at this
  obtain ⟨pre, m, fr, e, hp⟩ := projGo_spec t.marks false h.last hne
  refine ⟨pre, m, fr, e, ?_, ?_, ?_⟩
  · unfold Track.item
    rw [hp]
    congr 1
    split
    · rfl
    · simp only [Track.hasMark, e, List.any_append, List.any_cons, List.any_nil, Bool.or_false, Prod.mk.injEq,
        and_true]
      generalize (m == Mark.cmdSet) = x
      generalize (pre.any fun p => p.1 == Mark.cmdSet) = y
      cases fr <;> cases x <;> cases y <;> rfl
  · intro hm
    simp [Track.concluded, e, hm]
  · intro hm
    have hnc : t.concluded = false := by
      rw [concluded_false_iff]
      intro p hp'
      rw [e] at hp'
      rcases List.mem_append.mp hp' with hp' | hp'
      · exact h.last pre (m, fr) e p hp'
      · simp at hp'; rw [hp']; exact hm
    refine ⟨hnc, ?_⟩
    have := h.snap hnc (m, fr) (by rw [e]; simp)
    exact this

/-- Cancel for an item that is not offered as cancellable is rejected and changes nothing, unless the item was
concluded without a command and without its node being touched (see the section header). -/
theorem unoffered_cancel_rejected (cfg : Cfg) (hfix : cfg.fixCancel = true) (hS : cfg.fixStop = true)
    (hI : cfg.fixInstr = true) (ops : List Op) (i : Nat) :
    let s := reach cfg ops
    offeredCancel s i = false →
    (∀ t, getTrack s.track i = some t → ¬(t.cmd = none ∧ t.concluded = true ∧ t.free = true)) →
    cancel s i = (s, .err) := by
  intro s hoff hex
  have r : Rec s := rec_run (good_init cfg hfix) (rec_init cfg hS hI) ops
  cases hgt : getTrack s.track i with
  | none => exact cancel_unknown_rejected s i hgt
  | some t =>
    obtain ⟨htm, _⟩ := getTrack_some hgt
    have htk : s.tracking = true := by
      cases hx : s.tracking with
      | true => rfl
      | false => have := r.off hx; rw [this] at htm; cases htm
    obtain ⟨pre, m, fr, _, hitem, hc1, hc2⟩ := item_of_tok (r.tok t htm)
    simp only [offeredCancel, hgt, hitem] at hoff
    cases hm : m.conclusive with
    | true =>
      have hcon := hc1 hm
      cases hcmd : t.cmd with
      | some ser =>
        obtain ⟨o, h1, _, h3⟩ := r.cmdObj t htm ser hcmd
        exact cancel_ended_rejected s r.fixS.2 i t o hgt (by simp [trackObj, hcmd, h1]) (h3 hcon)
      | none =>
        cases hfr : t.free with
        | false => exact cancel_refused_rejected s htk i t hgt hcmd hfr
        | true => exact absurd ⟨hcmd, hcon, hfr⟩ (hex t hgt)
    | false =>
      obtain ⟨_, hfree⟩ := hc2 hm
      simp only [hm, Bool.false_eq_true, if_false, Bool.or_eq_false_iff] at hoff
      have hcmd : t.cmd = none := by
        have := (r.tok t htm).cmdSet
        rw [hoff.2] at this
        cases hx : t.cmd with
        | none => rfl
        | some _ => rw [hx] at this; cases this
      exact cancel_refused_rejected s htk i t hgt hcmd (by rw [← hfree]; exact hoff.1)

/-- The same for force. -/
theorem unoffered_force_rejected (cfg : Cfg) (hfix : cfg.fixCancel = true) (hS : cfg.fixStop = true)
    (hI : cfg.fixInstr = true) (ops : List Op) (i : Nat) (t : Track) :
    let s := reach cfg ops
    getTrack s.track i = some t → offeredForce s i = false →
    ¬(t.cmd = none ∧ t.concluded = true ∧ t.free = true) →
    force s i = (s, .err) := by
  intro s hgt hoff hex
  have r : Rec s := rec_run (good_init cfg hfix) (rec_init cfg hS hI) ops
  obtain ⟨htm, hti⟩ := getTrack_some hgt
  have htk : s.tracking = true := by
    cases hx : s.tracking with
    | true => rfl
    | false => have := r.off hx; rw [this] at htm; cases htm
  obtain ⟨pre, m, fr, _, hitem, hc1, hc2⟩ := item_of_tok (r.tok t htm)
  simp only [offeredForce, hgt, hitem] at hoff
  cases hcmd : t.cmd with
  | some ser =>
    obtain ⟨o, h1, h2, h3⟩ := r.cmdObj t htm ser hcmd
    have hto : trackObj s t = some o := by simp [trackObj, hcmd, h1]
    cases hf : o.finalized with
    | true => exact force_ended_rejected s r.fixS.2 i t o hgt hto hf
    | false =>
      -- the command runs: the record is open, so "not forcible" is the node's flag
      have hm : m.conclusive = false := by
        cases hx : m.conclusive with
        | false => rfl
        | true => rw [h3 (hc1 hx)] at hf; cases hf
      obtain ⟨_, hfree⟩ := hc2 hm
      simp only [hm, Bool.false_eq_true, if_false] at hoff
      have hfr : t.free = false := by rw [← hfree]; exact hoff
      unfold force
      rw [hgt]
      simp only [hto, hf, Bool.and_false, Bool.false_eq_true, if_false, h2, hti]
      unfold markForced
      simp [htk, hgt, hfr]
  | none =>
    cases hfr : t.free with
    | false => exact force_refused_rejected s htk i t hgt hcmd hfr
    | true =>
      cases hm : m.conclusive with
      | true => exact absurd ⟨hcmd, hc1 hm, hfr⟩ hex
      | false =>
        obtain ⟨_, hfree⟩ := hc2 hm
        simp only [hm, Bool.false_eq_true, if_false] at hoff
        rw [hfree, hfr] at hoff; cases hoff

/-- The statement without the exception: every request for an item that is not offered is rejected. -/
def unoffered_full : Prop :=
  ∀ (cfg : Cfg) (ops : List Op) (i : Nat), cfg.fixCancel = true → cfg.fixStop = true → cfg.fixInstr = true →
    (offeredCancel (reach cfg ops) i = false → (cancel (reach cfg ops) i).2 = .err) ∧
    (offeredForce (reach cfg ops) i = false → (force (reach cfg ops) i).2 = .err)

/-- It fails at the node site: the item of a request whose arguments were rejected is shown as failed (neither
cancellable nor forcible), yet a cancel — and a force — request for it is accepted and sets the node's flag. -/
theorem unoffered_counterexample : ¬ unoffered_full := by
  intro h
  have := (h { cmds := [⟨6, none⟩] } [.user .start, .tick, .req 0 true, .tick] 1 rfl rfl rfl).1 (by decide +kernel)
  revert this
  decide +kernel

/-- …the same history, spelled out. -/
example :
    let s := reach { cmds := [⟨6, none⟩] } [.user .start, .tick, .req 0 true, .tick]
    s.track.map (fun t => (t.id, t.marks.map (·.1), t.item)) = [(1, [.created, .failed], some (false, false))] ∧
    (cancel s 1).2 = .ok ∧ (force s 1).2 = .ok ∧ ((cancel s 1).1.track.map (·.nCancelled)) = [true] := by
  decide +kernel

/-! ## Interpreter half -/

section interp
open OPM.Interp

/-- A cancel request is accepted iff the node has a run-log record and is cancellable; it sets the flag and
touches nothing else of the node map. -/
theorem interp_cancel_iff (p : Prog) (s : St) (n : Nat) :
    (Interp.cancel p s n).isSome = ((getRt s n).hasRecord && cancellable p s n) := by
  unfold Interp.cancel; split <;> simp_all

theorem interp_force_iff (p : Prog) (s : St) (n : Nat) :
    (Interp.force p s n).isSome = ((getRt s n).hasRecord && forcible p s n) := by
  unfold Interp.force; split <;> simp_all

theorem interp_cancel_effect (p : Prog) (s s' : St) (n : Nat) (h : Interp.cancel p s n = some s') :
    (getRt s' n).cancelled = true ∧ (∀ k, k ≠ n → getRt s' k = getRt s k) ∧ s'.events = s.events ∧
    s'.gens = s.gens := by
  unfold Interp.cancel at h
  split at h
  · cases h
    refine ⟨by simp, fun k hk => by simp [hk], rfl, rfl⟩
  · cases h

/-- A node that is cancelled or forced already is not cancellable: the request is rejected. -/
theorem interp_not_cancellable (p : Prog) (s : St) (n : Nat)
    (h : (s.rt n).cancelled = true ∨ (s.rt n).forced = true) : Interp.cancel p s n = none := by
  unfold Interp.cancel cancellable
  rcases h with h | h <;> cases hk : (node p n).kind <;> simp [h, getRt_eq]

/-- **A cancelled Watch never runs its body.** In the interrupt, a Watch node that is cancelled and not yet
activated leaves at once — from its entry (pc 0) and from its waiting loop (pc 1) — with the state unchanged:
no `bodyStart`, no child is visited; and `_try_activate_node` does not activate it. -/
theorem cancelled_watch_leaves (p : Prog) (s : St) (n : Nat) (c : Cond) (below : List Frame)
    (hk : (node p n).kind = .watch c) (hc : (s.rt n).cancelled = true) (ha : (s.rt n).activated = false)
    (hreg : (s.rt n).interruptRegistered = true) (hin : s.inInterrupt = true) :
    stepFrame p s (.body n 0) below = .next s [] .cont ∧ stepFrame p s (.body n 1) below = .next s [] .cont ∧
    tryActivate s n c = s := by
  refine ⟨?_, ?_, ?_⟩
  · unfold stepFrame stepBody
    simp only [hk, getRt_eq, hc, hreg, hin]
    rfl
  · unfold stepFrame stepBody
    simp only [hk, getRt_eq, hc, ha]
    rfl
  · unfold tryActivate
    simp only [getRt_eq, hc]
    rfl

/-- **A forced Watch proceeds.** `_try_activate_node` activates a forced, not cancelled Watch / Alarm whatever
its condition says. -/
theorem forced_watch_activates (s : St) (n : Nat) (c : Cond) (hf : (s.rt n).forced = true)
    (hc : (s.rt n).cancelled = false) : ((tryActivate s n c).rt n).activated = true := by
  unfold tryActivate
  simp only [getRt_eq, hc, hf]
  simp

/-- **A forced Wait proceeds.** The waiting loop of a forced Wait completes the node in this very step, whatever
the time. -/
theorem forced_wait_ends (p : Prog) (s : St) (n : Nat) (endT : Rat) (below : List Frame)
    (hf : (s.rt n).forced = true) :
    stepFrame p s (.waitLoop n endT) below = .next (finishNode s n) [.body n 2] .endTick := by
  unfold stepFrame
  simp only [getRt_eq, hf]
  simp

/-- **A forced threshold is not awaited.** -/
theorem forced_threshold_not_awaited (p : Prog) (s : St) (n : Nat) (hf : (s.rt n).forced = true) :
    awaitingThreshold p s n = false := by
  unfold awaitingThreshold
  simp only [getRt_eq, hf]
  split
  · rfl
  · split <;> simp

/-- …so the wrapper starts the instruction in its next step. -/
theorem forced_threshold_starts (p : Prog) (s : St) (n : Nat) (below : List Frame)
    (hf : (s.rt n).forced = true) :
    stepFrame p s (.wrapThr n) below =
      .next (emit (setRt s n (fun r => { r with started := true })) (.start n)) [.wrapDispatch n] .endTick := by
  unfold stepFrame
  simp only [forced_threshold_not_awaited p s n hf]
  simp

/-! ### Run-level lift of the cancel clause (added by the C04 builder; proofs in `Lemmas/InterpC04Runs.lean`) -/

/-- **After an accepted cancel, no body start until the node is reset — over whole runs, every method.**
If `cancel p s n` is accepted for a Watch/Alarm `n` in a state whose generators are quiet (every reachable
state, `OPM.C04.reachable_allQuiet`), then along every continuation (ticks that reach their `EndTick`s with any
clocks and tag values, further cancel / force / completion / inject requests) in which `n`'s `cancelled` flag is
still set — it is cleared only by a reset that covers the node (`OPM.C04.cancelled_sticks`: the re-arm of an Alarm
at or above it, a macro call) — `n` is never activated and no tick's event log contains a `bodyStart n`. -/
theorem accepted_cancel_never_runs_until_reset (p : Prog) (s s0 s' : St) (n : Nat)
    (hw : isCond p n = true) (hq : AllQuiet p s) (hc : Interp.cancel p s n = some s0)
    (hrun : RunP p (fun x => (x.rt n).cancelled = true) s0 s') :
    (s'.rt n).activated = false ∧
    ∀ i, (tick p s' i).2 = true → ((tick p s' i).1.rt n).cancelled = true → bsCount (tick p s' i).1 n = 0 := by
  have ha : (s0.rt n).activated = false := by
    obtain ⟨c, hk⟩ := isCond_kind p n hw
    unfold Interp.cancel at hc
    split at hc
    · rename_i h
      cases hc
      unfold cancellable at h
      rcases hk with hk | hk <;> simp [hk] at h <;> simp [h]
    · cases hc
  have := OPM.Interp.cancelled_never_runs_until_reset p s0 s' n hw (allQuiet_cancel p s s0 n hc hq) ha hrun
  exact ⟨this.1, this.2.2⟩

end interp

end OPM.C12
