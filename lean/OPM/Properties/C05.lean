import OPM.Model.Interp
import OPM.Model.InterpRun
import OPM.Lemmas.Interp
import OPM.Lemmas.InterpLock
import OPM.Lemmas.InterpBlocks
import OPM.Lemmas.InterpBlocksStep
import OPM.Lemmas.InterpBlocksTag
import OPM.Lemmas.InterpBlocksRun
import OPM.Lemmas.InterpBlocksDone
/-!
# C05 Blocks nest and end correctly; Block tag names the active block

"Active blocks always form a single nested chain, and the Block tag names the innermost active
block (empty when none). 'End block' ends exactly the innermost active block together with its
pending Watches and Alarms, 'End blocks' ends all active blocks, and instructions after a block
start only after that block has ended."

Model: `OPM.Model.Interp` (frame-stack machine of the interpreter).  A block is *locked* while it
holds `lock_acquired`, *active* while it is locked and not `block_ended` (an ended block keeps the lock
until its own generator has run to the release point — its children may still be winding down).

What is proved, and for which runs:

* **chain** — in every reachable state of every method under every schedule the locked (hence the
  active) blocks form one nested chain (`active_blocks_form_chain`, `active_chain`); every micro-step and
  every tick keeps it (`chain_stepGen`, `chain_tick`).
* **innermost** — `get_locked_blocks()` sorts by key-path *string*; for a well-formed method tree
  (`ProgWF`, decidable, evaluated by the driver on every parsed method) the sorted list is deepest
  first (`locked_blocks_deepest_first`, `active_head_is_innermost`).
* **Block tag** — the full statement `C05_tag_full` (tag = name of the innermost active block, empty when
  none, in every reachable state) is FALSE of the code: `C05_tag_counterexample` (an Alarm re-arm resets a
  Block that holds the lock and leaves the tag; a second witness: `End block` names an already ended
  block).  `C05_tag_partial`: it holds in every state reached by *calm* ticks — ticks without one of the
  four exotic micro-steps of `exoticStep` (decidable along the run); every other micro-step of every
  generator keeps it (`tagOk_stepGen`).
* **End block** — the full statement `C05_endblock_full` (End block ends the innermost active block) is
  FALSE of the code: `C05_endblock_counterexample` (the first *locked* block may already be ended; End block
  re-ends it and leaves the innermost active block running).  `C05_endblock_partial`: when the first locked
  block is not ended, End block ends exactly the innermost active block, removes exactly the interrupts
  rooted inside it, moves no lock, and the tag names the next active block.
  `endBlocks_ends_all`: End blocks ends every locked block and clears the tag.
* **successor** — a Block's visit returns only through a step that leaves it completed
  (`block_visit_returns_completed`), `completed` of a Block is set only by a step that found it ended
  (`block_completes_only_when_ended`), and over every schedule a completed Block is an ended Block
  (`completed_block_is_ended`); the parent's loop enters the next line only after the visit of the previous
  one has returned (C02 `loop_advances_when_child_returns`).
-/
namespace OPM.C05
open OPM.Interp OPM.InterpRun

/-! ## the chain invariant -/

/-- Every micro-step of every generator preserves the chain of locked blocks. -/
theorem chain_stepGen (p : Prog) (s : St) (stack : List Frame) (h : Chain p s) :
    Chain p (stepGen p s stack).1 := Interp.chain_stepGen p s stack h

/-- A whole interpreter tick preserves the chain. -/
theorem chain_tick (p : Prog) (s : St) (i : TickIn) (h : Chain p s) : Chain p (tick p s i).1 :=
  Interp.chain_tick p s i h

/-- Requests between ticks (cancel, force, command completion) preserve the chain. -/
theorem chain_cancel (p : Prog) (s s' : St) (n : Nat) (hc : cancel p s n = some s') (h : Chain p s) :
    Chain p s' := by
  unfold cancel at hc
  split at hc
  · cases hc; exact chain_setRt_keep p s n _ (fun _ => rfl) h
  · cases hc

theorem chain_force (p : Prog) (s s' : St) (n : Nat) (hc : force p s n = some s') (h : Chain p s) :
    Chain p s' := by
  unfold force at hc
  split at hc
  · cases hc; exact chain_setRt_keep p s n _ (fun _ => rfl) h
  · cases hc

theorem chain_completeCmd (p : Prog) (s : St) (n : Nat) (h : Chain p s) : Chain p (completeCmd s n) := by
  unfold completeCmd
  split
  · exact h
  · exact chain_setRt_keep p s n _ (fun _ => rfl) h

/-- States reachable by any schedule of ticks (any clocks, any tag values) and requests. -/
inductive Reachable (p : Prog) : St → Prop
  | init : Reachable p (init p)
  | tick (s : St) (i : TickIn) : Reachable p s → Reachable p (tick p s i).1
  | cancel (s s' : St) (n : Nat) : Reachable p s → cancel p s n = some s' → Reachable p s'
  | force (s s' : St) (n : Nat) : Reachable p s → force p s n = some s' → Reachable p s'
  | complete (s : St) (n : Nat) : Reachable p s → Reachable p (completeCmd s n)

/-- **C05, first clause.** In every reachable state of every method, under every schedule, the
    locked method blocks form a single nested chain. -/
theorem active_blocks_form_chain (p : Prog) (s : St) (hr : Reachable p s) : Chain p s := by
  induction hr with
  | init => exact chain_init p
  | tick s i _ ih => exact chain_tick p s i ih
  | cancel s s' n _ hc ih => exact chain_cancel p s s' n hc ih
  | force s s' n _ hc ih => exact chain_force p s s' n hc ih
  | complete s n _ ih => exact chain_completeCmd p s n ih

/-- …in particular the *active* blocks (locked and not ended) do. -/
theorem active_chain (p : Prog) (s : St) (hr : Reachable p s) (a b : Nat)
    (ha : a ∈ activeBlocks p s) (hb : b ∈ activeBlocks p s) :
    a = b ∨ a ∈ ancestors p b ∨ b ∈ ancestors p a :=
  active_blocks_form_chain p s hr a b (List.mem_filter.mp ha).1 (List.mem_filter.mp hb).1

/-! ## "innermost": the key-path sort puts the deepest block first -/

/-- For a well-formed method tree and a chain of locked blocks, `get_locked_blocks()` (sorted by key-path
    string, reversed) lists the blocks deepest first: every later element is an ancestor of every earlier
    one. -/
theorem locked_blocks_deepest_first (p : Prog) (s : St) (hwf : ProgWF p = true) (hr : Reachable p s) :
    (lockedBlocks p s).Pairwise (fun a b => b ∈ ancestors p a) :=
  lockedBlocks_pairwise p s hwf (active_blocks_form_chain p s hr)

/-- …so the two `__debug__` assertions of `get_locked_blocks()` cannot fire: every later block of the sorted
    list is an ancestor of every earlier one (in particular of the first), and its key path is a proper prefix
    (hence a substring) of the earlier one's. -/
theorem get_locked_blocks_assertions_hold (p : Prog) (s : St) (hwf : ProgWF p = true) (hr : Reachable p s) :
    (lockedBlocks p s).Pairwise (fun a b =>
      b ∈ ancestors p a ∧ properPrefix (node p b).keyPath (node p a).keyPath = true) :=
  (locked_blocks_deepest_first p s hwf hr).imp
    (fun {a b} h => ⟨h, (ancestorsAux_wf p hwf _ a b h).2⟩)

/-- The first active block is the innermost one: every other active block is one of its ancestors. -/
theorem active_head_is_innermost (p : Prog) (s : St) (hwf : ProgWF p = true) (hch : Chain p s)
    (a : Nat) (rest : List Nat) (ha : activeBlocks p s = a :: rest) : ∀ y ∈ rest, y ∈ ancestors p a := by
  have hp : (activeBlocks p s).Pairwise (Deeper p) :=
    List.Pairwise.filter _ (lockedBlocks_pairwise p s hwf hch)
  rw [ha, List.pairwise_cons] at hp
  exact hp.1

/-! ## acquiring -/

/-- A block takes the lock only when every locked method block is one of its ancestors, and then the
    Block tag names it.  (`try_acquire_lock`, step of the `Block` body at its acquire point.) -/
theorem acquire_step (p : Prog) (s : St) (n : Nat) (name : String) (below : List Frame)
    (hk : (node p n).kind = .block name) (hnl : (s.rt n).lockAcquired = false)
    (hall : (lockedBlocks p s).all (fun b => (ancestors p n).contains b) = true) :
    ∃ s' top, stepBody p s n 1 below = .next s' top .cont ∧
      (s'.rt n).lockAcquired = true ∧ s'.blockTag = some name ∧ Event.blockStart name ∈ s'.events := by
  unfold stepBody
  simp only [hk, getRt_eq, hnl, hall]
  refine ⟨_, _, rfl, ?_, rfl, ?_⟩
  · simp
  · simp [emit]

/-- …and if some locked method block is not an ancestor, the block waits (EndTick) and nothing changes. -/
theorem acquire_blocked (p : Prog) (s : St) (n : Nat) (name : String) (below : List Frame)
    (hk : (node p n).kind = .block name) (hnl : (s.rt n).lockAcquired = false)
    (hall : (lockedBlocks p s).all (fun b => (ancestors p n).contains b) = false) :
    stepBody p s n 1 below = .next s [.body n 1] .endTick := by
  unfold stepBody
  simp only [hk, getRt_eq, hnl, hall]
  rfl

/-! ## concrete runs (witnesses and non-vacuity) -/

/-- the state after the given ticks from the start of the method -/
def runTicks (p : Prog) (ins : List TickIn) : St := ins.foldl (fun s i => (tick p s i).1) (init p)

theorem reachable_foldl (p : Prog) (ins : List TickIn) (s : St) (h : Reachable p s) :
    Reachable p (ins.foldl (fun s i => (tick p s i).1) s) := by
  induction ins generalizing s with
  | nil => exact h
  | cons i ins ih => exact ih _ (Reachable.tick s i h)

theorem reachable_runTicks (p : Prog) (ins : List TickIn) : Reachable p (runTicks p ins) :=
  reachable_foldl p ins _ Reachable.init

/-- every tick of the run is calm -/
def calmRun (p : Prog) : St → List TickIn → Bool
  | _, [] => true
  | s, i :: ins => calmTick p s i && calmRun p (tick p s i).1 ins

/-- `Block: A` [ `Block: B` [ `End block` ] ] -/
def demo : Prog := #[
  { kind := .program, parent := none, children := [1], threshold := none, keyPath := [0] },
  { kind := .block "A", parent := some 0, children := [2], threshold := none, keyPath := [0, 1] },
  { kind := .block "B", parent := some 1, children := [3], threshold := none, keyPath := [0, 1, 2] },
  { kind := .endBlock, parent := some 2, children := [], threshold := none, keyPath := [0, 1, 2, 3] }]

def demoRun (k : Nat) : St :=
  runTicks demo ((List.range k).map fun i => ⟨(i : Nat), (i : Nat), (i : Nat), []⟩)

/-- after 4 ticks both blocks are locked (the hypotheses of the chain theorem are met non-trivially) -/
example : ProgWF demo = true ∧ lockedBlocks demo (demoRun 4) = [2, 1] ∧ (demoRun 4).blockTag = some "B" := by
  decide +kernel
/-- End block then ends the inner one and the tag names the outer one -/
example : ((demoRun 5).rt 2).blockEnded = true ∧ ((demoRun 5).rt 1).blockEnded = false ∧
    (demoRun 5).blockTag = some "A" ∧ lockedBlocks demo (demoRun 6) = [1] := by decide +kernel

/-- Witness 1. `Alarm: T0 > 0` [ `Watch: T1 > 0` [ `Block: W` [ `Wait: 2s` / `End block` ] ] / `Mark: a` ]
    with T0 = T1 = 1 throughout. -/
def alarmProg : Prog := #[
  { kind := .program, parent := none, children := [1], threshold := none, keyPath := [0] },
  { kind := .alarm ⟨0, .gt, 0⟩, parent := some 0, children := [2, 6], threshold := none, keyPath := [0, 1] },
  { kind := .watch ⟨1, .gt, 0⟩, parent := some 1, children := [3], threshold := none, keyPath := [0, 1, 2] },
  { kind := .block "W", parent := some 2, children := [4, 5], threshold := none, keyPath := [0, 1, 2, 3] },
  { kind := .wait 2, parent := some 3, children := [], threshold := none, keyPath := [0, 1, 2, 3, 4] },
  { kind := .endBlock, parent := some 3, children := [], threshold := none, keyPath := [0, 1, 2, 3, 5] },
  { kind := .mark "a", parent := some 1, children := [], threshold := none, keyPath := [0, 1, 6] }]

def alarmIn (i : Nat) : TickIn := ⟨(i : Nat) / 8, (i : Nat) / 8, 0, [1, 1]⟩
def alarmRun (k : Nat) : St := runTicks alarmProg ((List.range k).map alarmIn)

/-- Witness 2. `Block: A` [ `Watch: T0 > 0` [ `End block` ] / `Watch: T1 > 0` [ `End block` ] /
    `Block: B` [ `Wait: 3s` ] / `Mark: a` ], T0 = 1 from tick 12, T1 = 1 from tick 18. -/
def twoEndProg : Prog := #[
  { kind := .program, parent := none, children := [1], threshold := none, keyPath := [0] },
  { kind := .block "A", parent := some 0, children := [2, 4, 6, 8], threshold := none, keyPath := [0, 1] },
  { kind := .watch ⟨0, .gt, 0⟩, parent := some 1, children := [3], threshold := none, keyPath := [0, 1, 2] },
  { kind := .endBlock, parent := some 2, children := [], threshold := none, keyPath := [0, 1, 2, 3] },
  { kind := .watch ⟨1, .gt, 0⟩, parent := some 1, children := [5], threshold := none, keyPath := [0, 1, 4] },
  { kind := .endBlock, parent := some 4, children := [], threshold := none, keyPath := [0, 1, 4, 5] },
  { kind := .block "B", parent := some 1, children := [7], threshold := none, keyPath := [0, 1, 6] },
  { kind := .wait 3, parent := some 6, children := [], threshold := none, keyPath := [0, 1, 6, 7] },
  { kind := .mark "a", parent := some 1, children := [], threshold := none, keyPath := [0, 1, 8] }]

def twoEndIn (i : Nat) : TickIn :=
  ⟨(i : Nat) / 8, (i : Nat) / 8, 0, [if i ≥ 12 then 1 else 0, if i ≥ 18 then 1 else 0]⟩
def twoEndRun (k : Nat) : St := runTicks twoEndProg ((List.range k).map twoEndIn)

/-- Witness 3. `Watch: T0 > 0` [ `End block` ] / `Block: A` [ `Block: B` [ `Wait: 1s` / `End blocks` ] /
    `Mark: a` ] / `Mark: z`, T0 = 1 from tick 14: the Watch's End block runs in the tick of End blocks. -/
def afterEndBlocksProg : Prog := #[
  { kind := .program, parent := none, children := [1, 3, 8], threshold := none, keyPath := [0] },
  { kind := .watch ⟨0, .gt, 0⟩, parent := some 0, children := [2], threshold := none, keyPath := [0, 1] },
  { kind := .endBlock, parent := some 1, children := [], threshold := none, keyPath := [0, 1, 2] },
  { kind := .block "A", parent := some 0, children := [4, 7], threshold := none, keyPath := [0, 3] },
  { kind := .block "B", parent := some 3, children := [5, 6], threshold := none, keyPath := [0, 3, 4] },
  { kind := .wait 1, parent := some 4, children := [], threshold := none, keyPath := [0, 3, 4, 5] },
  { kind := .endBlocks, parent := some 4, children := [], threshold := none, keyPath := [0, 3, 4, 6] },
  { kind := .mark "a", parent := some 3, children := [], threshold := none, keyPath := [0, 3, 7] },
  { kind := .mark "z", parent := some 0, children := [], threshold := none, keyPath := [0, 8] }]

def afterEndBlocksIn (i : Nat) : TickIn := ⟨(i : Nat) / 8, (i : Nat) / 8, 0, [if i ≥ 14 then 1 else 0]⟩
def afterEndBlocksRun (k : Nat) : St := runTicks afterEndBlocksProg ((List.range k).map afterEndBlocksIn)

/-- Witness 4. `Watch: T0 > 0` [ `Block: B` [ `Alarm: T1 > 0` [ `Mark: m` ] / `End block` ] ] / `Mark: z`,
    T0 = 1, T1 = 0 throughout. -/
def reregProg : Prog := #[
  { kind := .program, parent := none, children := [1, 6], threshold := none, keyPath := [0] },
  { kind := .watch ⟨0, .gt, 0⟩, parent := some 0, children := [2], threshold := none, keyPath := [0, 1] },
  { kind := .block "B", parent := some 1, children := [3, 5], threshold := none, keyPath := [0, 1, 2] },
  { kind := .alarm ⟨1, .gt, 0⟩, parent := some 2, children := [4], threshold := none, keyPath := [0, 1, 2, 3] },
  { kind := .mark "m", parent := some 3, children := [], threshold := none, keyPath := [0, 1, 2, 3, 4] },
  { kind := .endBlock, parent := some 2, children := [], threshold := none, keyPath := [0, 1, 2, 5] },
  { kind := .mark "z", parent := some 0, children := [], threshold := none, keyPath := [0, 6] }]

def reregIn (i : Nat) : TickIn := ⟨(i : Nat) / 8, (i : Nat) / 8, 0, [1, 0]⟩
def reregRun (k : Nat) : St := runTicks reregProg ((List.range k).map reregIn)

/-! ## the Block tag -/

/-- **The clause at full strength**: in every reachable state of every (well-formed) method the Block tag
    is the name of the innermost active block, empty when there is none. -/
def C05_tag_full : Prop :=
  ∀ (p : Prog) (s : St), ProgWF p = true → Reachable p s → TagOk p s

/-- Witness 1 on the model: after 16 ticks the Alarm has re-armed; the Block `W` was reset while it held
    the lock (its Watch is still running it), no block is locked, the tag still says `W`.  The tick that did
    it is not calm. -/
theorem C05_tag_witness_alarm_rearm :
    ProgWF alarmProg = true ∧ lockedBlocks alarmProg (alarmRun 15) = [3] ∧ (alarmRun 15).blockTag = some "W" ∧
    lockedBlocks alarmProg (alarmRun 16) = [] ∧ (alarmRun 16).blockTag = some "W" ∧
    calmTick alarmProg (alarmRun 15) (alarmIn 15) = false := by
  decide +kernel

/-- **The full clause is false of the code as it is.** -/
theorem C05_tag_counterexample : ¬ C05_tag_full := by
  intro h
  have := h alarmProg (alarmRun 16) (by decide +kernel) (reachable_runTicks _ _)
  revert this
  decide +kernel

/-- Witness 3 on the model: `End blocks` ends `B` and `A` and clears the tag; the Watch's `End block` runs in
    the same tick, re-ends `B` and sets the tag to `A` — which is ended.  40 ticks later both blocks have long
    completed and the tag still says `A`.  That tick is not calm either. -/
theorem C05_tag_witness_end_block_names_ended :
    ProgWF afterEndBlocksProg = true ∧
    activeBlocks afterEndBlocksProg (afterEndBlocksRun 40) = [] ∧ (afterEndBlocksRun 40).blockTag = some "A" ∧
    ((afterEndBlocksRun 40).rt 3).completed = true ∧ ((afterEndBlocksRun 40).rt 4).completed = true ∧
    calmRun afterEndBlocksProg (init afterEndBlocksProg) ((List.range 40).map afterEndBlocksIn) = false := by
  decide +kernel

/-- States reachable by calm ticks (no exotic micro-step, see `exoticStep`) and any requests. -/
inductive CalmReachable (p : Prog) : St → Prop
  | init : CalmReachable p (init p)
  | tick (s : St) (i : TickIn) : CalmReachable p s → calmTick p s i = true → CalmReachable p (tick p s i).1
  | cancel (s s' : St) (n : Nat) : CalmReachable p s → cancel p s n = some s' → CalmReachable p s'
  | force (s s' : St) (n : Nat) : CalmReachable p s → force p s n = some s' → CalmReachable p s'
  | complete (s : St) (n : Nat) : CalmReachable p s → CalmReachable p (completeCmd s n)

theorem CalmReachable.reachable {p : Prog} {s : St} (h : CalmReachable p s) : Reachable p s := by
  induction h with
  | init => exact .init
  | tick s i _ _ ih => exact .tick s i ih
  | cancel s s' n _ hc ih => exact .cancel s s' n ih hc
  | force s s' n _ hc ih => exact .force s s' n ih hc
  | complete s n _ ih => exact .complete s n ih

/-- Every micro-step of every generator that is not exotic keeps the Block tag on the innermost active
    block (any method, any state with a chain of locked blocks). -/
theorem tagOk_stepGen (p : Prog) (s : St) (stack : List Frame) (hwf : ProgWF p = true)
    (hch : Chain p s) (hex : exoticStep p s stack = false) (h : TagOk p s) :
    TagOk p (stepGen p s stack).1 := Interp.tagOk_stepGen p s stack hwf hch hex h

/-- **The Block-tag clause, for calm runs.**  In every state reached from the start of a well-formed method
    by calm ticks (any clocks, any tag values) and any cancel / force / completion requests, the Block tag is
    the name of the innermost active block, empty when there is none. -/
theorem C05_tag_partial (p : Prog) (hwf : ProgWF p = true) (s : St) (hr : CalmReachable p s) : TagOk p s := by
  have key : BlkGood p s := by
    induction hr with
    | init => exact ⟨chain_init p, tagOk_init p⟩
    | tick s i _ hc ih => exact blkGood_tick p hwf s i ih hc
    | cancel s s' n _ hc ih =>
      unfold OPM.Interp.cancel at hc
      split at hc
      · cases hc; exact blkGood_setRt_keep p s n _ (fun _ => ⟨rfl, rfl⟩) ih
      · cases hc
    | force s s' n _ hc ih =>
      unfold OPM.Interp.force at hc
      split at hc
      · cases hc; exact blkGood_setRt_keep p s n _ (fun _ => ⟨rfl, rfl⟩) ih
      · cases hc
    | complete s n _ ih =>
      unfold completeCmd
      split
      · exact ih
      · exact blkGood_setRt_keep p s n _ (fun _ => ⟨rfl, rfl⟩) ih
  exact key.2

theorem calmReachable_foldl (p : Prog) (ins : List TickIn) (s : St) (h : CalmReachable p s)
    (hc : calmRun p s ins = true) : CalmReachable p (ins.foldl (fun s i => (tick p s i).1) s) := by
  induction ins generalizing s with
  | nil => exact h
  | cons i ins ih =>
    simp only [calmRun, Bool.and_eq_true] at hc
    exact ih _ (CalmReachable.tick s i h hc.1) hc.2

/-- …in the form used on concrete runs: a calm run of ticks ends with the tag right. -/
theorem tag_after_calm_run (p : Prog) (hwf : ProgWF p = true) (ins : List TickIn)
    (hc : calmRun p (init p) ins = true) : TagOk p (runTicks p ins) :=
  C05_tag_partial p hwf _ (calmReachable_foldl p ins _ CalmReachable.init hc)

/-- The hypothesis is satisfiable on a run with interrupts and nested blocks: all 45 ticks of witness 2
    (two Watches that fire, a Block ended from a Watch while it keeps the lock) are calm; half-way the tag
    names `A` while `B` (ended, winding down) still holds the lock. -/
example : calmRun twoEndProg (init twoEndProg) ((List.range 45).map twoEndIn) = true ∧
    lockedBlocks twoEndProg (twoEndRun 20) = [6, 1] ∧ activeBlocks twoEndProg (twoEndRun 20) = [1] ∧
    (twoEndRun 20).blockTag = some "A" := by decide +kernel

/-- …and the theorem applies to it: the tag is right after the whole run. -/
example : TagOk twoEndProg (twoEndRun 45) :=
  tag_after_calm_run twoEndProg (by decide +kernel) _ (by decide +kernel)

/-! ## End block / End blocks -/

/-- **The clause at full strength**: `End block`, executed in any reachable state, ends the innermost active
    block. -/
def C05_endblock_full : Prop :=
  ∀ (p : Prog) (s : St), ProgWF p = true → Reachable p s →
    ∀ a rest, activeBlocks p s = a :: rest → ((endBlockStep p s).rt a).blockEnded = true

/-- Witness 2 on the model: after 20 ticks `B` is ended (by the first Watch's End block) but still holds the
    lock while its Wait runs, the innermost active block is `A`; the second Watch's End block (completed at tick
    21) re-ends `B`, and 20 ticks later `A` is still not ended. -/
theorem C05_endblock_witness :
    ProgWF twoEndProg = true ∧
    lockedBlocks twoEndProg (twoEndRun 20) = [6, 1] ∧ ((twoEndRun 20).rt 6).blockEnded = true ∧
    activeBlocks twoEndProg (twoEndRun 20) = [1] ∧
    ((twoEndRun 20).rt 5).completed = false ∧ ((twoEndRun 21).rt 5).completed = true ∧
    ((twoEndRun 41).rt 1).blockEnded = false ∧ activeBlocks twoEndProg (twoEndRun 41) = [1] := by
  decide +kernel

/-- **The full clause is false of the code as it is.** -/
theorem C05_endblock_counterexample : ¬ C05_endblock_full := by
  intro h
  have := h twoEndProg (twoEndRun 20) (by decide +kernel) (reachable_runTicks _ _) 1 [] (by decide +kernel)
  revert this
  decide +kernel

/-- the first locked block is not ended (so it is the innermost active one) -/
def headActive (p : Prog) (s : St) : Bool :=
  match lockedBlocks p s with
  | old :: _ => !(s.rt old).blockEnded
  | [] => true

/-- **End block, when the first locked block is still active**, ends exactly the innermost active block
    `a` (every other active block is an ancestor of `a`): `a` gets `block_ended`, no other node's flag
    changes, the active blocks that remain are exactly the others, exactly the interrupts rooted inside `a`
    are unregistered, no lock moves; and if the block enclosing `a` is not an ended one, the Block tag names
    the next active block (empty when none). -/
theorem C05_endblock_partial (p : Prog) (s : St) (hwf : ProgWF p = true) (hch : Chain p s)
    (a : Nat) (rest : List Nat) (ha : activeBlocks p s = a :: rest) (hh : headActive p s = true) :
    let s' := endBlockStep p s
    (∀ y ∈ rest, y ∈ ancestors p a) ∧
    (s'.rt a).blockEnded = true ∧
    (∀ k, k ≠ a → (s'.rt k).blockEnded = (s.rt k).blockEnded) ∧
    activeBlocks p s' = rest ∧
    s'.imap = s.imap.filter (fun e => !(descendants p a).contains e.1) ∧
    (∀ k, (s'.rt k).lockAcquired = (s.rt k).lockAcquired) ∧
    ((match lockedBlocks p s with | _ :: b :: _ => (s.rt b).blockEnded | _ => false) = false →
      tagName s'.blockTag = tagName (rest.head?.map (blockName p))) := by
  intro s'
  have hin := active_head_is_innermost p s hwf hch a rest ha
  cases hl : lockedBlocks p s with
  | nil => unfold activeBlocks at ha; rw [hl] at ha; cases ha
  | cons old lrest =>
    unfold headActive at hh
    rw [hl] at hh
    simp only at hh
    have hold : (!(s.rt old).blockEnded) = true := hh
    -- `a` is the first locked block
    have ha' := ha
    unfold activeBlocks at ha'
    rw [hl, List.filter_cons, if_pos hold] at ha'
    have hao : old = a := by injection ha'
    have hrest : lrest.filter (fun b => !(s.rt b).blockEnded) = rest := by injection ha'
    subst hao
    obtain ⟨ht, he, hlk, him⟩ := endBlockStep_cons p s old lrest hl
    have hpw := lockedBlocks_pairwise p s hwf hch
    rw [hl, List.pairwise_cons] at hpw
    have hne : ∀ b ∈ lrest, b ≠ old := by
      intro b hb e
      have := ancestors_lt p hwf old b (hpw.1 b hb)
      omega
    have hact : activeBlocks p s' = rest := by
      unfold activeBlocks
      rw [lockedBlocks_congr p s s' hlk, hl, List.filter_cons]
      have : (!(s'.rt old).blockEnded) = false := by rw [he]; simp
      rw [this]
      simp only [Bool.false_eq_true, if_false]
      rw [← hrest]
      apply List.filter_congr
      intro b hb
      rw [he, if_neg (hne b hb)]
    refine ⟨hin, ?_, ?_, hact, him, hlk, ?_⟩
    · rw [he]; simp
    · intro k hk; rw [he, if_neg hk]
    · intro hex
      rw [ht, ← hrest]
      cases lrest with
      | nil => rfl
      | cons b lr =>
        simp only at hex
        simp only [List.head?_cons, Option.map_some, List.filter_cons, hex, Bool.not_false, if_true]

/-- **"…together with its pending Watches and Alarms", over a whole tick, at full strength**: an interrupt
    rooted inside a block that was registered before the tick in which the block is ended is not registered
    after that tick. -/
def C05_interrupts_full : Prop :=
  ∀ (p : Prog) (s : St) (i : TickIn), ProgWF p = true → Reachable p s →
    ∀ b w, isBlock p b = true → w ∈ descendants p b → (s.rt b).blockEnded = false →
      (((tick p s i).1).rt b).blockEnded = true → w ∈ s.imap.map (·.1) → w ∉ ((tick p s i).1).imap.map (·.1)

/-- Witness 4 on the model: the Alarm inside `B` is registered (generator 2) when the tick starts in which the
    Watch's handler runs `End block`; the step itself removes it (`C05_endblock_partial`), but the tick still runs
    the Alarm's handler from its copy of the table, and that handler — at the entry of `visit_AlarmNode`, finding
    `interrupt_registered` cleared — registers the Alarm again (generator 3).  It stays registered. -/
theorem C05_interrupts_witness :
    ProgWF reregProg = true ∧
    (reregRun 8).imap = [(1, 1), (3, 2)] ∧ ((reregRun 8).rt 2).blockEnded = false ∧
    ((reregRun 9).rt 2).blockEnded = true ∧ (reregRun 9).imap = [(1, 1), (3, 3)] ∧
    (reregRun 30).imap = [(1, 1), (3, 3)] := by
  decide +kernel

/-- **That clause is false of the code as it is** (what holds is the state change of the End block step, the
    `imap` conjunct of `C05_endblock_partial`, and that a tick keeps only registered generators). -/
theorem C05_interrupts_counterexample : ¬ C05_interrupts_full := by
  intro h
  have := h reregProg (reregRun 8) (reregIn 8) (by decide +kernel) (reachable_runTicks _ _) 2 3
    (by decide +kernel) (by decide +kernel) (by decide +kernel)
  have e : (tick reregProg (reregRun 8) (reregIn 8)).1 = reregRun 9 := by
    unfold reregRun runTicks
    rw [List.range_succ, List.map_append, List.foldl_append]
    rfl
  rw [e] at this
  revert this
  decide +kernel

/-- **End block with no locked block** changes nothing (it just completes). -/
theorem endBlock_without_block (p : Prog) (s : St) (hl : lockedBlocks p s = []) :
    endBlockStep p s = s := endBlockStep_nil p s hl

/-- **End blocks** ends every locked (hence every active) block, un-ends none, clears the Block tag, moves no
    lock — so afterwards no block is active. -/
theorem endBlocks_ends_all (p : Prog) (s : St) :
    let s' := endBlocksStep p s
    s'.blockTag = none ∧
    (∀ b, b ∈ lockedBlocks p s → (s'.rt b).blockEnded = true) ∧
    (∀ k, (s.rt k).blockEnded = true → (s'.rt k).blockEnded = true) ∧
    (∀ k, (s'.rt k).lockAcquired = (s.rt k).lockAcquired) ∧
    activeBlocks p s' = [] := by
  intro s'
  obtain ⟨ht, he, hlk⟩ := endBlocksStep_effect p s
  refine ⟨ht, ?_, ?_, hlk, ?_⟩
  · intro b hb; rw [he]; simp [hb]
  · intro k hk; rw [he, hk]; rfl
  · unfold activeBlocks
    rw [lockedBlocks_congr p s s' hlk, List.filter_eq_nil_iff]
    intro b hb
    rw [he]; simp [hb]

/-- the hypotheses of `C05_endblock_partial` are met after 4 ticks of `demo`, and End block then leaves `[A]` -/
example : headActive demo (demoRun 4) = true ∧ activeBlocks demo (demoRun 4) = [2, 1] ∧
    activeBlocks demo (endBlockStep demo (demoRun 4)) = [1] := by decide +kernel
/-- End blocks in that state leaves no active block although both keep their locks -/
example : activeBlocks demo (endBlocksStep demo (demoRun 4)) = [] ∧
    lockedBlocks demo (endBlocksStep demo (demoRun 4)) = [2, 1] := by decide +kernel

/-! ## instructions after a block start only after the block has ended -/

/-- The `completed` flag of a Block flips to true only in a micro-step that found `block_ended` set. -/
theorem block_completes_only_when_ended (p : Prog) (s : St) (n pc : Nat) (name : String) (below : List Frame)
    (hk : (node p n).kind = .block name)
    (hnc : (s.rt n).completed = false)
    (hc : ((outState (stepBody p s n pc below)).rt n).completed = true) :
    (s.rt n).blockEnded = true := block_completed_needs_ended p s n pc name below hk hnc hc

/-- The visit of a Block returns to the parent's loop (the body frame is popped) only through a step that
    leaves the Block completed (`pc` 0, 1, 3 are the Block body's entry, acquire and await points — the only
    ones the machine creates). -/
theorem block_visit_returns_completed (p : Prog) (s s' : St) (n pc : Nat) (name : String) (below : List Frame)
    (sig : Signal) (hk : (node p n).kind = .block name) (hpc : pc = 0 ∨ pc = 1 ∨ pc = 3)
    (h : stepBody p s n pc below = .next s' [] sig) : (s'.rt n).completed = true := by
  unfold stepBody at h
  simp only [hk] at h
  rcases hpc with e | e | e <;> subst e <;> simp only at h
  · by_cases hc : (getRt s n).completed = true
    · rw [if_pos hc] at h
      injection h with h1 h2 h3
      subst h1
      simp only [rt_setRt, if_true]
      exact hc
    · rw [if_neg hc] at h
      by_cases he : (getRt s n).blockEnded = true
      · rw [if_pos he] at h
        injection h with h1 h2 h3
        subst h1
        simp
      · rw [if_neg he] at h
        injection h with h1 h2 h3
        cases h2
  · by_cases hl : (getRt s n).lockAcquired = true
    · rw [if_pos hl] at h
      injection h with h1 h2 h3
      cases h2
    · rw [if_neg hl] at h
      split at h
      · injection h with h1 h2 h3
        cases h2
      · injection h with h1 h2 h3
        cases h2
  · by_cases he : (getRt s n).blockEnded = true
    · rw [if_pos he] at h
      injection h with h1 h2 h3
      subst h1
      simp
    · rw [if_neg he] at h
      injection h with h1 h2 h3
      cases h2

/-- **Over every schedule** (ticks with any clocks and tag values, cancel / force requests, completion reports
    for command nodes) from the start of any method: a Block that is completed has been ended — so the loop of
    its parent, which enters the next line only after the Block's visit has returned, starts the lines after
    the Block only after the Block ended. -/
theorem completed_block_is_ended (p : Prog) (reqs : List Req) (k : Nat) (hb : isBlock p k = true)
    (hc : ((final p reqs).rt k).completed = true) : ((final p reqs).rt k).blockEnded = true :=
  blockDone_final p reqs k hb hc

/-- non-vacuity: in `demo` the inner block is completed (and ended) after 7 ticks, the outer one never is -/
example : ((demoRun 7).rt 2).completed = true ∧ ((demoRun 7).rt 2).blockEnded = true ∧
    ((demoRun 30).rt 1).completed = false := by decide +kernel

end OPM.C05
