import OPM.Model.Interp
import OPM.Lemmas.Interp
import OPM.Lemmas.InterpLock
/-!
# C05 Blocks nest and end correctly; Block tag names the active block

"Active blocks always form a single nested chain, and the Block tag names the innermost active
block (empty when none). 'End block' ends exactly the innermost active block together with its
pending Watches and Alarms, 'End blocks' ends all active blocks, and instructions after a block
start only after that block has ended."

Model: `OPM.Model.Interp` (frame-stack machine of the interpreter).  Theorems are about every
micro-step of every generator, for every program (including the pathological nestings), hence about
every tick and every reachable state, with no bound on program size or run length.
-/
namespace OPM.C05
open OPM.Interp

/-! ## membership in `get_locked_blocks()` -/

theorem mem_insertDesc (p : Prog) (x y : Nat) (l : List Nat) :
    y ∈ insertDesc p x l ↔ y = x ∨ y ∈ l := by
  induction l with
  | nil => simp [insertDesc]
  | cons z zs ih =>
    simp only [insertDesc]
    split
    · simp
    · simp only [List.mem_cons, ih]
      constructor
      · rintro (h | h | h) <;> simp [h]
      · rintro (h | h | h) <;> simp [h]

theorem mem_foldl_insertDesc (p : Prog) (bs acc : List Nat) (y : Nat) :
    y ∈ bs.foldl (fun acc x => insertDesc p x acc) acc ↔ y ∈ bs ∨ y ∈ acc := by
  induction bs generalizing acc with
  | nil => simp
  | cons b bs ih =>
    simp only [List.foldl, ih, mem_insertDesc, List.mem_cons]
    constructor
    · rintro (h | h | h) <;> simp [h]
    · rintro ((h | h) | h) <;> simp [h]

/-- `b` is returned by `get_locked_blocks()` iff it is a Block of the method that holds the lock. -/
theorem mem_lockedBlocks (p : Prog) (s : St) (b : Nat) :
    b ∈ lockedBlocks p s ↔
      b < p.size ∧ (node p b).inProgram = true ∧ isBlock p b = true ∧ (s.rt b).lockAcquired = true := by
  unfold lockedBlocks
  simp only [mem_foldl_insertDesc, List.mem_filter, List.mem_range, Bool.and_eq_true, getRt_eq]
  constructor
  · rintro (⟨h1, ⟨h2, h3⟩, h4⟩ | h)
    · exact ⟨h1, h2, h3, h4⟩
    · cases h
  · rintro ⟨h1, h2, h3, h4⟩
    exact Or.inl ⟨h1, ⟨h2, h3⟩, h4⟩

/-! ## the chain invariant -/

/-- Any two locked method blocks are nested in each other. -/
def Chain (p : Prog) (s : St) : Prop :=
  ∀ a b, a ∈ lockedBlocks p s → b ∈ lockedBlocks p s →
    a = b ∨ a ∈ ancestors p b ∨ b ∈ ancestors p a

theorem chain_of_lock_step (p : Prog) (s s' : St) (n : Nat)
    (hstep : ∀ k, (s'.rt k).lockAcquired = true →
      (s.rt k).lockAcquired = true ∨ (k = n ∧ AcqOk p s k))
    (h : Chain p s) : Chain p s' := by
  intro a b ha hb
  rw [mem_lockedBlocks] at ha hb
  have old : ∀ k, k < p.size → (node p k).inProgram = true → isBlock p k = true →
      (s.rt k).lockAcquired = true → k ∈ lockedBlocks p s := by
    intro k h1 h2 h3 h4; exact (mem_lockedBlocks p s k).mpr ⟨h1, h2, h3, h4⟩
  rcases hstep a ha.2.2.2 with la | ⟨ea, _, acqa⟩ <;> rcases hstep b hb.2.2.2 with lb | ⟨eb, _, acqb⟩
  · exact h a b (old a ha.1 ha.2.1 ha.2.2.1 la) (old b hb.1 hb.2.1 hb.2.2.1 lb)
  · -- b acquires now: every locked block is an ancestor of b
    right; left
    have := List.all_eq_true.mp acqb a (old a ha.1 ha.2.1 ha.2.2.1 la)
    simpa using this
  · right; right
    have := List.all_eq_true.mp acqa b (old b hb.1 hb.2.1 hb.2.2.1 lb)
    simpa using this
  · left; rw [ea, eb]

/-- Every micro-step of every generator preserves the chain. -/
theorem chain_stepGen (p : Prog) (s : St) (stack : List Frame) (h : Chain p s) :
    Chain p (stepGen p s stack).1 := by
  cases stack with
  | nil => exact h
  | cons f below =>
    apply chain_of_lock_step p s _ (frameNode f) _ h
    intro k hk
    rcases stepGen_lock p s (f :: below) k hk with h1 | ⟨f', hf, e, acq⟩
    · exact Or.inl h1
    · simp only [List.head?, Option.some.injEq] at hf
      subst hf
      exact Or.inr ⟨e, acq⟩

theorem chain_congr (p : Prog) (s s' : St) (hrt : s'.rt = s.rt) (h : Chain p s) : Chain p s' := by
  apply chain_of_lock_step p s s' 0 _ h
  intro k hk; left; rw [hrt] at hk; exact hk

theorem chain_runGen (p : Prog) (fuel : Nat) (s : St) (stack : List Frame) (h : Chain p s) :
    Chain p (runGen p fuel s stack).1 := by
  induction fuel generalizing s stack with
  | zero => exact h
  | succ fuel ih =>
    unfold runGen
    have h1 := chain_stepGen p s stack h
    rcases hs : stepGen p s stack with ⟨s1, stack1, sig⟩
    rw [hs] at h1
    cases sig
    · exact ih s1 stack1 h1
    · exact h1
    · exact h1

theorem chain_runGid (p : Prog) (fuel : Nat) (s : St) (gid : Nat) (h : Chain p s) :
    Chain p (runGid p fuel s gid).1 := by
  unfold runGid
  split
  · exact h
  · rename_i g _
    have h1 := chain_runGen p fuel s g.stack h
    rcases hr : runGen p fuel s g.stack with ⟨s1, stack1, ok⟩
    rw [hr] at h1
    exact chain_congr p s1 _ rfl h1

theorem chain_foldInterrupts (p : Prog) (l : List Nat) (acc : St × Bool) (h : Chain p acc.1) :
    Chain p (l.foldl (fun (acc : St × Bool) gid =>
      let r := runGid p microFuel { acc.1 with inInterrupt := true } gid
      ({ r.1 with inInterrupt := false }, acc.2 && r.2)) acc).1 := by
  induction l generalizing acc with
  | nil => exact h
  | cons g l ih =>
    simp only [List.foldl]
    apply ih
    apply chain_congr p _ _ rfl
    exact chain_runGid p microFuel _ g (chain_congr p acc.1 _ rfl h)

/-- A whole interpreter tick preserves the chain. -/
theorem chain_tick (p : Prog) (s : St) (i : TickIn) (h : Chain p s) : Chain p (tick p s i).1 := by
  unfold tick
  simp only []
  apply chain_congr p _ _ rfl
  apply chain_foldInterrupts
  apply chain_runGid
  exact chain_congr p s _ rfl h

theorem chain_init (p : Prog) : Chain p (init p) := by
  intro a b ha _
  rw [mem_lockedBlocks] at ha
  simp [init] at ha

theorem chain_setRt_keep (p : Prog) (s : St) (n : Nat) (f : NodeRt → NodeRt)
    (hf : ∀ r, (f r).lockAcquired = r.lockAcquired) (h : Chain p s) : Chain p (setRt s n f) := by
  apply chain_of_lock_step p s _ 0 _ h
  intro k hk; left
  simp only [rt_setRt] at hk
  split at hk
  · rename_i e; subst e; rw [hf] at hk; exact hk
  · exact hk

/-- Requests between ticks (cancel, force, command completion) preserve the chain. -/
theorem chain_cancel (p : Prog) (s s' : St) (n : Nat) (hc : cancel p s n = some s') (h : Chain p s) :
    Chain p s' := by
  unfold cancel at hc
  split at hc
  · cases hc; exact chain_setRt_keep p s n _ (fun _ => rfl) h
  · cases hc

theorem chain_force (p : Prog) (s s' : St) (n : Nat) (hc : force p s n = some s') (h : Chain p s) :
    Chain p s' := by
  unfold force at hc
  split at hc
  · cases hc; exact chain_setRt_keep p s n _ (fun _ => rfl) h
  · cases hc

theorem chain_completeCmd (p : Prog) (s : St) (n : Nat) (h : Chain p s) : Chain p (completeCmd s n) := by
  unfold completeCmd
  split
  · exact h
  · exact chain_setRt_keep p s n _ (fun _ => rfl) h

/-- States reachable by any schedule of ticks (any clocks, any tag values) and requests. -/
inductive Reachable (p : Prog) : St → Prop
  | init : Reachable p (init p)
  | tick (s : St) (i : TickIn) : Reachable p s → Reachable p (tick p s i).1
  | cancel (s s' : St) (n : Nat) : Reachable p s → cancel p s n = some s' → Reachable p s'
  | force (s s' : St) (n : Nat) : Reachable p s → force p s n = some s' → Reachable p s'
  | complete (s : St) (n : Nat) : Reachable p s → Reachable p (completeCmd s n)

/-- **C05, first clause.** In every reachable state of every method, under every schedule, the
    locked (active) method blocks form a single nested chain. -/
theorem active_blocks_form_chain (p : Prog) (s : St) (hr : Reachable p s) : Chain p s := by
  induction hr with
  | init => exact chain_init p
  | tick s i _ ih => exact chain_tick p s i ih
  | cancel s s' n _ hc ih => exact chain_cancel p s s' n hc ih
  | force s s' n _ hc ih => exact chain_force p s s' n hc ih
  | complete s n _ ih => exact chain_completeCmd p s n ih

/-! ## acquiring -/

/-- A block takes the lock only when every locked method block is one of its ancestors, and then the
    Block tag names it.  (`try_acquire_lock`, step of the `Block` body at its acquire point.) -/
theorem acquire_step (p : Prog) (s : St) (n : Nat) (name : String) (below : List Frame)
    (hk : (node p n).kind = .block name) (hnl : (s.rt n).lockAcquired = false)
    (hall : (lockedBlocks p s).all (fun b => (ancestors p n).contains b) = true) :
    ∃ s' top, stepBody p s n 1 below = .next s' top .cont ∧
      (s'.rt n).lockAcquired = true ∧ s'.blockTag = some name ∧ Event.blockStart name ∈ s'.events := by
  unfold stepBody
  simp only [hk, getRt_eq, hnl, hall]
  refine ⟨_, _, rfl, ?_, rfl, ?_⟩
  · simp
  · simp [emit]

/-- …and if some locked method block is not an ancestor, the block waits (EndTick) and nothing changes. -/
theorem acquire_blocked (p : Prog) (s : St) (n : Nat) (name : String) (below : List Frame)
    (hk : (node p n).kind = .block name) (hnl : (s.rt n).lockAcquired = false)
    (hall : (lockedBlocks p s).all (fun b => (ancestors p n).contains b) = false) :
    stepBody p s n 1 below = .next s [.body n 1] .endTick := by
  unfold stepBody
  simp only [hk, getRt_eq, hnl, hall]
  rfl

/-! ## End block / End blocks -/

/-- **End block** ends exactly the first (innermost) locked block: it gets `block_ended`, no other
    node's `block_ended` changes, the Block tag becomes the next outer locked block's name (none if
    there is none), and exactly the interrupts rooted inside the ended block are unregistered. -/
theorem endBlock_ends_innermost (p : Prog) (s : St) (old : Nat) (rest : List Nat)
    (hl : lockedBlocks p s = old :: rest) :
    let s' := endBlockStep p s
    (s'.rt old).blockEnded = true ∧
    (∀ k, k ≠ old → (s'.rt k).blockEnded = (s.rt k).blockEnded) ∧
    s'.blockTag = rest.head?.map (blockName p) ∧
    s'.imap = s.imap.filter (fun e => !(descendants p old).contains e.1) ∧
    (∀ k, (s'.rt k).lockAcquired = (s.rt k).lockAcquired) := by
  simp only [endBlockStep, hl]
  refine ⟨?_, ?_, ?_, ?_, ?_⟩
  · unfold endOneBlock
    simp only [rt_emit]
    rw [proj_abortBlockInterrupts (·.blockEnded) (fun _ _ => rfl) (fun _ _ => rfl)]
    simp
  · intro k hk
    unfold endOneBlock
    simp only [rt_emit]
    rw [proj_abortBlockInterrupts (·.blockEnded) (fun _ _ => rfl) (fun _ _ => rfl)]
    simp [hk]
  · unfold endOneBlock
    simp only [emit]
    unfold abortBlockInterrupts
    have : ∀ (l : List (Nat × Nat)) (s : St),
        (l.foldl (fun s e =>
          if (descendants p old).contains e.1 then
            unregisterInterrupt (setRt s e.1 (fun r => { r with childrenComplete := true })) e.1
          else s) s).blockTag = s.blockTag := by
      intro l
      induction l with
      | nil => intro s; rfl
      | cons x l ih => intro s; simp only [List.foldl]; rw [ih]; split <;> rfl
    rw [this]; rfl
  · unfold endOneBlock
    simp only [emit]
    rw [imap_abort]; rfl
  · intro k
    exact lock_endOneBlock p _ old _ k

/-- **End block with no locked block** changes nothing (it just completes). -/
theorem endBlock_without_block (p : Prog) (s : St) (hl : lockedBlocks p s = []) :
    endBlockStep p s = s := by
  simp [endBlockStep, hl]

/-- **End blocks** ends every locked block and clears the Block tag. -/
theorem endBlocks_ends_all (p : Prog) (s : St) :
    let s' := endBlocksStep p s
    s'.blockTag = none ∧
    (∀ b, b ∈ lockedBlocks p s → (s'.rt b).blockEnded = true) ∧
    (∀ k, (s.rt k).blockEnded = true → (s'.rt k).blockEnded = true) := by
  simp only [endBlocksStep]
  refine ⟨?_, ?_, ?_⟩
  · first | rfl | trivial
  · -- every element of the list is ended by its own fold step and never un-ended afterwards
    have keep : ∀ (s : St) (old : Nat) (nm : String) (k : Nat),
        (s.rt k).blockEnded = true → ((endOneBlock p s old nm).rt k).blockEnded = true := by
      intro s old nm k hk
      unfold endOneBlock
      simp only [rt_emit]
      rw [proj_abortBlockInterrupts (·.blockEnded) (fun _ _ => rfl) (fun _ _ => rfl)]
      simp only [rt_setRt]; split
      · rfl
      · exact hk
    have sets : ∀ (s : St) (old : Nat) (nm : String), ((endOneBlock p s old nm).rt old).blockEnded = true := by
      intro s old nm
      unfold endOneBlock
      simp only [rt_emit]
      rw [proj_abortBlockInterrupts (·.blockEnded) (fun _ _ => rfl) (fun _ _ => rfl)]
      simp
    have key : ∀ (l : List (Nat × Nat)) (g : Nat × Nat → String) (s : St) (b : Nat),
        ((s.rt b).blockEnded = true ∨ b ∈ l.map (·.1)) →
        ((l.foldl (fun s x => endOneBlock p s x.1 (g x)) s).rt b).blockEnded = true := by
      intro l g
      induction l with
      | nil => intro s b h; rcases h with h | h; exact h; cases h
      | cons x l ih =>
        intro s b h
        simp only [List.foldl]
        apply ih
        rcases h with h | h
        · exact Or.inl (keep _ _ _ _ h)
        · simp only [List.map_cons, List.mem_cons] at h
          rcases h with h | h
          · left; rw [h]; exact sets _ _ _
          · exact Or.inr h
    intro b hb
    apply key _ (fun x => if x.2 + 1 < (lockedBlocks p s).length - 1 then
      ((lockedBlocks p s)[x.2 + 1]?.map (blockName p)).getD "" else "")
    right
    have : List.map (fun x : Nat × Nat => x.1) (lockedBlocks p s).zipIdx = lockedBlocks p s :=
      List.zipIdx_map_fst 0 _
    rw [this]; exact hb
  · intro k hk
    have key : ∀ (l : List (Nat × Nat)) (g : Nat × Nat → String) (s : St),
        (s.rt k).blockEnded = true →
        ((l.foldl (fun s x => endOneBlock p s x.1 (g x)) s).rt k).blockEnded = true := by
      intro l g
      induction l with
      | nil => intro s h; exact h
      | cons x l ih =>
        intro s h
        simp only [List.foldl]
        apply ih
        unfold endOneBlock
        simp only [rt_emit]
        rw [proj_abortBlockInterrupts (·.blockEnded) (fun _ _ => rfl) (fun _ _ => rfl)]
        simp only [rt_setRt]; split
        · rfl
        · exact h
    exact key _ (fun x => if x.2 + 1 < (lockedBlocks p s).length - 1 then
      ((lockedBlocks p s)[x.2 + 1]?.map (blockName p)).getD "" else "") s hk

/-! ## a block completes only after it has been ended -/

/-- The `completed` flag of a Block flips to true only in a micro-step that found `block_ended`
    set (so its successor, which the parent's loop enters only after the block's visit returned,
    starts only after the block has ended). -/
theorem block_completes_only_when_ended (p : Prog) (s : St) (n pc : Nat) (name : String) (below : List Frame)
    (hk : (node p n).kind = .block name)
    (hnc : (s.rt n).completed = false)
    (hc : ((outState (stepBody p s n pc below)).rt n).completed = true) :
    (s.rt n).blockEnded = true := by
  by_cases hbe : (s.rt n).blockEnded = true
  · exact hbe
  · exfalso
    unfold stepBody at hc
    simp only [hk, getRt_eq, hnc, hbe] at hc
    repeat' split at hc
    all_goals (try simp only [outState, rt_setRt, rt_emit, rt_finishNode] at hc)
    all_goals simp_all

/-! ## non-vacuity: a concrete run with two nested blocks -/

def demo : Prog := #[
  { kind := .program, parent := none, children := [1], threshold := none, keyPath := [0] },
  { kind := .block "A", parent := some 0, children := [2], threshold := none, keyPath := [0, 1] },
  { kind := .block "B", parent := some 1, children := [3], threshold := none, keyPath := [0, 1, 2] },
  { kind := .endBlock, parent := some 2, children := [], threshold := none, keyPath := [0, 1, 2, 3] }]

def demoRun (k : Nat) : St :=
  (List.range k).foldl (fun s i => (tick demo s ⟨(i : Nat), (i : Nat), (i : Nat), []⟩).1) (init demo)

/-- after 4 ticks both blocks are locked (the hypotheses of the chain theorem are met non-trivially) -/
example : lockedBlocks demo (demoRun 4) = [2, 1] ∧ (demoRun 4).blockTag = some "B" := by decide +kernel
/-- End block then ends the inner one and the tag names the outer one -/
example : ((demoRun 5).rt 2).blockEnded = true ∧ ((demoRun 5).rt 1).blockEnded = false ∧
    (demoRun 5).blockTag = some "A" ∧ lockedBlocks demo (demoRun 6) = [1] := by decide +kernel

end OPM.C05
