import OPM.Lemmas.CmdMgrFrame
namespace OPM.CmdMgr

/-! ### lists of objects -/

theorem serial_inj {objs : List Cmd} (h : objs.map (·.serial) = List.range objs.length)
    {o o' : Cmd} (ho : o ∈ objs) (ho' : o' ∈ objs) (e : o.serial = o'.serial) : o = o' := by
  have hn : (objs.map (·.serial)).Nodup := by rw [h]; exact List.nodup_range
  exact List.inj_on_of_nodup_map hn ho ho' e

theorem serial_lt {objs : List Cmd} (h : objs.map (·.serial) = List.range objs.length)
    {o : Cmd} (ho : o ∈ objs) : o.serial < objs.length := by
  have : o.serial ∈ objs.map (·.serial) := List.mem_map_of_mem ho
  rw [h] at this
  simpa using this

theorem traceOf_append (a b : List Ev) (ser : Nat) : traceOf (a ++ b) ser = traceOf a ser ++ traceOf b ser := by
  simp [traceOf]

theorem getObj_of_mem {objs : List Cmd} (h : objs.map (·.serial) = List.range objs.length)
    {o : Cmd} (ho : o ∈ objs) : getObj objs o.serial = some o := by
  unfold getObj
  induction objs using List.reverseRecOn with
  | nil => cases ho
  | append_singleton l a ih => sorry

end OPM.CmdMgr
