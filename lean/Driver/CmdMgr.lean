import Driver.Loop
import OPM.Model.Wire
import OPM.Model.CmdMgr
import OPM.Model.CmdMgrSpec
namespace Driver.CmdMgr
open OPM OPM.Wire OPM.CmdMgr

/-!
ops (tab separated), see `harness/cmdmgr.py`:
  `cfg <durs> <fails> <overlaps> <variant>`  variant = three digits: fixCancel fixInstr fixStop (two digits: fixStop off)
  `req <k> [bad]` · `user start|stop|restart` · `tick` · `cancel <id>` · `force <id>` · `sim <j>` · `pause 0|1`
answer: `<reply> | ev=… ex=… qu=… in=… tr=… st=… sys=… run=… sim=… rs=… stop=…`
-/

structure DState where
  s : State := {}
  seenEv : Nat := 0
  seenStop : Nat := 0

def join (sep : String) (l : List String) : String := if l.isEmpty then "-" else sep.intercalate l

def showEv : Ev → String
  | .init s => s!"i{s}"
  | .exec s n it => s!"x{s}.{it}k{n}"
  | .final s => s!"f{s}"

def showReq (r : Req) : String :=
  match r.name with
  | .uod _ => toString r.id
  | .start => "start"
  | .stop => "stop"
  | .restart => "restart"

def flag (b : Bool) (c : String) : String := if b then c else ""

def showCmd (c : Cmd) : String :=
  s!"{c.name}:{c.serial}:{c.owner}:{c.iters}" ++ flag c.initialized "i" ++ flag c.cancelled "c" ++
    flag c.complete "d" ++ flag c.finalized "f"

def showMark : Mark → String
  | .created => "C" | .started => "S" | .cmdSet => "U" | .completed => "D"
  | .failed => "F" | .cancelled => "X" | .forced => "O"

/-- Canonical form shared with the harness: states up to the first conclusive one; `??` when states follow it. -/
def cutMarks : List (Mark × Bool) → List (Mark × Bool) × Bool
  | [] => ([], false)
  | m :: rest => if m.1.conclusive then ([m], !rest.isEmpty) else
      let (l, b) := cutMarks rest
      (m :: l, b)

def showTrack (t : Track) : String :=
  let fl := flag t.nCancelled "c" ++ flag t.nForced "f" ++ flag t.nCompleted "d" ++ flag t.nFailed "x"
  let (marks, more) := cutMarks t.marks
  let item := if more then "??" else if t.marks.isEmpty then "none" else
    match t.item with
    | none => "!!"
    | some (c, f) => (if c then "C" else "-") ++ (if f then "F" else "-")
  s!"{t.id}:{String.join (marks.map (fun p => showMark p.1))}:{if fl.isEmpty then "-" else fl}:{item}"

def showTracks (l : List Track) : String := join ";" (l.map showTrack)

def insertSorted (c : Nat × String) : List (Nat × String) → List (Nat × String)
  | [] => [c]
  | d :: rest => if c.1 ≤ d.1 then c :: d :: rest else d :: insertSorted c rest

def obs (d : DState) : DState × String :=
  let s := d.s
  let ev := join "," ((s.events.drop d.seenEv).map showEv)
  -- `uod.command_instances` by name: initialised instances and (`k:-:owner:0`) never initialised ones
  let live := ((s.objs.filter (·.inMap)).map (fun c => (c.name, showCmd c)) ++
      s.stale.map (fun e => (e.1, s!"{e.1}:-:{e.2}:0"))).foldr insertSorted []
  let stops := s.stopLog.drop d.seenStop
  let sys := match s.sys with | .running => "R" | .stopped => "S" | .restarting => "T"
  let run := match s.runId with | none => "-" | some n => toString n
  let txt := s!"ev={ev} ex={join "," (s.executing.map showReq)} qu={join "," (s.queue.map showReq)} " ++
    s!"in={join "," (live.map (·.2))} tr={showTracks s.track} " ++
    s!"st={showBool s.started}{showBool s.stopping}{showBool s.tracking}{showBool s.paused} sys={sys} run={run} " ++
    s!"sim={join "," ((List.range 8).filter (s.simulated.contains ·) |>.map toString)} rs={s.resets} " ++
    s!"stop={if stops.isEmpty then "none" else "/".intercalate (stops.map showTracks)}"
  ({ d with seenEv := s.events.length, seenStop := s.stopLog.length }, txt)

def showReply : Reply → String
  | .ok => "ok" | .err => "err:ValueError" | .unmodelled => "unmodelled" | .id n => s!"id={n}" | .raised => "err"

/-- A failing iteration `f ≥ 100` stands for "iteration `f - 100`, after `set_complete()`". -/
def parseSpecs (durs fails : String) : Option (List CmdSpec) := do
  let ds ← natList durs
  let fs ← intList fails
  if ds.length != fs.length then none
  else some ((ds.zip fs).map (fun p => ⟨p.1, if p.2 < 0 then none else some (p.2.toNat % 100)⟩))

/-- Indices of the commands that complete before they raise. -/
def parseCompleteFirst (fails : String) : List Nat :=
  match intList fails with
  | some fs => (List.range fs.length).filter (fun k => fs.getD k 0 ≥ 100)
  | none => []

def parseOverlaps (t : String) : Option (List (List Nat)) :=
  if t = "-" then some [] else (t.splitOn ";").mapM natList

def parseName : String → Option Name
  | "start" => some .start | "stop" => some .stop | "restart" => some .restart | _ => none

def apply (d : DState) (op : Op) : DState × String :=
  let (s', r) := step d.s op
  if r = .unmodelled then (d, "unmodelled")
  else
    let (d', o) := obs { d with s := s' }
    (d', showReply r ++ " | " ++ o)

def step (d : DState) (line : String) : DState × String :=
  match fields line with
  | ["cfg", durs, fails, ovl, variant] =>
    match parseSpecs durs fails, parseOverlaps ovl, variant.toList with
    | some cs, some os, [a, b] =>
      if (a = '0' || a = '1') && (b = '0' || b = '1') then
        ({ s := { cfg := { cmds := cs, overlaps := os, fixCancel := a = '1', fixInstr := b = '1', fixStop := false,
                           completeFirst := parseCompleteFirst fails } } }, "ok")
      else (d, "bad-op")
    | some cs, some os, [a, b, c] =>
      if (a = '0' || a = '1') && (b = '0' || b = '1') && (c = '0' || c = '1') then
        ({ s := { cfg := { cmds := cs, overlaps := os, fixCancel := a = '1', fixInstr := b = '1', fixStop := c = '1',
                           completeFirst := parseCompleteFirst fails } } }, "ok")
      else (d, "bad-op")
    | _, _, _ => (d, "bad-op")
  | ["req", k] => match k.toNat? with | some k => apply d (.req k) | none => (d, "bad-op")
  | ["req", k, "bad"] => match k.toNat? with | some k => apply d (.req k true) | none => (d, "bad-op")
  | ["user", n] => match parseName n with | some n => apply d (.user n) | none => (d, "bad-op")
  | ["tick"] => apply d .tick
  | ["cancel", i] => match i.toNat? with | some i => apply d (.cancel i) | none => (d, "bad-op")
  | ["force", i] => match i.toNat? with | some i => apply d (.force i) | none => (d, "bad-op")
  | ["pause", b] => match parseBool b with | some b => apply d (.pause b) | none => (d, "bad-op")
  | ["chk"] =>
    -- evaluates the invariants of `OPM.Model.CmdMgrSpec` on the current state and on the next tick
    let s := d.s
    (d, s!"chk objs={showBool (objsOK s)} ids={showBool (idsOK s)} tracks={showBool (tracksOK s)} " ++
        s!"life={showBool (lifeOK s)} trk={showBool (s.track.all (trackOK s))} good={showBool (goodB s)} " ++
        s!"excl={showBool (exclusive s.cfg (tickEvents s))} goodNext={showBool (goodB (tick s).1)}")
  | ["sim", j] => match j.toNat? with | some j => apply d (.sim j) | none => (d, "bad-op")
  | _ => (d, "bad-op")

end Driver.CmdMgr

def main : IO Unit := Driver.runLoop ({} : Driver.CmdMgr.DState) Driver.CmdMgr.step
