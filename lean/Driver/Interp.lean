import Driver.Loop
import OPM.Model.Wire
import OPM.Model.Interp
namespace Driver.Interp
open OPM OPM.Wire OPM.Interp

structure DS where
  prog : Prog := #[]
  st : Option St := none

def parseRat (s : String) : Option Rat :=
  match s.splitOn "/" with
  | [n, d] => match n.toInt?, d.toNat? with
    | some n, some d => if d = 0 then none else some (mkRat n d)
    | _, _ => none
  | _ => none

def parseOp : String → Option Op
  | "lt" => some .lt | "le" => some .le | "eq" => some .eq
  | "ne" => some .ne | "gt" => some .gt | "ge" => some .ge | _ => none

def parseKind (s : String) : Option Kind :=
  match s.splitOn " " with
  | ["program"] => some .program
  | ["injected"] => some .injected
  | ["blank", b] => (parseBool b).map .blank
  | ["mark", n] => (decodeStr n).map .mark
  | ["simple", n] => (decodeStr n).map .simple
  | ["base", f, u] => do let f ← parseRat f; let u ← decodeStr u; pure (.base f u)
  | ["failing", l] => some (.failing l)
  | ["macro", n] => (decodeStr n).map .macro
  | ["call", n] => (decodeStr n).map .call
  | ["block", n] => (decodeStr n).map .block
  | ["endblock"] => some .endBlock
  | ["endblocks"] => some .endBlocks
  | ["wait", d] => (parseRat d).map .wait
  | ["watch", t, o, v] => do let t ← t.toNat?; let o ← parseOp o; let v ← v.toInt?; pure (.watch ⟨t, o, v⟩)
  | ["alarm", t, o, v] => do let t ← t.toNat?; let o ← parseOp o; let v ← v.toInt?; pure (.alarm ⟨t, o, v⟩)
  | ["cmd", n, f] => do let n ← decodeStr n; let f ← parseBool f; pure (.cmd n f)
  | _ => none

def addNode (prog : Prog) (idx : Nat) (parent : Int) (k : Kind) (thr : Option Rat) (kp : List Nat) (inProg : Bool) : Option Prog :=
  if idx ≠ prog.size then none else
  let par : Option Nat := if parent < 0 then none else some parent.toNat
  let prog := prog.push { kind := k, parent := par, children := [], threshold := thr, keyPath := kp, inProgram := inProg }
  match par with
  | none => some prog
  | some q => if q < idx then some (prog.modify q (fun nd => { nd with children := nd.children ++ [idx] })) else none

def bit (b : Bool) : String := if b then "1" else "0"

def showFlags (r : NodeRt) : String :=
  bit r.started ++ bit r.completed ++ bit r.failed ++ bit r.cancelled ++ bit r.forced ++
  bit r.childrenComplete ++ bit r.interruptRegistered ++ bit r.activated ++ bit r.blockEnded ++
  bit r.lockAcquired ++ bit r.isRegistered ++
  s!":{r.childIndex}:{r.runCount}:{r.runStarted}:{r.runCompleted}"

def showEvent : Event → Option String
  | .blockStart n => some ("bs:" ++ n)
  | .blockEnd o n => some ("be:" ++ o ++ ">" ++ n)
  | .scopeStart n => some s!"ss:{n}"
  | .scopeActivate n => some s!"sa:{n}"
  | .scopeEnd n => some s!"se:{n}"
  | .methodEnd => some "me"
  | .complete n => some s!"tc:{n}"
  | .effect n w => if w.startsWith "cmd:" then some s!"cmd:{n}:{(w.drop 4).toString}" else none
  | _ => none

def observe (size : Nat) (s : St) : String :=
  let err := if s.lastError.isSome then "1" else "0"
  let blk := match s.blockTag with | none => "-" | some b => if b = "" then "-" else encodeStr b
  "|".intercalate [
    "err=" ++ err,
    "marks=" ++ encodeStr ("; ".intercalate s.marks),
    "block=" ++ blk,
    "base=" ++ encodeStr s.baseUnit,
    "imap=" ++ ",".intercalate (s.imap.map (fun e => toString e.1)),
    "macros=" ++ ",".intercalate (s.macros.map (fun e => encodeStr e.1 ++ "=" ++ toString e.2)),
    "ev=" ++ " ".intercalate (s.events.reverse.filterMap showEvent),
    "fl=" ++ " ".intercalate ((List.range size).map (fun k => showFlags (s.rt k)))]

def ensure (d : DS) : St := match d.st with | some s => s | none => init d.prog

def step (d : DS) (line : String) : DS × String :=
  match fields line with
  | ["node", idx, par, kind, thr, kp, inProg] =>
    match idx.toNat?, par.toInt?, parseKind kind, natList kp, parseBool inProg with
    | some idx, some par, some k, some kp, some ip =>
      let thr? : Option (Option Rat) := if thr = "-" then some none else (parseRat thr).map some
      match thr? with
      | none => (d, "bad-op")
      | some thr =>
        match addNode d.prog idx par k thr kp ip with
        | some p => ({ d with prog := p }, "ok")
        | none => (d, "bad-op")
    | _, _, _, _, _ => (d, "bad-op")
  | ["tick", t, sc, bc, tags] =>
    match parseRat t, parseRat sc, parseRat bc, intList tags with
    | some t, some sc, some bc, some tags =>
      let (s, ok) := tick d.prog (ensure d) ⟨t, sc, bc, tags⟩
      let s := compact d.prog.size s
      ({ d with st := some s }, if ok then observe d.prog.size s else "diverged")
    | _, _, _, _ => (d, "bad-op")
  | ["complete", k] =>
    match k.toNat? with
    | some k => ({ d with st := some (completeCmd (ensure d) k) }, "ok")
    | none => (d, "bad-op")
  | ["cancel", k] =>
    match k.toNat? with
    | some k => match cancel d.prog (ensure d) k with
      | some s => ({ d with st := some s }, "ok")
      | none => ({ d with st := some (ensure d) }, "rejected")
    | none => (d, "bad-op")
  | ["force", k] =>
    match k.toNat? with
    | some k => match force d.prog (ensure d) k with
      | some s => ({ d with st := some s }, "ok")
      | none => ({ d with st := some (ensure d) }, "rejected")
    | none => (d, "bad-op")
  | ["inject", k] =>
    match k.toNat? with
    | some k => ({ d with st := some (inject d.prog (ensure d) k) }, "ok")
    | none => (d, "bad-op")
  | _ => (d, "bad-op")

end Driver.Interp

def main : IO Unit := Driver.runLoop ({} : Driver.Interp.DS) Driver.Interp.step
