import Driver.Loop
import OPM.Model.Wire
import OPM.Model.Interp
import OPM.Model.InterpBlocks
import OPM.Model.Merge
namespace Driver.Interp
open OPM OPM.Wire OPM.Interp

structure DS where
  prog : Prog := #[]
  st : Option St := none
  ids : Array Nat := #[]
  sigs : Array String := #[]
  content : List (Nat × String) := []
  shared : Bool := true
  -- the method of a pending edit
  nprog : Prog := #[]
  nids : Array Nat := #[]
  nsigs : Array String := #[]
  ncontent : List (Nat × String) := []

def parseRat (s : String) : Option Rat :=
  match s.splitOn "/" with
  | [n, d] => match n.toInt?, d.toNat? with
    | some n, some d => if d = 0 then none else some (mkRat n d)
    | _, _ => none
  | _ => none

def parseOp : String → Option Op
  | "lt" => some .lt | "le" => some .le | "eq" => some .eq
  | "ne" => some .ne | "gt" => some .gt | "ge" => some .ge | _ => none

def parseKind (s : String) : Option Kind :=
  match s.splitOn " " with
  | ["program"] => some .program
  | ["injected"] => some .injected
  | ["blank", b] => (parseBool b).map .blank
  | ["mark", n] => (decodeStr n).map .mark
  | ["simple", n] => (decodeStr n).map .simple
  | ["base", f, u] => do let f ← parseRat f; let u ← decodeStr u; pure (.base f u)
  | ["failing", l] => some (.failing l)
  | ["macro", n] => (decodeStr n).map .macro
  | ["call", n] => (decodeStr n).map .call
  | ["block", n] => (decodeStr n).map .block
  | ["endblock"] => some .endBlock
  | ["endblocks"] => some .endBlocks
  | ["wait", d] => (parseRat d).map .wait
  | ["watch", t, o, v] => do let t ← t.toNat?; let o ← parseOp o; let v ← v.toInt?; pure (.watch ⟨t, o, v⟩)
  | ["alarm", t, o, v] => do let t ← t.toNat?; let o ← parseOp o; let v ← v.toInt?; pure (.alarm ⟨t, o, v⟩)
  | ["cmd", n, f] => do let n ← decodeStr n; let f ← parseBool f; pure (.cmd n f)
  | _ => none

def addNode (prog : Prog) (idx : Nat) (parent : Int) (k : Kind) (thr : Option Rat) (kp : List Nat) (inProg : Bool) : Option Prog :=
  if idx ≠ prog.size then none else
  let par : Option Nat := if parent < 0 then none else some parent.toNat
  let prog := prog.push { kind := k, parent := par, children := [], threshold := thr, keyPath := kp, inProgram := inProg }
  match par with
  | none => some prog
  | some q => if q < idx then some (prog.modify q (fun nd => { nd with children := nd.children ++ [idx] })) else none

def bit (b : Bool) : String := if b then "1" else "0"

def showFlags (r : NodeRt) : String :=
  bit r.started ++ bit r.completed ++ bit r.failed ++ bit r.cancelled ++ bit r.forced ++
  bit r.childrenComplete ++ bit r.interruptRegistered ++ bit r.activated ++ bit r.blockEnded ++
  bit r.lockAcquired ++ bit r.isRegistered ++
  s!":{r.childIndex}:{r.runCount}:{r.runStarted}:{r.runCompleted}"

def showEvent : Event → Option String
  | .blockStart n => some ("bs:" ++ n)
  | .blockEnd o n => some ("be:" ++ o ++ ">" ++ n)
  | .scopeStart n => some s!"ss:{n}"
  | .scopeActivate n => some s!"sa:{n}"
  | .scopeEnd n => some s!"se:{n}"
  | .methodEnd => some "me"
  | .complete n => some s!"tc:{n}"
  | .effect n w => if w.startsWith "cmd:" then some s!"cmd:{n}:{(w.drop 4).toString}" else none
  | _ => none

def observe (size : Nat) (s : St) : String :=
  let err := if s.lastError.isSome then "1" else "0"
  let blk := match s.blockTag with | none => "-" | some b => if b = "" then "-" else encodeStr b
  "|".intercalate [
    "err=" ++ err,
    -- MarkTag.set_value appends with "; " unless the current value is empty
    "marks=" ++ encodeStr (s.marks.foldl (fun acc m => if acc = "" then m else acc ++ "; " ++ m) ""),
    "block=" ++ blk,
    "base=" ++ encodeStr s.baseUnit,
    "imap=" ++ ",".intercalate (s.imap.map (fun e => toString e.1)),
    "macros=" ++ ",".intercalate (s.macros.map (fun e => encodeStr e.1 ++ "=" ++ toString e.2)),
    "ev=" ++ " ".intercalate (s.events.reverse.filterMap showEvent),
    "fl=" ++ " ".intercalate ((List.range size).map (fun k => showFlags (s.rt k)))]

def ensure (d : DS) : St := match d.st with | some s => s | none => init d.prog

def parseNode (prog : Prog) (idx par kind thr kp inProg lid sig : String) : Option (Prog × Nat × String) :=
  match idx.toNat?, par.toInt?, parseKind kind, natList kp, parseBool inProg, lid.toNat?, decodeStr sig with
  | some idx, some par, some k, some kp, some ip, some lid, some sig =>
    let thr? : Option (Option Rat) := if thr = "-" then some none else (parseRat thr).map some
    match thr? with
    | none => none
    | some thr => (addNode prog idx par k thr kp ip).map (fun p => (p, lid, sig))
  | _, _, _, _, _, _, _ => none

def step (d : DS) (line : String) : DS × String :=
  match fields line with
  | ["node", idx, par, kind, thr, kp, inProg, lid, sig] =>
    match parseNode d.prog idx par kind thr kp inProg lid sig with
    | some (p, lid, sig) => ({ d with prog := p, ids := d.ids.push lid, sigs := d.sigs.push sig }, "ok")
    | none => (d, "bad-op")
  | ["newnode", idx, par, kind, thr, kp, inProg, lid, sig] =>
    match parseNode d.nprog idx par kind thr kp inProg lid sig with
    | some (p, lid, sig) => ({ d with nprog := p, nids := d.nids.push lid, nsigs := d.nsigs.push sig }, "ok")
    | none => (d, "bad-op")
  | ["line", id, c] =>
    match id.toNat?, decodeStr c with
    | some id, some c => ({ d with content := d.content ++ [(id, c)] }, "ok")
    | _, _ => (d, "bad-op")
  | ["newline", id, c] =>
    match id.toNat?, decodeStr c with
    | some id, some c => ({ d with ncontent := d.ncontent ++ [(id, c)] }, "ok")
    | _, _ => (d, "bad-op")
  | ["edit"] =>
    let mm : OPM.Merge.MM := { m := ⟨d.prog, d.ids, d.sigs, d.content⟩, st := (match d.st with | some s => s | none => init d.prog),
                               mmShared := d.shared }
    let (mm', r) := OPM.Merge.edit mm ⟨d.nprog, d.nids, d.nsigs, d.ncontent⟩
    let d' : DS := { prog := mm'.m.prog, st := some mm'.st, ids := mm'.m.ids, sigs := mm'.m.sigs,
                     content := mm'.m.content, shared := mm'.mmShared }
    (d', match r with | .merged => "merged" | .set => "set" | .rejected => "rejected")
  | ["tick", t, sc, bc, tags] =>
    match parseRat t, parseRat sc, parseRat bc, intList tags with
    | some t, some sc, some bc, some tags =>
      let (s, ok) := tick d.prog (ensure d) ⟨t, sc, bc, tags⟩
      let s := compact d.prog.size s
      ({ d with st := some s }, if ok then observe d.prog.size s else "diverged")
    | _, _, _, _ => (d, "bad-op")
  | ["complete", k] =>
    match k.toNat? with
    | some k => ({ d with st := some (completeCmd (ensure d) k) }, "ok")
    | none => (d, "bad-op")
  | ["cancel", k] =>
    match k.toNat? with
    | some k => match cancel d.prog (ensure d) k with
      | some s => ({ d with st := some s }, "ok")
      | none => ({ d with st := some (ensure d) }, "rejected")
    | none => (d, "bad-op")
  | ["force", k] =>
    match k.toNat? with
    | some k => match force d.prog (ensure d) k with
      | some s => ({ d with st := some s }, "ok")
      | none => ({ d with st := some (ensure d) }, "rejected")
    | none => (d, "bad-op")
  | ["inject", k] =>
    match k.toNat? with
    | some k => ({ d with st := some (inject d.prog (ensure d) k) }, "ok")
    | none => (d, "bad-op")
  -- C05 queries (read-only): well-formedness of the method tree; locked / active blocks and the Block-tag clause
  | ["wf"] => (d, if ProgWF d.prog then "1" else "0")
  | ["blk"] =>
    let s := ensure d
    let ids := fun (l : List Nat) => ",".intercalate (l.map toString)
    (d, "tagok=" ++ bit (decide (TagOk d.prog s)) ++ "|locked=" ++ ids (lockedBlocks d.prog s) ++
        "|active=" ++ ids (activeBlocks d.prog s))
  -- deliberately wrong variant of `blk` for the harness self-test (lists outermost first)
  | ["blkm"] =>
    let s := ensure d
    let ids := fun (l : List Nat) => ",".intercalate (l.map toString)
    (d, "tagok=" ++ bit (decide (TagOk d.prog s)) ++ "|locked=" ++ ids (lockedBlocks d.prog s).reverse ++
        "|active=" ++ ids (activeBlocks d.prog s).reverse)
  -- a tick that also reports whether it was calm (no exotic micro-step, OPM.Model.InterpBlocks)
  | ["ctick", t, sc, bc, tags] =>
    match parseRat t, parseRat sc, parseRat bc, intList tags with
    | some t, some sc, some bc, some tags =>
      let calm := calmTick d.prog (ensure d) ⟨t, sc, bc, tags⟩
      let (s, ok) := tick d.prog (ensure d) ⟨t, sc, bc, tags⟩
      let s := compact d.prog.size s
      ({ d with st := some s }, if ok then "calm=" ++ bit calm ++ "|" ++ observe d.prog.size s else "diverged")
    | _, _, _, _ => (d, "bad-op")
  | _ => (d, "bad-op")

end Driver.Interp

def main : IO Unit := Driver.runLoop ({} : Driver.Interp.DS) Driver.Interp.step
