import Driver.Loop
import OPM.Model.Wire
import OPM.Model.Units
import OPM.Gen.UnitTable
namespace Driver.Units
open OPM OPM.Wire OPM.Units

def T : UnitSys := OPM.Gen.unitSys

/-- unit on the wire: `N` = Python `None`, otherwise an encoded string -/
def decodeUnit (s : String) : Option (Option String) :=
  if s = "N" then some none else (decodeStr s).map some

def showErr : Err → String
  | .invalidUnit => "err:invalidunit"
  | .incompatible => "err:incompatible"
  | .firstNotNumeric => "err:first"
  | .secondNotNumeric => "err:second"
  | .invalidOperator => "err:badop"
  | .conversion => "err:conversion"
  | .notImplemented => "err:notimpl"
  | .undefinedUnit => "err:undefinedunit"
  | .floatDecimal => "err:floatdecimal"
  | .unmodelled => "err:unmodelled"

def showRes : Except Err Bool → String
  | .ok true => "T"
  | .ok false => "F"
  | .error e => showErr e

def allOps : List String := ["<", "<=", "=", "==", ">", ">=", "!="]

/-- ops:
  `cmpable <ua> <ub>` / `cmpableold <ua> <ub>`      → T | F | err:…
  `compat <u>`                                       → `ok` TAB encoded names… | err:…
  `cmp <ua> <ub> <va> <vb>` / `cmpold …`             → results of `< <= = == > >= !=`, space separated
  `cmp1 <op> <ua> <ub> <va> <vb>` / `cmp1old …`      → one result (any operator string) -/
def step (_ : Unit) (line : String) : Unit × String :=
  match fields line with
  | ["cmpable", a, b] =>
    match decodeUnit a, decodeUnit b with
    | some a, some b => ((), showRes (areComparable T a b))
    | _, _ => ((), "bad-op")
  | ["cmpableold", a, b] =>
    match decodeUnit a, decodeUnit b with
    | some a, some b => ((), showRes (areComparableOld T a b))
    | _, _ => ((), "bad-op")
  | ["compat", u] =>
    match decodeUnit u with
    | some u =>
      ((), match compatibleNames T u with
        | .ok l => "\t".intercalate ("ok" :: l.map encodeStr)
        | .error e => showErr e)
    | none => ((), "bad-op")
  | [c, a, b, va, vb] =>
    if c = "cmp" || c = "cmpold" then
      match decodeUnit a, decodeUnit b, decodeStr va, decodeStr vb with
      | some a, some b, some va, some vb =>
        let f := if c = "cmp" then compareValues T else compareValuesOld T
        ((), " ".intercalate (allOps.map fun op => showRes (f op va a vb b)))
      | _, _, _, _ => ((), "bad-op")
    else ((), "bad-op")
  | [c, op, a, b, va, vb] =>
    if c = "cmp1" || c = "cmp1old" then
      match decodeStr op, decodeUnit a, decodeUnit b, decodeStr va, decodeStr vb with
      | some op, some a, some b, some va, some vb =>
        let f := if c = "cmp1" then compareValues T else compareValuesOld T
        ((), showRes (f op va a vb b))
      | _, _, _, _, _ => ((), "bad-op")
    else ((), "bad-op")
  | _ => ((), "bad-op")

end Driver.Units

def main : IO Unit := Driver.runLoop () Driver.Units.step
