import Driver.Loop
import OPM.Model.Wire
import OPM.Model.ErrorLog
namespace Driver.ErrorLog
open OPM OPM.Wire OPM.ErrorLog

/-- times travel as integer multiples of 1/8 s -/
def ofEighths (n : Int) : Rat := (n : Rat) / 8

def showTime (t : Rat) : String :=
  let u := t * 8
  if u.den = 1 then toString u.num else s!"{u.num}/{u.den}"

def parseEntry (s : String) : Option Entry :=
  match s.splitOn "|" with
  | [m, sev, t] =>
    match decodeStr m, sev.toInt?, t.toInt? with
    | some m, some sev, some t => some ⟨m, sev, ofEighths t⟩
    | _, _, _ => none
  | _ => none

def parseBatch (s : String) : Option (List Entry) :=
  if s = "-" then some [] else (s.splitOn ";").mapM parseEntry

def showAgg (a : Agg) : String :=
  s!"{encodeStr a.message}|{a.severity}|{showTime a.time}|{a.occurrences}"

def showLog (rev : List Agg) : String :=
  if rev.isEmpty then "-" else ";".intercalate ((entries rev).map showAgg)

/-- ops:  `agg <batch>`   aggregate_with(batch); answer = the whole aggregated log, oldest first
          `aggm <batch>`  the same with the mutant (self-test only)
          `clear`         AggregatedErrorLog.clear()   (EngineData.reset_run at a run start / stop)
          `reconnect`     engine_disconnected deletes the EngineData, the re-registration creates a new one whose
                          error_log is AggregatedErrorLog.empty() (`_try_restore_reconnected_engine_data` restores the
                          run id and the contributors only): the log the handlers see starts empty again
    batch = `-` | entries joined by `;`, entry = `<msg code points>|<severity>|<time in 1/8 s>` -/
def step (s : List Agg) (line : String) : List Agg × String :=
  match fields line with
  | ["agg", b] =>
    match parseBatch b with
    | some b => let s' := aggregateWith s b; (s', showLog s')
    | none => (s, "bad-op")
  | ["aggm", b] =>
    match parseBatch b with
    | some b => let s' := b.foldl pushMutant s; (s', showLog s')
    | none => (s, "bad-op")
  | ["clear"] => ([], "-")
  | ["reconnect"] => ([], "-")
  | _ => (s, "bad-op")

end Driver.ErrorLog

def main : IO Unit := Driver.runLoop ([] : List OPM.ErrorLog.Agg) Driver.ErrorLog.step
