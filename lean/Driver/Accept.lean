import Driver.Loop
import OPM.Model.Wire
import OPM.Model.Units
import OPM.Model.Analyzer
import OPM.Model.Accept
import OPM.Gen.UnitTable
namespace Driver.Accept
open OPM OPM.Wire OPM.Units OPM.Analyzer OPM.Accept

structure St where
  tags : List TagDef := []
  uodCmds : List UodCmd := []
  examples : List String := []
  specs : List (String × String) := []
  baseUnits : List String := []
  keywords : List String := []
  searchT : List (String × String) := []
  matchT : List (String × String) := []
  customT : List (String × String) := []
  intT : List String := []
  sims : List (String × String) := []
  nodes : List ENode := []

def St.engine (s : St) : Engine :=
  { tags := s.tags, uodCmds := s.uodCmds, examples := s.examples, specs := s.specs, baseUnits := s.baseUnits,
    keywords := s.keywords,
    search := fun r a => s.searchT.contains (r, a), matchP := fun r a => s.matchT.contains (r, a),
    customOk := fun n a => s.customT.contains (n, a), intOk := fun a => s.intT.contains a,
    similar := fun a b => s.sims.contains (a, b), units := OPM.Gen.unitSys }

def decodeOpt (s : String) : Option (Option String) :=
  if s = "N" then some none else (decodeStr s).map some

def parseAKind (s : String) : Option Kind :=
  if s = "watch" then some .watch else if s = "alarm" then some .alarm
  else if s = "simulate" then some .simulate else if s = "simulateoff" then some .simulateOff
  else if s = "command" then some (.command false) else if s = "error" then some (.command true)
  else if s = "other" then some .other else none

def parseEKind (s : String) : Option EKind :=
  if s = "watch" then some .watch else if s = "alarm" then some .alarm
  else if s = "simulate" then some .simulate else if s = "simulateoff" then some .simulateOff
  else if s = "uod" then some .uodCommand else if s = "engine" then some .engineCommand
  else if s = "interp" then some .interpCommand else if s = "error" then some .errorInstr
  else if s = "other" then some .other else none

def showAn : An → String
  | .condition => "C"
  | .simulate => "S"
  | .command => "M"
  | .indentation => "I"
  | .threshold => "T"
  | .macro => "X"

def showItem (i : Item) : String :=
  s!"{showAn i.an}:{i.id}:{i.line}:{if i.isError then "E" else "-"}:{if i.hasFix then "fix" else "-"}"

def showAErr : AErr → String
  | .tagBlank => "err:tagBlank"
  | .tagNotFound => "err:tagNotFound"
  | .cmdBlank => "err:cmdBlank"
  | .cmdNotFound => "err:cmdNotFound"
  | .tagUnitInvalid => "err:tagUnitInvalid"
  | .unmodelled => "err:unmodelled"

def showFail : Option Fail → String
  | none => "ok"
  | some .unknownCommand => "unknown-command"
  | some .unknownTag => "unknown-tag"
  | some .badArgument => "invalid-argument"
  | some .unitError => "unit"
  | some .other => "other"

def showOpt : Option String → String
  | none => "N"
  | some s => encodeStr s

def showPublished (P : Published) : String :=
  let t := P.tags.map fun t => encodeStr t.name ++ "=" ++ showOpt t.unit
  let c := P.commands.map fun c => encodeStr c.name ++ "=" ++ showOpt c.validator
  let s := P.systemCommands.map fun c => encodeStr c.name ++ "=" ++ showOpt c.validator
  "tags " ++ " ".intercalate t ++ " | cmds " ++ " ".intercalate c ++ " | sys " ++ " ".intercalate s

def pair (s : St) (a b : String) (f : St → (String × String) → St) : St × String :=
  match decodeStr a, decodeStr b with
  | some a, some b => (f s (a, b), "ok")
  | _, _ => (s, "bad-op")

/-- ops (every op answers one line).  Definitions: `tag n u|N`, `ucmd n regex|default|custom r`, `example n`,
    `spec n r`, `baseunit u`, `keyword k`; parameters: `search r a`, `match r a`, `custom n a`, `int a`, `sim q c`;
    `node line akind ekind hasCond tagName|N op rhs tagValue|N tagUnit|N instrName lineText arguments hasArgument
          numTruthy tagValueNow`;
    queries: `publish`/`publishold`, `analyze`/`analyzeold`, `accept`/`acceptold` (one verdict per node),
    `agree` (parser agreement), `oracles` (the hypotheses NamesOk / OraclesOk on the transmitted tables). -/
def step (s : St) (line : String) : St × String :=
  match fields line with
  | ["tag", n, u] =>
    match decodeStr n, decodeOpt u with
    | some n, some u => ({ s with tags := s.tags ++ [⟨n, u⟩] }, "ok")
    | _, _ => (s, "bad-op")
  | ["ucmd", n, k, r] =>
    match decodeStr n, decodeStr r with
    | some n, some r =>
      if k = "regex" then ({ s with uodCmds := s.uodCmds ++ [⟨n, .regex r⟩] }, "ok")
      else if k = "default" then ({ s with uodCmds := s.uodCmds ++ [⟨n, .default⟩] }, "ok")
      else if k = "custom" then ({ s with uodCmds := s.uodCmds ++ [⟨n, .custom⟩] }, "ok")
      else (s, "bad-op")
    | _, _ => (s, "bad-op")
  | ["example", n] =>
    match decodeStr n with
    | some n => ({ s with examples := s.examples ++ [n] }, "ok")
    | none => (s, "bad-op")
  | ["spec", n, r] => pair s n r fun s p => { s with specs := s.specs ++ [p] }
  | ["baseunit", u] =>
    match decodeStr u with
    | some u => ({ s with baseUnits := s.baseUnits ++ [u] }, "ok")
    | none => (s, "bad-op")
  | ["keyword", k] =>
    match decodeStr k with
    | some k => ({ s with keywords := k :: s.keywords }, "ok")
    | none => (s, "bad-op")
  | ["search", r, a] => pair s r a fun s p => { s with searchT := p :: s.searchT }
  | ["match", r, a] => pair s r a fun s p => { s with matchT := p :: s.matchT }
  | ["custom", n, a] => pair s n a fun s p => { s with customT := p :: s.customT }
  | ["sim", q, c] => pair s q c fun s p => { s with sims := p :: s.sims }
  | ["argprobe", n, a] =>
    -- a uod command's argument at both sites: the validator the editor builds from the published definition
    -- (`pubValid`) and the engine's `parse_args` (`uodArgOk`)
    match decodeStr n, decodeStr a with
    | some n, some a =>
      let G := s.engine
      let v := pubValid G (publish G true) n a
      let p := match uodCmd G n with
        | some c => uodArgOk G c a
        | none => false
      (s, (if v then "T" else "F") ++ " " ++ (if p then "T" else "F"))
    | _, _ => (s, "bad-op")
  | ["baseprobe", a] =>
    -- `re.search(<published Base pattern>, a)` as the model computes it
    match decodeStr a with
    | some a => (s, if acceptBase s.baseUnits a then "T" else "F")
    | none => (s, "bad-op")
  | ["int", a] =>
    match decodeStr a with
    | some a => ({ s with intT := a :: s.intT }, "ok")
    | none => (s, "bad-op")
  | ["node", ln, ak, ek, hc, tn, op, rhs, tv, tu, inm, lt, args, ha, nt, tvn] =>
    match ln.toNat?, parseAKind ak, parseEKind ek, parseBool hc, decodeOpt tn, decodeStr op, decodeStr rhs,
          decodeOpt tv with
    | some ln, some ak, some ek, some hc, some tn, some op, some rhs, some tv =>
      match decodeOpt tu, decodeStr inm, decodeStr lt, decodeStr args, parseBool ha, parseBool nt, decodeStr tvn with
      | some tu, some inm, some lt, some args, some ha, some nt, some tvn =>
        let c : Option Cond := if hc then some ⟨tn, op, rhs, tv, tu⟩ else none
        ({ s with nodes := s.nodes ++ [⟨⟨ln, ak, c, inm, lt, args, ha, true⟩, ek, nt, tvn⟩] }, "ok")
      | _, _, _, _, _, _, _ => (s, "bad-op")
    | _, _, _, _, _, _, _, _ => (s, "bad-op")
  | [q] =>
    let G := s.engine
    if q = "publish" then (s, showPublished (publish G true))
    else if q = "publishold" then (s, showPublished (publish G false))
    else if q = "analyze" || q = "analyzeold" then
      (s, match analyzerItems G (q = "analyze") s.nodes with
        | .ok l => if l.isEmpty then "none" else " ".intercalate (l.map showItem)
        | .error e => showAErr e)
    else if q = "accept" || q = "acceptold" then
      (s, if s.nodes.isEmpty then "none" else
        " ".intercalate (s.nodes.map fun n => s!"{n.a.line}:{showFail (engineFails G (q = "accept") n)}"))
    else if q = "oracles" then
      -- the facts `NamesOk` / `OraclesOk` ask for, checked on the transmitted finite tables
      let names := s.uodCmds.map (·.name)
      let namesOk := names.eraseDups.length == names.length && names.all (fun n => !s.keywords.contains n) &&
        s.examples.all (fun n => s.keywords.contains n)
      let specRx := s.specs.map (·.2)
      let anchored := s.searchT.all fun (r, a) => !specRx.contains r || s.matchT.contains (r, a)
      let baseOk := (s.searchT.all fun (r, a) => r != baseRegex s.baseUnits || acceptBase s.baseUnits a) &&
        !s.baseUnits.isEmpty && s.baseUnits.all (fun u => Analyzer.strip u == u && !u.isEmpty)
      let intOk := s.searchT.all fun (r, a) => s.specs.lookup "Run counter" != some r || s.intT.contains a
      (s, if namesOk && anchored && baseOk && intOk then "ok" else
        s!"bad:names={namesOk},anchored={anchored},base={baseOk},int={intOk}")
    else if q = "agree" then
      let bad := s.nodes.filter (fun n => !parseAgree G n)
      (s, if bad.isEmpty then "ok" else "disagree:" ++ ",".intercalate (bad.map fun n => toString n.a.line))
    else (s, "bad-op")
  | _ => (s, "bad-op")

end Driver.Accept

def main : IO Unit := Driver.runLoop ({} : Driver.Accept.St) Driver.Accept.step
