import Driver.Loop
import OPM.Model.Wire
import OPM.Model.SaveConc
import OPM.Gen.SaveLock
namespace Driver.SaveConc
open OPM OPM.Wire OPM.SaveConc

/-- ops:  `init <v0>`              → fresh state at version v0; the system (locked / not) is the one the translator
                                     read from the source (`OPM.Gen.SaveLock.lockAcrossAwait`)
          `initm <v0>`             → same with the *other* system (mutant for the self-test)
          `start <id> <base>`      → a save request enters
          `reply <id> <ok 0/1>`    → the engine's answer to the pending round trip of save <id> arrives
    answer: the canonical state, or `bad-op` (ill-formed line / event not enabled). -/
structure St where
  locked : Bool
  s : State

def init : St := ⟨OPM.Gen.SaveLock.lockAcrossAwait, OPM.SaveConc.init 0⟩

def showIds (l : List Req) : String := showNatList (l.map (·.id))

def showOutcome : Outcome → String
  | .accepted v => "ok" ++ toString v
  | .rejected => "rej"
  | .failed => "err"

def semi (l : List String) : String := if l.isEmpty then "-" else ";".intercalate l

def render (s : State) : String :=
  "v=" ++ toString s.version ++
  " owner=" ++ (match s.owner with | some i => toString i | none => "-") ++
  " await=" ++ showIds s.awaiting ++
  " wait=" ++ showIds s.waiters ++
  " acc=" ++ semi (s.accepted.map (fun r => toString r.id ++ ":" ++ toString r.base)) ++
  " eng=" ++ showNatList s.engineLog ++
  " res=" ++ semi (s.results.map (fun p => toString p.1 ++ ":" ++ showOutcome p.2))

def step (st : St) (line : String) : St × String :=
  match fields line with
  | ["init", v] =>
    match v.toNat? with
    | some v => let st' : St := ⟨OPM.Gen.SaveLock.lockAcrossAwait, OPM.SaveConc.init v⟩; (st', render st'.s)
    | none => (st, "bad-op")
  | ["initm", v] =>
    match v.toNat? with
    | some v => let st' : St := ⟨!OPM.Gen.SaveLock.lockAcrossAwait, OPM.SaveConc.init v⟩; (st', render st'.s)
    | none => (st, "bad-op")
  | ["start", i, b] =>
    match i.toNat?, b.toNat? with
    | some i, some b =>
      match OPM.SaveConc.step st.locked st.s (.start i b) with
      | some s' => ({ st with s := s' }, render s')
      | none => (st, "bad-op")
    | _, _ => (st, "bad-op")
  | ["reply", i, ok] =>
    match i.toNat?, parseBool ok with
    | some i, some ok =>
      match OPM.SaveConc.step st.locked st.s (.reply i ok) with
      | some s' => ({ st with s := s' }, render s')
      | none => (st, "bad-op")
    | _, _ => (st, "bad-op")
  | _ => (st, "bad-op")

end Driver.SaveConc

def main : IO Unit := Driver.runLoop Driver.SaveConc.init Driver.SaveConc.step
