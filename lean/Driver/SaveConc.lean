import Driver.Loop
import OPM.Model.Wire
import OPM.Model.SaveConc
namespace Driver.SaveConc
open OPM OPM.Wire OPM.SaveConc

/-- ops:  `init <v0> <locked 0/1> <reset 0/1> <precheck 0/1> <msgver 0/1>` → fresh state at version v0 in the system variant the harness measured on
                                     the real handler (lock across the round trip? version reset on re-registration? extra check in front of the lock?)
          `initm <v0> <locked> <reset> <precheck> <msgver>` → same with the lock bit flipped (mutant for the self-test)
          `disconnect` | `register` → the engine's connection drops / the engine registers again
          `emethod <v> <content>`  → the engine sends the method it holds (version v)
          `read`                   → a client reads the method: no effect
          `start <id> <base> <content>` → a save request enters (content: small number; equal = identical lines)
          `reply <id> <ok 0/1>`    → the engine's answer to the pending round trip of save <id> arrives
    answer: the canonical state, or `bad-op` (ill-formed line / event not enabled). -/
structure St where
  cfg : Cfg
  s : State

def init : St := ⟨{}, OPM.SaveConc.init 0⟩

def showIds (l : List Req) : String := showNatList (l.map (·.id))

def showOutcome : Outcome → String
  | .accepted v => "ok" ++ toString v
  | .rejected => "rej"
  | .failed => "err"

def semi (l : List String) : String := if l.isEmpty then "-" else ";".intercalate l

def render (s : State) : String :=
  "v=" ++ (if s.registered then toString s.version else "-") ++
  " owner=" ++ (match s.owner with | some i => toString i | none => "-") ++
  " c=" ++ (match s.content with | some c => toString c | none => "-") ++
  " await=" ++ showIds s.awaiting ++
  " wait=" ++ showIds s.waiters ++
  " acc=" ++ semi (s.accepted.map (fun r => toString r.id ++ ":" ++ toString r.base)) ++
  " eng=" ++ showNatList s.engineLog ++
  " res=" ++ semi (s.results.map (fun p => toString p.1 ++ ":" ++ showOutcome p.2))

def step (st : St) (line : String) : St × String :=
  match fields line with
  | ["init", v, l, r, p, m] =>
    match v.toNat?, parseBool l, parseBool r, parseBool p, parseBool m with
    | some v, some l, some r, some p, some m =>
      let st' : St := ⟨⟨l, r, p, m⟩, OPM.SaveConc.init v⟩; (st', render st'.s)
    | _, _, _, _, _ => (st, "bad-op")
  | ["initm", v, l, r, p, m] =>
    match v.toNat?, parseBool l, parseBool r, parseBool p, parseBool m with
    | some v, some l, some r, some p, some m =>
      let st' : St := ⟨⟨!l, r, p, m⟩, OPM.SaveConc.init v⟩; (st', render st'.s)
    | _, _, _, _, _ => (st, "bad-op")
  | ["read"] => (st, render st.s)
  | ["emethod", v, c] =>
    match v.toNat?, c.toNat? with
    | some v, some c =>
      match OPM.SaveConc.step st.cfg st.s (.engineMethod v c) with
      | some s' => ({ st with s := s' }, render s')
      | none => (st, "bad-op")
    | _, _ => (st, "bad-op")
  | ["disconnect"] =>
    match OPM.SaveConc.step st.cfg st.s .disconnect with
    | some s' => ({ st with s := s' }, render s')
    | none => (st, "bad-op")
  | ["register"] =>
    match OPM.SaveConc.step st.cfg st.s .register with
    | some s' => ({ st with s := s' }, render s')
    | none => (st, "bad-op")
  | ["start", i, b, c] =>
    match i.toNat?, b.toNat?, c.toNat? with
    | some i, some b, some c =>
      match OPM.SaveConc.step st.cfg st.s (.start i b c) with
      | some s' => ({ st with s := s' }, render s')
      | none => (st, "bad-op")
    | _, _, _ => (st, "bad-op")
  | ["reply", i, ok] =>
    match i.toNat?, parseBool ok with
    | some i, some ok =>
      match OPM.SaveConc.step st.cfg st.s (.reply i ok) with
      | some s' => ({ st with s := s' }, render s')
      | none => (st, "bad-op")
    | _, _ => (st, "bad-op")
  | _ => (st, "bad-op")

end Driver.SaveConc

def main : IO Unit := Driver.runLoop Driver.SaveConc.init Driver.SaveConc.step
