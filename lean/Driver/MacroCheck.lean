import Driver.Loop
import OPM.Model.Wire
import OPM.Model.MacroCheck
namespace Driver.MacroCheck
open OPM OPM.Wire OPM.Interp OPM.MacroCheck

/-- ops:
  `node <idx> <parent|-1> <kind>`   kind = program | macro <name> | call <name> | watch | alarm | block | other
  `macros <name>=<idx>;<name>=<idx>…`  (`-` = empty): the macro table, in dict order
  `check <name> <m>`   → `[]`, `<name>;<name>…` (the chain) — the repaired `macro_calling_macro`
  `asis <name> <m>`    → the same for the function of the unchanged repository, `err:RecursionError` if it
                          does not terminate -/
structure DS where
  prog : Prog := #[]
  macros : List (String × Nat) := []

def parseKind (s : String) : Option Kind :=
  match s.splitOn " " with
  | ["program"] => some .program
  | ["macro", n] => (decodeStr n).map .macro
  | ["call", n] => (decodeStr n).map .call
  | ["watch"] => some (.watch ⟨0, .ge, 0⟩)
  | ["alarm"] => some (.alarm ⟨0, .ge, 0⟩)
  | ["block"] => some (.block "b")
  | ["injected"] => some .injected
  | ["other"] => some (.mark "x")
  | _ => none

def addNode (prog : Prog) (idx : Nat) (parent : Int) (k : Kind) : Option Prog :=
  if idx ≠ prog.size then none else
  let par : Option Nat := if parent < 0 then none else some parent.toNat
  let prog := prog.push { kind := k, parent := par, children := [], threshold := none }
  match par with
  | none => some prog
  | some q => if q < idx then some (prog.modify q (fun nd => { nd with children := nd.children ++ [idx] })) else none

def parseEntry (s : String) : Option (String × Nat) :=
  match s.splitOn "=" with
  | [n, i] => do let n ← decodeStr n; let i ← i.toNat?; pure (n, i)
  | _ => none

def showPath : Option (List String) → String
  | none => "err:RecursionError"
  | some [] => "[]"
  | some l => ";".intercalate (l.map encodeStr)

def step (d : DS) (line : String) : DS × String :=
  match fields line with
  | ["node", idx, par, kind] =>
    match idx.toNat?, par.toInt?, parseKind kind with
    | some idx, some par, some k =>
      match addNode d.prog idx par k with
      | some p => ({ d with prog := p }, "ok")
      | none => (d, "bad-op")
    | _, _, _ => (d, "bad-op")
  | ["macros", ms] =>
    if ms = "-" then ({ d with macros := [] }, "ok") else
    match (ms.splitOn ";").mapM parseEntry with
    | some l => ({ d with macros := l }, "ok")
    | none => (d, "bad-op")
  | ["check", name, m] =>
    match decodeStr name, m.toNat? with
    | some name, some m => (d, showPath (cascade d.prog d.macros name m))
    | _, _ => (d, "bad-op")
  | ["asis", name, m] =>
    match decodeStr name, m.toNat? with
    | some name, some m => (d, showPath (asIs d.prog d.macros name recursionLimit m))
    | _, _ => (d, "bad-op")
  | _ => (d, "bad-op")

end Driver.MacroCheck

def main : IO Unit := Driver.runLoop ({} : Driver.MacroCheck.DS) Driver.MacroCheck.step
