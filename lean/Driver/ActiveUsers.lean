import Driver.Loop
import OPM.Model.Wire
import OPM.Model.ActiveUsers
namespace Driver.ActiveUsers
open OPM OPM.Wire OPM.ActiveUsers

structure St where
  nUnits : Nat := 0
  old : Bool := false
  s : State := init

def insPair (p : Nat × Nat) : List (Nat × Nat) → List (Nat × Nat)
  | [] => [p]
  | a :: l => if a.1 < p.1 || (a.1 == p.1 && a.2 < p.2) then a :: insPair p l
              else if a == p then a :: l else p :: a :: l

def sortPairs (l : List (Nat × Nat)) : List (Nat × Nat) := l.foldr insPair []

/-- `0:1,2;3:0` — second components grouped by first component, everything ascending. -/
def showPairs (l : List (Nat × Nat)) : String :=
  let sorted := sortPairs l
  let keys := (sorted.map (·.1)).eraseDups
  if keys.isEmpty then "-" else
  ";".intercalate (keys.map (fun k =>
    toString k ++ ":" ++ ",".intercalate ((sorted.filter (·.1 == k)).map (fun p => toString p.2))))

def showOut : Out → String
  | .ok => "ok" | .indexError => "err" | .keyError => "err"
  | .true => "true" | .false => "false"

def parseTopic (s : String) : Option Topic :=
  if s = "x" then some .other
  else if s = "b" then some .bad
  else if s.startsWith "u" then (s.drop 1).toNat?.map Topic.dms
  else none

def parseTopics (s : String) : Option (List Topic) :=
  if s = "-" then some [] else (s.splitOn ",").mapM parseTopic

def parseOp (fs : List String) : Option Op :=
  match fs with
  | ["sub", c, ts] => match c.toNat?, parseTopics ts with
    | some c, some ts => some (.subscribe c ts)
    | _, _ => none
  | ["disc", c] => c.toNat?.map Op.disconnect
  | ["reg", e, u] => match e.toNat?, u.toNat? with
    | some e, some u => some (.register e u)
    | _, _ => none
  | ["unreg", e, u] => match e.toNat?, u.toNat? with
    | some e, some u => some (.unregister e u)
    | _, _ => none
  | ["edown", e] => e.toNat?.map Op.engineDown
  | ["eup", e] => e.toNat?.map Op.engineUp
  | _ => none

/-- ops: `init <nUnits>` / `initold <nUnits>` (model of the code before the repair; self-test mutant), then
    `sub <c> <topics>` (`u<k>` = dead_man_switch/<user k>, `x` = other topic, `b` = dead_man_switch without "/"),
    `disc <c>`, `reg <unit> <user>`, `unreg <unit> <user>`, `edown <unit>` / `eup <unit>` (engine leaves / registers).
    Answer: `<result>|A:<unit:users;…>|D:<connection:users;…>` -/
def step (st : St) (line : String) : St × String :=
  match fields line with
  | ["init", n] => match n.toNat? with
    | some n => ({ nUnits := n, old := false, s := init }, "ok")
    | none => (st, "bad-op")
  | ["initold", n] => match n.toNat? with
    | some n => ({ nUnits := n, old := true, s := init }, "ok")
    | none => (st, "bad-op")
  | fs =>
    match parseOp fs with
    | none => (st, "bad-op")
    | some op =>
      let (s', out) := if st.old then stepOld st.nUnits st.s op else OPM.ActiveUsers.step st.nUnits st.s op
      ({ st with s := s' }, showOut out ++ "|A:" ++ showPairs s'.active ++ "|D:" ++ showPairs s'.dms)

end Driver.ActiveUsers

def main : IO Unit := Driver.runLoop {} Driver.ActiveUsers.step
