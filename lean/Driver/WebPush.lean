import Driver.Loop
import OPM.Model.Wire
import OPM.Model.WebPush
namespace Driver.WebPush
open OPM OPM.Wire OPM.WebPush

def parseScope (s : String) : Option Scope :=
  if s = "0" then some .access else if s = "1" then some .contributed else if s = "2" then some .specific else none

def optNat (s : String) : Option (Option Nat) :=
  if s = "-" then some none else s.toNat?.map some

def insNat (x : Nat) : List Nat → List Nat
  | [] => [x]
  | a :: l => if a < x then a :: insNat x l else x :: a :: l

def sortNat (l : List Nat) : List Nat := l.foldr insNat []

def parsePublish (fs : List String) : Option Publish :=
  match fs with
  | [topic, uid, req, contribs, cid, conf, ts, now] =>
    match topic.toNat?, uid.toNat?, natList req, natList contribs, optNat cid, parseBool conf, optNat ts, now.toNat? with
    | some topic, some uid, some req, some contribs, some cid, some conf, some ts, some now =>
      some ⟨topic, ⟨uid, req, contribs⟩, cid, conf, ts, now⟩
    | _, _, _, _, _, _, _, _ => none
  | _ => none

/-- ops: `pref <user> <roles> <scope 0=access|1=contributed|2=specific> <topics> <units>`  → `ok`
         `sub <user>`                                                                   → `id=<new row id>`
         `del <row id>`                                                                 → `ok`
         `pub <topic> <unit id> <required roles> <contributor ids> <contributor_id|-> <configured> <timestamp ms|-> <now s>`
                                                                                        → `P:<posted row ids, ascending>`
         `pubmut …` (self-test mutant),  `topicprefs <topic>` → `U:<users whose preferences contain the topic>` -/
def step (db : DB) (line : String) : DB × String :=
  match fields line with
  | ["pref", u, roles, sc, topics, units] =>
    match u.toNat?, natList roles, parseScope sc, natList topics, natList units with
    | some u, some roles, some sc, some topics, some units =>
      (apply db (.pref ⟨u, roles, sc, topics, units⟩), "ok")
    | _, _, _, _, _ => (db, "bad-op")
  | ["sub", u] =>
    match u.toNat? with
    | some u =>
      let db' := apply db (.sub u)
      (db', "id=" ++ toString (maxId db'.subs))
    | none => (db, "bad-op")
  | ["del", i] =>
    match i.toNat? with
    | some i => (apply db (.del i), "ok")
    | none => (db, "bad-op")
  | "pub" :: rest =>
    match parsePublish rest with
    | some p => (db, "P:" ++ showNatList (sortNat ((publish db p).map (·.id))))
    | none => (db, "bad-op")
  | "pubmut" :: rest =>
    match parsePublish rest with
    | some p => (db, "P:" ++ showNatList (sortNat ((publishMutant db p).map (·.id))))
    | none => (db, "bad-op")
  | ["topicprefs", t] =>
    match t.toNat? with
    | some t => (db, "U:" ++ showNatList (sortNat ((prefsForTopic db t).map (·.user))))
    | none => (db, "bad-op")
  | _ => (db, "bad-op")

end Driver.WebPush

def main : IO Unit := Driver.runLoop OPM.WebPush.DB.empty Driver.WebPush.step
