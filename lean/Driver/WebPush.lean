import Driver.Loop
import OPM.Model.Wire
import OPM.Model.WebPush
namespace Driver.WebPush
open OPM OPM.Wire OPM.WebPush

def parseScope (s : String) : Option Scope :=
  if s = "0" then some .access else if s = "1" then some .contributed else if s = "2" then some .specific else none

def optNat (s : String) : Option (Option Nat) :=
  if s = "-" then some none else s.toNat?.map some

def insNat (x : Nat) : List Nat → List Nat
  | [] => [x]
  | a :: l => if a < x then a :: insNat x l else x :: a :: l

def sortNat (l : List Nat) : List Nat := l.foldr insNat []

def parsePublish (fs : List String) : Option Publish :=
  match fs with
  | [topic, uid, req, contribs, cid, conf, ts, now] =>
    match topic.toNat?, uid.toNat?, natList req, natList contribs, optNat cid, parseBool conf, optNat ts, now.toNat? with
    | some topic, some uid, some req, some contribs, some cid, some conf, some ts, some now =>
      some ⟨topic, ⟨uid, req, contribs⟩, cid, conf, ts, now⟩
    | _, _, _, _, _, _, _, _ => none
  | _ => none

structure St where
  nc : Option Nat := none       -- number of NotificationTopic.NEW_CONTRIBUTOR, sent by the harness (`config`)
  db : DB := DB.empty
  engine : EngineSt := ⟨0, [], [], false⟩

/-- ops: `config <number of the NEW_CONTRIBUTOR topic>`                                  → `ok`   (first line of a case)
         `pref <user> <roles> <scope 0=access|1=contributed|2=specific> <topics> <units>`  → `ok`
         `sub <user>`                                                                   → `id=<new row id>`
         `del <row id>`                                                                 → `ok`
         `pub <topic> <unit id> <required roles> <contributor ids> <contributor_id|-> <configured> <timestamp ms|-> <now s>`
                                                                                        → `P:<posted row ids, ascending>`
         `pubmut …` (self-test mutant),  `topicprefs <topic>` → `U:<users whose preferences contain the topic>`
         `engine <unit id> <required roles> <has run>`  (engine data with no contributors)  → `ok`
         `act <user id|-> <user name> <configured> <now s>`  (save_method / cancel / force / command by that user)
                                                                                        → `P:<posted row ids>`
         `actmut …` (self-test mutant: notification built without contributor_id) -/
def step (st : St) (line : String) : St × String :=
  let db := st.db
  match fields line with
  | ["config", n] =>
    match n.toNat? with
    | some n => ({ st with nc := some n }, "ok")
    | none => (st, "bad-op")
  | ["pref", u, roles, sc, topics, units] =>
    match u.toNat?, natList roles, parseScope sc, natList topics, natList units with
    | some u, some roles, some sc, some topics, some units =>
      ({ st with db := apply db (.pref ⟨u, roles, sc, topics, units⟩) }, "ok")
    | _, _, _, _, _ => (st, "bad-op")
  | ["sub", u] =>
    match u.toNat? with
    | some u =>
      let db' := apply db (.sub u)
      ({ st with db := db' }, "id=" ++ toString (maxId db'.subs))
    | none => (st, "bad-op")
  | ["del", i] =>
    match i.toNat? with
    | some i => ({ st with db := apply db (.del i) }, "ok")
    | none => (st, "bad-op")
  | "pub" :: rest =>
    match st.nc, parsePublish rest with
    | some nc, some p => (st, "P:" ++ showNatList (sortNat ((publish nc db p).map (·.id))))
    | _, _ => (st, "bad-op")
  | "pubmut" :: rest =>
    match st.nc, parsePublish rest with
    | some nc, some p => (st, "P:" ++ showNatList (sortNat ((publishMutant nc db p).map (·.id))))
    | _, _ => (st, "bad-op")
  | ["topicprefs", t] =>
    match t.toNat? with
    | some t => (st, "U:" ++ showNatList (sortNat ((prefsForTopic db t).map (·.user))))
    | none => (st, "bad-op")
  | ["engine", uid, req, hasRun] =>
    match uid.toNat?, natList req, parseBool hasRun with
    | some uid, some req, some hasRun => ({ st with engine := ⟨uid, req, [], hasRun⟩ }, "ok")
    | _, _, _ => (st, "bad-op")
  | [op, cid, name, conf, now] =>
    if op ≠ "act" ∧ op ≠ "actmut" then (st, "bad-op") else
    match st.nc, optNat cid, name.toNat?, parseBool conf, now.toNat? with
    | some nc, some cid, some name, some conf, some now =>
      let (e', posted) := if op = "act" then contribute nc db st.engine ⟨cid, name⟩ ⟨conf, now⟩
                          else contributeMutant nc db st.engine ⟨cid, name⟩ ⟨conf, now⟩
      ({ st with engine := e' }, "P:" ++ showNatList (sortNat (posted.map (·.id))))
    | _, _, _, _, _ => (st, "bad-op")
  | _ => (st, "bad-op")

end Driver.WebPush

def main : IO Unit := Driver.runLoop {} Driver.WebPush.step
