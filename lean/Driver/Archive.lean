import Driver.Loop
import OPM.Model.Wire
import OPM.Model.Archive
namespace Driver.Archive
open OPM OPM.Wire OPM.Archive

/-! ops (fields are tab separated; strings as code-point lists, see OPM.Wire):
  `w <row>`            → `ok <text>` | `err:single-empty-field`      (csv writer, one row)
  `wm <row>`           → same, mutant writer that forgets to escape the escapechar (self-test)
  `r <text>`           → `ok <rows>` | `err:newline`                  (csv reader on a file text)
  `tags <k;name;unit|…>` → `ok`    (k ∈ p,m,s; unit `N` = None)       (new archiver over these tags)
  `start` · `row <now>` · `set <i> <val>` · `sim <i> <val>` · `stopsim <i>` · `mark <i> <text>` → `ok`
  `stop` · `startlow` → `ok` · `files` → `<k>` + the k file texts · `readall` → `<k>` + reader on each · `last` → text | `nofile`
  `file` → text · `log` → rows · `read` → `ok <rows>` (reader on the model's file)
  row  = fields joined by `;`, the empty row is `E`;  rows = rows joined by `|`, no rows is `N`
  val  = `n` | `f:<neg 0/1>:<num>:<den>` (exact float) | `i:<int>` | `s:<text>` -/

def decRow (s : String) : Option (List (List Char)) :=
  if s = "E" then some [] else (s.splitOn ";").mapM (fun f => (decodeStr f).map String.toList)

def encRow (r : List (List Char)) : String :=
  if r.isEmpty then "E" else ";".intercalate (r.map encodeChars)

def encRows (rs : List (List (List Char))) : String :=
  if rs.isEmpty then "N" else "|".intercalate (rs.map encRow)

def decVal (s : String) : Option Val :=
  if s = "n" then some .none
  else match s.splitOn ":" with
    | ["f", sg, n, d] =>
      match parseBool sg, n.toNat?, d.toNat? with
      | some sg, some n, some d => if d = 0 then none else some (.flt sg n d)
      | _, _, _ => none
    | ["i", n] => n.toInt?.map .int
    | ["s", t] => (decodeStr t).map (fun x => .str x.toList)
    | _ => none

def decTag (s : String) : Option Tag :=
  match s.splitOn ";" with
  | [k, name, unit] =>
    let kind : Option Kind := if k = "p" then some .plain else if k = "m" then some .mark
      else if k = "s" then some .skipped else none
    match kind, decodeStr name, (if unit = "N" then some none else (decodeStr unit).map some) with
    | some k, some n, some u =>
      some { kind := k, name := n.toList, unit := u.map String.toList,
             value := .none }
    | _, _, _ => none
  | _ => none

/-- mutant writer for the self-test: does not escape the escapechar. -/
def writeRowMutant (row : List (List Char)) : Except Err (List Char) :=
  if row = [[]] then .error .singleEmptyField
  else .ok (",".toList.intercalate (row.map (fun f => f.flatMap (fun c =>
    if c == '\\' then [c] else escChar c))) ++ ['\r', '\n'])

def showW : Except Err (List Char) → String
  | .ok t => "ok\t" ++ encodeChars t
  | .error _ => "err:single-empty-field"

def showR : Except Err (List (List (List Char))) → String
  | .ok rows => "ok\t" ++ encRows rows
  | .error _ => "err:newline"

def kindAt (s : State) (i : Nat) : Option Kind := (s.tags[i]?).map (·.kind)

def step (st : Option State) (line : String) : Option State × String :=
  match fields line, st with
  | ["w", r], _ => (st, match decRow r with | some r => showW (writeRow r) | none => "bad-op")
  | ["wm", r], _ => (st, match decRow r with | some r => showW (writeRowMutant r) | none => "bad-op")
  | ["r", t], _ => (st, match decodeStr t with | some t => showR (readFile t.toList) | none => "bad-op")
  | ["tags", spec], _ =>
    match (if spec = "N" then some [] else (spec.splitOn "|").mapM decTag) with
    | some tags => (some { tags := tags }, "ok")
    | none => (st, "bad-op")
  -- between runs (no file of a run in progress): the collection the archiver's `tags_accessor` returns is another
  -- one; the state of `OPM.C39.changed_collection_run`
  | ["retag", spec], some s =>
    match (if spec = "N" then some [] else (spec.splitOn "|").mapM decTag) with
    | some tags => if s.fileExists || s.fileReady then (st, "bad-op") else (some { s with tags := tags }, "ok")
    | none => (st, "bad-op")
  | ["start"], some s => (some (stepOp s .start), "ok")
  | ["row", now], some s =>
    match decodeStr now with
    | some now => (some (stepOp s (.row now.toList)), "ok")
    | none => (st, "bad-op")
  | ["set", i, v], some s =>
    match i.toNat?, decVal v with
    | some i, some v => if kindAt s i = some .plain then (some (stepOp s (.set i v)), "ok") else (st, "bad-op")
    | _, _ => (st, "bad-op")
  | ["sim", i, v], some s =>
    match i.toNat?, decVal v with
    | some i, some v => if kindAt s i = some .plain then (some (stepOp s (.sim i v)), "ok") else (st, "bad-op")
    | _, _ => (st, "bad-op")
  | ["stopsim", i], some s =>
    match i.toNat? with
    | some i => if kindAt s i = some .plain then (some (stepOp s (.stopSim i)), "ok") else (st, "bad-op")
    | _ => (st, "bad-op")
  | ["mark", i, t], some s =>
    match i.toNat?, decodeStr t with
    | some i, some t => if kindAt s i = some .mark then (some (stepOp s (.mark i t.toList)), "ok") else (st, "bad-op")
    | _, _ => (st, "bad-op")
  | ["stop"], some s => (some (stepOp s .stop), "ok")
  | ["startlow"], some s => (some (stepOp s .startLow), "ok")
  | ["files"], some s =>
    let fs := s.finished.map (·.1) ++ (if s.fileExists then [s.file] else [])
    (st, toString fs.length ++ String.join (fs.map (fun f => "\t" ++ encodeChars f)))
  | ["readall"], some s =>
    let fs := s.finished.map (·.1) ++ (if s.fileExists then [s.file] else [])
    (st, toString fs.length ++ String.join (fs.map (fun f => " # " ++ showR (readFile f))))
  | ["last"], some s => (st, match s.lastRun with | some t => encodeChars t | none => "nofile")
  | ["file"], some s => (st, encodeChars s.file)
  | ["log"], some s => (st, encRows s.log)
  | ["read"], some s => (st, showR (readFile s.file))
  | _, _ => (st, "bad-op")

end Driver.Archive

def main : IO Unit := Driver.runLoop none Driver.Archive.step
