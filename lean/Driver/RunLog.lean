import Driver.Loop
import OPM.Model.Wire
import OPM.Model.RunLog
namespace Driver.RunLog
open OPM OPM.Wire OPM.RunLog

/-! Line protocol (tab separated).

Part 1 (record lists):
  `clear`                                                        → `ok`
  `rec <nodeId> <cls> <name|~>`                                  → `ok`   (appends a record)
  `st <inst> <state> <time> <tick> <label> <c><x><f><F> <cmd>`   → `ok`   (appends a state to the last record)
  `runlog`                                                       → items / `err:<kind>` of the loaded records
  `runlogm`                                                      → the same without the final sort (self-test mutant)
Part 2 (tracking API):
  `init <enabled> <guard>` `tick <t> <n>` `enable <b>` `addrec <node> <cls> <name|~>`
  `create <node> <env…>` `mark <kind> <tgt…> <env…> <updOk>` `fail <tgt…> <env…>` `cmdst <uod> <inst> <skip> <env…>`
                                                                 → `ok` / `ok <id>` / `err:<Type>`
  `dump`    → all records with their states;  `trunlog` → run log of the tracked records
`<env…>` = `<known> <skipName> <label> <c><x><f><F>`;  `<tgt…>` = `n <node>` | `c <inst> <skipName>`.
-/

structure DS where
  loaded : List Rec := []
  ts : TS := {}

def parseStName : String → Option StName
  | "created" => some .created
  | "uodcommandset" => some .uodCommandSet
  | "internalenginecommandset" => some .internalCommandSet
  | "awaitingthreshold" => some .awaitingThreshold
  | "awaitingcondition" => some .awaitingCondition
  | "started" => some .started
  | "cancelled" => some .cancelled
  | "forced" => some .forced
  | "completed" => some .completed
  | "failed" => some .failed
  | _ => none

def showStName : StName → String
  | .created => "created"
  | .uodCommandSet => "uodcommandset"
  | .internalCommandSet => "internalenginecommandset"
  | .awaitingThreshold => "awaitingthreshold"
  | .awaitingCondition => "awaitingcondition"
  | .started => "started"
  | .cancelled => "cancelled"
  | .forced => "forced"
  | .completed => "completed"
  | .failed => "failed"

def showItemState : ItemState → String
  | .unknown => "unknown"
  | .awaitingThreshold => "awaitingthreshold"
  | .started => "started"
  | .cancelled => "cancelled"
  | .forced => "forced"
  | .completed => "completed"
  | .failed => "failed"

def parseCmd : String → Option CmdKind
  | "n" => some .none
  | "u" => some .uod
  | "o" => some .other
  | _ => none

def showCmd : CmdKind → String
  | .none => "n"
  | .uod => "u"
  | .other => "o"

def parseFlags (s : String) : Option Flags :=
  match s.toList.map (fun c => parseBool (String.singleton c)) with
  | [some c, some x, some f, some g] => some ⟨c, x, f, g⟩
  | _ => none

def showFlags (f : Flags) : String :=
  showBool f.cancellable ++ showBool f.cancelled ++ showBool f.forcible ++ showBool f.forced

def parseName (s : String) : Option (Option String) :=
  if s = "~" then some none else (decodeStr s).map some

def showName : Option String → String
  | none => "~"
  | some n => encodeStr n

def showItem (it : Item) : String :=
  ";".intercalate [toString it.id, showItemState it.state, toString it.start,
    (match it.stop with | none => "~" | some e => toString e),
    showBool it.cancellable ++ showBool it.cancelled ++ showBool it.forcible ++ showBool it.forced ++ showBool it.failed,
    encodeStr it.name]

def showErr : Err → String
  | .instMismatch => "err:inst-mismatch"
  | .orderTick => "err:order-tick"
  | .orderTime => "err:order-time"
  | .itemNone => "err:item-none"

def showRunlog (rs : List Rec) : String :=
  match getRunlog rs with
  | .error e => showErr e
  | .ok items => if items.isEmpty then "-" else "|".intercalate (items.map showItem)

def showSt (st : St) : String :=
  ";".intercalate [toString st.inst, showStName st.name, toString st.time, toString st.tick,
    showFlags st.fl, showCmd st.cmd, encodeStr st.label]

def showRec (r : Rec) : String :=
  toString r.nodeId ++ ":" ++ encodeStr r.cls ++ ":" ++ showName r.name ++ ":" ++
    (if r.states.isEmpty then "-" else "/".intercalate (r.states.map showSt))

def showTErr : TErr → String
  | .valueError => "err:ValueError"
  | .assertionError => "err:AssertionError"
  | .keyError => "err:KeyError"

def parseEnv (k s l f : String) : Option NodeEnv :=
  match parseBool k, parseBool s, decodeStr l, parseFlags f with
  | some k, some s, some l, some f => some { known := k, skipName := s, label := l, fl := f }
  | _, _, _, _ => none

def parseKind : String → Option MarkKind
  | "started" => some .started
  | "completed" => some .completed
  | "cancelled" => some .cancelled
  | "forced" => some .forced
  | "awaitingcondition" => some .awaitingCondition
  | "awaitingthreshold" => some .awaitingThreshold
  | _ => none

def answer (d : DS) (r : Except TErr TS) : DS × String :=
  match r with
  | .ok ts => ({ d with ts := ts }, "ok")
  | .error e => (d, showTErr e)

def parseTarget : List String → Option (Target × List String)
  | "n" :: n :: rest => n.toNat?.map (fun n => (Target.node n, rest))
  | "c" :: i :: s :: rest =>
    match i.toNat?, parseBool s with
    | some i, some s => some (Target.cmd i s, rest)
    | _, _ => none
  | _ => none

def step (d : DS) (line : String) : DS × String :=
  match fields line with
  | ["clear"] => ({ d with loaded := [] }, "ok")
  | ["rec", n, cls, name] =>
    match n.toNat?, decodeStr cls, parseName name with
    | some n, some cls, some name =>
      ({ d with loaded := d.loaded ++ [{ nodeId := n, cls := cls, name := name }] }, "ok")
    | _, _, _ => (d, "bad-op")
  | ["st", i, nm, t, k, label, fl, cmd] =>
    match i.toNat?, parseStName nm, t.toInt?, k.toInt?, decodeStr label, parseFlags fl, parseCmd cmd with
    | some i, some nm, some t, some k, some label, some fl, some cmd =>
      match d.loaded.getLast? with
      | none => (d, "bad-op")
      | some r =>
        let st : St := { inst := i, name := nm, time := t, tick := k, label := label, fl := fl, cmd := cmd }
        ({ d with loaded := d.loaded.dropLast ++ [appendState r st] }, "ok")
    | _, _, _, _, _, _, _ => (d, "bad-op")
  | ["runlog"] => (d, showRunlog d.loaded)
  | ["runlogm"] =>   -- mutant for the harness self-test: the final sort is missing
    (d, match collect recordItems (d.loaded.filter (fun r => r.cls != "NullNode")) with
        | .error e => showErr e
        | .ok items => if items.isEmpty then "-" else "|".intercalate (items.map showItem))
  | ["init", e, g] =>
    match parseBool e, parseBool g with
    | some e, some g => ({ d with ts := TS.init e g }, "ok")
    | _, _ => (d, "bad-op")
  | ["tick", t, n] =>
    match t.toInt?, n.toInt? with
    | some t, some n => answer d (OPM.RunLog.step d.ts (.tick t n))
    | _, _ => (d, "bad-op")
  | ["enable", b] =>
    match parseBool b with
    | some b => answer d (OPM.RunLog.step d.ts (.setEnabled b))
    | none => (d, "bad-op")
  | ["addrec", n, cls, name] =>
    match n.toNat?, decodeStr cls, parseName name with
    | some n, some cls, some name => answer d (OPM.RunLog.step d.ts (.addRecord n cls name))
    | _, _, _ => (d, "bad-op")
  | ["create", n, k, s, l, f] =>
    match n.toNat?, parseEnv k s l f with
    | some n, some env =>
      match createNodeInst d.ts n env with
      | .ok (ts, id) => ({ d with ts := ts }, "ok " ++ toString id)
      | .error e => (d, showTErr e)
    | _, _ => (d, "bad-op")
  | "mark" :: kind :: rest =>
    match parseKind kind, parseTarget rest with
    | some kind, some (tgt, [k, s, l, f, u]) =>
      match parseEnv k s l f, parseBool u with
      | some env, some u => answer d (OPM.RunLog.step d.ts (.mark kind tgt env u))
      | _, _ => (d, "bad-op")
    | _, _ => (d, "bad-op")
  | "fail" :: rest =>
    match parseTarget rest with
    | some (tgt, [k, s, l, f]) =>
      match parseEnv k s l f with
      | some env => answer d (OPM.RunLog.step d.ts (.markFailed tgt env))
      | none => (d, "bad-op")
    | _ => (d, "bad-op")
  | ["cmdst", u, i, sk, k, s, l, f] =>
    match parseBool u, i.toNat?, parseBool sk, parseEnv k s l f with
    | some u, some i, some sk, some env => answer d (OPM.RunLog.step d.ts (.cmdStarted u i sk env))
    | _, _, _, _ => (d, "bad-op")
  | ["dump"] =>
    (d, if d.ts.records.isEmpty then "-" else "|".intercalate (d.ts.records.map showRec))
  | ["trunlog"] => (d, showRunlog d.ts.records)
  | _ => (d, "bad-op")

end Driver.RunLog

def main : IO Unit := Driver.runLoop ({} : Driver.RunLog.DS) Driver.RunLog.step
