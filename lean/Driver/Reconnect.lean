import Driver.Loop
import OPM.Model.Wire
import OPM.Model.Reconnect
namespace Driver.Reconnect
open OPM OPM.Wire OPM.Reconnect

/-- ops:  `cfg <plot 0/1> <recent 0/1> <persist 0/1> <interval>` → which variant the code is (measured by the harness) and
                                     the engine's log interval in this case; answers `cfg`
          `register` | `disconnect` | `restart` | `crash`
          `noop`                   → a message of another engine: no effect on this one
          `start <run>` | `stop <run>`
          `tags <run|-> <t> <system state 0/1/2 | ->`
          `restartm`               → mutant restart that forgets to store the recent engine (self-test only)
    answer: `<ok|notreg> <canonical state>` or `bad-op`. -/
structure St where
  cfg : Cfg := {}
  s : State := {}

def init : St := {}

def optNat : Option Nat → String
  | some n => toString n
  | none => "-"

def semi (l : List String) : String := if l.isEmpty then "-" else ";".intercalate l

def render (s : State) : String :=
  (match s.mem with
    | none => "reg=0 run=- lp=- tt=- ss=-@-"
    | some m => "reg=1 run=" ++ optNat m.run ++ " lp=" ++ optNat m.lastPersisted ++ " tt=" ++ optNat m.tagTime ++
        " ss=" ++ optNat m.sysState ++ "@" ++ optNat m.sysTime) ++
  " row=" ++ (match s.recentEngine with
    | none => "none"
    | some x => optNat x ++ "/" ++ optNat s.recentEngineState) ++
  " logs=" ++ showNatList s.plotLogs ++
  " vals=" ++ semi (s.values.map (fun p => toString p.1 ++ ":" ++ toString p.2)) ++
  " recent=" ++ showNatList s.recentRuns

def answer (st : St) (op : Op) : St × String :=
  let (s', r) := OPM.Reconnect.step st.cfg st.s op
  ({ st with s := s' }, (match r with | .ok => "ok " | .notRegistered => "notreg ") ++ render s')

def step (st : St) (line : String) : St × String :=
  match fields line with
  | ["cfg", p, r, e, i] =>
    match parseBool p, parseBool r, parseBool e, i.toNat? with
    | some p, some r, some e, some i => ({ st with cfg := ⟨p, r, e, i⟩ }, "cfg")
    | _, _, _, _ => (st, "bad-op")
  | ["crash"] => answer st .crash
  | ["noop"] => (st, "ok " ++ render st.s)
  | ["register"] => answer st .register
  | ["disconnect"] => answer st .disconnect
  | ["restart"] => answer st .restart
  | ["restartm"] => let s' := { st.s with mem := none }; ({ st with s := s' }, "ok " ++ render s')
  | ["start", r] =>
    match r.toNat? with
    | some r => answer st (.start r)
    | none => (st, "bad-op")
  | ["stop", r] =>
    match r.toNat? with
    | some r => answer st (.stop r)
    | none => (st, "bad-op")
  | ["tags", r, t, v] =>
    match (if r = "-" then some none else r.toNat?.map some), t.toNat?,
          (if v = "-" then some none else v.toNat?.map some) with
    | some r, some t, some v => answer st (.tags r t v)
    | _, _, _ => (st, "bad-op")
  | _ => (st, "bad-op")

end Driver.Reconnect

def main : IO Unit := Driver.runLoop Driver.Reconnect.init Driver.Reconnect.step
