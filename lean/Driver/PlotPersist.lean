import Driver.Loop
import OPM.Model.Wire
import OPM.Model.PlotPersist
namespace Driver.PlotPersist
open OPM OPM.Wire OPM.PlotPersist

/-- times travel as integer multiples of 1/8 s -/
def ofEighths (n : Int) : Rat := (n : Rat) / 8

def showTime (t : Rat) : String :=
  let u := t * 8
  if u.den = 1 then toString u.num else s!"{u.num}/{u.den}"

def parseNames (s : String) : Option (List String) :=
  if s = "-" then some [] else (s.splitOn ";").mapM decodeStr

def parseInterval (s : String) : Option (Option Rat) :=
  if s = "inf" then some none else s.toInt?.map (fun n => some (ofEighths n))

def parseUpdate (s : String) : Option Update :=
  match s.splitOn "|" with
  | [n, v, t] =>
    match decodeStr n, t.toInt? with
    | some n, some t => if v.isEmpty then none else some ⟨n, v, ofEighths t⟩
    | _, _ => none
  | _ => none

def parseUpdates (s : String) : Option (List Update) :=
  if s = "-" then some [] else (s.splitOn ";").mapM parseUpdate

def parseMsgRun (s : String) : Option (Option Nat) :=
  if s = "none" then some none else s.toNat?.map some

def showRow (r : Row) : String := s!"{r.run}|{encodeStr r.name}|{showTime r.time}|{r.value}"

def showOut : Out → String
  | .skipped => "rows:-"
  | .rows [] => "rows:-"
  | .rows rs => "rows:" ++ ";".intercalate (rs.map showRow)
  | .valueError => "err:ValueError"

def parsePolicy : List String → Option Policy
  | ["policy", k, st] =>
    match parseBool k, parseBool st with
    | some k, some st => some { keepNewer := k, strict := st }
    | _, _ => none
  | _ => none

def parseOp : List String → Option (Bool × Op)
  | ["uod", names, iv] =>
    match parseNames names, parseInterval iv with
    | some ns, some iv => some (false, .uod ns iv)
    | _, _ => none
  | ["newrun"] => some (false, .newRun)
  | ["stoprun"] => some (false, .stopRun)
  | ["reconnect"] => some (false, .reconnect)
  | ["dupstart"] => some (false, .dupStart)
  | ["tags", mr, ups] =>
    match parseMsgRun mr, parseUpdates ups with
    | some mr, some ups => some (false, .tags mr ups)
    | _, _ => none
  | ["tagsm", mr, ups] =>
    match parseMsgRun mr, parseUpdates ups with
    | some mr, some ups => some (true, .tags mr ups)
    | _, _ => none
  | _ => none

/-- ops:  `uod <names ;-separated | -> <interval in 1/8 s | inf>`   UodInfoMsg (readings, data_log_interval_seconds)
          `newrun`                                                    RunStartedMsg with a fresh run id
          `stoprun`                                                   RunStoppedMsg of the active run
          `reconnect`                                                 engine_disconnected, then RegisterEngineMsg
          `dupstart`                                                  the RunStartedMsg of the active run delivered again
          `policy <keepNewer 0|1> <strict 0|1>`                       (first line of a case) which variant of the two
                                                                      incidental choices to run; answer `ok`; default = as is
          `tags <run ordinal | none> <updates | ->`                   TagsUpdatedMsg; update = `<name>|<value token>|<time in 1/8 s>`
          `tagsm …`                                                   the same with the mutant (self-test only)
    answer: the rows written by the op (`run|name|time|value`) — what C29 speaks about; the intermediate state
    (latest_persisted_tick_time, tag map) is deliberately not part of the observation -/
def step (s : State) (line : String) : State × String :=
  match parsePolicy (fields line) with
  | some pol => (initWith pol, "ok")
  | none =>
    match parseOp (fields line) with
    | some (mutant, op) =>
      let (s', o) := if mutant then stepMutant s op else OPM.PlotPersist.step s op
      (s', showOut o)
    | none => (s, "bad-op")

end Driver.PlotPersist

def main : IO Unit := Driver.runLoop OPM.PlotPersist.init Driver.PlotPersist.step
