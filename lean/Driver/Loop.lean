/-!
Line-protocol loop shared by every model driver.  A driver file `Driver/<Model>.lean` defines
`init`, `step` and `def main : IO Unit := Driver.runLoop init step`; the harness runs it with
`lake env lean --run Driver/<Model>.lean`, one op per input line, one answer line per op.
The line `RESET` re-initialises the model state and is answered with `RESET`.
Drivers import models only (no Mathlib).
-/
namespace Driver

partial def loop {σ : Type} (init : σ) (step : σ → String → σ × String)
    (h out : IO.FS.Stream) (s : σ) : IO Unit := do
  let line ← h.getLine
  if line.isEmpty then return ()
  let line := if line.endsWith "\n" then (line.dropEnd 1).toString else line
  if line == "RESET" then
    out.putStrLn "RESET"
    loop init step h out init
  else
    let (s', o) := step s line
    out.putStrLn o
    loop init step h out s'

def runLoop {σ : Type} (init : σ) (step : σ → String → σ × String) : IO Unit := do
  let stdin ← IO.getStdin
  let stdout ← IO.getStdout
  loop init step stdin stdout init
  stdout.flush

end Driver
