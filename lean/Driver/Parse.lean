import Driver.Loop
import OPM.Model.Wire
import OPM.Model.ParseLine
import OPM.Model.ParseIndent
import OPM.Model.ParseText
namespace Driver.Parse
open OPM OPM.Wire OPM.ParseLine OPM.ParseIndent OPM.ParseText

def encL (cs : List Char) : String := encodeChars cs
def encO (o : Option (List Char)) : String :=
  match o with
  | none => "N"
  | some cs => "S" ++ encodeChars cs

def kindStr : Kind → String
  | .ws => "w" | .leaf => "l" | .opener => "o"

def parseKind (s : String) : Option Kind :=
  if s = "w" then some .ws else if s = "l" then some .leaf else if s = "o" then some .opener else none

def showParent : Option Nat → String
  | none => "r"
  | some i => toString i

/-- column and flag of blank/comment nodes carry no meaning (IndentationCheckAnalyzer ignores them): masked -/
def showRow (r : Row) : String :=
  if r.info.kind == .ws then s!"{r.idx}:{showParent r.parent}:-:-:w"
  else s!"{r.idx}:{showParent r.parent}:{showBool r.err}:{r.info.char}:{kindStr r.info.kind}"

def showRows (rs : List Row) : String := if rs.isEmpty then "-" else ";".intercalate (rs.map showRow)

/-- a typed value as an exact fraction `p/q`; `~` when the text it was read from has more than 15 digits or a
    decimal exponent beyond ±200 (the harness then does not compare the float), `N` = None -/
def showDec (text : List Char) (v : Option Dec10) : String :=
  match v with
  | none => "N"
  | some d =>
    if (text.filter isDecimal).length > 15 || d.exp.natAbs > 200 then "~"
    else
      let r : Rat := if d.exp ≥ 0 then mkRat (d.mant * (10 : Int) ^ d.exp.toNat) 1
                     else mkRat d.mant (10 ^ d.exp.natAbs)
      s!"{r.num}/{r.den}"

def showCond (c : Cond) : String :=
  "\t".intercalate [encL c.op, encL c.lhs, encL c.rhs, encO c.tagName, encO c.tagValue, encO c.tagUnit,
                    showBool c.error, showDec (c.tagValue.getD []) c.tagNumeric]

/-- every observed field, including the raw groups -/
def showNode (nd : Node) : String :=
  "\t".intercalate [nd.cls, toString nd.char, showBool nd.indentError, encL nd.thr, showDec nd.thr nd.thrVal,
                    encL nd.namePart, encL nd.name, encL nd.argPart, encL nd.args, showBool nd.hasArg,
                    showBool nd.hasComment, encL nd.comment] ++
  (match nd.cond with
   | none => ""
   | some c => "\t" ++ showCond c)

/-- the parts the property speaks about (no raw groups) -/
def showParts (nd : Node) : String :=
  "\t".intercalate [nd.cls, toString nd.char, showBool nd.indentError, encL nd.thr, showDec nd.thr nd.thrVal,
                    encL nd.name, encL nd.args, showBool nd.hasArg, showBool nd.hasComment, encL nd.comment] ++
  (match nd.cond with
   | none => ""
   | some c => "\t" ++ showCond c)

def decodeList (s : String) : Option (List String) :=
  ((s.splitOn ";").filter (· ≠ "")).mapM decodeStr

def parseInfo (s : String) : Option LineInfo :=
  match s.splitOn ":" with
  | [c, k, e] =>
    match c.toNat?, parseKind k, parseBool e with
    | some c, some k, some e => some ⟨c, k, e⟩
    | _, _, _ => none
  | _ => none

/-- ops (`fl` = C18 repair, `fe` = error-line repair, `fi` = C17 indentation repair):
  `text <fl> <fe> <fi> <uod names ;-separated> <text>`     → rows of the parsed program (pre-order)
  `nodes <fl> <fe> <uod> <text>`                           → number of lines, class of each line
  `fold <fi> <char:kind:perr ;-separated>`                 → rows (the indentation pass on abstract lines)
  `line <fl> <fe> <uod> <line>`                            → every field of the node of one line
  `linep <fl> <fe> <uod> <line>`                           → the parts only
  `cond <fl> <ops ;-separated> <part>`                     → `_parse_tag_operator_value`
  `split <text>`                                           → `str.splitlines` -/
def step (_ : Unit) (line : String) : Unit × String :=
  match fields line with
  | ["text", fl, fe, fi, uod, t] =>
    match parseBool fl, parseBool fe, parseBool fi, decodeList uod, decodeStr t with
    | some fl, some fe, some fi, some uod, some t => ((), showRows (parseText fl fe fi uod t.toList))
    | _, _, _, _, _ => ((), "bad-op")
  | ["nodes", fl, fe, uod, t] =>
    match parseBool fl, parseBool fe, decodeList uod, decodeStr t with
    | some fl, some fe, some uod, some t =>
      let ns := nodesOf fl fe uod t.toList
      ((), toString ns.length ++ "\t" ++ ",".intercalate (ns.map (·.cls)))
    | _, _, _, _ => ((), "bad-op")
  | ["fold", fi, ls] =>
    match parseBool fi, ((ls.splitOn ";").filter (· ≠ "")).mapM parseInfo with
    | some fi, some ls => ((), showRows (parseRows fi ls))
    | _, _ => ((), "bad-op")
  | ["line", fl, fe, uod, l] =>
    match parseBool fl, parseBool fe, decodeList uod, decodeStr l with
    | some fl, some fe, some uod, some l =>
      if l.toList.contains '\n' then ((), "bad-op") else ((), showNode (parseLineE fl fe uod l.toList))
    | _, _, _, _ => ((), "bad-op")
  | ["linep", fl, fe, uod, l] =>
    match parseBool fl, parseBool fe, decodeList uod, decodeStr l with
    | some fl, some fe, some uod, some l =>
      if l.toList.contains '\n' then ((), "bad-op") else ((), showParts (parseLineE fl fe uod l.toList))
    | _, _, _, _ => ((), "bad-op")
  | ["cond", fl, ops, part] =>
    match parseBool fl, decodeList ops, decodeStr part with
    | some fl, some ops, some part => ((), showCond (parseCond fl (ops.map String.toList) part.toList))
    | _, _, _ => ((), "bad-op")
  | ["split", t] =>
    match decodeStr t with
    | some t =>
      let ls := splitLines t.toList
      ((), toString ls.length ++ "\t" ++ "|".intercalate (ls.map encL))
    | none => ((), "bad-op")
  | _ => ((), "bad-op")

end Driver.Parse

def main : IO Unit := Driver.runLoop () Driver.Parse.step
