import Driver.Loop
import OPM.Model.Wire
import OPM.Model.Access
import OPM.Gen.Routes
namespace Driver.Access
open OPM OPM.Wire OPM.Access

/-! ops (tab separated):
  `req <route index> <id> <user roles> <units> <recent engines> <runs>`   → the endpoint's answer
  `reqmut …`  self-test mutant: only the first required role of every object counts
  roles: `~` (none) or `enc;enc;…`; objects: `~` or `encid:roles|encid:roles|…`
  `ev connect <u> <roles>` | `ev uod <u> <roles>` | `ev start <u> <run>` | `ev stop <u> <run>` | `ev disc <u>`
       one engine event applied to the driver's state (`RESET` = empty aggregator) → the state:
       `<online id:roles:run|…>\t<recent id:roles:run|…>\t<runs id:roles|…>`
  `probe <route index> <id> <user roles>`  → the endpoint's answer in the world of the current state
  `acc <required roles> <user roles>` → `1`/`0` (`hasAccess`); `accmut` = self-test mutant (all roles needed)
answers: `notfound` | `forbidden <roles>` | `pass` | `list <ids>` | `illformed` -/

def parseList (s : String) (sep : String) : List String :=
  if s = "~" then [] else s.splitOn sep

def parseRoles (s : String) : Option (List String) := (parseList s ";").mapM decodeStr

def parseRes (s : String) : Option Res :=
  match s.splitOn ":" with
  | [i, rs] => do
    let i ← decodeStr i
    let rs ← parseRoles rs
    some ⟨i, rs⟩
  | _ => none

def parseObjs (s : String) : Option (List Res) := (parseList s "|").mapM parseRes

def showStrs (l : List String) : String :=
  if l.isEmpty then "~" else ";".intercalate (l.map encodeStr)

def showResp : Resp → String
  | .notFound => "notfound"
  | .forbidden m => "forbidden " ++ showStrs m
  | .pass => "pass"
  | .list ids => "list " ++ showStrs ids
  | .illFormed => "illformed"

def showRun : Option String → String
  | none => "~"
  | some r => encodeStr r

def showObjs (l : List String) : String := if l.isEmpty then "~" else "|".intercalate l

def showState (s : AState) : String :=
  showObjs (s.online.map (fun x => encodeStr x.id ++ ":" ++ showStrs x.roles ++ ":" ++ showRun x.run)) ++ "\t" ++
  showObjs (s.recent.map (fun x => encodeStr x.id ++ ":" ++ showStrs x.roles ++ ":" ++ showRun x.run)) ++ "\t" ++
  showObjs (s.runs.map (fun x => encodeStr x.id ++ ":" ++ showStrs x.required))

def parseEvent : List String → Option Event
  | ["connect", u, roles] => do some (.connect (← decodeStr u) (← parseRoles roles))
  | ["uod", u, roles] => do some (.uodInfo (← decodeStr u) (← parseRoles roles))
  | ["start", u, r] => do some (.runStarted (← decodeStr u) (← decodeStr r))
  | ["stop", u, r] => do some (.runStopped (← decodeStr u) (← decodeStr r))
  | ["disc", u] => do some (.disconnect (← decodeStr u))
  | _ => none

def firstOnly (l : List Res) : List Res := l.map (fun r => ⟨r.id, r.required.take 1⟩)

def step (st : AState) (line : String) : AState × String :=
  match fields line with
  | [op, idx, id, roles, units, recent, runs] =>
    if op ≠ "req" && op ≠ "reqmut" then (st, "bad-op") else
    match idx.toNat?, decodeStr id, parseRoles roles, parseObjs units, parseObjs recent, parseObjs runs with
    | some i, some id, some roles, some units, some recent, some runs =>
      match Gen.Routes.routes[i]? with
      | some r =>
        let w : World := if op = "reqmut" then ⟨firstOnly units, firstOnly recent, firstOnly runs⟩
                         else ⟨units, recent, runs⟩
        (st, showResp (respond r w id roles))
      | none => (st, "bad-op")
    | _, _, _, _, _, _ => (st, "bad-op")
  | "ev" :: rest =>
    match parseEvent rest with
    | some e => let st' := OPM.Access.step st e; (st', showState st')
    | none => (st, "bad-op")
  | ["acc", required, user] =>
    match parseRoles required, parseRoles user with
    | some r, some u => (st, showBool (hasAccess r u))
    | _, _ => (st, "bad-op")
  | ["accmut", required, user] =>      -- self-test mutant: every required role is needed
    match parseRoles required, parseRoles user with
    | some r, some u => (st, showBool (r.all (fun x => u.contains x)))
    | _, _ => (st, "bad-op")
  | ["probe", idx, id, roles] =>
    match idx.toNat?, decodeStr id, parseRoles roles with
    | some i, some id, some roles =>
      match Gen.Routes.routes[i]? with
      | some r => (st, showResp (respond r (worldOf st) id roles))
      | none => (st, "bad-op")
    | _, _, _ => (st, "bad-op")
  | _ => (st, "bad-op")

end Driver.Access

def main : IO Unit := Driver.runLoop OPM.Access.AState.init Driver.Access.step
