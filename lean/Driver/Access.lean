import Driver.Loop
import OPM.Model.Wire
import OPM.Model.Access
import OPM.Gen.Routes
namespace Driver.Access
open OPM OPM.Wire OPM.Access

/-! ops (tab separated):
  `req <route index> <id> <user roles> <units> <recent engines> <runs>`   → the endpoint's answer
  `reqmut …`  self-test mutant: only the first required role of every object counts
  roles: `~` (none) or `enc;enc;…`; objects: `~` or `encid:roles|encid:roles|…`
answers: `notfound` | `forbidden <roles>` | `pass` | `list <ids>` | `illformed` -/

def parseList (s : String) (sep : String) : List String :=
  if s = "~" then [] else s.splitOn sep

def parseRoles (s : String) : Option (List String) := (parseList s ";").mapM decodeStr

def parseRes (s : String) : Option Res :=
  match s.splitOn ":" with
  | [i, rs] => do
    let i ← decodeStr i
    let rs ← parseRoles rs
    some ⟨i, rs⟩
  | _ => none

def parseObjs (s : String) : Option (List Res) := (parseList s "|").mapM parseRes

def showStrs (l : List String) : String :=
  if l.isEmpty then "~" else ";".intercalate (l.map encodeStr)

def showResp : Resp → String
  | .notFound => "notfound"
  | .forbidden m => "forbidden " ++ showStrs m
  | .pass => "pass"
  | .list ids => "list " ++ showStrs ids
  | .illFormed => "illformed"

def firstOnly (l : List Res) : List Res := l.map (fun r => ⟨r.id, r.required.take 1⟩)

def step (_ : Unit) (line : String) : Unit × String :=
  match fields line with
  | [op, idx, id, roles, units, recent, runs] =>
    if op ≠ "req" && op ≠ "reqmut" then ((), "bad-op") else
    match idx.toNat?, decodeStr id, parseRoles roles, parseObjs units, parseObjs recent, parseObjs runs with
    | some i, some id, some roles, some units, some recent, some runs =>
      match Gen.Routes.routes[i]? with
      | some r =>
        let w : World := if op = "reqmut" then ⟨firstOnly units, firstOnly recent, firstOnly runs⟩
                         else ⟨units, recent, runs⟩
        ((), showResp (respond r w id roles))
      | none => ((), "bad-op")
    | _, _, _, _, _, _ => ((), "bad-op")
  | _ => ((), "bad-op")

end Driver.Access

def main : IO Unit := Driver.runLoop () Driver.Access.step
