import Driver.Loop
import OPM.Model.Wire
import OPM.Model.RunRecords
namespace Driver.RunRecords
open OPM OPM.Wire OPM.RunRecords

def showOptNat : Option Nat → String
  | none => "-"
  | some n => toString n

def showState (s : State) (r : Reply) : String :=
  let rep := match r with
    | .ok => "ok"
    | .notRegistered => "not-registered"
  s!"{rep}\treg={showBool s.registered}\trun={showOptNat s.run}\tplotlogs={showNatList s.plotLogs}\trecentruns={showNatList s.recentRuns}"

def parseOp : List String → Option Op
  | ["register"] => some .register
  | ["disconnect"] => some .disconnect
  | ["start", r] => r.toNat?.map .start
  | ["stop", r] => r.toNat?.map .stop
  | _ => none

/-- ops:  `register` | `disconnect` | `start <run ordinal>` | `stop <run ordinal>`   (repaired code)
          the same prefixed with `asis` + tab: the code before fixes/C30-one-record-per-run.diff
    answer: reply kind, registered flag, active run, PlotLogs.run_id column, RecentRuns.run_id column -/
def step (s : State) (line : String) : State × String :=
  match fields line with
  | "asis" :: rest =>
    match parseOp rest with
    | some op => let (s', r) := OPM.RunRecords.step false s op; (s', showState s' r)
    | none => (s, "bad-op")
  | fs =>
    match parseOp fs with
    | some op => let (s', r) := OPM.RunRecords.step true s op; (s', showState s' r)
    | none => (s, "bad-op")

end Driver.RunRecords

def main : IO Unit := Driver.runLoop OPM.RunRecords.init Driver.RunRecords.step
