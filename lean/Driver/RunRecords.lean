import Driver.Loop
import OPM.Model.Wire
import OPM.Model.RunRecords
namespace Driver.RunRecords
open OPM OPM.Wire OPM.RunRecords

def showOptNat : Option Nat → String
  | none => "-"
  | some n => toString n

def showRows (rows : List Row) : String :=
  if rows.isEmpty then "-" else ",".intercalate (rows.map (fun p => s!"{p.1}:{p.2}"))

/-- the harness uses engine ids 0 and 1 -/
def showEngine (s : State) (e : Nat) : String :=
  s!"reg{e}={showBool (s.eng e).registered}\trun{e}={showOptNat (s.eng e).run}"

def showState (s : State) (r : Reply) : String :=
  let rep := match r with
    | .ok => "ok"
    | .notRegistered => "not-registered"
  s!"{rep}\t{showEngine s 0}\t{showEngine s 1}\tplotlogs={showRows s.plotLogs}\trecentruns={showRows s.recentRuns}"

def parseOp : List String → Option Op
  | ["register", e] => e.toNat?.map .register
  | ["disconnect", e] => e.toNat?.map .disconnect
  | ["start", e, r] => match e.toNat?, r.toNat? with
    | some e, some r => some (.start e r)
    | _, _ => none
  | ["stop", e, r] => match e.toNat?, r.toNat? with
    | some e, some r => some (.stop e r)
    | _, _ => none
  | ["restart"] => some .restart
  | ["crash"] => some .crash
  | _ => none

/-- ops:  `register <e>` | `disconnect <e>` | `start <e> <run ordinal>` | `stop <e> <run ordinal>`   (repaired code)
          `restart` | `crash`   the aggregator process ends with / without shutdown(), a new one works on the database
          `contribute <e> <user>`   a user's command for engine e (EngineData.contributors): not part of the model
                                    state — contributors only fill a column of the rows — so the state is unchanged
          the same prefixed with `asis` + tab: the code before fixes/C30-one-record-per-run.diff
    answer: reply kind; registered flag and active run of engines 0 and 1; PlotLogs and RecentRuns rows as
    `engine:run` in insertion order -/
def step (s : State) (line : String) : State × String :=
  match fields line with
  | "asis" :: rest =>
    match parseOp rest with
    | some op => let (s', r) := OPM.RunRecords.step false s op; (s', showState s' r)
    | none => (s, "bad-op")
  | ["contribute", e, u] =>
    match e.toNat?, u.toNat? with
    | some _, some _ => (s, showState s .ok)
    | _, _ => (s, "bad-op")
  | fs =>
    match parseOp fs with
    | some op => let (s', r) := OPM.RunRecords.step true s op; (s', showState s' r)
    | none => (s, "bad-op")

end Driver.RunRecords

def main : IO Unit := Driver.runLoop OPM.RunRecords.init Driver.RunRecords.step
