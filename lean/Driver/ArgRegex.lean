import Driver.Loop
import OPM.Model.Wire
import OPM.Model.ArgRegex
import OPM.Model.ArgRegexAst
namespace Driver.ArgRegex
open OPM OPM.Wire OPM.ArgRegex

/-! ops (tab separated; strings as code-point lists; a list = items joined by `;`, `N` = `[]`, `Z` = `None`):
  `bn <nn> <io> <units>` · `bno <nn> <io> <units>` · `bc <ex> <ad>` · `bcold <ex> <ad>`   → pattern text
  `an <nn> <io> <units> <s>`  → `none` | `m <number> <unit|~>`
  `ano <nn> <io> <units> <s>` → `none` | `m <number|~> <unit|~>`
  `ac <ex> <ad> <s>` · `acold <ex> <ad> <s>`   → `none` | `m <option>`
  `ng <pattern>` → list · `gu|ge|ga|guold <pattern>` → `ok <list>` | `err:ValueError`
  `astn|astno <nn> <io> <units> <ast>` · `astc <ex> <ad> <ast>` → `same` | `differs` (parsed pattern vs model AST)
  `pu <tag units> <pattern>` → `ok <list>` | `err:ValueError` (published command units) · `ru <default|Z> <pattern>` →
  `ok <list>` | `None` | `err:ValueError` (units of the paired process value)
  `classes` → code points of `\s`, of `re.escape`'s specials, of `[0-9]`, of the group-name characters -/

def decList (s : String) : Option (Option (List Str)) :=
  if s = "Z" then some none
  else if s = "N" then some (some [])
  else ((s.splitOn ";").mapM (fun f => (decodeStr f).map String.toList)).map some

def encList (l : List Str) : String :=
  if l.isEmpty then "N" else ";".intercalate (l.map encodeChars)

def lst (o : Option (List Str)) : List Str := o.getD []

def encOpt : Option Str → String
  | none => "~"
  | some s => encodeChars s

def showList : Option (List Str) → String
  | none => "err:ValueError"
  | some l => "ok\t" ++ encList l

def codePoints (p : Char → Bool) : String :=
  showNatList ((List.range 0x3100).filter (fun n => p (Char.ofNat n)))

def step (_ : Unit) (line : String) : Unit × String :=
  ((), match fields line with
  | ["bn", nn, io, us] =>
    match parseBool nn, parseBool io, decList us with
    | some nn, some io, some us => encodeChars (buildNumber (lst us) nn io)
    | _, _, _ => "bad-op"
  | ["bno", nn, io, us] =>
    match parseBool nn, parseBool io, decList us with
    | some nn, some io, some us => encodeChars (buildNumberOptional (lst us) nn io)
    | _, _, _ => "bad-op"
  | ["bc", ex, ad] =>
    match decList ex, decList ad with
    | some none, some none => "err:TypeError"
    | some ex, some ad => encodeChars (buildCategorical (lst ex) (lst ad))
    | _, _ => "bad-op"
  | ["bcold", ex, ad] =>
    match decList ex, decList ad with
    | some none, some none => "err:TypeError"
    | some ex, some ad => encodeChars (buildCategoricalOld (lst ex) (lst ad))
    | _, _ => "bad-op"
  | ["an", nn, io, us, s] =>
    match parseBool nn, parseBool io, decList us, decodeStr s with
    | some nn, some io, some us, some s =>
      match acceptNumber (lst us) nn io s.toList with
      | none => "none"
      | some (n, u) => "m\t" ++ encodeChars n ++ "\t" ++ encOpt u
    | _, _, _, _ => "bad-op"
  | ["ano", nn, io, us, s] =>
    match parseBool nn, parseBool io, decList us, decodeStr s with
    | some nn, some io, some us, some s =>
      match acceptNumberOptional (lst us) nn io s.toList with
      | none => "none"
      | some (n, u) => "m\t" ++ encOpt n ++ "\t" ++ encOpt u
    | _, _, _, _ => "bad-op"
  | ["ac", ex, ad, s] =>
    match decList ex, decList ad, decodeStr s with
    | some ex, some ad, some s =>
      match acceptCategorical (lst ex) (lst ad) s.toList with
      | none => "none"
      | some o => "m\t" ++ encodeChars o
    | _, _, _ => "bad-op"
  | ["acold", ex, ad, s] =>
    match decList ex, decList ad, decodeStr s with
    | some ex, some ad, some s =>
      match acceptCategoricalOld (lst ex) (lst ad) s.toList with
      | none => "none"
      | some o => "m\t" ++ encodeChars o
    | _, _, _ => "bad-op"
  | ["ng", p] => match decodeStr p with
    | some p => encList (namedGroups p.toList)
    | none => "bad-op"
  | ["gu", p] => match decodeStr p with
    | some p => showList (getUnits p.toList)
    | none => "bad-op"
  | ["guold", p] => match decodeStr p with
    | some p => showList (getUnitsOld p.toList)
    | none => "bad-op"
  | ["ge", p] => match decodeStr p with
    | some p => showList (getExclusive p.toList)
    | none => "bad-op"
  | ["ga", p] => match decodeStr p with
    | some p => showList (getAdditive p.toList)
    | none => "bad-op"
  | ["astn", nn, io, us, a] =>
    match parseBool nn, parseBool io, decList us, decodeAst a with
    | some nn, some io, some us, some a => if a = astNumber (lst us) nn io then "same" else "differs"
    | _, _, _, _ => "bad-op"
  | ["astno", nn, io, us, a] =>
    match parseBool nn, parseBool io, decList us, decodeAst a with
    | some nn, some io, some us, some a => if a = astNumberOptional (lst us) nn io then "same" else "differs"
    | _, _, _, _ => "bad-op"
  | ["astc", ex, ad, a] =>
    match decList ex, decList ad, decodeAst a with
    | some ex, some ad, some a => if a = astCategorical (lst ex) (lst ad) then "same" else "differs"
    | _, _, _ => "bad-op"
  | ["pu", tu, p] =>
    match decList tu, decodeStr p with
    | some tu, some p => showList (publishedUnits (lst tu) p.toList)
    | _, _ => "bad-op"
  | ["ru", d, p] =>
    match decList d, decodeStr p with
    | some d, some p =>
      match readingUnits d p.toList with
      | none => "err:ValueError"
      | some none => "None"
      | some (some l) => "ok\t" ++ encList l
    | _, _ => "bad-op"
  | ["classes"] =>
    codePoints isSpace ++ "\t" ++ codePoints isSpecial ++ "\t" ++ codePoints isDigit ++ "\t" ++ codePoints isWord
  | _ => "bad-op")

end Driver.ArgRegex

def main : IO Unit := Driver.runLoop () Driver.ArgRegex.step
