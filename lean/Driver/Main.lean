import Driver.EngineId
/-!
Line-protocol driver: `opmdriver <model>` reads one op per line on stdin and answers one line per
op on stdout. The line `RESET` re-initialises the model state and is answered with `RESET`.
Imports models only (no Mathlib), so it can be compiled to a native executable.
-/

structure Model where
  σ : Type
  init : σ
  step : σ → String → σ × String

def models : List (String × Model) := [
  ("engineid", ⟨Unit, (), Driver.EngineId.step⟩)
]

partial def loop (m : Model) (h : IO.FS.Stream) (out : IO.FS.Stream) (s : m.σ) : IO Unit := do
  let line ← h.getLine
  if line.isEmpty then return ()
  let line := if line.endsWith "\n" then (line.dropEnd 1).toString else line
  if line == "RESET" then
    out.putStrLn "RESET"
    loop m h out m.init
  else
    let (s', o) := m.step s line
    out.putStrLn o
    loop m h out s'

def main (args : List String) : IO UInt32 := do
  match args with
  | [name] =>
    match models.lookup name with
    | some m =>
      let stdin ← IO.getStdin
      let stdout ← IO.getStdout
      loop m stdin stdout m.init
      return 0
    | none => IO.eprintln s!"unknown model {name}"; return 2
  | _ => IO.eprintln "usage: opmdriver <model>"; return 2
