import Driver.Loop
import OPM.Model.Wire
import OPM.Model.Composite
namespace Driver.Composite
open OPM OPM.Wire OPM.Composite

/-!
ops (tab separated; lists `;`-separated, `-` = empty; value = `N` or an integer):
  `layers <r:l;...>`   register → layer assignment (`options["hardware"]`); unlisted = option missing
  `fail <l> <0|1>`     layer l raises on every call from now on / stops raising
  `poke <l> <r> <v>`   put v into layer l's memory (what a read returns)
  `read <r>` · `readb <regs>` · `write <v> <r>` · `writeb <vals> <regs>`
  `readbm <regs>`      deliberately wrong variant of `readb` (used by the harness self-test only)
answer: result, per-layer sequence of delivered (register, value) pairs, per-layer memory (layers 0..3,
registers 0..7).  `readbg` / `writebg`: the same ops called with generator-typed arguments on the Python side.
-/

abbrev V := Option Int

structure DState where
  assign : List (Nat × Nat)
  failing : List Nat
  mem : Mem V

def DState.cfg (d : DState) : Cfg :=
  { layerOf := fun r => (d.assign.find? (fun e => e.1 = r)).map (·.2), failing := fun l => d.failing.contains l }

def init : DState := ⟨[], [], fun _ _ => none⟩

def parseV (t : String) : Option V :=
  if t = "N" then some none else t.toInt?.map some

def parseList {α : Type} (f : String → Option α) (t : String) : Option (List α) :=
  if t = "-" then some [] else (t.splitOn ";").mapM f

def parsePair (t : String) : Option (Nat × Nat) :=
  match t.splitOn ":" with
  | [a, b] => do pure ((← a.toNat?), (← b.toNat?))
  | _ => none

def showV : V → String
  | none => "N"
  | some i => toString i

def showL {α : Type} (f : α → String) (l : List α) : String :=
  if l.isEmpty then "-" else ",".intercalate (l.map f)

def showCall (c : Call V) : String :=
  s!"{c.layer}[{showL toString c.regs}|{showL showV c.vals}]"

def showRes : Res V → String
  | .unit => "unit"
  | .vals vs => "vals:" ++ showL showV vs
  | .raiseHw => "raise:Hw"
  | .raiseKey => "raise:Key"

def showMem (m : Mem V) : String :=
  let cells := (List.range 4).flatMap fun l => (List.range 8).filterMap fun r =>
    (m l r).map fun v => s!"{l}.{r}={v}"
  if cells.isEmpty then "-" else ",".intercalate cells

/-- what the property speaks about: per layer (0..3), the (register, value) pairs delivered to it during
    this op, in delivery order, whatever calls carried them; `~` for a batch that names a register twice
    (only the resulting memory is claimed then).  Read calls are not shown: how the layers are asked is
    not part of the property. -/
def showWlog (o : Out V) (dup : Bool) : String :=
  if dup then "~" else
  let per := (List.range 4).filterMap fun l =>
    let ps := (o.calls.filter (fun c => c.layer = l)).flatMap (fun c => c.regs.zip c.vals)
    if ps.isEmpty then none
    else some (s!"{l}[" ++ ",".intercalate (ps.map (fun e => s!"{e.1}={showV e.2}")) ++ "]")
  if per.isEmpty then "-" else " ".intercalate per

def hasDup (rs : List Nat) : Bool := rs.eraseDups.length != rs.length

def render (o : Out V) (dup : Bool := false) : String :=
  s!"{showRes o.res}\twlog={showWlog o dup}\tmem={showMem o.mem}"

def small (rs : List Nat) : Bool := rs.all (· < 8)

def step (d : DState) (line : String) : DState × String :=
  match fields line with
  | ["layers", a] =>
    match parseList parsePair a with
    | some a => if a.all (fun e => e.1 < 8 && e.2 < 4) then ({ d with assign := a }, "ok") else (d, "bad-op")
    | none => (d, "bad-op")
  | ["fail", l, b] =>
    match l.toNat?, parseBool b with
    | some l, some b =>
      if l ≥ 4 then (d, "bad-op") else
      ({ d with failing := if b then l :: d.failing else d.failing.filter (· ≠ l) }, "ok")
    | _, _ => (d, "bad-op")
  | ["poke", l, r, v] =>
    match l.toNat?, r.toNat?, parseV v with
    | some l, some r, some v =>
      if l ≥ 4 || r ≥ 8 then (d, "bad-op") else ({ d with mem := setMem d.mem l r v }, "ok")
    | _, _, _ => (d, "bad-op")
  | ["read", r] =>
    match r.toNat? with
    | some r => if r ≥ 8 then (d, "bad-op") else
      let o := read d.cfg d.mem r
      ({ d with mem := o.mem }, render o)
    | none => (d, "bad-op")
  | ["readbg", rs]   -- generator-typed argument: same list for the model
  | ["readb", rs] =>
    match parseList String.toNat? rs with
    | some rs => if !small rs then (d, "bad-op") else
      let o := readBatch d.cfg d.mem rs
      ({ d with mem := o.mem }, render o)
    | none => (d, "bad-op")
  | ["readbm", rs] =>
    -- self-test mutant: answers in per-layer group order instead of request order
    match parseList String.toNat? rs with
    | some rs => if !small rs then (d, "bad-op") else
      let o := readBatch d.cfg d.mem rs
      let o' := match o.res with
        | .vals _ => { o with res := .vals (o.calls.flatMap (fun c => c.regs.map (d.mem c.layer))) }
        | _ => o
      ({ d with mem := o.mem }, render o')
    | none => (d, "bad-op")
  | ["write", v, r] =>
    match parseV v, r.toNat? with
    | some v, some r => if r ≥ 8 then (d, "bad-op") else
      let o := write d.cfg d.mem v r
      ({ d with mem := o.mem }, render o)
    | _, _ => (d, "bad-op")
  | ["writebg", vs, rs]
  | ["writeb", vs, rs] =>
    match parseList parseV vs, parseList String.toNat? rs with
    | some vs, some rs => if !small rs then (d, "bad-op") else
      let o := writeBatch d.cfg d.mem vs rs
      ({ d with mem := o.mem }, render o (hasDup ((pairs vs rs).map (·.1))))
    | _, _ => (d, "bad-op")
  | _ => (d, "bad-op")

end Driver.Composite

def main : IO Unit := Driver.runLoop Driver.Composite.init Driver.Composite.step
