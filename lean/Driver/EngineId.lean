import Driver.Loop
import OPM.Model.Wire
import OPM.Model.EngineId
namespace Driver.EngineId
open OPM OPM.Wire OPM.EngineId

/-- ops:  `id <computer> <uod>`  →  encoded id
          `idold <computer> <uod>` → encoded id (pre-fix format; used by the self-test)
          `reg <secretOk> <versionOk> <ignore> <computer> <uod> <connected ids ;-separated>`
    websocket-table histories (state = `Conns`, reset by `RESET`):
          `regs <secretOk> <versionOk> <ignore> <computer> <uod>`   registration against the table
          `conn <channel> <id | N>`     a websocket came up and reported its id (N = none)
          `disc <channel>`
    each answered with the event's outcome and the table: `<outcome>|<id>:<ch>;…` -/
def showReply : RegReply → String
  | .secretMismatch => "secret"
  | .alreadyConnected id => "refused\t" ++ encodeStr id
  | .versionMismatch id => "refused\t" ++ encodeStr id
  | .ok id => "ok\t" ++ encodeStr id

def showTable (s : Conns) : String :=
  "|" ++ ";".intercalate (s.map.map (fun e => encodeStr e.1 ++ ":" ++ toString e.2))

def showOut : COut → String
  | .reg r => showReply r
  | .connected id => "connected\t" ++ encodeStr id
  | .closed => "closed"
  | .disconnected id => "disconnected\t" ++ encodeStr id
  | .unknown => "unknown"

def hstep (s : Conns) (op : COp) : Conns × String :=
  let (s', o) := cstep s op
  (s', showOut o ++ showTable s')

def step (st : Conns) (line : String) : Conns × String :=
  match fields line with
  | ["regs", s, v, i, c, u] =>
    match parseBool s, parseBool v, parseBool i, decodeStr c, decodeStr u with
    | some s, some v, some i, some c, some u => hstep st (.register ⟨c, u, s, v, i⟩)
    | _, _, _, _, _ => (st, "bad-op")
  | ["conn", ch, id] =>
    match ch.toNat?, (if id = "N" then some none else (decodeStr id).map some) with
    | some ch, some id => hstep st (.connect ch id)
    | _, _ => (st, "bad-op")
  | ["disc", ch] =>
    match ch.toNat? with
    | some ch => hstep st (.disconnect ch)
    | none => (st, "bad-op")
  | l => let (_, o) := stepPure l; (st, o)
where stepPure (l : List String) : Unit × String :=
  match l with
  | ["id", c, u] =>
    match decodeStr c, decodeStr u with
    | some c, some u => ((), encodeStr (engineId c u))
    | _, _ => ((), "bad-op")
  | ["idold", c, u] =>
    match decodeStr c, decodeStr u with
    | some c, some u => ((), encodeStr (engineIdOld c u))
    | _, _ => ((), "bad-op")
  | ["reg", s, v, i, c, u, conn] =>
    match parseBool s, parseBool v, parseBool i, decodeStr c, decodeStr u,
          ((conn.splitOn ";").filter (· ≠ "")).mapM decodeStr with
    | some s, some v, some i, some c, some u, some conn =>
      let r := register conn ⟨c, u, s, v, i⟩
      ((), showReply r)
    | _, _, _, _, _, _ => ((), "bad-op")
  | _ => ((), "bad-op")

end Driver.EngineId

def main : IO Unit := Driver.runLoop ({} : OPM.EngineId.Conns) Driver.EngineId.step
