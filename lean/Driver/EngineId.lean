import Driver.Loop
import OPM.Model.Wire
import OPM.Model.EngineId
namespace Driver.EngineId
open OPM OPM.Wire OPM.EngineId

/-- ops:  `id <computer> <uod>`  →  encoded id
          `idold <computer> <uod>` → encoded id (pre-fix format; used by the self-test)
          `reg <secretOk> <versionOk> <ignore> <computer> <uod> <connected ids ;-separated>` -/
def step (_ : Unit) (line : String) : Unit × String :=
  match fields line with
  | ["id", c, u] =>
    match decodeStr c, decodeStr u with
    | some c, some u => ((), encodeStr (engineId c u))
    | _, _ => ((), "bad-op")
  | ["idold", c, u] =>
    match decodeStr c, decodeStr u with
    | some c, some u => ((), encodeStr (engineIdOld c u))
    | _, _ => ((), "bad-op")
  | ["reg", s, v, i, c, u, conn] =>
    match parseBool s, parseBool v, parseBool i, decodeStr c, decodeStr u,
          ((conn.splitOn ";").filter (· ≠ "")).mapM decodeStr with
    | some s, some v, some i, some c, some u, some conn =>
      let r := register conn ⟨c, u, s, v, i⟩
      ((), match r with
        | .secretMismatch => "secret"
        | .alreadyConnected id => "refused\t" ++ encodeStr id
        | .versionMismatch id => "refused\t" ++ encodeStr id
        | .ok id => "ok\t" ++ encodeStr id)
    | _, _, _, _, _, _ => ((), "bad-op")
  | _ => ((), "bad-op")

end Driver.EngineId

def main : IO Unit := Driver.runLoop () Driver.EngineId.step
