import Driver.Loop
import OPM.Model.Wire
import OPM.Model.Tags
import OPM.Gen.TagSites
namespace Driver.Tags
open OPM OPM.Wire OPM.Tags OPM.Gen.TagSites

/-!
ops (tab separated; values: `n` = None, otherwise an integer; times: integers, 1/1024 s)
  decl <sys 0|1> <val> <time>            declare the next tag                          → ok
  decls <sys>:<val>:<time>;…             declare several tags                          → ok
  set|sim <i> <val> <time>               Tag.set_value / simulate_value                → ok
  simfail|simoff|simoffold|simfailold <i>                                               → ok
  stamp <i> <time> ; silent <i> <val> ; notify                                          → ok
  etick <time> <i>:<val>,…|-             Engine.tick of a stopped engine                → ok
  collect <snapshot 0|1> <now>           collect_tag_updates → the entries that tell the receiver something new
                                         (value or simulated differ from what was last reported for the tag),
                                         sorted by position: `i:val:time:sim;…` or `-`; a snapshot is
                                         prefixed with `S<number of entries>|`
  tick <t> <wall>                        start of Engine.tick(t): parameter bound, statements of the tick pending → ok
  phase <callee>|stamp                   run the translated statements of Engine.tick up to that call (entering
                                         self.interpreter.tick also runs tick_iterate_subticks' assignment) → ok
  sat <file> <line> set|sim <i> <val>    a primitive call at a scanned call site: the time argument is NOT given,
                                         the model evaluates the site's translated expression → `t=<time>`
  stat <file> <line> <i>                 a direct `tag.tick_time = …` at a scanned site → `t=<time>`
  bt|btold <idx> start <now> | bstart | bend | tick <t> <dt> | pause | unpause
  st|stold <idx> start <now> | sstart <now> | act <id> | end <id> | tick <t> <dt> | pause | unpause
                                         clock tag handlers → `ok <get_value>` or `err:<Exception> <get_value>`
An operation that addresses a tag that does not exist, or is ill-formed, is answered `bad-op`.
-/

structure St where
  s : State
  bt : BlockTime
  st : ScopeTime
  /-- environment of the running tick and the statements of `Engine.tick` still to run -/
  env : Env
  rest : List Stmt
  /-- what the receiver of the reports knows per tag -/
  view : List (Nat × Val × Time × Bool)

def init : St := ⟨State.empty, BlockTime.init, ScopeTime.init, Env.init, [], []⟩

/-- entries that differ from the receiver's view, and the updated view -/
def news (view : List (Nat × Val × Time × Bool)) : List Entry → List (Nat × Val × Time × Bool) × List Entry
  | [] => (view, [])
  | e :: es =>
    let cur := (e.idx, e.value, e.tickTime, e.simulated)
    -- news = the value or the simulated flag differs from what the receiver knows (a new time alone is not a change)
    if view.any (fun v => v.1 = e.idx && v.2.1 = e.value && v.2.2.2 = e.simulated) then news view es
    else
      let r := news (cur :: view.filter (fun v => v.1 ≠ e.idx)) es
      (r.1, e :: r.2)

def findSite (file : String) (line : Nat) : Option SetSite :=
  setSites.find? (fun s => s.file = file && s.line ≤ line && line ≤ s.endLine)

def findStamp (file : String) (line : Nat) : Option StampSite :=
  stampSites.find? (fun s => s.file = file && s.line = line)

def parseVal (x : String) : Option Val :=
  if x = "n" then some none else x.toInt?.map some

def showVal : Val → String
  | none => "n"
  | some k => toString k

def showEntry (e : Entry) : String :=
  s!"{e.idx}:{showVal e.value}:{e.tickTime}:{showBool e.simulated}"

def insertSorted (e : Entry) : List Entry → List Entry
  | [] => [e]
  | x :: xs => if e.idx ≤ x.idx then e :: x :: xs else x :: insertSorted e xs

def sortEntries (l : List Entry) : List Entry := l.foldr insertSorted []

def tagOp (σ : St) (o : Op) : St × String :=
  match o.target with
  | some i => if i < σ.s.tags.length then ({ σ with s := step σ.s o }, "ok") else (σ, "bad-op")
  | none => ({ σ with s := step σ.s o }, "ok")

def parseReads (x : String) : Option (List (Nat × Val)) :=
  if x = "-" then some [] else
  (x.splitOn ",").mapM fun p =>
    match p.splitOn ":" with
    | [i, v] => match i.toNat?, parseVal v with
      | some i, some v => some (i, v)
      | _, _ => none
    | _ => none

def clockAnswer (err : Option String) (v : Int) : String :=
  match err with
  | none => s!"ok {v}"
  | some e => s!"err:{e} {v}"

def btEvent (args : List String) : Option BtEv :=
  match args with
  | ["start", now] => now.toInt?.map BtEv.start
  | ["bstart"] => some .blockStart
  | ["bend"] => some .blockEnd
  | ["tick", t, dt] => match t.toInt?, dt.toInt? with
    | some t, some dt => some (.tick t dt)
    | _, _ => none
  | ["pause"] => some .pause
  | ["unpause"] => some .unpause
  | _ => none

def stEvent (args : List String) : Option StEv :=
  match args with
  | ["start", now] => now.toInt?.map StEv.start
  | ["sstart", now] => now.toInt?.map StEv.scopeStart
  | ["act", k] => k.toNat?.map StEv.scopeActivate
  | ["end", k] => k.toNat?.map StEv.scopeEnd
  | ["tick", t, dt] => match t.toInt?, dt.toInt? with
    | some t, some dt => some (.tick t dt)
    | _, _ => none
  | ["pause"] => some .pause
  | ["unpause"] => some .unpause
  | _ => none

def parseDecls (x : String) : Option (List (Bool × Val × Int)) :=
  (x.splitOn ";").mapM fun p =>
    match p.splitOn ":" with
    | [sys, v, t] => match parseBool sys, parseVal v, t.toInt? with
      | some sys, some v, some t => some (sys, v, t)
      | _, _, _ => none
    | _ => none

def step (σ : St) (line : String) : St × String :=
  match fields line with
  | ["decls", ds] =>
    match parseDecls ds with
    | some ds =>
      -- the receiver knows the state the run starts from (as after an initial snapshot)
      let s' := ds.foldl (fun s d => s.addTag d.1 d.2.1 d.2.2) σ.s
      let n0 := σ.s.tags.length
      let v' := (List.range ds.length).zip ds |>.map (fun p => (n0 + p.1, p.2.2.1, p.2.2.2, false))
      ({ σ with s := s', view := v' ++ σ.view }, "ok")
    | none => (σ, "bad-op")
  | ["decl", sys, v, t] =>
    match parseBool sys, parseVal v, t.toInt? with
    | some sys, some v, some t =>
      ({ σ with s := σ.s.addTag sys v t, view := (σ.s.tags.length, v, t, false) :: σ.view }, "ok")
    | _, _, _ => (σ, "bad-op")
  | ["set", i, v, t] =>
    match i.toNat?, parseVal v, t.toInt? with
    | some i, some v, some t => tagOp σ (.set i v t)
    | _, _, _ => (σ, "bad-op")
  | ["sim", i, v, t] =>
    match i.toNat?, parseVal v, t.toInt? with
    | some i, some v, some t => tagOp σ (.sim i v t)
    | _, _, _ => (σ, "bad-op")
  | ["simfail", i] => match i.toNat? with
    | some i => tagOp σ (.simFail i)
    | none => (σ, "bad-op")
  | ["simoff", i] => match i.toNat? with
    | some i => tagOp σ (.simOff i)
    | none => (σ, "bad-op")
  | ["simoffold", i] => match i.toNat? with
    | some i => tagOp σ (.simOffOld i)
    | none => (σ, "bad-op")
  | ["simfailold", i] => match i.toNat? with
    | some i => tagOp σ (.simFailOld i)
    | none => (σ, "bad-op")
  | ["stamp", i, t] =>
    match i.toNat?, t.toInt? with
    | some i, some t => tagOp σ (.stamp i t)
    | _, _ => (σ, "bad-op")
  | ["silent", i, v] =>
    match i.toNat?, parseVal v with
    | some i, some v => tagOp σ (.silent i v)
    | _, _ => (σ, "bad-op")
  | ["notify"] => tagOp σ .notify
  | ["etick", t, reads] =>
    match t.toInt?, parseReads reads with
    | some t, some reads =>
      if reads.all (fun r => r.1 < σ.s.tags.length) then ({ σ with s := engineTick σ.s t reads }, "ok")
      else (σ, "bad-op")
    | _, _ => (σ, "bad-op")
  | ["collect", snap, now] =>
    match parseBool snap, now.toInt? with
    | some snap, some now =>
      let r := collect σ.s snap now
      let es := sortEntries r.2
      let nv := news σ.view es
      let body := if nv.2.isEmpty then "-" else ";".intercalate (nv.2.map showEntry)
      ({ σ with s := r.1, view := nv.1 }, if snap then s!"S{es.length}|{body}" else body)
    | _, _ => (σ, "bad-op")
  | ["tick", t, w] =>
    match t.toInt?, w.toInt? with
    | some t, some w => ({ σ with env := σ.env.enterTick t w, rest := engineTickStmts }, "ok")
    | _, _ => (σ, "bad-op")
  | ["phase", "stamp"] =>
    match advanceStamp σ.rest σ.env with
    | some (e, _, rest) => ({ σ with env := e, rest := rest }, "ok")
    | none => (σ, "no-such-phase")
  | ["phase", name] =>
    match advance name σ.rest σ.env with
    | some (e, a, _, _, rest) =>
      let e' := if name = "self.interpreter.tick" then
          match a with
          | some x => enterInterp interpTickStmts e (evalArg e 0 0 x)
          | none => e
        else e
      ({ σ with env := e', rest := rest }, "ok")
    | none => (σ, "no-such-phase")
  | ["sat", file, line, kind, i, v] =>
    match line.toNat?, i.toNat?, parseVal v with
    | some line, some i, some v =>
      match findSite file line with
      | none => (σ, "no-such-site")
      | some site =>
        let t := evalArg σ.env σ.env.param 0 site.expr
        if kind = "set" then
          let r := tagOp σ (.set i v t)
          (r.1, if r.2 = "ok" then s!"t={t}" else r.2)
        else if kind = "sim" then
          let r := tagOp σ (.sim i v t)
          (r.1, if r.2 = "ok" then s!"t={t}" else r.2)
        else (σ, "bad-op")
    | _, _, _ => (σ, "bad-op")
  | ["stat", file, line, i] =>
    match line.toNat?, i.toNat? with
    | some line, some i =>
      match findStamp file line with
      | none => (σ, "no-such-site")
      | some site =>
        let t := evalArg σ.env σ.env.param 0 site.expr
        let r := tagOp σ (.stamp i t)
        (r.1, if r.2 = "ok" then s!"t={t}" else r.2)
    | _, _ => (σ, "bad-op")
  | "bt" :: idx :: args =>
    match idx.toNat?, btEvent args with
    | some idx, some ev =>
      if idx < σ.s.tags.length then
        let r := btStep idx σ.bt ev
        ({ σ with s := run σ.s r.ops, bt := r.st }, clockAnswer r.err r.st.getValue)
      else (σ, "bad-op")
    | _, _ => (σ, "bad-op")
  | "btold" :: idx :: args =>
    match idx.toNat?, btEvent args with
    | some idx, some ev =>
      if idx < σ.s.tags.length then
        let r := btStepOld idx σ.bt ev
        ({ σ with s := run σ.s r.ops, bt := r.st }, clockAnswer r.err r.st.getValue)
      else (σ, "bad-op")
    | _, _ => (σ, "bad-op")
  | "st" :: idx :: args =>
    match idx.toNat?, stEvent args with
    | some idx, some ev =>
      if idx < σ.s.tags.length then
        let r := stStep idx σ.st ev
        ({ σ with s := run σ.s r.ops, st := r.st }, clockAnswer r.err r.st.getValue)
      else (σ, "bad-op")
    | _, _ => (σ, "bad-op")
  | "stold" :: idx :: args =>
    match idx.toNat?, stEvent args with
    | some idx, some ev =>
      if idx < σ.s.tags.length then
        let r := stStepOld idx σ.st ev
        ({ σ with s := run σ.s r.ops, st := r.st }, clockAnswer r.err r.st.getValue)
      else (σ, "bad-op")
    | _, _ => (σ, "bad-op")
  | _ => (σ, "bad-op")

end Driver.Tags

def main : IO Unit := Driver.runLoop Driver.Tags.init Driver.Tags.step
