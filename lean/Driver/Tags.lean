import Driver.Loop
import OPM.Model.Wire
import OPM.Model.Tags
namespace Driver.Tags
open OPM OPM.Wire OPM.Tags

/-!
ops (tab separated; values: `n` = None, otherwise an integer; times: integers, 1/1024 s)
  decl <sys 0|1> <val> <time>            declare the next tag                          → ok
  decls <sys>:<val>:<time>;…             declare several tags                          → ok
  set|sim <i> <val> <time>               Tag.set_value / simulate_value                → ok
  simfail|simoff|simoffold|simfailold <i>                                               → ok
  stamp <i> <time> ; silent <i> <val> ; notify                                          → ok
  etick <time> <i>:<val>,…|-             Engine.tick of a stopped engine                → ok
  collect <snapshot 0|1> <now>           collect_tag_updates → entries sorted by position,
                                         `i:val:time:sim;…` or `-`
  bt|btold <idx> start <now> | bstart | bend | tick <t> <dt> | pause | unpause
  st|stold <idx> start <now> | sstart <now> | act <id> | end <id> | tick <t> <dt> | pause | unpause
                                         clock tag handlers → `ok <get_value>` or `err:<Exception> <get_value>`
An operation that addresses a tag that does not exist, or is ill-formed, is answered `bad-op`.
-/

structure St where
  s : State
  bt : BlockTime
  st : ScopeTime

def init : St := ⟨State.empty, BlockTime.init, ScopeTime.init⟩

def parseVal (x : String) : Option Val :=
  if x = "n" then some none else x.toInt?.map some

def showVal : Val → String
  | none => "n"
  | some k => toString k

def showEntry (e : Entry) : String :=
  s!"{e.idx}:{showVal e.value}:{e.tickTime}:{showBool e.simulated}"

def insertSorted (e : Entry) : List Entry → List Entry
  | [] => [e]
  | x :: xs => if e.idx ≤ x.idx then e :: x :: xs else x :: insertSorted e xs

def sortEntries (l : List Entry) : List Entry := l.foldr insertSorted []

def tagOp (σ : St) (o : Op) : St × String :=
  match o.target with
  | some i => if i < σ.s.tags.length then ({ σ with s := step σ.s o }, "ok") else (σ, "bad-op")
  | none => ({ σ with s := step σ.s o }, "ok")

def parseReads (x : String) : Option (List (Nat × Val)) :=
  if x = "-" then some [] else
  (x.splitOn ",").mapM fun p =>
    match p.splitOn ":" with
    | [i, v] => match i.toNat?, parseVal v with
      | some i, some v => some (i, v)
      | _, _ => none
    | _ => none

def clockAnswer (err : Option String) (v : Int) : String :=
  match err with
  | none => s!"ok {v}"
  | some e => s!"err:{e} {v}"

def btEvent (args : List String) : Option BtEv :=
  match args with
  | ["start", now] => now.toInt?.map BtEv.start
  | ["bstart"] => some .blockStart
  | ["bend"] => some .blockEnd
  | ["tick", t, dt] => match t.toInt?, dt.toInt? with
    | some t, some dt => some (.tick t dt)
    | _, _ => none
  | ["pause"] => some .pause
  | ["unpause"] => some .unpause
  | _ => none

def stEvent (args : List String) : Option StEv :=
  match args with
  | ["start", now] => now.toInt?.map StEv.start
  | ["sstart", now] => now.toInt?.map StEv.scopeStart
  | ["act", k] => k.toNat?.map StEv.scopeActivate
  | ["end", k] => k.toNat?.map StEv.scopeEnd
  | ["tick", t, dt] => match t.toInt?, dt.toInt? with
    | some t, some dt => some (.tick t dt)
    | _, _ => none
  | ["pause"] => some .pause
  | ["unpause"] => some .unpause
  | _ => none

def parseDecls (x : String) : Option (List (Bool × Val × Int)) :=
  (x.splitOn ";").mapM fun p =>
    match p.splitOn ":" with
    | [sys, v, t] => match parseBool sys, parseVal v, t.toInt? with
      | some sys, some v, some t => some (sys, v, t)
      | _, _, _ => none
    | _ => none

def step (σ : St) (line : String) : St × String :=
  match fields line with
  | ["decls", ds] =>
    match parseDecls ds with
    | some ds => ({ σ with s := ds.foldl (fun s d => s.addTag d.1 d.2.1 d.2.2) σ.s }, "ok")
    | none => (σ, "bad-op")
  | ["decl", sys, v, t] =>
    match parseBool sys, parseVal v, t.toInt? with
    | some sys, some v, some t => ({ σ with s := σ.s.addTag sys v t }, "ok")
    | _, _, _ => (σ, "bad-op")
  | ["set", i, v, t] =>
    match i.toNat?, parseVal v, t.toInt? with
    | some i, some v, some t => tagOp σ (.set i v t)
    | _, _, _ => (σ, "bad-op")
  | ["sim", i, v, t] =>
    match i.toNat?, parseVal v, t.toInt? with
    | some i, some v, some t => tagOp σ (.sim i v t)
    | _, _, _ => (σ, "bad-op")
  | ["simfail", i] => match i.toNat? with
    | some i => tagOp σ (.simFail i)
    | none => (σ, "bad-op")
  | ["simoff", i] => match i.toNat? with
    | some i => tagOp σ (.simOff i)
    | none => (σ, "bad-op")
  | ["simoffold", i] => match i.toNat? with
    | some i => tagOp σ (.simOffOld i)
    | none => (σ, "bad-op")
  | ["simfailold", i] => match i.toNat? with
    | some i => tagOp σ (.simFailOld i)
    | none => (σ, "bad-op")
  | ["stamp", i, t] =>
    match i.toNat?, t.toInt? with
    | some i, some t => tagOp σ (.stamp i t)
    | _, _ => (σ, "bad-op")
  | ["silent", i, v] =>
    match i.toNat?, parseVal v with
    | some i, some v => tagOp σ (.silent i v)
    | _, _ => (σ, "bad-op")
  | ["notify"] => tagOp σ .notify
  | ["etick", t, reads] =>
    match t.toInt?, parseReads reads with
    | some t, some reads =>
      if reads.all (fun r => r.1 < σ.s.tags.length) then ({ σ with s := engineTick σ.s t reads }, "ok")
      else (σ, "bad-op")
    | _, _ => (σ, "bad-op")
  | ["collect", snap, now] =>
    match parseBool snap, now.toInt? with
    | some snap, some now =>
      let r := collect σ.s snap now
      let es := sortEntries r.2
      ({ σ with s := r.1 }, if es.isEmpty then "-" else ";".intercalate (es.map showEntry))
    | _, _ => (σ, "bad-op")
  | "bt" :: idx :: args =>
    match idx.toNat?, btEvent args with
    | some idx, some ev =>
      if idx < σ.s.tags.length then
        let r := btStep idx σ.bt ev
        ({ σ with s := run σ.s r.ops, bt := r.st }, clockAnswer r.err r.st.getValue)
      else (σ, "bad-op")
    | _, _ => (σ, "bad-op")
  | "btold" :: idx :: args =>
    match idx.toNat?, btEvent args with
    | some idx, some ev =>
      if idx < σ.s.tags.length then
        let r := btStepOld idx σ.bt ev
        ({ σ with s := run σ.s r.ops, bt := r.st }, clockAnswer r.err r.st.getValue)
      else (σ, "bad-op")
    | _, _ => (σ, "bad-op")
  | "st" :: idx :: args =>
    match idx.toNat?, stEvent args with
    | some idx, some ev =>
      if idx < σ.s.tags.length then
        let r := stStep idx σ.st ev
        ({ σ with s := run σ.s r.ops, st := r.st }, clockAnswer r.err r.st.getValue)
      else (σ, "bad-op")
    | _, _ => (σ, "bad-op")
  | "stold" :: idx :: args =>
    match idx.toNat?, stEvent args with
    | some idx, some ev =>
      if idx < σ.s.tags.length then
        let r := stStepOld idx σ.st ev
        ({ σ with s := run σ.s r.ops, st := r.st }, clockAnswer r.err r.st.getValue)
      else (σ, "bad-op")
    | _, _ => (σ, "bad-op")
  | _ => (σ, "bad-op")

end Driver.Tags

def main : IO Unit := Driver.runLoop Driver.Tags.init Driver.Tags.step
