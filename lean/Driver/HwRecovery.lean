import Driver.Loop
import OPM.Model.Wire
import OPM.Model.HwRecovery
namespace Driver.HwRecovery
open OPM OPM.Wire OPM.HwRecovery

/-!
ops (tab separated):
  `init <connected> <t1> <t2> <backoff list> <asIsPending> <asIsFloat> <proto|full>`
  `adv <d>` · `connect <ok>` · `tick <ok>`
  `read <reg> <F|val>` · `readb <regs> <F|vals>`
  `write <reg> <wval> <ok> <flush bits>` · `writeb <regs> <wvals> <ok|k> <flush bits>`
reg = `<id><r|w|b>`; val = `N` | `n<int>` | `f<int>` | `s<nat>`; lists `;`-separated, `-` = empty.
answer: result, hardware contact, reconnect attempt, protocol state, last-known-good reads and —
in the `full` view — last written values, pending writes, hardware memory, physical writes.
-/

structure DState where
  cfg : Cfg
  full : Bool
  s : State

def parseVal (t : String) : Option WVal :=
  if t = "N" then some ⟨.none, false⟩
  else match t.toList with
    | 'n' :: rest => (String.ofList rest).toInt?.map (fun i => ⟨.num i, false⟩)
    | 'f' :: rest => (String.ofList rest).toInt?.map (fun i => ⟨.num i, true⟩)
    | 's' :: rest => (String.ofList rest).toNat?.map (fun n => ⟨.str n, false⟩)
    | _ => none

def parseReg (t : String) : Option Reg :=
  match t.toList.reverse with
  | d :: rest =>
    match (String.ofList rest.reverse).toNat?, d with
    | some i, 'r' => some ⟨i, .r⟩
    | some i, 'w' => some ⟨i, .w⟩
    | some i, 'b' => some ⟨i, .rw⟩
    | _, _ => none
  | [] => none

def parseList {α : Type} (f : String → Option α) (t : String) : Option (List α) :=
  if t = "-" then some [] else (t.splitOn ";").mapM f

def parseBits (t : String) : Option (List Bool) :=
  if t = "-" then some [] else t.toList.mapM (fun c => if c = '1' then some true else if c = '0' then some false else none)

def showVal : Val → String
  | .none => "N"
  | .num i => "n" ++ toString i
  | .str c => "s" ++ toString c

def showVals (l : List Val) : String :=
  if l.isEmpty then "-" else ";".intercalate (l.map showVal)

def showPairs (l : List (RegId × Val)) : String :=
  if l.isEmpty then "-" else ";".intercalate (l.map (fun e => toString e.1 ++ ":" ++ showVal e.2))

def showMap (m : Map) : String :=
  showPairs ((List.range 8).filterMap (fun i => (m i).map (fun v => (i, v))))

def showOB : Option Bool → String
  | none => "-"
  | some b => showBool b

def showSt : RState → String
  | .disconnected => "Disconnected" | .ok => "OK" | .issue => "Issue"
  | .reconnect => "Reconnect" | .error => "Error"

def showRes : Res → String
  | .unit => "unit"
  | .vals vs => "vals:" ++ showVals vs
  | .raiseHw => "raise:Hw"
  | .raiseKey => "raise:Key"

def render (full : Bool) (s : State) (o : Out) : String :=
  let proto := s!"{showRes o.res}\tc={showOB o.contact}\trc={showOB o.reconn}\tst={showSt s.st} disc={showBool s.disc} now={s.now} ls={s.lastSuccess} re={s.reconnEntered} rt={s.rt}\tlkg={showMap s.lkg}"
  if full then
    proto ++ s!"\tlsw={showMap s.lsw}\tpend={showPairs s.pending}\thw={showMap s.hw}\tw={showPairs o.writes}\tff={showBool o.flushFail}"
  else proto

def parseOp (fs : List String) : Option Op :=
  match fs with
  | ["adv", d] => d.toNat?.map Op.advance
  | ["connect", ok] => (parseBool ok).map Op.connect
  | ["tick", ok] => (parseBool ok).map Op.tick
  | ["read", r, v] => do
    let r ← parseReg r
    if v = "F" then pure (Op.read r none) else
    let w ← parseVal v
    pure (Op.read r (some w.v))
  | ["readb", rs, vs] => do
    let rs ← parseList parseReg rs
    if vs = "F" then pure (Op.readBatch rs none) else
    let ws ← parseList parseVal vs
    pure (Op.readBatch rs (some (ws.map (·.v))))
  | ["write", r, v, ok, fl] => do
    pure (Op.write (← parseReg r) (← parseVal v) (← parseBool ok) (← parseBits fl))
  | ["writeb", rs, vs, ok, fl] => do
    let failAt ← if ok = "ok" then some none else ok.toNat?.map some
    pure (Op.writeBatch (← parseList parseReg rs) (← parseList parseVal vs) failAt (← parseBits fl))
  | _ => none

def maxId : Op → Nat
  | .read r _ | .write r _ _ _ => r.id
  | .readBatch rs _ | .writeBatch rs _ _ _ => rs.foldl (fun m r => max m r.id) 0
  | _ => 0

def step (d : Option DState) (line : String) : Option DState × String :=
  match fields line, d with
  | ["init", c, t1, t2, bk, ap, af, view], none =>
    match parseBool c, t1.toNat?, t2.toNat?, natList bk, parseBool ap, parseBool af with
    | some c, some t1, some t2, some bk, some ap, some af =>
      match bk.getLast? with
      | some last =>
        if last = 0 || (view ≠ "proto" && view ≠ "full") then (d, "bad-op") else
        let cfg : Cfg := { t1 := t1, t2 := t2, bk := bk, asIsPending := ap, asIsFloat := af }
        let s := init c
        (some ⟨cfg, view = "full", s⟩, render (view = "full") s { res := .unit })
      | none => (d, "bad-op")
    | _, _, _, _, _, _ => (d, "bad-op")
  | fs, some ds =>
    match parseOp fs with
    | some op =>
      if maxId op ≥ 8 then (d, "bad-op") else
      let (s', o) := OPM.HwRecovery.step ds.cfg ds.s op
      (some { ds with s := s' }, render ds.full s' o)
    | none => (d, "bad-op")
  | _, none => (d, "bad-op")

end Driver.HwRecovery

def main : IO Unit := Driver.runLoop none Driver.HwRecovery.step
