import Driver.Loop
import OPM.Model.Wire
import OPM.Model.RunState
import OPM.Model.RunStateOut
/-!
Line-protocol driver of model M1 + outputs (RunStateOut), used by C08.

First line of a case:  `cfg <bits> <safes> <outs>` (bits: see `parseBits`)
Then:
  `user <name>`   control command name, or a UOD command of the harness UOD: `W<k>` (writes 60+k once),
                  `L<k>` (writes 70+k for three iterations), k = output register 0..2; anything else ⇒ unknown
  `tick <adv> <inc> <readFail> <interpFail> <items>`   items as for RunState plus `u.<cmd>:<val>:<iters>`
                  (an interpreter-sourced UOD command; cmd = 2k for W<k>, 2k+1 for L<k>)
  `errapi`
Answer: `<result> <observations>`, the observations include every write_batch of the operation (`wl=`).
-/
namespace Driver.RunStateOut
open OPM OPM.Wire OPM.RunState

structure Sess where
  cfg : Cfg
  st : OState

def parseCmd : String → Option Cmd
  | "start" => some .start | "stop" => some .stop | "pause" => some .pause | "unpause" => some .unpause
  | "hold" => some .hold | "unhold" => some .unhold | "restart" => some .restart
  | _ => none

def parseUserCmd : String → Option Cmd
  | "Start" => some .start | "Stop" => some .stop | "Pause" => some .pause | "Unpause" => some .unpause
  | "Hold" => some .hold | "Unhold" => some .unhold | "Restart" => some .restart
  | _ => none

/-- `W<k>` / `L<k>` → (command index, default value, default iterations) -/
def parseUodName (s : String) : Option (Nat × Int × Nat) :=
  match s.toList with
  | ['W', d] => if d.isDigit ∧ d.toNat - 48 < 3 then some (2 * (d.toNat - 48), 60 + ((d.toNat - 48 : Nat) : Int), 1) else none
  | ['L', d] => if d.isDigit ∧ d.toNat - 48 < 3 then some (2 * (d.toNat - 48) + 1, 70 + ((d.toNat - 48 : Nat) : Int), 3) else none
  | _ => none

def sysName : Sys → String
  | .running => "Running" | .paused => "Paused" | .holding => "Holding"
  | .stopped => "Stopped" | .restarting => "Restarting"

/-- repair switches as a string of 0/1 in the order guard, clocks, prevFix, startWrite, pauseGate, errSafe,
    pauseOnce, idleErr, cancel2, scopeReset (missing = 0) -/
def parseBits (s : String) : Option (Nat → Bool) :=
  if s.toList.all (fun c => c = '0' || c = '1') then some (fun i => s.toList.getD i '0' == '1') else none

def parseSafes (s : String) : Option (List (Option Int)) :=
  if s = "-" then some [] else
  (s.splitOn ",").mapM (fun p => if p = "_" then some none else p.toInt?.map some)

def parseItem (s : String) : Option ItemO :=
  if s = "bs" then some (.m (.ev .blockStart))
  else if s = "be" then some (.m (.ev .blockEnd))
  else if s.startsWith "sa" then (s.drop 2).toString.toNat?.map (fun k => .m (.ev (.scopeActivate k)))
  else if s.startsWith "se" then (s.drop 2).toString.toNat?.map (fun k => .m (.ev (.scopeEnd k)))
  else if s.startsWith "m." then
    match ((s.drop 2).toString.splitOn ":") with
    | [c] => (parseCmd c).map (fun c => .m (.cmd c .none))
    | [c, "x"] => (parseCmd c).map (fun c => .m (.cmd c .bad))
    | [c, d] => do
      let c ← parseCmd c
      let d ← d.toInt?
      pure (.m (.cmd c (.dur d)))
    | _ => none
  else if s.startsWith "u." then
    match ((s.drop 2).toString.splitOn ":") with
    | [c, v, n] => do
      let c ← c.toNat?
      let v ← v.toInt?
      let n ← n.toNat?
      if c < 6 then pure (.u c v n) else none
    | _ => none
  else none

def parseItems (s : String) : Option (List ItemO) :=
  if s = "-" then some [] else (s.splitOn ",").mapM parseItem

def showInts (l : List Int) : String := if l.isEmpty then "-" else ",".intercalate (l.map toString)
def showOpts (l : List (Option Int)) : String :=
  if l.isEmpty then "-" else ",".intercalate (l.map (fun o => match o with | some v => toString v | none => "_"))

def uodName (c : Nat) : String := (if c % 2 = 0 then "W" else "L") ++ toString (c / 2)

def showU (u : UReq) : String := uodName u.cmd ++ (if u.user then ".u" else ".m")

def observe (o : OState) (nw0 : Nat) : String :=
  let s := o.base
  let c := s.core
  let b := showBool
  let ws := c.writes.drop nw0
  s!"st={sysName c.sys} f={b c.started}{b c.paused}{b c.holding}{b c.stopping} " ++
  s!"rid={match c.runId with | some r => toString r | none => "-"} ms={b c.methodErr} interp={b s.lastInterp} " ++
  s!"out={showInts c.outs} prev={match c.prev with | some p => showOpts p | none => "none"} " ++
  s!"wl={if ws.isEmpty then "-" else "|".intercalate (ws.map (fun w => showInts w.vals))} " ++
  s!"uinst={if o.uinst.isEmpty then "-" else ",".intercalate ((o.uinst.map (fun p => p.1)).mergeSort.map uodName)} " ++
  s!"uex={if o.um.exec.isEmpty then "-" else ",".intercalate (o.um.exec.map showU)}"

def step (σ : Option Sess) (line : String) : Option Sess × String :=
  match σ, fields line with
  | none, ["cfg", bits, safes, outs] =>
    match parseBits bits, parseSafes safes, intList outs with
    | some f, some safes, some outs =>
      let cfg : Cfg := { safes, guard := f 0, clocks := f 1, prevFix := f 2, startWrite := f 3, pauseGate := f 4,
                         errSafe := f 5, pauseOnce := f 6, idleErr := f 7,
                         cancel2 := f 8, scopeReset := f 9 }
      let st := initO cfg outs
      (some ⟨cfg, st⟩, "init " ++ observe st 0)
    | _, _, _ => (none, "bad-op")
  | none, _ => (none, "bad-op")
  | some ss, fs =>
    let nw0 := ss.st.base.core.writes.length
    let fin (op : OpO) (unknown : Option String) : Option Sess × String :=
      match unknown with
      | some r => (σ, r ++ " " ++ observe ss.st nw0)
      | none =>
        let (st', out) := stepO ss.cfg ss.st op
        if st'.base.gateViolation then (some { ss with st := st' }, "bad-op gate")
        else if st'.scopeViolation then (some { ss with st := st' }, "bad-op scope")
        else
          let res := match out with
            | .none => "-" | .accepted => "ok" | .rejected => "err:ValueError" | .unknown => "err:Exception"
          (some { ss with st := st' }, res ++ " " ++ observe st' nw0)
    match fs with
    | ["user", name] =>
      match parseUserCmd name, parseUodName name with
      | some c, _ => fin (.user c) none
      | none, some (c, v, n) => fin (.userU c v n) none
      | none, none =>
        if name.trimAscii.isEmpty then fin .errApi (some "err:ValueError") else fin .errApi (some "err:Exception")
    | ["tick", adv, inc, rf, ifl, items] =>
      match adv.toInt?, inc.toInt?, parseBool rf, parseBool ifl, parseItems items with
      | some adv, some inc, some rf, some ifl, some items =>
        fin (.tick { adv, inc, readFail := rf, interpFail := ifl, items }) none
      | _, _, _, _, _ => (σ, "bad-op")
    | ["errapi"] => fin .errApi none
    | _ => (σ, "bad-op")

end Driver.RunStateOut

def main : IO Unit := Driver.runLoop (none : Option Driver.RunStateOut.Sess) Driver.RunStateOut.step
