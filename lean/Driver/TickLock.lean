import Driver.Loop
import OPM.Model.Wire
import OPM.Model.TickLock
import OPM.Gen.LockTable
namespace Driver.TickLock
open OPM OPM.Wire OPM.TickLock

/-- op:  `sched <T labels ,> <requests ;  each name=inner|inner or name=-> <choices TRRT…> <class ids ,> <read fails 0/1>`
         `schedm …` the same with every entry point's lock flag negated (mutant for the self-test)
    T labels / inner labels are the yield labels seen in a serial dry run, *without* `<start>` and `acq`: where the
    lock is taken comes from `OPM.Gen.LockTable`.
    answer: `trace=<thread:label,…> pos=<b|a|t|p per request> cls=<expected class id, or - when a request is torn or ran
            after an effect of the unlocked prologue>`,
            `bad-schedule` if a choice is not enabled / the schedule is not complete, `bad-op` if ill-formed. -/

def parseReq (s : String) : Option (String × List String) :=
  match s.splitOn "=" with
  | [name, inner] => some (name, if inner = "-" then [] else inner.splitOn "|")
  | _ => none

def parseChoices (s : String) : Option (List Tid) :=
  s.toList.mapM (fun c => if c = 'T' then some Tid.T else if c = 'R' then some Tid.R else none)

def showTid : Tid → String
  | .T => "T"
  | .R => "R"

def showPos : Pos → String
  | .before => "b"
  | .after => "a"
  | .torn => "t"
  | .prologue => "p"

def run (entries : List Entry) (tl rq ch cls : String) (readFails : Bool) : String :=
  let tlabels := if tl = "-" then [] else tl.splitOn ","
  match (rq.splitOn ";").mapM parseReq, parseChoices ch, natList cls with
  | some reqs, some choices, some clsIds =>
    match buildTick OPM.Gen.LockTable.tickCalls OPM.Gen.LockTable.nested tlabels, buildReqs entries 0 reqs with
    | some progT, some body =>
      let progR : List Seg := { label := "<start>" } :: body
      match simulate progT progR choices with
      | none => "bad-schedule"
      | some sim =>
        if sim.pcT ≠ progT.length || sim.pcR ≠ progR.length then "bad-schedule"
        else
          let poss := (List.range reqs.length).map (fun j => classify sim.trace (j + 1) readFails)
          let tr := ",".intercalate (sim.trace.map (fun p => showTid p.1 ++ ":" ++ p.2.label))
          let nAfter := (poss.filter (· == .after)).length
          let monotone := poss.dropWhile (· == .before) |>.all (· == .after)
          let cls :=
            if poss.any (fun p => p == .torn || p == .prologue) then "-"
            else if !monotone then "impossible"
            else match clsIds[nAfter]? with
              | some c => toString c
              | none => "?"
          "trace=" ++ tr ++ " pos=" ++ ",".intercalate (poss.map showPos) ++ " cls=" ++ cls
    | _, _ => "bad-op"
  | _, _, _ => "bad-op"

def step (_ : Unit) (line : String) : Unit × String :=
  match fields line with
  | ["sched", tl, rq, ch, cls, f] =>
    match parseBool f with
    | some f => ((), run OPM.Gen.LockTable.entries tl rq ch cls f)
    | none => ((), "bad-op")
  | ["schedm", tl, rq, ch, cls, f] =>
    match parseBool f with
    | some f => ((), run (OPM.Gen.LockTable.entries.map (fun e => { e with bodyLocked := !e.bodyLocked })) tl rq ch cls f)
    | none => ((), "bad-op")
  | _ => ((), "bad-op")

end Driver.TickLock

def main : IO Unit := Driver.runLoop () Driver.TickLock.step
