import Driver.Loop
import OPM.Model.Wire
import OPM.Model.CsvExport
namespace Driver.CsvExport
open OPM OPM.Wire OPM.CsvExport

/-- one tag: `-` (no values) or `t:v,t:v,…` (time in eighths of a second, value id) in recording order -/
def parseEntry (s : String) : Option (List Sample) :=
  if s = "-" then some [] else
  (s.splitOn ",").mapM (fun p =>
    match p.splitOn ":" with
    | [t, v] => match t.toInt?, v.toNat? with
      | some t, some v => some (t, v)
      | _, _ => none
    | _ => none)

/-- Value id 0 stands for Python `None`, which `csv` writes as the empty cell, like "no value yet". -/
def showCell : Option Nat → String
  | none => "-"
  | some 0 => "-"
  | some n => toString n

def showRows (rs : List Row) : String :=
  "T:" ++ showIntList (rs.map (·.time)) ++ "|R:" ++
    "/".intercalate (rs.map (fun r => ";".intercalate (r.cells.map showCell)))

/-- ops: `csv <n> <entry>*n`     → tick times and data rows of the export
         `csvold <n> <entry>*n`  → same with the row loop before the repair (self-test mutant) -/
def step (_ : Unit) (line : String) : Unit × String :=
  match fields line with
  | op :: n :: es =>
    match n.toNat?, es.mapM parseEntry with
    | some n, some log =>
      if n ≠ log.length then ((), "bad-op")
      else if op = "csv" then ((), showRows (exportRows log))
      else if op = "csvold" then ((), showRows (exportRowsOld log))
      else ((), "bad-op")
    | _, _ => ((), "bad-op")
  | _ => ((), "bad-op")

end Driver.CsvExport

def main : IO Unit := Driver.runLoop () Driver.CsvExport.step
