import Driver.Loop
import OPM.Model.Wire
import OPM.Model.TickShell
namespace Driver.TickShell
open OPM OPM.Wire OPM.TickShell OPM.Gen.TickTable

/-- ops (tab separated):
      `tick <faults> <hf>`   faults = `-` or `i:h,j:o,…` (phase index : HardwareLayerException / other Exception),
                             hf = `n` | `f` | `l` (fault inside set_error_state: none / first call / last call)
                             → `r=<raised> <state>`
      `user <Start|Stop|Pause|Unpause|Hold|Unhold>` → `ok <state>` | `rej <state>`
      `fix`                  a corrected method is submitted → `merge <state>` | `set <state>`
      `halt`                 `Engine._running = False` → `halt <state>`
      `phases`               → number of phases of the regenerated table
      `stopbound`            → number of command phases an accepted Stop needs (`OPM.TickShell.stopTicks`)
    The phase table is `OPM.Gen.TickTable.tickPhases`. -/
def showSys : Sys → String
  | .running => "Running" | .paused => "Paused" | .holding => "Holding" | .stopped => "Stopped"

def showCmd : Cmd → String
  | .start => "Start" | .stop => "Stop" | .pause => "Pause" | .unpause => "Unpause" | .hold => "Hold"
  | .unhold => "Unhold"

def parseCmd : String → Option Cmd
  | "Start" => some .start | "Stop" => some .stop | "Pause" => some .pause | "Unpause" => some .unpause
  | "Hold" => some .hold | "Unhold" => some .unhold | _ => none

def showCmds (l : List Cmd) : String := if l.isEmpty then "-" else ",".intercalate (l.map showCmd)

def showState (s : Shell) : String :=
  "st=" ++ showBool s.started ++ showBool s.paused ++ showBool s.holding ++ showBool s.stopping ++
  " sys=" ++ showSys s.sys ++ " ms=" ++ (if s.methodErr then "Error" else "OK") ++ " le=" ++ showBool s.lastErr ++
  " q=" ++ showCmds s.queue ++ " ex=" ++ showCmds s.executing

def parseFault (s : String) : Option (Nat × Fault) :=
  match s.splitOn ":" with
  | [i, "h"] => i.toNat?.map (·, Fault.hw)
  | [i, "o"] => i.toNat?.map (·, Fault.other)
  | _ => none

def parseFaults (s : String) : Option (List (Nat × Fault)) :=
  if s = "-" then some [] else (s.splitOn ",").mapM parseFault

def parseHF : String → Option HF
  | "n" => some .none | "f" => some .first | "l" => some .last | _ => none

def step (s : Shell) (line : String) : Shell × String :=
  match fields line with
  | ["tick", fs, hf] =>
    match parseFaults fs, parseHF hf with
    | some fs, some hf =>
      if fs.all (fun f => f.1 < tickPhases.length) then
        let r := tick tickPhases { faults := fs, hf := hf } s
        (r.1, "r=" ++ showBool r.2 ++ " " ++ showState r.1)
      else (s, "bad-op")
    | _, _ => (s, "bad-op")
  | ["user", c] =>
    match parseCmd c with
    | some c => let r := user s c; (r.1, (if r.2 then "ok " else "rej ") ++ showState r.1)
    | none => (s, "bad-op")
  | ["fix"] => let r := fix s; (r.1, (if r.2 then "merge " else "set ") ++ showState r.1)
  | ["halt"] => let s' := { s with running := false }; (s', "halt " ++ showState s')
  | ["phases"] => (s, toString tickPhases.length)
  | ["stopbound"] => (s, toString stopTicks)
  | _ => (s, "bad-op")

end Driver.TickShell

def main : IO Unit := Driver.runLoop ({} : OPM.TickShell.Shell) Driver.TickShell.step
