import Driver.Loop
import OPM.Model.Wire
import OPM.Model.RunState
/-!
Line-protocol driver of model M1 (RunState).

First line of a case:  `cfg <bits> <mode> <safes> <outs>` (bits: see `parseBits`)
  flags `0/1`; mode `c06|c07|c09|all` selects which observations are printed; `safes` = comma list of
  safe values (`_` = register has none); `outs` = initial output tag values.
Then:
  `user <Start|Stop|Pause|Unpause|Hold|Unhold|Restart|anything else>`
  `tick <adv> <inc> <readFail> <interpFail> <items>`   items: `-` or comma list of
        `bs` `be` `sa<k>` `se<k>` `m.<cmd>` `m.<cmd>:<dur>` `m.<cmd>:x`   (times in 1/8 s)
  `set <i> <v>`      `errapi`
Answer: `<result> <observations>`; ill-formed line ⇒ `bad-op`; interpreter items while the model says the
interpreter is gated ⇒ `bad-op gate`.
-/
namespace Driver.RunState
open OPM OPM.Wire OPM.RunState

structure Sess where
  cfg : Cfg
  mode : String
  st : State

/-- interpreter items use lower-case names -/
def parseCmd : String → Option Cmd
  | "start" => some .start
  | "stop" => some .stop
  | "pause" => some .pause
  | "unpause" => some .unpause
  | "hold" => some .hold
  | "unhold" => some .unhold
  | "restart" => some .restart
  | _ => none

/-- `EngineCommandEnum.has_value` is case sensitive -/
def parseUserCmd : String → Option Cmd
  | "Start" => some .start
  | "Stop" => some .stop
  | "Pause" => some .pause
  | "Unpause" => some .unpause
  | "Hold" => some .hold
  | "Unhold" => some .unhold
  | "Restart" => some .restart
  | _ => none

def cmdName : Cmd → String
  | .start => "Start" | .stop => "Stop" | .pause => "Pause" | .unpause => "Unpause"
  | .hold => "Hold" | .unhold => "Unhold" | .restart => "Restart"

def sysName : Sys → String
  | .running => "Running" | .paused => "Paused" | .holding => "Holding"
  | .stopped => "Stopped" | .restarting => "Restarting"

/-- repair switches as a string of 0/1 in the order guard, clocks, prevFix, startWrite, pauseGate, errSafe,
    pauseOnce, idleErr, cancel2, scopeReset (missing = 0) -/
def parseBits (s : String) : Option (Nat → Bool) :=
  if s.toList.all (fun c => c = '0' || c = '1') then some (fun i => s.toList.getD i '0' == '1') else none

def parseSafes (s : String) : Option (List (Option Int)) :=
  if s = "-" then some [] else
  (s.splitOn ",").mapM (fun p => if p = "_" then some none else p.toInt?.map some)

def parseItem (s : String) : Option Item :=
  if s = "bs" then some (.ev .blockStart)
  else if s = "be" then some (.ev .blockEnd)
  else if s.startsWith "sa" then (s.drop 2).toString.toNat?.map (fun k => .ev (.scopeActivate k))
  else if s.startsWith "se" then (s.drop 2).toString.toNat?.map (fun k => .ev (.scopeEnd k))
  else if s.startsWith "m." then
    match ((s.drop 2).toString.splitOn ":") with
    | [c] => (parseCmd c).map (fun c => .cmd c .none)
    | [c, "x"] => (parseCmd c).map (fun c => .cmd c .bad)
    | [c, d] => do
      let c ← parseCmd c
      let d ← d.toInt?
      pure (.cmd c (.dur d))
    | _ => none
  else none

def parseItems (s : String) : Option (List Item) :=
  if s = "-" then some [] else (s.splitOn ",").mapM parseItem

def showOpt (o : Option Int) : String :=
  match o with
  | some v => toString v
  | none => "_"

def showInts (l : List Int) : String := if l.isEmpty then "-" else ",".intercalate (l.map toString)
def showOpts (l : List (Option Int)) : String := if l.isEmpty then "-" else ",".intercalate (l.map showOpt)

def showReq (r : Req) : String :=
  cmdName r.cmd ++ (if r.user then ".u" else ".m") ++
    (match r.arg with
     | .none => ""
     | .dur d => ":" ++ toString d
     | .bad => ":x")

def instNames (r : Reg) : String :=
  let all : List Cmd := [.hold, .pause, .restart, .start, .stop, .unhold, .unpause]
  let l := all.filter (fun c => (r.get c).isSome)
  if l.isEmpty then "-" else ",".intercalate (l.map cmdName)

def observe (mode : String) (s : State) (nw0 : Nat) : String :=
  let c := s.core
  let b := showBool
  let base := s!"st={sysName c.sys} f={b c.started}{b c.paused}{b c.holding}{b c.stopping} " ++
    s!"ctl={b c.started}{b c.holding}{b c.paused} rid={match c.runId with | some r => toString r | none => "-"} " ++
    s!"ms={b c.methodErr} interp={b s.lastInterp}"
  let ctrl := s!" inst={instNames s.reg} ex={if s.mgr.exec.isEmpty then "-" else ",".intercalate (s.mgr.exec.map showReq)}"
  let clocks := s!" pt={c.pt} rt={c.rt} bt={c.blockObs} sc={c.scopeObs}"
  let outs := s!" out={showInts c.outs} prev={match c.prev with | some p => showOpts p | none => "none"} " ++
    s!"hw={showInts c.hw} w={c.writes.length - nw0}"
  if mode = "c06" then base ++ ctrl
  else if mode = "c07" then base ++ clocks
  else if mode = "c09" then base ++ outs
  else base ++ ctrl ++ clocks ++ outs

def step (σ : Option Sess) (line : String) : Option Sess × String :=
  match σ, fields line with
  | none, ["cfg", bits, mode, safes, outs] =>
    match parseBits bits, parseSafes safes, intList outs with
    | some f, some safes, some outs =>
      let cfg : Cfg := { safes, guard := f 0, clocks := f 1, prevFix := f 2, startWrite := f 3, pauseGate := f 4,
                         errSafe := f 5, pauseOnce := f 6, idleErr := f 7,
                         cancel2 := f 8, scopeReset := f 9 }
      let st := init cfg outs
      (some ⟨cfg, mode, st⟩, "init " ++ observe mode st 0)
    | _, _, _ => (none, "bad-op")
  | none, _ => (none, "bad-op")
  | some ss, fs =>
    let nw0 := ss.st.core.writes.length
    let fin (o : Op) : Option Sess × String :=
      let (st', out) := OPM.RunState.step ss.cfg ss.st o
      if st'.gateViolation then (some { ss with st := st' }, "bad-op gate")
      else
        let res := match out with
          | .none => "-" | .accepted => "ok" | .rejected => "err:ValueError" | .unknown => "err:Exception"
        (some { ss with st := st' }, res ++ " " ++ observe ss.mode st' nw0)
    match fs with
    | ["user", name] =>
      match parseUserCmd name with
      | some c => fin (.user c)
      | none => if name.trimAscii.isEmpty then fin .userBlank else fin .userUnknown
    | ["tick", adv, inc, rf, ifl, items] =>
      match adv.toInt?, inc.toInt?, parseBool rf, parseBool ifl, parseItems items with
      | some adv, some inc, some rf, some ifl, some items =>
        fin (.tick { adv, inc, readFail := rf, interpFail := ifl, items })
      | _, _, _, _, _ => (σ, "bad-op")
    | ["set", i, v] =>
      match i.toNat?, v.toInt? with
      | some i, some v => fin (.setOut i v)
      | _, _ => (σ, "bad-op")
    | ["errapi"] => fin .errApi
    | _ => (σ, "bad-op")

end Driver.RunState

def main : IO Unit := Driver.runLoop (none : Option Driver.RunState.Sess) Driver.RunState.step
