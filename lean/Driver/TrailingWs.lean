import Driver.Loop
import OPM.Model.Wire
import OPM.Model.TrailingWs
namespace Driver.TrailingWs
open OPM OPM.Wire OPM.TrailingWs

/-- ops:  `wnode <idx> <parent|-1> <line> <ws 0|1>`   append a node (idx must be the next index)
          `flags`   → `idx:flag` for every whitespace node, comma separated (`-` if none) -/
def step (t : Tree) (line : String) : Tree × String :=
  match fields line with
  | ["wnode", idx, par, ln, ws] =>
    match idx.toNat?, par.toInt?, ln.toNat?, parseBool ws with
    | some idx, some par, some ln, some ws =>
      if idx ≠ t.size then (t, "bad-op") else
      (t.push { parent := if par < 0 then none else some par.toNat, line := ln, ws := ws }, "ok")
    | _, _, _, _ => (t, "bad-op")
  | ["flags"] =>
    let l := (List.range t.size).filter (fun n => (nd t n).ws)
    (t, if l.isEmpty then "-" else ",".intercalate (l.map (fun n => s!"{n}:{showBool (flag t n)}")))
  | _ => (t, "bad-op")

end Driver.TrailingWs

def main : IO Unit := Driver.runLoop (#[] : OPM.TrailingWs.Tree) Driver.TrailingWs.step
