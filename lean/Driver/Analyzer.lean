import Driver.Loop
import OPM.Model.Wire
import OPM.Model.Units
import OPM.Model.Analyzer
import OPM.Gen.UnitTable
namespace Driver.Analyzer
open OPM OPM.Wire OPM.Units OPM.Analyzer

structure St where
  tags : List TagDef := []
  cmds : List CmdDef := []
  sims : List (String × String) := []
  nodes : List Node := []
  xnodes : List XNode := []
  /-- lint session: what `fetch_uod_info` answers / what `create_analysis_input` has cached (tags, commands) -/
  sessDefn : Option (List TagDef × List CmdDef) := none
  sessCached : Option (List TagDef × List CmdDef) := none
  /-- which code the session model follows: with / without fixes/C19-uodinfo-clears-analysis-cache.diff -/
  sessRepaired : Bool := true

def St.env (s : St) : Env :=
  ⟨s.tags, s.cmds, fun a b => s.sims.contains (a, b), OPM.Gen.unitSys⟩

/-- optional string on the wire: `N` = Python `None` -/
def decodeOpt (s : String) : Option (Option String) :=
  if s = "N" then some none else (decodeStr s).map some

def parseKind (s : String) : Option Kind :=
  if s = "watch" then some .watch else if s = "alarm" then some .alarm
  else if s = "simulate" then some .simulate else if s = "simulateoff" then some .simulateOff
  else if s = "command" then some (.command false) else if s = "error" then some (.command true)
  else if s = "other" then some .other else none

def showAn : An → String
  | .condition => "C"
  | .simulate => "S"
  | .command => "M"
  | .indentation => "I"
  | .threshold => "T"
  | .macro => "X"

def showItem (i : Item) : String :=
  s!"{showAn i.an}:{i.id}:{i.line}:{if i.isError then "E" else "-"}:{if i.hasFix then "fix" else "-"}"

def showAErr : AErr → String
  | .tagBlank => "err:tagBlank"
  | .tagNotFound => "err:tagNotFound"
  | .cmdBlank => "err:cmdBlank"
  | .cmdNotFound => "err:cmdNotFound"
  | .tagUnitInvalid => "err:tagUnitInvalid"
  | .unmodelled => "err:unmodelled"

def showItems (l : List Item) : String :=
  if l.isEmpty then "none" else " ".intercalate (l.map showItem)

/-- ops (every op answers one line):
  `tag <name> <unit|N>` · `cmd <name> <noArgs>` · `sim <query> <candidate>`            → `ok`
  `node <line> <kind> <hasCond> <tagName|N> <op> <rhs> <tagValue|N> <tagUnit|N> <instrName> <lineText>
        <arguments> <hasArgument> <argsValid>`                                           → `ok`
  `analyze` / `analyzeold`   → items (`C|S|M:id:line:E:fix` …) | `none` | `err:…`
  `sess-mode` (asis|repaired) / `sess-register` / `sess-register-keep` / `sess-uodinfo` / `sess-lint` : a lint session over time (model `sessStep`)
  `lint` / `lintold`         → `generic` | diagnostics (`id:line:E:fix` …, no analyzer letter) | `none` -/
def step (s : St) (line : String) : St × String :=
  match fields line with
  | ["tag", n, u] =>
    match decodeStr n, decodeOpt u with
    | some n, some u => ({ s with tags := s.tags ++ [⟨n, u⟩] }, "ok")
    | _, _ => (s, "bad-op")
  | ["cmd", n, na] =>
    match decodeStr n, parseBool na with
    | some n, some na => ({ s with cmds := s.cmds ++ [⟨n, na⟩] }, "ok")
    | _, _ => (s, "bad-op")
  | ["sim", a, b] =>
    match decodeStr a, decodeStr b with
    | some a, some b => ({ s with sims := (a, b) :: s.sims }, "ok")
    | _, _ => (s, "bad-op")
  | ["node", ln, k, hc, tn, op, rhs, tv, tu, inm, lt, args, ha, av] =>
    match ln.toNat?, parseKind k, parseBool hc, decodeOpt tn, decodeStr op, decodeStr rhs, decodeOpt tv,
          decodeOpt tu with
    | some ln, some k, some hc, some tn, some op, some rhs, some tv, some tu =>
      match decodeStr inm, decodeStr lt, decodeStr args, parseBool ha, parseBool av with
      | some inm, some lt, some args, some ha, some av =>
        let c : Option Cond := if hc then some ⟨tn, op, rhs, tv, tu⟩ else none
        ({ s with nodes := s.nodes ++ [⟨ln, k, c, inm, lt, args, ha, av⟩] }, "ok")
      | _, _, _, _, _ => (s, "bad-op")
    | _, _, _, _, _, _, _, _ => (s, "bad-op")
  | ["xnode", ln, k, hc, tn, op, rhs, tv, tu, inm, lt, args, ha, av, ie, ws, th, par, mk, mname, mrec] =>
    -- a node with what the indentation / threshold / macro analyzers read in addition
    match ln.toNat?, parseKind k, parseBool hc, decodeOpt tn, decodeStr op, decodeStr rhs, decodeOpt tv,
          decodeOpt tu with
    | some ln, some k, some hc, some tn, some op, some rhs, some tv, some tu =>
      match decodeStr inm, decodeStr lt, decodeStr args, parseBool ha, parseBool av with
      | some inm, some lt, some args, some ha, some av =>
        match parseBool ie, parseBool ws, decodeOpt th, par.toNat?, decodeStr mname, parseBool mrec with
        | some ie, some ws, some th, some par, some mname, some mrec =>
          let thr : Option (Option Rat) := match th with
            | none => some none
            | some t => match OPM.Units.parseDec t with
              | .num r => some (some r)
              | _ => none
          let mkd : Option MKind :=
            if mk = "none" then some .none else if mk = "macro" then some (.macro mname mrec)
            else if mk = "call" then some (.call mname) else none
          match thr, mkd with
          | some thr, some mkd =>
            let c : Option Cond := if hc then some ⟨tn, op, rhs, tv, tu⟩ else none
            let n : Node := ⟨ln, k, c, inm, lt, args, ha, av⟩
            ({ s with nodes := s.nodes ++ [n], xnodes := s.xnodes ++ [⟨n, ie, ws, thr, par, mkd⟩] }, "ok")
          | _, _ => (s, "bad-op")
        | _, _, _, _, _, _ => (s, "bad-op")
      | _, _, _, _, _ => (s, "bad-op")
    | _, _, _, _, _, _, _, _ => (s, "bad-op")
  | ["sess-mode", m] => ({ s with sessRepaired := m != "asis" }, "ok")
  | ["sess-register"] =>
    ({ s with sessDefn := none, sessCached := none, tags := [], cmds := [], nodes := [], xnodes := [] }, "ok")
  | ["sess-register-keep"] =>
    -- re-registration while the aggregator still holds the engine's data: the definition stays, the cache is cleared
    ({ s with sessCached := none, tags := [], cmds := [], nodes := [], xnodes := [] }, "ok")
  | ["sess-uodinfo"] =>
    -- the tags / commands transmitted since the last session op are the definition the aggregator now holds
    -- (`sessStep`: the repaired handler clears the cache too)
    ({ s with sessDefn := some (s.tags, s.cmds), sessCached := if s.sessRepaired then none else s.sessCached,
              tags := [], cmds := [], nodes := [], xnodes := [] }, "ok")
  | ["sess-lint"] =>
    -- the nodes transmitted since the last session op are the document; `similar` facts accumulate over the case
    let mkEnv : List TagDef × List CmdDef → Env := fun tc =>
      ⟨tc.1, tc.2, fun a b => s.sims.contains (a, b), OPM.Gen.unitSys⟩
    let sess : Sess := ⟨s.sessDefn.map mkEnv, s.sessCached.map mkEnv⟩
    let (_, out) := sessStep s.sessRepaired sess (.lint s.xnodes)
    -- the new cache content, as data (same case split as `sessStep`)
    let cached' := match s.sessCached with
      | some c => some c
      | none => s.sessDefn
    let txt := match out with
      | none => "none"
      | some ds => if ds.isEmpty then "none" else " ".intercalate (ds.map fun d => match d with
        | .generic => "generic"
        | .ofItem i => s!"{i.id}:{i.line}:{if i.isError then "E" else "-"}:{if i.hasFix then "fix" else "-"}")
    ({ s with sessCached := cached', nodes := [], xnodes := [] }, txt)
  | ["analyzeall"] =>
    (s, match analyzeAll s.env true s.xnodes with | .ok l => showItems l | .error e => showAErr e)
  | ["analyzeallold"] =>
    (s, match analyzeAll s.env false s.xnodes with | .ok l => showItems l | .error e => showAErr e)
  | ["analyze"] =>
    (s, match analyze s.env true s.nodes with | .ok l => showItems l | .error e => showAErr e)
  | ["analyzeold"] =>
    (s, match analyze s.env false s.nodes with | .ok l => showItems l | .error e => showAErr e)
  | [c] =>
    if c = "lintall" || c = "lintallold" then
      let ds := lintAll s.env (c = "lintall") s.xnodes
      (s, if ds.isEmpty then "none" else " ".intercalate (ds.map fun d => match d with
        | .generic => "generic"
        | .ofItem i => s!"{i.id}:{i.line}:{if i.isError then "E" else "-"}:{if i.hasFix then "fix" else "-"}"))
    else if c = "lint" || c = "lintold" then
      let ds := lint s.env (c = "lint") s.nodes
      (s, if ds.isEmpty then "none" else " ".intercalate (ds.map fun d => match d with
        | .generic => "generic"
        | .ofItem i => s!"{i.id}:{i.line}:{if i.isError then "E" else "-"}:{if i.hasFix then "fix" else "-"}"))
    else (s, "bad-op")
  | _ => (s, "bad-op")

end Driver.Analyzer

def main : IO Unit := Driver.runLoop ({} : Driver.Analyzer.St) Driver.Analyzer.step
