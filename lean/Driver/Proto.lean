import Driver.Loop
import OPM.Model.Wire
import OPM.Model.Proto
import OPM.Gen.Schemas
namespace Driver.Proto
open OPM OPM.Wire OPM.Proto

/-! Wire format (space separated tokens, prefix notation, strings as `enc`):
  values  N | T | F | I<int> | D<num>/<exp> | Dnan | Dpinf | Dninf | S<enc> | E<enc>
          L<n> v*n | U<n> v*n (tuple) | Z<n> <enc>*n | M<n> (key v)*n  with key = S<enc> | I<int> | D...
          O<n> <enc ns> <enc name> (<enc field> v)*n
  json    N | T | F | I | D | S | L<n> j*n | M<n> (<enc key> j)*n
ops:  rt <value>      round trip of a message (sets iterated in the given order)
      rtrev <value>   the same with sets iterated in reverse order (must not matter)
      rtmut <value>   self-test mutant: integral floats are reported as ints
      de <json>       deserialize
      info plain | info nonstr-keys   which registry entries are float-free and str-keyed / have non-str keys
answers:  ok <value> | err | unmodelled -/

def tail1 (s : String) : String := (s.drop 1).toString

def parseFlt (s : String) : Option Flt :=
  if s = "nan" then some .nan else if s = "pinf" then some .pinf else if s = "ninf" then some .ninf else
  match s.splitOn "/" with
  | [n, e] => do
    let n ← n.toInt?
    let e ← e.toNat?
    some (.fin n e)
  | _ => none

def parseKey (t : String) : Option Key :=
  if t.startsWith "S" then (decodeStr (tail1 t)).map Key.str
  else if t.startsWith "I" then (tail1 t).toInt?.map Key.int
  else if t.startsWith "D" then (parseFlt (tail1 t)).map Key.flt
  else none

mutual
partial def parseVal : List String → Option (Val × List String)
  | [] => none
  | t :: rest =>
    if t = "N" then some (.none, rest)
    else if t = "T" then some (.bool true, rest)
    else if t = "F" then some (.bool false, rest)
    else if t.startsWith "I" then (tail1 t).toInt?.map (fun i => (.int i, rest))
    else if t.startsWith "D" then (parseFlt (tail1 t)).map (fun f => (.flt f, rest))
    else if t.startsWith "S" then (decodeStr (tail1 t)).map (fun s => (.str s, rest))
    else if t.startsWith "E" then (decodeStr (tail1 t)).map (fun s => (.enm s, rest))
    else if t.startsWith "L" then (tail1 t).toNat?.bind (fun n => parseList n rest)
    else if t.startsWith "U" then (tail1 t).toNat?.bind (fun n =>
      (parseList n rest).map (fun (l, r) => (.tup l, r)))
    else if t.startsWith "Z" then (tail1 t).toNat?.bind (fun n =>
      if rest.length < n then none else
      ((rest.take n).mapM decodeStr).map (fun l => (.set l, rest.drop n)))
    else if t.startsWith "M" then (tail1 t).toNat?.bind (fun n => parseDict n rest)
    else if t.startsWith "O" then
      match (tail1 t).toNat?, rest with
      | some n, ns :: name :: rest' => do
        let ns ← decodeStr ns
        let name ← decodeStr name
        let (fs, r) ← parseFields n rest'
        some (.obj ns name fs, r)
      | _, _ => none
    else none
partial def parseList : Nat → List String → Option (Val × List String)
  | 0, ts => some (.lnil, ts)
  | n + 1, ts => do
    let (h, r) ← parseVal ts
    let (t, r') ← parseList n r
    some (.lcons h t, r')
partial def parseDict : Nat → List String → Option (Val × List String)
  | 0, ts => some (.dnil, ts)
  | _ + 1, [] => none
  | n + 1, k :: ts => do
    let k ← parseKey k
    let (v, r) ← parseVal ts
    let (t, r') ← parseDict n r
    some (.dcons k v t, r')
partial def parseFields : Nat → List String → Option (Val × List String)
  | 0, ts => some (.fnil, ts)
  | _ + 1, [] => none
  | n + 1, k :: ts => do
    let k ← decodeStr k
    let (v, r) ← parseVal ts
    let (t, r') ← parseFields n r
    some (.fcons k v t, r')
end

mutual
partial def parseJ : List String → Option (J × List String)
  | [] => none
  | t :: rest =>
    if t = "N" then some (.null, rest)
    else if t = "T" then some (.bool true, rest)
    else if t = "F" then some (.bool false, rest)
    else if t.startsWith "I" then (tail1 t).toInt?.map (fun i => (.int i, rest))
    else if t.startsWith "D" then (parseFlt (tail1 t)).map (fun f => (.flt f, rest))
    else if t.startsWith "S" then (decodeStr (tail1 t)).map (fun s => (.str s, rest))
    else if t.startsWith "L" then (tail1 t).toNat?.bind (fun n => parseJArr n rest)
    else if t.startsWith "M" then (tail1 t).toNat?.bind (fun n => parseJObj n rest)
    else none
partial def parseJArr : Nat → List String → Option (J × List String)
  | 0, ts => some (.anil, ts)
  | n + 1, ts => do
    let (h, r) ← parseJ ts
    let (t, r') ← parseJArr n r
    some (.acons h t, r')
partial def parseJObj : Nat → List String → Option (J × List String)
  | 0, ts => some (.onil, ts)
  | _ + 1, [] => none
  | n + 1, k :: ts => do
    let k ← decodeStr k
    let (v, r) ← parseJ ts
    let (t, r') ← parseJObj n r
    some (.ocons k v t, r')
end

def showFlt : Flt → String
  | .fin n e => s!"D{n}/{e}"
  | .nan => "Dnan"
  | .pinf => "Dpinf"
  | .ninf => "Dninf"

def showKey : Key → String
  | .str s => "S" ++ encodeStr s
  | .int i => s!"I{i}"
  | .flt f => showFlt f

def spineLen : Val → Nat
  | .lcons _ t => spineLen t + 1
  | .dcons _ _ t => spineLen t + 1
  | .fcons _ _ t => spineLen t + 1
  | _ => 0

/-- `mu` = self-test mutant: integral floats are printed as ints. -/
partial def showVal (mu : Bool) : Val → List String
  | .none => ["N"]
  | .bool b => [if b then "T" else "F"]
  | .int i => [s!"I{i}"]
  | .flt f => match mu, f with
    | true, .fin n 0 => [s!"I{n}"]
    | _, f => [showFlt f]
  | .str s => ["S" ++ encodeStr s]
  | .enm s => ["E" ++ encodeStr s]
  | .lnil => ["L0"]
  | .lcons h t => s!"L{spineLen t + 1}" :: (showVal mu h ++ listItems mu t)
  | .tup l => s!"U{spineLen l}" :: listItems mu l
  | .set l => s!"Z{l.length}" :: l.map encodeStr
  | .dnil => ["M0"]
  | .dcons k v t => s!"M{spineLen t + 1}" :: (showKey k :: showVal mu v ++ dictItems mu t)
  | .obj ns name fs => s!"O{spineLen fs}" :: encodeStr ns :: encodeStr name :: fieldItems mu fs
  | .fnil => ["O0", "-", "-"]
  | .fcons n v t => fieldItems mu (.fcons n v t)
where
  listItems (mu : Bool) : Val → List String
    | .lcons h t => showVal mu h ++ listItems mu t
    | _ => []
  dictItems (mu : Bool) : Val → List String
    | .dcons k v t => showKey k :: showVal mu v ++ dictItems mu t
    | _ => []
  fieldItems (mu : Bool) : Val → List String
    | .fcons n v t => encodeStr n :: showVal mu v ++ fieldItems mu t
    | _ => []

/-- float dict keys whose `repr` the model's positional `fltStr` does not cover -/
partial def badFloatKey : Val → Bool
  | .lcons h t => badFloatKey h || badFloatKey t
  | .dcons k v t =>
    (match k with
     | .flt (.fin n e) =>
       -- need 1e-4 ≤ |x| < 1e16 (or x = 0) and few digits: keep to |n| < 2^40, e ≤ 10
       !(n.natAbs < 2 ^ 40 && e ≤ 10 && (n = 0 || n.natAbs * 10000 ≥ 2 ^ e))
     | _ => false) || badFloatKey v || badFloatKey t
  | .obj _ _ fs => badFloatKey fs
  | .fcons _ v t => badFloatKey v || badFloatKey t
  | _ => false

def answer (mu : Bool) : Except DErr Val → String
  | .ok v => " ".intercalate ("ok" :: showVal mu v)
  | .error .protocol => "err"
  | .error .unmodelled => "unmodelled"

def tokens (s : String) : List String := (s.splitOn " ").filter (· ≠ "")

def step (_ : Unit) (line : String) : Unit × String :=
  match fields line with
  | [op, payload] =>
    if op = "rt" || op = "rtrev" || op = "rtmut" then
      match parseVal (tokens payload) with
      | some (v, []) =>
        if badFloatKey v then ((), "unmodelled-float-key") else
        let ord : List String → List String := if op = "rtrev" then List.reverse else id
        ((), answer (op = "rtmut") (roundtrip ord Gen.Schemas.nss Gen.Schemas.registry v))
      | _ => ((), "bad-op")
    else if op = "info" && payload = "plain" then
      -- namespace entries whose schema has no float and only str-keyed dicts (C26_full_for_plain_messages applies)
      ((), ",".intercalate ((Gen.Schemas.registry.filter (fun e => floatFree e.fields && strKeysOnly e.fields)).map
        (fun e => e.ns ++ ":" ++ e.attr)))
    else if op = "info" && payload = "nonstr-keys" then
      ((), ",".intercalate ((Gen.Schemas.registry.filter (fun e => !strKeysOnly e.fields)).map
        (fun e => e.ns ++ ":" ++ e.attr)))
    else if op = "de" then
      match parseJ (tokens payload) with
      | some (j, []) => ((), answer false (deserialize Gen.Schemas.nss Gen.Schemas.registry j))
      | _ => ((), "bad-op")
    else ((), "bad-op")
  | _ => ((), "bad-op")

end Driver.Proto

def main : IO Unit := Driver.runLoop () Driver.Proto.step
