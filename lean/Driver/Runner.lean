import Driver.Loop
import OPM.Model.Wire
import OPM.Model.Runner
import OPM.Model.RunnerCalm
namespace Driver.Runner
open OPM OPM.Wire OPM.Runner

def parseState : String → Option RState
  | "St" => some .started | "Co" => some .connected | "Fa" => some .failed | "Di" => some .disconnected
  | "Rg" => some .reconnecting | "Cu" => some .catchingUp | "Rd" => some .reconnected | _ => none

def showState : RState → String
  | .started => "St" | .connected => "Co" | .failed => "Fa" | .disconnected => "Di"
  | .reconnecting => "Rg" | .catchingUp => "Cu" | .reconnected => "Rd"

def parseKind (s : String) : Option Kind :=
  match s.toList with
  | 'd' :: r => (String.ofList r).toNat?.bind (fun n => if n = 0 then none else some (.data n))
  | 's' :: r => (String.ofList r).toNat?.bind (fun n => if n = 0 then none else some (.stop n))
  | 'o' :: r => (String.ofList r).toNat?.map (fun _ => .other)
  | _ => none

def pair (s : String) (sep : String) : Option (Nat × Nat) :=
  match s.splitOn sep with
  | [a, b] => match a.toNat?, b.toNat? with
    | some x, some y => some (x, y)
    | _, _ => none
  | _ => none

/-- A token is an event plus, for `A`, the ids it claims for the batch (checked against the model's batch). -/
def parseTok (t : String) : Option (Ev × Option (List Nat)) :=
  match t.toList with
  | 'N' :: r => match (String.ofList r).splitOn ":" with
    | [a, k] => match a.toNat?, parseKind k with
      | some id, some kd => some (.produce id kd, none)
      | _, _ => none
    | _ => none
  | 'S' :: r => (pair (String.ofList r) ":").map (fun p => (.send p.1 p.2, none))
  | 'B' :: r => (pair (String.ofList r) ":").map (fun p => (.buf p.1 p.2, none))
  | 'Q' :: r => (pair (String.ofList r) ":").map (fun p => (.bufTask p.1 p.2, none))
  | 'X' :: r => (String.ofList r).toNat?.map (fun n => (.reject n, none))
  | 'K' :: r => (String.ofList r).toNat?.map (fun n => (.ok n, none))
  | 'F' :: r => (String.ofList r).toNat?.map (fun n => (.fail n, none))
  | 'Z' :: r => (String.ofList r).toNat?.map (fun n => (.cancel n, none))
  | 'T' :: r => (parseState (String.ofList r)).map (fun st => (.setState st, none))
  | 'G' :: r => (String.ofList r).toNat?.map (fun n => (.take n, none))
  | 'A' :: m :: ':' :: r =>
    let items := (String.ofList r).splitOn ","
    match items.mapM (fun it => pair it "."), (if m = 's' then some true else if m = 'b' then some false else none) with
    | some ps, some sent => some (.postBatch sent (ps.map (·.2)), some (ps.map (·.1)))
    | _, _ => none
  | ['C', '1'] => some (.connect true, none)
  | ['C', '0'] => some (.connect false, none)
  | ['D'] => some (.disconnect, none)
  | ['W', '0'] => some (.waitOther, none)
  | 'W' :: r =>
    let self := r.getLast? = some '!'
    let digits := if self then r.dropLast else r
    (String.ofList digits).toNat?.bind (fun n => if n = 0 then none else some (.wait n self, none))
  | ['U', 's'] => some (.taskSet .steady, none)
  | ['U', 'b'] => some (.taskSet .buffering, none)
  | ['U', '0'] => some (.taskClear false, none)
  | ['U', '0', '!'] => some (.taskClear true, none)
  | _ => none

def insertSorted (x : Nat) : List Nat → List Nat
  | [] => [x]
  | y :: l => if x ≤ y then x :: y :: l else y :: insertSorted x l

def sortNat (l : List Nat) : List Nat := l.foldr insertSorted []

def summary (s : State) : String :=
  "acc st=" ++ showState s.st ++ " buf=" ++ showNatList s.buffer ++ " infl=" ++ showNatList s.inflight ++
  " dlv=" ++ showNatList s.delivered ++ " ctr=" ++ toString s.ctr ++
  " limbo=" ++ showNatList (sortNat (s.pending ++ s.waiting ++ s.stuck)) ++
  " lost=" ++ showNatList (sortNat (s.cancelled ++ s.rejected))

def flags (s : State) : String :=
  "ov=" ++ showBool s.orderViol ++ " stuck=" ++ showNatList (sortNat s.stuck)

def runTokens (nx : State → Ev → Option State) (fin : State → String) (s : State) (k : Nat) :
    List String → String
  | [] => fin s
  | t :: ts =>
    match parseTok t with
    | none => "bad-op " ++ toString k ++ " " ++ t
    | some (e, ids) =>
      if (match ids with | some l => l != s.batch | none => false) then
        "rej " ++ toString k ++ " " ++ t ++ " batch-ids"
      else match nx s e with
        | some s' => runTokens nx fin s' (k + 1) ts
        | none => "rej " ++ toString k ++ " " ++ t ++ " st=" ++ showState s.st

/-- which hypothesis of the partial theorems the trace leaves first: `calm` or `not <a|b|c|d|e|f> <index>` -/
def calmTokens (s : State) (k : Nat) : List String → String
  | [] => "calm"
  | t :: ts =>
    match parseTok t with
    | none => "bad-op " ++ toString k ++ " " ++ t
    | some (e, _) =>
      if !calmLoss s e then
        "not " ++ (match e with | .cancel _ => "f" | _ => "a") ++ " " ++ toString k
      else if !calmOrder s e then
        "not " ++ (match e with | .send _ _ => "b" | .fail _ => "c" | .taskClear _ => "e" | _ => "d") ++ " " ++ toString k
      else match next s e with
        | some s' => calmTokens s' (k + 1) ts
        | none => "rej " ++ toString k ++ " " ++ t

/-- one pass: model-side verdicts (`ov`, `stuck`) and the first step outside the partial theorems' hypotheses -/
def infoTokens (s : State) (k : Nat) (cls : String) : List String → String
  | [] => flags s ++ " cls=" ++ cls
  | t :: ts =>
    match parseTok t with
    | none => "bad-op " ++ toString k ++ " " ++ t
    | some (e, _) =>
      let cls' := if cls != "calm" then cls
        else if !calmLoss s e then (match e with | .cancel _ => "f" | _ => "a")
        else if !calmOrder s e then
          (match e with | .send _ _ => "b" | .fail _ => "c" | .taskClear _ => "e" | _ => "d")
        else "calm"
      match next s e with
      | some s' => infoTokens s' (k + 1) cls' ts
      | none => "rej " ++ toString k ++ " " ++ t

def toks (s : String) : List String := (s.splitOn " ").filter (· ≠ "")

/-- ops:  `trace <tok> <tok> …`   → `acc st=… buf=… infl=… dlv=… ctr=… limbo=… lost=…` | `rej <index> <token> …`
          `mutant <tok> …`        → same with the mutant transition function (self-test)
          `flags <tok> …`         → `ov=<0|1> stuck=<ids>` (model-side order / stuck verdict) | `rej …`
          `verdict <tok> …`       → `acc` | `rej`
          `info <tok> …`          → `ov=<0|1> stuck=<ids> cls=<calm|a..f>` (flags + calm class in one pass)
          `calm <tok> …`          → `calm` | `not <a..f> <index>` (first step outside the partial theorems' hypotheses) -/
def step (_ : Unit) (line : String) : Unit × String :=
  match fields line with
  | ["trace", t] => ((), runTokens next summary init 0 (toks t))
  | ["mutant", t] => ((), runTokens nextMutant summary init 0 (toks t))
  | ["flags", t] => ((), runTokens next flags init 0 (toks t))
  | ["calm", t] => ((), calmTokens init 0 (toks t))
  | ["info", t] => ((), infoTokens init 0 "calm" (toks t))
  | ["verdict", t] => ((), ((runTokens next (fun _ => "acc") init 0 (toks t)).take 3).toString)
  | _ => ((), "bad-op")

end Driver.Runner

def main : IO Unit := Driver.runLoop () Driver.Runner.step
