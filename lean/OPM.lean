import OPM.Model.Wire
import OPM.Model.EngineId
import OPM.Properties.C38
