"""C34 CSV export is a faithful sample-and-hold of the plot log.

Proof half: OPM.Properties.C34 (row times strictly increasing and complete; every cell is the latest recorded
value at or before the row time, for arbitrary plot logs: unsorted, repeated times, late starts, empty tags).
Tie half: `csv_generator.generate_csv_string` / `_get_tick_times` (real code, real DTOs) vs the model on the same
plot logs: an exhaustive small scope plus structured random logs plus a malformed stream.
Oracle: the CSV text parsed back with `csv.reader`, compared with a direct Python sample-and-hold reference.
"""
from __future__ import annotations

import csv
import io
import itertools
import json
from datetime import datetime

from vp.core import Check, Failure, drive, load_corpus

META = dict(
    level_text="Lean 4 theorems over all plot logs (any number of tags; value lists unsorted, with repeated times, "
               "late starts, empty): the export has one row per distinct recorded time, in strictly increasing time "
               "order, and each cell is empty iff the tag has no value at or before the row time and otherwise shows "
               "the latest recorded value among those with the greatest time at or before the row time (relational "
               "specification IsHeld, shown to determine the cell uniquely). The model (stable sort, set+sort of tick "
               "times, the mutating pop loop) is tied to csv_generator.py by differential execution.",
    level_note="The theorems are about the repaired row loop (fixes/C34-csv-sample-and-hold.diff); on the unrepaired "
               "code the correspondence breaks and the oracle reports the failing plot log. Trusted: Lean kernel "
               "(+ propext/Classical.choice/Quot.sound), the harness, CPython csv writer/reader and list.sort "
               "stability (differential only). Times are finite floats (the harness feeds multiples of 1/8); NaN "
               "times are out of scope. Metadata rows are not part of the property; header names are checked by the "
               "oracle only.",
    technique="Lean 4 proof (stable insertion sort + loop invariant: the stateful pop loop is a pure function of the "
              "row time) + differential correspondence + independent CSV oracle",
)
MODULE = "OPM.Properties.C34"
REQUIRED = ["OPM.C34.row_times_strictly_increasing", "OPM.C34.row_times_complete", "OPM.C34.cells_sample_and_hold",
            "OPM.C34.hold_isHeld", "OPM.C34.isHeld_unique", "OPM.C34.cell_empty_iff",
            "OPM.C34.cell_value_recorded_and_latest"]

# ---------------------------------------------------------------------------------------------------------
# A case: {"entries": [[[t, id], ...], ...], "kind": "int"|"float"|"str", "clock": bool, "units": [...]}
# t = time in eighths of a second (float t/8 is exact); id > 0 = value id, id 0 = Python None.
# If "clock" is set, the first tag is a clock: the value recorded at time t renders as t/8.


def value_of(case, k: int, t: int, vid: int):
    if vid == 0:
        return None
    if case.get("clock") and k == 0:
        return t / 8.0
    kind = case.get("kind", "int")
    if kind == "float":
        return vid + 0.5
    if kind == "str":
        return f"v{vid}"
    return vid


def render(v) -> str:
    return "" if v is None else str(v)


def _recent_run():
    import openpectus.aggregator.routers.dto as Dto
    return Dto.RecentRun(engine_id="e", run_id="r", started_date=datetime(2020, 1, 1),
                         completed_date=datetime(2020, 1, 2), uod_name="u", uod_filename="f", uod_author_name="a",
                         uod_author_email="m", engine_computer_name="c", engine_version="1", engine_hardware_str="h",
                         aggregator_computer_name="ac", aggregator_version="1", contributors=[])


def _plot_log(case):
    import openpectus.aggregator.routers.dto as Dto
    d = {}
    units = case.get("units") or []
    for k, vs in enumerate(case["entries"]):
        unit = units[k] if k < len(units) else None
        d[f"Tag{k}"] = Dto.PlotLogEntry(
            name=f"Tag{k}", value_unit=unit, value_type=Dto.ProcessValueType.INT,
            values=[Dto.PlotLogEntryValue(value=value_of(case, k, t, vid), tick_time=t / 8.0) for t, vid in vs])
    return Dto.PlotLog(entries=d)


def export(case):
    """Real code: (tick times as returned by _get_tick_times, header row, data rows parsed back from the CSV text)."""
    from openpectus.aggregator import csv_generator
    times = csv_generator._get_tick_times(_plot_log(case))
    text = csv_generator.generate_csv_string(_plot_log(case), _recent_run()).getvalue()
    rows = list(csv.reader(io.StringIO(text)))
    k = rows.index([])          # the empty row that ends the metadata block
    return times, rows[k + 1], rows[k + 2:]


def impl_lines(case) -> list[str]:
    try:
        times, _header, rows = export(case)
    except Exception as e:  # noqa: BLE001
        return [f"err:{type(e).__name__}"]
    # reverse rendering table per column
    out_rows = []
    for r in rows:
        cells = []
        for k, text in enumerate(r):
            if text == "":
                cells.append("-")
                continue
            ids = {vid for t, vid in case["entries"][k] if render(value_of(case, k, t, vid)) == text} \
                if k < len(case["entries"]) else set()
            cells.append(str(min(ids)) if len(ids) == 1 else "?" + text)
        out_rows.append(";".join(cells))
    ts = [t * 8 for t in times]
    tstr = "-" if not ts else ",".join(str(int(t)) if float(t).is_integer() else repr(t) for t in ts)
    return [f"T:{tstr}|R:" + "/".join(out_rows)]


def op_line(case, op="csv") -> list[str]:
    es = ["-" if not vs else ",".join(f"{t}:{vid}" for t, vid in vs) for vs in case["entries"]]
    return ["\t".join([op, str(len(es)), *es])]


# ---------------------------------------------------------------------------------------------------------
# property oracle (independent of the model)

def expected_rows(case) -> list[list[str]]:
    times = sorted({t for vs in case["entries"] for t, _ in vs})
    rows = []
    for t in times:
        row = []
        for k, vs in enumerate(case["entries"]):
            best = None
            for i, (ti, vid) in enumerate(vs):
                if ti <= t and (best is None or (ti, i) >= (best[0], best[1])):
                    best = (ti, i, vid)
            row.append("" if best is None else render(value_of(case, k, best[0], best[2])))
        rows.append(row)
    return rows


def oracle(case) -> Failure | None:
    try:
        _times, header, rows = export(case)
    except Exception as e:  # noqa: BLE001
        return Failure(f"export-raises-{type(e).__name__}", case, f"generate_csv_string raised {e!r}")
    exp = expected_rows(case)
    n = len(case["entries"])
    if len(header) != n or any(not h.startswith(f"Tag{k}") for k, h in enumerate(header)):
        return Failure("header-columns-do-not-match-tags", case, f"header {header!r} for {n} tags")
    if len(rows) != len(exp):
        return Failure("row-count-differs-from-distinct-times", case,
                       f"{len(rows)} data rows for {len(exp)} distinct recorded times")
    if case.get("clock") and n:
        clock = [r[0] if r else "" for r in rows]
        vals = []
        for c in clock:
            try:
                vals.append(float(c))
            except ValueError:
                vals = None
                break
        if vals is not None and any(a >= b for a, b in zip(vals, vals[1:])):
            return Failure("rows-not-in-increasing-time-order", case, f"clock column {clock!r}")
    times = sorted({t for vs in case["entries"] for t, _ in vs})
    for i, (r, e) in enumerate(zip(rows, exp)):
        if len(r) != n and not (n == 0 and r == []):
            return Failure("row-width-differs-from-tag-count", case, f"row {i}: {r!r}")
        for k in range(n):
            if r[k] == e[k]:
                continue
            t = times[i]
            if e[k] == "":
                key = "value-shown-before-its-first-time"
            elif r[k] == "":
                key = "cell-empty-although-value-recorded"
            else:
                key = "cell-not-the-latest-value-at-row-time"
            return Failure(key, case, f"row {i} (t={t / 8}) tag {k}: cell {r[k]!r}, latest recorded value at or "
                                      f"before that time is {e[k]!r}; samples (t*8, id) = {case['entries'][k]}")
    return None


# ---------------------------------------------------------------------------------------------------------
# generators

def gen_exhaustive(ctx: Check) -> list[dict]:
    """All logs with 1..2 tags, each tag any sequence of <= L samples over times {1,2,3} (ids distinct per tag)."""
    L = ctx.n(3, 4)
    seqs = [[]]
    for ln in range(1, L + 1):
        seqs += [list(t) for t in itertools.product((1, 2, 3), repeat=ln)]
    cases = []
    for a in seqs:
        cases.append({"entries": [[[t, i + 1] for i, t in enumerate(a)]], "kind": "int"})
    for a in seqs:
        for b in seqs:
            cases.append({"entries": [[[t, i + 1] for i, t in enumerate(a)],
                                      [[t, i + 11] for i, t in enumerate(b)]], "kind": "int"})
    return cases


def gen_random(ctx: Check, n: int) -> list[dict]:
    rng = ctx.rng
    cases = []
    for _ in range(n):
        ntags = rng.choice([1, 2, 2, 3, 3, 4])
        style = rng.choice(["aligned", "interleaved", "late", "repeats", "unsorted", "mixed", "mixed"])
        base = sorted(rng.sample(range(0, 40), rng.randrange(1, 9)))
        entries = []
        for k in range(ntags):
            if style == "aligned":
                ts = list(base)
            elif style == "interleaved":
                ts = sorted(rng.sample(range(0, 40), rng.randrange(0, 7)))
            elif style == "late":
                ts = [t for t in base if t >= base[min(len(base) - 1, rng.randrange(0, 4))]] if k else list(base)
            elif style == "repeats":
                ts = sorted(t for t in rng.sample(range(0, 12), rng.randrange(1, 5))
                            for _ in range(rng.choice([1, 1, 2, 3, 4])))
            elif style == "unsorted":
                ts = [rng.randrange(0, 10) for _ in range(rng.randrange(0, 8))]
            else:
                ts = [rng.randrange(0, 16) for _ in range(rng.randrange(0, 9))]
                if rng.random() < 0.6:
                    ts.sort()
            entries.append([[t, i + 1 + 20 * k] for i, t in enumerate(ts)])
        case = {"entries": entries, "kind": rng.choice(["int", "int", "float", "str"]), "style": style,
                "units": [rng.choice([None, "L", "%"]) for _ in range(ntags)]}
        if rng.random() < 0.3:
            times = sorted({t for vs in entries for t, _ in vs})
            case["clock"] = True
            case["entries"] = [[[t, 900 + i] for i, t in enumerate(times)]] + entries
            case["units"] = ["s"] + case["units"]
        cases.append(case)
    return cases


def gen_malformed(ctx: Check, n: int) -> list[dict]:
    rng = ctx.rng
    cases = [{"entries": [], "kind": "int"}, {"entries": [[]], "kind": "int"}, {"entries": [[], []], "kind": "int"},
             {"entries": [[[5, 1]] * 1, []], "kind": "int"},
             {"entries": [[[3, i + 1] for i in range(30)], [[4, 77]]], "kind": "int"}]
    for _ in range(n):
        ntags = rng.randrange(1, 5)
        entries = []
        for k in range(ntags):
            m = rng.choice([0, 0, 1, 2, 5, 12])
            ts = [rng.choice([-8, -1, 0, 1, 2, 2, 3, 10 ** 9, 8 * 10 ** 6 + 1]) for _ in range(m)]
            # ids: 0 = None value, otherwise distinct
            entries.append([[t, 0 if rng.random() < 0.25 else i + 1 + 20 * k] for i, t in enumerate(ts)])
        cases.append({"entries": entries, "kind": rng.choice(["int", "str", "float"]), "style": "malformed"})
    return cases


def is_nontrivial(case, _out=None) -> bool:
    es = [vs for vs in case["entries"] if vs]
    if not es:
        return False
    first = min(t for vs in es for t, _ in vs)
    late = any(min(t for t, _ in vs) > first for vs in es)
    rep = any(len({t for t, _ in vs}) < len(vs) for vs in es)
    uns = any([t for t, _ in vs] != sorted(t for t, _ in vs) for vs in es)
    return late or rep or uns


def _count(ctx: Check, case) -> None:
    es = [vs for vs in case["entries"] if vs]
    ctx.count(f"tags={len(case['entries'])}")
    if not es:
        ctx.count("no-values")
        return
    first = min(t for vs in es for t, _ in vs)
    if any(min(t for t, _ in vs) > first for vs in es):
        ctx.count("has-late-start")
    if any(len({t for t, _ in vs}) < len(vs) for vs in es):
        ctx.count("has-repeated-time")
    if any([t for t, _ in vs] != sorted(t for t, _ in vs) for vs in es):
        ctx.count("has-unsorted")
    if len(es) > 1 and len({tuple(sorted({t for t, _ in vs})) for vs in es}) > 1:
        ctx.count("times-differ-between-tags")
    if any(vid == 0 for vs in es for _, vid in vs):
        ctx.count("has-None-value")
    if case.get("clock"):
        ctx.count("has-clock-tag")


def run(ctx: Check) -> int:
    ctx.prove(MODULE, REQUIRED)
    corpus = [c for c in load_corpus(ctx.id) if "entries" in c]
    small = gen_exhaustive(ctx)
    rnd = gen_random(ctx, ctx.n(1000, 30000))
    bad = gen_malformed(ctx, ctx.n(200, 5000))
    ctx.rule = ("plot logs as lists of (time in 1/8 s, value id) per tag, fed to the real DTOs. small: ALL logs with 1-2 "
                "tags, <=3/<=4 samples per tag over times {1,2,3} in every order (repeats, unsorted, late). random: 1-4 "
                "tags (+ optional clock tag), styles aligned / interleaved / late / repeats / unsorted / mixed, values "
                "int/float/str. malformed: no tags, empty tags, None values, negative and huge times, 30 values at one "
                "time. Non-trivial = some tag starts after the first row, repeats a time or is unsorted.")
    all_cases = []
    for name, cases in (("corpus+small", corpus + small), ("random", rnd), ("malformed", bad)):
        _out, mout = ctx.correspond(name, "CsvExport", cases, op_line, impl_lines, nontrivial=is_nontrivial)
        if name == "random" and mout:
            ctx.selftest(name, "CsvExport", cases, lambda c: op_line(c, "csvold"), mout)
        all_cases += cases
    for c in all_cases:
        _count(ctx, c)
    ctx.monitor(all_cases, oracle)
    ctx.exhaustive = True
    ctx.extra["exhaustive_scope"] = (f"all plot logs with 1-2 tags, <= {ctx.n(3, 4)} samples per tag, times in {{1,2,3}} "
                                     f"({len(small)} logs); the other streams are sampled")
    ctx.assumptions = ["tick times are finite floats; the harness uses multiples of 1/8 so float order = integer order",
                       "list.sort is stable and csv.writer/reader round-trip the generated cell texts (CPython; "
                       "validated differentially)",
                       "value id 0 stands for a recorded value None, which csv renders as the empty cell"]
    return ctx.finish(search=lambda c: c.monitor(gen_random(c, 2000) + gen_exhaustive(c), oracle))


def replay(obj) -> int:
    case = obj.get("case")
    if not isinstance(case, dict) or "entries" not in case:
        print(json.dumps(obj, indent=1))
        return 0
    times, header, rows = export(case)
    print("samples (t*8, id) per tag:", case["entries"])
    print("tick times:", times)
    print("header:", header)
    for r, e in zip(rows, expected_rows(case)):
        print("row", r, " expected", e, "" if r == e else "   <-- differs")
    print("model:", drive("CsvExport", [op_line(case)])[0])
    print("impl :", impl_lines(case))
    f = oracle(case)
    print("oracle:", "ok" if f is None else f"{f.key}: {f.detail}")
    return 0 if f is None else 1
