"""C34 CSV export is a faithful sample-and-hold of the plot log.

Proof half: OPM.Properties.C34 (row times strictly increasing and complete; every cell is the latest recorded
value at or before the row time, for arbitrary plot logs: unsorted, repeated times, late starts, empty tags).
Tie half: `csv_generator.generate_csv_string` / `_get_tick_times` (real code, real DTOs) vs the model on the same
plot logs: an exhaustive small scope plus structured random logs plus a malformed stream, with times in 1/1024 s that
are not aligned between tags; plus a route stream (aggregator handlers / PlotLogRepository write the table, the route
handler `get_recent_run_csv_json` exports it).
Oracle: the CSV text parsed back with `csv.reader`, compared with a direct Python sample-and-hold reference.
"""
from __future__ import annotations

import csv
import io
import itertools
import json
from datetime import datetime

from vp.core import reraise_harness_fault as core_reraise
from vp.core import Check, Failure, drive, load_corpus

META = dict(
    level_text="Lean 4 theorems over all plot logs (any number of tags; value lists unsorted, with repeated times, "
               "late starts, empty): the export has one row per distinct recorded time, in strictly increasing time "
               "order, and each cell is empty iff the tag has no value at or before the row time and otherwise shows "
               "the latest recorded value among those with the greatest time at or before the row time (relational "
               "specification IsHeld, shown to determine the cell uniquely). The model (stable sort, set+sort of tick "
               "times, the mutating pop loop) is tied to csv_generator.py by differential execution (DTO streams with times in "
               "1/1024 s not aligned between tags, and a route stream: table written by the aggregator handlers / "
               "PlotLogRepository, exported by get_recent_run_csv_json).",
    level_note="The theorems are about the repaired row loop (fixes/C34-csv-sample-and-hold.diff); on the unrepaired "
               "code the correspondence breaks and the oracle reports the failing plot log. Trusted: Lean kernel "
               "(+ propext/Classical.choice/Quot.sound), the harness, CPython csv writer/reader and list.sort "
               "stability (differential only). Times are finite floats (the harness feeds multiples of 1/1024 s, tags not on a common grid); NaN "
               "times are out of scope. Metadata rows are not part of the property; tag columns are found by name in the "
               "header, further columns are ignored.",
    technique="Lean 4 proof (stable insertion sort + loop invariant: the stateful pop loop is a pure function of the "
              "row time) + differential correspondence + independent CSV oracle",
)
MODULE = "OPM.Properties.C34"
REQUIRED = ["OPM.C34.row_times_strictly_increasing", "OPM.C34.row_times_complete", "OPM.C34.cells_sample_and_hold",
            "OPM.C34.hold_isHeld", "OPM.C34.isHeld_unique", "OPM.C34.cell_empty_iff",
            "OPM.C34.cell_value_recorded_and_latest"]

# ---------------------------------------------------------------------------------------------------------
# A case: {"entries": [[[t, id], ...], ...], "kind": "int"|"float"|"str", "clock": bool, "units": [...]}
# t = time in 1/scale s ("scale": 1024 for generated cases, 8 for old corpus/replay cases; t/scale is an exact float);
# id > 0 = value id, id 0 = Python None.  If "clock" is set, the first tag is a clock: its value at time t renders as t/scale.


def scale(case) -> int:
    """Ticks per second of the case's integer times (old cases: 8; current generators: 1024 — still exact floats)."""
    return int(case.get("scale", 8))


def tag_names(case) -> list[str]:
    return list(case.get("names") or [f"Tag{k}" for k in range(len(case["entries"]))])


def value_of(case, k: int, t: int, vid: int):
    if vid == 0:
        return None
    if case.get("clock") and k == 0:
        return t / float(scale(case))
    kind = case.get("kind", "int")
    if kind == "float":
        return vid + 0.5
    if kind == "str":
        return f"v{vid}"
    return vid


def render(v) -> str:
    return "" if v is None else str(v)


def _recent_run():
    import openpectus.aggregator.routers.dto as Dto
    return Dto.RecentRun(engine_id="e", run_id="r", started_date=datetime(2020, 1, 1),
                         completed_date=datetime(2020, 1, 2), uod_name="u", uod_filename="f", uod_author_name="a",
                         uod_author_email="m", engine_computer_name="c", engine_version="1", engine_hardware_str="h",
                         aggregator_computer_name="ac", aggregator_version="1", contributors=[])


def _plot_log(case):
    import openpectus.aggregator.routers.dto as Dto
    d = {}
    units = case.get("units") or []
    sc = float(scale(case))
    for k, (name, vs) in enumerate(zip(tag_names(case), case["entries"])):
        unit = units[k] if k < len(units) else None
        d[name] = Dto.PlotLogEntry(
            name=name, value_unit=unit, value_type=Dto.ProcessValueType.INT,
            values=[Dto.PlotLogEntryValue(value=value_of(case, k, t, vid), tick_time=t / sc) for t, vid in vs])
    return Dto.PlotLog(entries=d)


def _split_csv(text: str):
    rows = list(csv.reader(io.StringIO(text)))
    k = rows.index([])          # the empty row that ends the metadata block
    return rows[k + 1], rows[k + 2:]


def _impl_times(plot_log) -> list:
    """Row times of the export. The CSV has no time column; the generator's own helper is used when it exists under
    its current private name, otherwise (a rename is no business of the property) the times are what the rows are
    defined over: the distinct recorded tick times, ascending. The number of data rows is checked against them."""
    from openpectus.aggregator import csv_generator
    fn = getattr(csv_generator, "_get_tick_times", None)
    if callable(fn):
        return fn(plot_log)
    entries = plot_log.entries.values() if isinstance(plot_log.entries, dict) else plot_log.entries
    return sorted({v.tick_time for e in entries for v in e.values})


def export(case):
    """Real code: (tick times as returned by _get_tick_times, header row, data rows parsed back from the CSV text).
    DTO cases call csv_generator on DTOs built by the harness; route cases were run through the aggregator (see below)."""
    if "route" in case:
        r = _ROUTE.get(id(case)) or materialise_route(case)
        if r.get("error"):
            raise RuntimeError(r["error"])
        return r["times"], r["header"], r["rows"]
    from openpectus.aggregator import csv_generator
    times = _impl_times(_plot_log(case))
    text = csv_generator.generate_csv_string(_plot_log(case), _recent_run()).getvalue()
    header, rows = _split_csv(text)
    return times, header, rows


def tag_columns(case, header: list[str]) -> list[int | None]:
    """Column index of every tag, found by NAME in the header (`name` or `name [unit]`); other columns (e.g. a time
    column) are none of the property's business. None = no column, or more than one, for that tag."""
    cols: list[int | None] = []
    for name in tag_names(case):
        hits = [i for i, h in enumerate(header) if h == name or h.startswith(name + " [")]
        cols.append(hits[0] if len(hits) == 1 else None)
    return cols


def impl_lines(case) -> list[str]:
    try:
        times, header, rows = export(case)
    except Exception as e:  # noqa: BLE001
        return [f"err:{type(e).__name__}"]
    cols = tag_columns(case, header)
    out_rows = []
    for r in rows:
        cells = []
        for k, col in enumerate(cols):
            text = r[col] if col is not None and col < len(r) else "?missing"
            if text == "":
                cells.append("-")
                continue
            ids = {vid for t, vid in case["entries"][k] if render(value_of(case, k, t, vid)) == text}
            cells.append(str(min(ids)) if len(ids) == 1 else "?" + text)
        out_rows.append(";".join(cells))
    ts = [t * scale(case) for t in times]
    tstr = "-" if not ts else ",".join(str(int(t)) if float(t).is_integer() else repr(t) for t in ts)
    return [f"T:{tstr}|R:" + "/".join(out_rows)]


def op_line(case, op="csv") -> list[str]:
    es = ["-" if not vs else ",".join(f"{t}:{vid}" for t, vid in vs) for vs in case["entries"]]
    return ["\t".join([op, str(len(es)), *es])]


# ---------------------------------------------------------------------------------------------------------
# route cases: the plot log is written into the database by the real aggregator (TagsUpdatedMsg through the message
# handlers, and PlotLogRepository.store_tag_values for rows the message path would align), the run is stopped, and the
# CSV comes from the real route handler `get_recent_run_csv_json`.  The recorded plot log of such a case is what the
# PlotLogEntryValues table holds (rows in insertion order per tag), read with plain SQL — not through the DTO path.
#   case["route"] = {"tags": n, "interval": seconds, "batches": [["msg" | "repo", [[tag index, t, value id], ...]], ...]}

_ROUTE: dict[int, dict] = {}
RUN_ID = "run-1"


def materialise_route(case) -> dict:
    from harness.agg_common import AggHarness
    import openpectus.aggregator.models as Mdl
    import openpectus.aggregator.routers.dto as Dto
    from openpectus.aggregator import csv_generator
    from openpectus.aggregator.data.repository import PlotLogRepository
    from openpectus.aggregator.routers import recent_runs
    rt = case["route"]
    sc = float(scale(case))
    names = [f"Tag{k}" for k in range(rt["tags"])]
    res: dict = {}
    try:
        h = AggHarness()
        h.register()
        h.uod_info(names, float(rt["interval"]))
        h.run_started(RUN_ID)
        for kind, items in rt["batches"]:
            if kind == "msg":
                h.tags_updated([(names[k], vid if vid else None, t / sc) for k, t, vid in items], RUN_ID)
            else:
                with h.database.create_scope():
                    PlotLogRepository(h.database.scoped_session()).store_tag_values(
                        h.engine_id, RUN_ID, [Mdl.TagValue(name=names[k], tick_time=t / sc, value=vid if vid else None,
                                                           value_unit=None) for k, t, vid in items])
        stored = h.value_rows()
        h.run_stopped(RUN_ID)
        with h.database.create_scope():
            csv_dto = recent_runs.get_recent_run_csv_json(set(), RUN_ID)
            model = PlotLogRepository(h.database.scoped_session()).get_plot_log(RUN_ID)
            times = _impl_times(Dto.PlotLog.model_validate(model))
        header, rows = _split_csv(csv_dto.csv_content)
        res.update(times=times, header=header, rows=rows)
    except Exception as e:  # noqa: BLE001  (no plot log rows -> 404, ...)
        stored = []
        res["error"] = f"{type(e).__name__}: {getattr(e, 'detail', e)}"[:200]
    # the recorded plot log, tag by tag, in insertion order
    entries: list[list[list[int]]] = [[] for _ in names]
    for (_id, _rid, name, tick, value) in stored:
        if name in names:
            t = tick * sc
            entries[names.index(name)].append([int(t) if float(t).is_integer() else t, int(value) if value is not None else 0])
    case["entries"] = entries
    case["names"] = names
    case["kind"] = "int"
    _ROUTE[id(case)] = res
    return res


# ---------------------------------------------------------------------------------------------------------
# property oracle (independent of the model)

def expected_rows(case) -> list[list[str]]:
    times = sorted({t for vs in case["entries"] for t, _ in vs})
    rows = []
    for t in times:
        row = []
        for k, vs in enumerate(case["entries"]):
            best = None
            for i, (ti, vid) in enumerate(vs):
                if ti <= t and (best is None or (ti, i) >= (best[0], best[1])):
                    best = (ti, i, vid)
            row.append("" if best is None else render(value_of(case, k, best[0], best[2])))
        rows.append(row)
    return rows


def oracle(case) -> Failure | None:
    try:
        _times, header, rows = export(case)
    except Exception as e:  # noqa: BLE001
        if "route" in case and not any(case["entries"]):
            return None     # nothing was persisted: the route answers 404, there is no export to judge
        core_reraise(e)
        return Failure(f"export-raises-{type(e).__name__}", case, f"the export raised {e!r}")
    exp = expected_rows(case)
    n = len(case["entries"])
    sc = scale(case)
    cols = tag_columns(case, header)
    if any(c is None for c in cols):
        return Failure("tag-without-its-own-column", case, f"header {header!r} for tags {tag_names(case)}")
    if len(rows) != len(exp):
        return Failure("row-count-differs-from-distinct-times", case,
                       f"{len(rows)} data rows for {len(exp)} distinct recorded times")
    if case.get("clock") and n:
        clock = [r[cols[0]] if cols[0] < len(r) else "" for r in rows]
        vals = []
        for c in clock:
            try:
                vals.append(float(c))
            except ValueError:
                vals = None
                break
        if vals is not None and any(a >= b for a, b in zip(vals, vals[1:])):
            return Failure("rows-not-in-increasing-time-order", case, f"clock column {clock!r}")
    times = sorted({t for vs in case["entries"] for t, _ in vs})
    for i, (r, e) in enumerate(zip(rows, exp)):
        for k in range(n):
            if cols[k] >= len(r):
                return Failure("row-without-cell-for-a-tag", case, f"row {i}: {r!r} has no cell in column {cols[k]}")
            cell = r[cols[k]]
            if cell == e[k]:
                continue
            t = times[i]
            if e[k] == "":
                key = "value-shown-before-its-first-time"
            elif cell == "":
                key = "cell-empty-although-value-recorded"
            else:
                key = "cell-not-the-latest-value-at-row-time"
            return Failure(key, case, f"row {i} (t={t / sc}) tag {k}: cell {cell!r}, latest recorded value at or "
                                      f"before that time is {e[k]!r}; samples (t*{sc}, id) = {case['entries'][k]}")
    return None


# ---------------------------------------------------------------------------------------------------------
# generators.  Times are integers in 1/1024 s (exact as floats and as Int on the Lean side).  GRID = 1/8 s; tags are
# deliberately NOT aligned to a common grid: differences of 1/1024 s ... 0.11 s between tags are the normal case for
# real tick times (time.time() floats with a 0.1 s tick), so tolerances / rounding in the export show up.

SCALE = 1024
GRID = 128
JITTER = [0, 0, 1, -1, 13, 51, -51, 102, 103, 110]        # ticks: 1 ms, 13 ms, 50 ms, just below / above 0.1 s
SMALL_TIMES = (1024, 1025, 1100)                          # 1 s, +1/1024 s, +0.074 s


def gen_exhaustive(ctx: Check) -> list[dict]:
    """All logs with 1..2 tags, each tag any sequence of <= L samples over three times less than 0.1 s apart."""
    L = ctx.n(3, 4)
    seqs = [[]]
    for ln in range(1, L + 1):
        seqs += [list(t) for t in itertools.product(SMALL_TIMES, repeat=ln)]
    cases = []
    for a in seqs:
        cases.append({"entries": [[[t, i + 1] for i, t in enumerate(a)]], "kind": "int", "scale": SCALE})
    for a in seqs:
        for b in seqs:
            cases.append({"entries": [[[t, i + 1] for i, t in enumerate(a)],
                                      [[t, i + 11] for i, t in enumerate(b)]], "kind": "int", "scale": SCALE})
    return cases


def gen_random(ctx: Check, n: int) -> list[dict]:
    rng = ctx.rng
    cases = []
    for _ in range(n):
        ntags = rng.choice([1, 2, 2, 3, 3, 4])
        style = rng.choice(["aligned", "interleaved", "late", "repeats", "unsorted", "mixed", "mixed", "jitter", "jitter"])
        base = sorted(rng.sample(range(0, 40), rng.randrange(1, 9)))
        entries = []
        for k in range(ntags):
            off = 0
            if style == "aligned":
                ts = list(base)
            elif style == "jitter":              # same grid, every tag shifted by a constant fraction of a tick period
                ts = [t for t in base if t >= base[min(len(base) - 1, rng.randrange(0, 3))]] if k else list(base)
                off = rng.choice(JITTER) if k else 0
            elif style == "interleaved":
                ts = sorted(rng.sample(range(0, 40), rng.randrange(0, 7)))
            elif style == "late":
                ts = [t for t in base if t >= base[min(len(base) - 1, rng.randrange(0, 4))]] if k else list(base)
            elif style == "repeats":
                ts = sorted(t for t in rng.sample(range(0, 12), rng.randrange(1, 5))
                            for _ in range(rng.choice([1, 1, 2, 3, 4])))
            elif style == "unsorted":
                ts = [rng.randrange(0, 10) for _ in range(rng.randrange(0, 8))]
            else:
                ts = [rng.randrange(0, 16) for _ in range(rng.randrange(0, 9))]
                if rng.random() < 0.6:
                    ts.sort()
            ticks = [t * GRID + off + (rng.choice(JITTER) if style in ("mixed", "interleaved", "late") and rng.random() < 0.5
                                       else 0) for t in ts]
            if style not in ("unsorted", "mixed"):
                ticks.sort()
            entries.append([[t, i + 1 + 20 * k] for i, t in enumerate(ticks)])
        case = {"entries": entries, "kind": rng.choice(["int", "int", "float", "str"]), "style": style, "scale": SCALE,
                "units": [rng.choice([None, "L", "%"]) for _ in range(ntags)]}
        if rng.random() < 0.3:
            times = sorted({t for vs in entries for t, _ in vs})
            case["clock"] = True
            case["entries"] = [[[t, 900 + i] for i, t in enumerate(times)]] + entries
            case["units"] = ["s"] + case["units"]
        cases.append(case)
    return cases


def gen_malformed(ctx: Check, n: int) -> list[dict]:
    rng = ctx.rng
    cases = [{"entries": [], "kind": "int"}, {"entries": [[]], "kind": "int"}, {"entries": [[], []], "kind": "int"},
             {"entries": [[[5, 1]] * 1, []], "kind": "int"},
             {"entries": [[[3, i + 1] for i in range(30)], [[4, 77]]], "kind": "int"}]
    for _ in range(n):
        ntags = rng.randrange(1, 5)
        entries = []
        for k in range(ntags):
            m = rng.choice([0, 0, 1, 2, 5, 12])
            ts = [rng.choice([-1024, -1, 0, 1, 2, 2, 3, 101, 103, 10 ** 12, 1024 * 10 ** 6 + 1]) for _ in range(m)]
            # ids: 0 = None value, otherwise distinct
            entries.append([[t, 0 if rng.random() < 0.25 else i + 1 + 20 * k] for i, t in enumerate(ts)])
        cases.append({"entries": entries, "kind": rng.choice(["int", "str", "float"]), "style": "malformed", "scale": SCALE})
    return cases


def gen_route(ctx: Check, n: int) -> list[dict]:
    """Plot logs written by the aggregator itself and exported through the route handler (materialised here: the
    recorded plot log of the case is read back from the table)."""
    rng = ctx.rng
    cases = []
    for _ in range(n):
        ntags = rng.randrange(1, 4)
        nid = [0] * ntags

        def item(k, t):
            nid[k] += 1
            return [k, t, 0 if rng.random() < 0.05 else nid[k] + 100 * k]

        t = 1024 * rng.randrange(1, 4)
        batches = []
        for _ in range(rng.randrange(1, 9)):
            if rng.random() < 0.55:       # engine message: some tags changed at this tick
                t += rng.choice([GRID, GRID, 102, 103, 2 * GRID, 1100, 13])
                ks = rng.sample(range(ntags), rng.randrange(1, ntags + 1))
                batches.append(["msg", [item(k, t + (rng.choice(JITTER) if rng.random() < 0.3 else 0)) for k in ks]])
            else:                          # rows as the repository stores them, with times the message path would align
                items = []
                for _ in range(rng.randrange(1, 5)):
                    k = rng.randrange(ntags)
                    items.append(item(k, t + rng.choice([-GRID, 0, 0, 1, 51, GRID, 3 * GRID]) + rng.choice(JITTER)))
                batches.append(["repo", items])
        case = {"route": {"tags": ntags, "interval": rng.choice([0.0, 0.0, 0.1, 0.5, 1.0]), "batches": batches},
                "scale": SCALE, "style": "route"}
        materialise_route(case)
        cases.append(case)
    return cases


def is_nontrivial(case, _out=None) -> bool:
    es = [vs for vs in case["entries"] if vs]
    if not es:
        return False
    first = min(t for vs in es for t, _ in vs)
    late = any(min(t for t, _ in vs) > first for vs in es)
    rep = any(len({t for t, _ in vs}) < len(vs) for vs in es)
    uns = any([t for t, _ in vs] != sorted(t for t, _ in vs) for vs in es)
    return late or rep or uns or _near(case)


def _near(case) -> bool:
    """Two different tags have times that differ by less than 0.1 s (and are not equal)."""
    lim = 0.1 * scale(case)
    ts = sorted({(t, k) for k, vs in enumerate(case["entries"]) for t, _ in vs})
    return any(0 < b[0] - a[0] < lim and a[1] != b[1] for a, b in zip(ts, ts[1:]))


def _count(ctx: Check, case) -> None:
    es = [vs for vs in case["entries"] if vs]
    ctx.count(f"tags={len(case['entries'])}")
    if not es:
        ctx.count("no-values")
        return
    first = min(t for vs in es for t, _ in vs)
    if any(min(t for t, _ in vs) > first for vs in es):
        ctx.count("has-late-start")
    if any(len({t for t, _ in vs}) < len(vs) for vs in es):
        ctx.count("has-repeated-time")
    if any([t for t, _ in vs] != sorted(t for t, _ in vs) for vs in es):
        ctx.count("has-unsorted")
    if len(es) > 1 and len({tuple(sorted({t for t, _ in vs})) for vs in es}) > 1:
        ctx.count("times-differ-between-tags")
    if any(vid == 0 for vs in es for _, vid in vs):
        ctx.count("has-None-value")
    if case.get("clock"):
        ctx.count("has-clock-tag")
    if _near(case):
        ctx.count("tags-less-than-0.1s-apart")
    if "route" in case:
        ctx.count("route")
        ctx.count("route-404" if (_ROUTE.get(id(case)) or {}).get("error") else "route-exported")


def run(ctx: Check) -> int:
    ctx.prove(MODULE, REQUIRED)
    corpus = [c for c in load_corpus(ctx.id) if "entries" in c]
    small = gen_exhaustive(ctx)
    rnd = gen_random(ctx, ctx.n(1000, 30000))
    bad = gen_malformed(ctx, ctx.n(200, 5000))
    route = gen_route(ctx, ctx.n(80, 2000))
    ctx.rule = ("plot logs as lists of (time in 1/1024 s, value id) per tag. DTO streams feed the real DTOs to "
                "csv_generator. small: ALL logs with 1-2 tags, <=3/<=4 samples per tag over three times less than 0.1 s "
                "apart (1 s, +1/1024 s, +0.074 s) in every order (repeats, unsorted, late). random: 1-4 tags (+ optional "
                "clock tag), styles aligned / jitter (tags shifted by 1 ms .. 0.11 s against each other) / interleaved / "
                "late / repeats / unsorted / mixed, values int/float/str. malformed: no tags, empty tags, None values, "
                "negative and huge times, 30 values at one time. route: the plot log is written by the aggregator "
                "(TagsUpdatedMsg through the handlers + PlotLogRepository.store_tag_values), the run is stopped and the CSV "
                "comes from the route handler get_recent_run_csv_json; the recorded log is read back from the table with "
                "SQL. Non-trivial = some tag starts after the first row, repeats a time, is unsorted, or two tags have "
                "times less than 0.1 s apart.")
    all_cases = []
    for name, cases in (("corpus+small", corpus + small), ("random", rnd), ("malformed", bad), ("route", route)):
        _out, mout = ctx.correspond(name, "CsvExport", cases, op_line, impl_lines, nontrivial=is_nontrivial)
        if name == "random" and mout:
            ctx.selftest(name, "CsvExport", cases, lambda c: op_line(c, "csvold"), mout)
        all_cases += cases
    for c in all_cases:
        _count(ctx, c)
    ctx.monitor(all_cases, oracle)
    ctx.exhaustive = True
    ctx.extra["exhaustive_scope"] = (f"all plot logs with 1-2 tags, <= {ctx.n(3, 4)} samples per tag, times in "
                                     f"{{1 s, 1 s + 1/1024 s, 1 s + 76/1024 s}} ({len(small)} logs); the other streams are "
                                     f"sampled")
    ctx.assumptions = ["tick times are finite floats; the harness uses multiples of 1/1024 s so float order = integer order "
                       "(not aligned to a common grid across tags)",
                       "list.sort is stable and csv.writer/reader round-trip the generated cell texts (CPython; "
                       "validated differentially)",
                       "value id 0 stands for a recorded value None, which csv renders as the empty cell",
                       "tag columns are identified by name in the header (`name` or `name [unit]`); further columns are "
                       "ignored",
                       "route stream: the recorded plot log is the content of PlotLogEntryValues in insertion order"]
    return ctx.finish(search=lambda c: c.monitor(gen_random(c, 2000) + gen_exhaustive(c), oracle))


def replay(obj) -> int:
    case = obj.get("case")
    if not isinstance(case, dict) or ("entries" not in case and "route" not in case):
        print(json.dumps(obj, indent=1))
        return 0
    if "route" in case:
        print("route case:", case["route"])
        materialise_route(case)
    times, header, rows = export(case)
    print(f"samples (t*{scale(case)}, id) per tag:", case["entries"])
    print("tick times:", times)
    print("header:", header)
    cols = tag_columns(case, header)
    for r, e in zip(rows, expected_rows(case)):
        got = [r[c] if c is not None and c < len(r) else "?" for c in cols]
        print("row", r, " tag cells", got, " expected", e, "" if got == e else "   <-- differs")
    print("model:", drive("CsvExport", [op_line(case)])[0])
    print("impl :", impl_lines(case))
    f = oracle(case)
    print("oracle:", "ok" if f is None else f"{f.key}: {f.detail}")
    return 0 if f is None else 1
