"""C20 A method the analyzer accepts does not fail on names, args or units.

Proof half: OPM.Properties.C20 over OPM.Model.Accept (publication of the engine's definitions, the editor's
validators built from them, the engine's per-instruction acceptance) on top of OPM.Model.Analyzer / OPM.Model.Units.
Tie half:
  * stream "publish": the definition a generated UOD publishes through the real EngineMessageBuilder + protocol
    serialisation vs the model's `publish`;
  * stream "accept": per (UOD, method) the real analyzer items (editor path, published definition), the real
    per-instruction acceptance primitives of the engine (parse_args / validate_arguments / _evaluate_condition /
    simulate_value_and_unit / base units …) vs the model;
  * oracle (independent of the model): every analyzer-clean method is RUN on the real Engine; a method error of the
    kinds unknown command / unknown tag / invalid argument / units is a violation.
The model follows the code WITH fixes/C20-base-units-published-from-uod.diff and
fixes/C20-units-molpercent-and-simulate-conversion.diff.  Commands with a custom (non-regex) Python argument parser are
published without validator: an argument such a parser rejects is a recorded finding (findings.d/C20.json).
"""
from __future__ import annotations

import json

from vp.core import Check, Diff, Failure, enc, encb, load_corpus
from vp.core import reraise_harness_fault as core_reraise

META = dict(
    level_text="Lean 4 theorem C20_accept: for every engine definition (tags, uod commands with regex/default parsers, "
               "internal command specs, base units), every node list and all regex/similarity oracles: if the condition, "
               "Simulate and command analyzers report nothing on the definition the engine publishes, then no instruction "
               "fails on the engine for an unknown command, an unknown tag, a rejected argument or a unit error — proved "
               "by per-construct lemmas (same regex string on both sides, published names ⊆ engine names, comparable ⇒ "
               "convertible on the regenerated unit table). Publication, analyzer verdicts and the engine's acceptance "
               "primitives are tied to the code differentially; every analyzer-clean generated method is executed on "
               "the real Engine and its first method error classified.",
    level_note="Partial: uod commands with a custom (non-regex) argument parser are excluded by hypothesis (C20_full is "
               "refuted by C20_counterexample_custom_parser; known finding). Hypotheses that are facts about Python `re`/"
               "`int`/the parser hold of the real functions for every string and are transmitted per case and checked "
               "(anchored patterns: search ⇒ match; re.search on the published Base pattern = acceptBase, probed on "
               "stripped and unstripped strings; REGEX_INT ⇒ int(); node classes of the two parsers agree, arguments are "
               "stripped). The oracle treats EVERY method error of an analyzer-clean method as a failure; the key comes "
               "from the failing node, the raising function and data (tag known? units reject any values?), not from "
               "message texts. Known: value-dependent condition failures (tag value is text). "
               "The model follows the code with the two C20 fix diffs: on a tree without them the check reports a "
               "violation (Base: <unit without provider>; Simulate with a unit needing conversion or 'CV'; '%' vs 'mol%'). "
               "Not covered: thresholds, macros, run-state dependent failures, exec functions, units added by add_unit.",
    technique="Lean 4 proof (refinement between the analyzer's validators and the engine's acceptance, table facts by "
              "kernel evaluation) + differential correspondence + execution oracle on the real Engine",
)
MODULE = "OPM.Properties.C20"
REQUIRED = ["OPM.C20.C20_accept", "OPM.C20.table_convertible", "OPM.C20.C20_counterexample_custom_parser",
            "OPM.C20.clean_condition_units_ok", "OPM.C20.clean_uod_argument_ok"]
C20_CATEGORIES = ("unknown-command", "unknown-tag", "invalid-argument", "unit")


def oenc(s) -> str:
    return "N" if s is None else enc(s)


# ----------------------------------------------------------------------------------------------------------
# observation of one UOD / one method

def definition_ops(pub) -> list[str]:
    e = pub.engine_side
    ops = [f"tag\t{enc(n)}\t{oenc(u)}" for n, u in e["tags"]]
    ops += [f"ucmd\t{enc(n)}\t{k}\t{enc(r)}" for n, k, r in e["uod_cmds"]]
    ops += [f"example\t{enc(n)}" for n in e["examples"]]
    ops += [f"spec\t{enc(n)}\t{enc(r)}" for n, r in e["specs"] if r is not None]
    ops += [f"baseunit\t{enc(u)}" for u in e["base_units"]]
    ops += [f"keyword\t{enc(k)}" for k in e["keywords"]]
    return ops


def published_text(defn) -> str:
    def val(v):
        if v is None:
            return "N"
        assert v.startswith("RNAP-v1-"), v
        return enc(v[8:])
    t = " ".join(f"{enc(t.name)}={oenc(t.unit)}" for t in defn.tags)
    c = " ".join(f"{enc(c.name)}={val(c.validator)}" for c in defn.commands)
    s = " ".join(f"{enc(c.name)}={val(c.validator)}" for c in defn.system_commands)
    return f"tags {t} | cmds {c} | sys {s}"


def analyzer_nodes(pcode: str):
    """The parse `lsp_analysis.analyze` works on (uod command names unknown to the parser)."""
    from openpectus.lang.model.parser import ParserMethod, create_method_parser
    from props.C19 import walk, node_kind
    method = ParserMethod.from_pcode(pcode)
    program = create_method_parser(method, uod_command_names=[]).parse_method(method)
    return [(n, node_kind(n)) for n in walk(program)]


def observe(case: dict, pub, inp) -> dict:
    """Everything about one (UOD, method): op lines for the model, real analyzer items, static engine verdicts, the run."""
    import re
    from Levenshtein import ratio
    from harness import c20_engine as H
    from openpectus.lang.exec.analyzer import AnalyzerItemType  # noqa: F401
    spec, pcode = case["spec"], case["pcode"]
    e = pub.engine_side
    obs: dict = {"exc": None}
    sent = getattr(pub, "sent", None)     # via the aggregator: what the engine published last vs what the editor is given
    obs["outdated"] = None if sent is None or published_text(sent) == published_text(pub.definition) else \
        (published_text(sent), published_text(pub.definition))
    # --- the editor's analysis on the published definition (all analyzers) + the three modelled ones
    from openpectus.lsp import lsp_analysis
    from pylsp.workspace import Document, Workspace
    from openpectus.lang.exec.analyzer import ConditionCheckAnalyzer, SimulateCheckAnalyzer, CommandCheckAnalyzer, \
        SemanticCheckAnalyzer
    from openpectus.lang.model.parser import ParserMethod, create_method_parser
    try:
        doc = Document(uri="file://workspace/uri", workspace=Workspace(root_uri="", endpoint=None, config=None),
                       source=pcode)
        res = lsp_analysis.analyze(inp, doc)
        obs["all_errors"] = [(it.id, it.range.start.line) for it in res.items if it.type.name == "ERROR"]
        method = ParserMethod.from_pcode(pcode)
        program = create_method_parser(method, uod_command_names=[]).parse_method(method)
        an = SemanticCheckAnalyzer(inp.tags, inp.commands)
        an.analyze(program)
        items = []
        for cls, letter in ((ConditionCheckAnalyzer, "C"), (SimulateCheckAnalyzer, "S"), (CommandCheckAnalyzer, "M")):
            for a in an.analyzers:
                if type(a) is cls:
                    for it in a.items:
                        items.append(f"{letter}:{it.id}:{it.range.start.line}:{'E' if it.type.name == 'ERROR' else '-'}:"
                                     f"{'fix' if it.data.get('type') == 'fix-typo' else '-'}")
        obs["analysis"] = " ".join(items) or "none"
    except Exception as ex:  # noqa: BLE001 - C19's subject; here it only means "not clean"
        obs["all_errors"] = [("analysis-raised:" + type(ex).__name__, 0)]
        obs["analysis"] = "err:other:" + type(ex).__name__
    # --- the engine: static verdict per instruction + the run
    run = H.run_method(spec, pcode)
    obs["run"] = run
    enodes = {n["line"]: n for n in run["nodes"]}
    anodes = analyzer_nodes(pcode)
    regexes = sorted({r for _, k, r in e["uod_cmds"] if k == "regex"} | {r for _, r in e["specs"] if r is not None}
                     | {c.validator[8:] for c in list(pub.definition.commands) + list(pub.definition.system_commands)
                        if c.validator})
    tag_names = [n for n, _ in e["tags"]]
    cmd_names = [c.name for c in list(pub.definition.commands) + list(pub.definition.system_commands)]
    customs = {n for n, k, _ in e["uod_cmds"] if k == "custom"}
    params: list[str] = []
    seen = set()

    def emit(line):
        if line not in seen:
            seen.add(line)
            params.append(line)
    node_ops = []
    for node, akind in anodes:
        en = enodes.get(node.position.line)
        if en is None:
            continue
        args = node.arguments
        name = node.instruction_name
        if akind == "error" and name == "":
            name = node.line
        if akind in ("command", "error"):
            for r in regexes:
                if re.search(r, args) is not None:
                    emit(f"search\t{enc(r)}\t{enc(args)}")
                if re.match(r, args) is not None:
                    emit(f"match\t{enc(r)}\t{enc(args)}")
            if node.instruction_name in customs and H.custom_parse(args) is not None:
                emit(f"custom\t{enc(node.instruction_name)}\t{enc(args)}")
            try:
                int(args)
                emit(f"int\t{enc(args)}")
            except ValueError:
                pass
            if len(name) > 2:
                for cand in cmd_names:
                    if ratio(name, cand) > 0.7:
                        emit(f"sim\t{enc(name)}\t{enc(cand)}")
        tov = getattr(node, "tag_operator_value", None) if akind in ("watch", "alarm", "simulate") else None
        for q in ([tov.tag_name] if tov is not None else []) + ([args] if akind == "simulateoff" else []):
            if q is not None and len(q) > 2:
                for cand in tag_names:
                    if ratio(q, cand) > 0.7:
                        emit(f"sim\t{enc(q)}\t{enc(cand)}")
        node_ops.append("\t".join([
            "node", str(node.position.line), akind, en["ekind"], encb(tov is not None),
            oenc(tov.tag_name if tov else None), enc(tov.op if tov else ""), enc(tov.rhs if tov else ""),
            oenc(tov.tag_value if tov else None), oenc(tov.tag_unit if tov else None),
            enc(node.instruction_name), enc(getattr(node, "line", "") or ""), enc(args),
            encb(bool(node.has_argument)), encb(en["num_truthy"]), enc(en["tag_now"])]))
    base_rx = next((c.validator[8:] for c in pub.definition.system_commands if c.name == "Base" and c.validator), None)
    probes = BASE_PROBES + [n.arguments for n, k in anodes if n.instruction_name == "Base"]
    obs["probe_ops"] = [f"baseprobe\t{enc(a)}" for a in probes]
    obs["probe_out"] = ["T" if base_rx is not None and re.search(base_rx, a) is not None else "F" for a in probes]
    # the two sites that decide about a uod command's argument, on the same (command, argument) pairs: the validator the
    # editor builds from the published definition, and the arg_parse_fn `UodCommand.parse_args` calls on the engine
    from harness import c20_gen as G
    uod_regex = {n: r for n, k, r in e["uod_cmds"] if k == "regex"}
    arg_pairs = [(n.instruction_name, n.arguments) for n, k in anodes
                 if k in ("command", "error") and n.instruction_name in uod_regex]
    for c in spec["cmds"]:
        if c["kind"] == "rawregex":
            arg_pairs += [(c["name"], a) for a in G.raw_probe_args(c)]
    arg_pairs = list(dict.fromkeys(arg_pairs))
    obs["arg_pairs"] = arg_pairs
    obs["argprobe_out"] = []
    for name, a in arg_pairs:
        if re.search(uod_regex[name], a) is not None:
            emit(f"search\t{enc(uod_regex[name])}\t{enc(a)}")
        obs["probe_ops"].append(f"argprobe\t{enc(name)}\t{enc(a)}")
        try:
            v = "T" if inp.commands.get(name).validate_args(a) else "F"
        except Exception as ex:  # noqa: BLE001
            core_reraise(ex)
            v = "err:" + type(ex).__name__
        try:
            fn = pub.parse_fns[name]
            pr = "T" if (fn is None or fn(a) is not None) else "F"
        except Exception as ex:  # noqa: BLE001
            core_reraise(ex)
            pr = "err:" + type(ex).__name__
        obs["argprobe_out"].append((v, pr))
        obs["probe_out"].append(f"{v} {pr}")
    obs["ops"] = params + node_ops + obs["probe_ops"] + ["agree", "oracles", "analyze", "accept"]
    order = [n.position.line for n, _ in anodes if n.position.line in enodes]
    obs["accept"] = " ".join(f"{ln}:{enodes[ln]['static']}" for ln in order) or "none"
    return obs


# ----------------------------------------------------------------------------------------------------------
# oracle: analyzer-clean method, run on the engine (independent of the Lean model)

def judge(case: dict, obs: dict) -> list[Failure]:
    """Any method error of an analyzer-clean method is a failure.  The classification (by failing node, raising function
    and data, see c20_engine.classify_failure) only chooses the key — nothing is dropped."""
    run = obs["run"]
    f = run["failure"]
    pub_case = {"spec": case["spec"], "pcode": case["pcode"]}
    if case.get("prev_spec") is not None:
        pub_case["prev_spec"] = case["prev_spec"]
    fails = []
    if obs.get("outdated"):
        fails.append(Failure("analysis-uses-outdated-definition", pub_case,
                             f"after the engine re-registered and sent its UodInfo the editor's analysis is still given "
                             f"the earlier definition: engine published {obs['outdated'][0]} — fetch_uod_info answers "
                             f"{obs['outdated'][1]}"))
    # the same (command, argument) at both sites: what the editor's validator accepts the engine's parser must accept
    for (name, a), (v, pr) in zip(obs.get("arg_pairs", []), obs.get("argprobe_out", [])):
        if v == "T" and pr != "T":
            kind = next((c["kind"] for c in case["spec"]["cmds"] if c["name"] == name), "?")
            fails.append(Failure(f"validator-accepts-what-parse-rejects:uod-command:{kind}", pub_case,
                                 f"command {name!r}, argument {a!r}: the validator built from the published definition "
                                 f"accepts it (no analysis error), UodCommand.parse_args answers {pr} (the engine fails "
                                 f"with 'Invalid arguments for command')"))
            break
    if obs["all_errors"] or f is None:
        return fails
    detail = f["site"]
    if f["category"] == "invalid-argument" and f["site"] == "uod-command":
        name = f.get("command") or "?"
        kind = next((c["kind"] for c in case["spec"]["cmds"] if c["name"] == name), "?")
        detail = "custom-parser" if kind == "custom" else f"uod-command:{kind}"
    line = f.get("line")
    src = case["pcode"].splitlines()[line] if line is not None and line < len(case["pcode"].splitlines()) else ""
    return fails + [Failure(f"clean-method-fails:{f['category']}:{detail}", pub_case,
                    f"the analyzer reports no error for the method, the engine fails ({f['category']}, {detail}; "
                    f"{f.get('exc')} raised in {f.get('raised_in')}, node {f.get('node')}): {f['text'][:200]} "
                    f"— line {line} {src!r}")]


BASE_PROBES = ["s", " s", "s ", "\ts\n", "L", " L", "L\n", "min", "mins", "sec", "1 min", "each", "Lh", "", " ", "s|min",
               "h\x0b", "mL", "CV", "\u00a0min", "(s)", "S"]


def gen_cases(ctx: Check) -> list[dict]:
    from harness import c20_gen as G
    rng = ctx.rng
    cases = [dict(c["case"], kind="corpus") for c in load_corpus("C20")]
    for i in range(ctx.n(40, 1500)):
        spec = G.gen_spec(rng)
        # every third uod: its definition reaches the editor through an in-process aggregator that has seen an earlier
        # version of the uod (same names, other units / argument patterns) before the engine re-registered
        prev = G.earlier_version(rng, spec) if i % 3 == 0 else None
        for _ in range(ctx.n(10, 12)):
            # methods are written against the current version or (to be rejected now) against the earlier one
            target = prev if prev is not None and rng.random() < 0.4 else spec
            cases.append({"spec": spec, "pcode": G.gen_method(rng, target, rng.randrange(2, ctx.n(9, 12))),
                          "kind": "generated" if prev is None else "via-aggregator", "prev_spec": prev})
    return cases


def published_for(H, spec: dict, prev_spec: dict | None, cache: dict | None = None):
    """(Published, analysis input) for a case: straight from the engine's UodInfo message, or — with `prev_spec` — as the
    editor gets it from a real aggregator that received the earlier version's UodInfo, a re-registration and then the
    current UodInfo."""
    cache = cache if cache is not None else {}
    k = json.dumps([spec, prev_spec], sort_keys=True)
    if k not in cache:
        p = H.publish(spec)
        if prev_spec is None:
            cache[k] = (p, H.analysis_input(p.definition))
        else:
            definition, inp = H.via_aggregator([H.publish(prev_spec), p])
            q = H.Published(definition, p.engine_side, p.parse_fns, p.wire)
            q.sent = p.definition          # what the engine published last
            cache[k] = (q, inp)
    return cache[k]


def run(ctx: Check) -> int:
    from harness.translators import unit_table
    from harness import c20_engine as H
    unit_table.generate()
    ctx.prove(MODULE, REQUIRED, extra_targets=["OPM.Gen.UnitTable"])
    ctx.rule = ("UODs: 2–6 tags (units incl. %, vol%, wt%, mol%, temperatures, flows, CV, none; numeric or text values), "
                "2–6 commands built with RegexNumber / RegexNumberOptional / RegexCategorical (options with regex "
                "metacharacters) / RegexText / a uod author's own expression (not anchored at the start / the end / either / anchored; "
                "arguments with text in front of / behind the matching part) / no-argument / default parser / custom Python parser (low weight), base-unit "
                "providers none | volume | volume+CV. Methods of 2–9/12 lines, mostly valid against the published "
                "definition: uod commands with arguments from the language of their pattern (80 %) or near misses, "
                "Watch/Alarm/Simulate on defined tags with the same / another unit of the quantity / a foreign unit, "
                "Simulate off, Base over the static unit list, Wait, Run counter, Pause/Hold/Info/Warning, blocks, "
                "thresholds, undefined names at low weight. Every uod regex command's argument is put to both deciding functions on the "
                "same pairs (validator built from the published definition, UodCommand.parse_args' parser; fixed "
                "prefix/suffix probes per hand-written expression). For every third UOD the definition reaches the analysis "
                "through a real in-process aggregator that got the UodInfo of an earlier version of the uod (same names, "
                "other units / patterns), a re-registration and the current UodInfo; 40 % of those methods are written "
                "against the earlier version. Non-trivial = the method is analyzer-clean and at least one "
                "of its instructions was started on the engine.")
    cases = gen_cases(ctx)
    pubs: dict[str, tuple] = {}

    def pub_of(spec, prev_spec=None):
        return published_for(H, spec, prev_spec, pubs)

    # -- stream "publish": one case per distinct UOD
    specs, seen = [], set()
    for c in cases:
        k = json.dumps(c["spec"], sort_keys=True)
        if k not in seen:
            seen.add(k)
            specs.append(c["spec"])
    pout, pmod = ctx.correspond(
        "publish", "Accept", specs, lambda s: definition_ops(pub_of(s)[0]) + ["publish"],
        lambda s: ["ok"] * len(definition_ops(pub_of(s)[0])) + [published_text(pub_of(s)[0].definition)],
        nontrivial=lambda s, o: True, impl_timeout=60.0)
    if pmod:
        ctx.selftest("publish", "Accept", specs, lambda s: definition_ops(pub_of(s)[0]) + ["publishold"], pmod)

    # -- stream "accept": analyzer verdict + engine acceptance per instruction
    obs_cache: dict[int, dict] = {}

    def obs_of(c):
        if id(c) not in obs_cache:
            pub, inp = pub_of(c["spec"], c.get("prev_spec"))
            obs_cache[id(c)] = observe(c, pub, inp)
        return obs_cache[id(c)]

    def lines(c):
        return definition_ops(pub_of(c["spec"], c.get("prev_spec"))[0]) + obs_of(c)["ops"]

    def impl(c):
        o = obs_of(c)
        n = len(definition_ops(pub_of(c["spec"], c.get("prev_spec"))[0])) + len(o["ops"]) - 4 - len(o["probe_out"])
        return ["ok"] * n + o["probe_out"] + ["ok", "ok", o["analysis"], o["accept"]]

    pubcases = [{"spec": c["spec"], "pcode": c["pcode"], "kind": c["kind"], "prev_spec": c.get("prev_spec")} for c in cases]
    by = {id(p): c for p, c in zip(pubcases, cases)}
    iout, mout = ctx.correspond(
        "accept", "Accept", pubcases, lambda p: lines(by[id(p)]), lambda p: impl(by[id(p)]),
        nontrivial=lambda p, o: not obs_of(by[id(p)])["all_errors"] and bool(obs_of(by[id(p)])["run"].get("started")),
        impl_timeout=60.0)
    if mout:
        def old_lines(p):
            ln = lines(by[id(p)])
            return ln[:-2] + ["analyzeold", "acceptold"]
        ctx.selftest("accept", "Accept", pubcases, old_lines, mout)

    # -- oracle + consistency of the static decomposition with the run + distribution
    n_lines = n_started = 0
    for c, p in zip(cases, pubcases):
        o = obs_of(c)
        run_ = o["run"]
        f = run_["failure"]
        clean = not o["all_errors"]
        ctx.count("method:" + ("clean" if clean else "flagged") + "/" +
                  ("runs" if f is None else "fails:" + f["category"]))
        for n in run_["nodes"]:
            ctx.count("node:" + n["ekind"])
            if n["static"] != "ok":
                ctx.count("static:" + n["static"])
        n_lines += len([n for n in run_["nodes"] if n["cls"] not in ("BlankNode", "CommentNode")])
        n_started += len(run_.get("started", []))
        for fl in judge(c, o):
            ctx.fail(fl)
        # the per-instruction primitives explain the run: a C20-category failure at a known line must be the static
        # verdict of that line
        if f is not None and f["category"] in C20_CATEGORIES and f.get("line") is not None:
            st = {n["line"]: n["static"] for n in run_["nodes"]}
            if st.get(f["line"]) != f["category"]:
                ctx.diffs.append(Diff("static-vs-run", p, f["line"], f"run:{f['category']}", f"static:{st.get(f['line'])}"))
    ctx.extra["lines_total"] = n_lines
    ctx.extra["lines_started_on_engine"] = n_started
    ctx.extra["uods"] = len(specs)
    ctx.exhaustive = False
    ctx.assumptions = [
        "uod command names are unique and differ from the system command names; tag names are unique (UodBuilder enforces "
        "the former for tags)",
        "tags with a unit hold numeric values (a non-numeric value is a value error, not one of C20's kinds)",
        "exec functions complete at once and never raise; hardware is the null hardware",
        "units come from units.py as imported (no add_unit); the custom parser of generated 'custom' commands accepts "
        "digit strings only",
        "Python `re`, `int()` and Levenshtein.ratio are parameters of the model, transmitted per case",
        "unit names outside units.py's table that pint nevertheless understands (e.g. 'sec') are not generated: the model "
        "knows pint only through the regenerated table (the analyzer rejects such units anyway)",
    ]
    return ctx.finish()


def replay(obj) -> int:
    from vp.core import drive
    from harness.translators import unit_table
    from harness import c20_engine as H
    unit_table.generate()
    c = obj.get("case") or next((d["case"] for d in obj.get("disagreements", []) if d.get("case")), None)
    if c is None:
        print(json.dumps(obj, indent=1)[:4000])
        return 0
    if "pcode" not in c:  # a case of the publish stream: a UOD spec
        pub = H.publish(c)
        m = drive("Accept", [definition_ops(pub) + ["publish"], definition_ops(pub) + ["publishold"]])
        print("published (real):     " + published_text(pub.definition))
        print("model (repaired):     " + m[0][-1])
        print("model (before fixes): " + m[1][-1])
        return 0 if published_text(pub.definition) == m[0][-1] else 1
    pub, inp = published_for(H, c["spec"], c.get("prev_spec"))
    if c.get("prev_spec") is not None:
        print("earlier uod version (its UodInfo reached the aggregator before the engine re-registered): "
              + json.dumps(c["prev_spec"]))
    o = observe(c, pub, inp)
    ops = definition_ops(pub) + o["ops"]
    m = drive("Accept", [ops, ops[:-2] + ["analyzeold", "acceptold"]])
    print("UOD: " + json.dumps(c["spec"]))
    print("method:")
    for i, ln in enumerate(c["pcode"].splitlines()):
        print(f"  {i}: {ln!r}")
    print(f"analyzer ERROR items (all analyzers): {o['all_errors']}")
    print(f"implementation: items = {o['analysis']}\n                accept = {o['accept']}")
    print(f"model:          items = {m[0][-2]}\n                accept = {m[0][-1]}   (parsers agree: {m[0][-4]}, oracle facts: {m[0][-3]})")
    print(f"model (before fixes): items = {m[1][-2]}\n                accept = {m[1][-1]}")
    print(f"engine run: {o['run']['failure'] or 'no method error'}  (lines started: {o['run'].get('started')})")
    fails = judge(c, o)
    for f in fails:
        print(f"oracle: {f.key}: {f.detail}")
    if not fails:
        print("oracle: property holds on this case")
    return 1 if fails else 0
