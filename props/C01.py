"""C01 Live method edits never re-run or lose run progress.

The unchanged code violates the property (see findings.d/C01.json): the state transplant of a live
edit is empty, so every accepted edit restarts the method, and the method manager's own program is
replaced by a state-less copy.  The Lean model (OPM.Model.Merge) models the code as it is; the
correspondence check ties it to MethodManager on generated (program, schedule, edit script) cases.
"""
from __future__ import annotations

import re
from collections import Counter
from fractions import Fraction

from harness.gen_pcode import gen_edit_script, gen_program, gen_schedule, gen_snippet
from harness.interp_corr import m3_stream
from harness.interp_run import apply_edit_script
from vp.core import Check, Failure

META = dict(
    level_text="Lean 4 theorems over the as-is merge model, for every state and every history of ticks, requests, "
               "injections and edits (OPM.Lemmas.MergeHist): a rejected edit changes nothing and every continuation of "
               "the run is the continuation without it; an edit that changes a started/executed line is rejected while "
               "the method manager still sees the running program. The full statement is refuted by kernel-evaluated "
               "witnesses (C01_counterexample: completed work is discarded; C01_delete_counterexample: removing a "
               "started line is accepted) and the as-is behaviour is characterised exactly: every accepted edit, after "
               "any history, installs an interpreter with no progress at all whose main generator stands in front of "
               "the program node (every_accepted_edit_restarts, accepted_edit_restarts_after_any_history); with nothing "
               "registered the merged state IS a new interpreter over the new method (merge_is_a_fresh_start); after "
               "one merged edit the next edit is never validated (second_edit_not_validated, burst_of_edits_all_set); "
               "no generator of the old interpreter, injected code included, survives (accepted_edit_keeps_no_generator, "
               "set_edit_forgets_interrupts). Decided witnesses (second edit rewrites a completed line, edit while "
               "injected code runs, nested Watch stall, deleted line) are replayed on the real engine on every run. "
               "Model tied to MethodManager.merge_method/set_method + PInterpreter by differential execution with 1-3 "
               "edit scripts per case (append / change / insert / delete, also inside bodies) and injected snippets.",
    level_note="Known findings: the code does not satisfy C01 (every accepted live edit restarts the method; reported "
               "method state and run log are emptied; a second edit is not validated; removing a started line is "
               "accepted). The 55 known-finding keys carry kind of line (Mark / UOD command), first vs later edit and "
               "what was active at the edit; a re-execution more than once per edit, a partial loss of method state or "
               "run log, a lost line outside the two recorded stall situations, any effect of a rejected edit and the "
               "acceptance of a changed started line on a first edit are NOT known and alarm. Proved clauses of the "
               "property itself are only the _partial ones; the run log and the engine-level clauses (error state, "
               "System State) are oracle-only. Trusted: Lean kernel, harness, line identity by id.",
    technique="Lean 4 proof (as-is model: partial theorems, all-state/all-history characterisation, decided counterexamples) "
              "+ differential correspondence + engine oracle",
)
MODULE = "OPM.Properties.C01"
REQUIRED = ["OPM.C01.C01_partial_rejected_edit_changes_nothing", "OPM.C01.C01_partial_started_line_edit_rejected",
            "OPM.C01.C01_partial_rejected_edit_future_unchanged",
            "OPM.C01.C01_counterexample", "OPM.C01.C01_delete_counterexample", "OPM.C01.merge_discards_progress",
            "OPM.C01.every_accepted_edit_restarts", "OPM.C01.accepted_edit_restarts_after_any_history",
            "OPM.C01.merge_is_a_fresh_start", "OPM.C01.second_edit_not_validated", "OPM.C01.burst_of_edits_all_set",
            "OPM.C01.set_edit_forgets_interrupts", "OPM.C01.accepted_edit_keeps_no_generator",
            "OPM.C01.edit_keeping_no_started_line_accepted",
            "OPM.C01.C01_witness", "OPM.C01.C01_witness_nested_interrupt", "OPM.C01.C01_witness_second_edit",
            "OPM.C01.C01_witness_injected", "OPM.C01.C01_witness_deleted_line"]


def marks_of(snap) -> list[str]:
    v = snap["tags"].get("Mark")
    return [x for x in str(v or "").split("; ") if x]


_HEAD = re.compile(r"^\s*(?:\d+(?:\.\d+)?\s+)?([A-Za-z][A-Za-z ]*?)\s*(?::\s*(.*?))?\s*$")


def stable_effects(pcode: str) -> tuple[set[str], set[str]]:
    """(Mark names, UOD command names) whose number of executions in a run of `pcode` from the start is a
    function of the text alone: the line is not inside an Alarm or Macro body (those run once per activation /
    call) and no other line sets the same Mark / issues the same command.  Derived from the text (indentation),
    not from the parser under test."""
    from harness.engine_run import UOD_COMMANDS
    rows, stack = [], []           # stack of (indent, head)
    for ln in pcode.splitlines():
        if not ln.strip() or ln.strip().startswith("#"):
            continue
        ind = len(ln) - len(ln.lstrip(" "))
        m = _HEAD.match(ln.split("#")[0])
        head, arg = (m.group(1), (m.group(2) or "").strip()) if m else ("?", "")
        while stack and stack[-1][0] >= ind:
            stack.pop()
        rows.append((head, arg, any(h in ("Alarm", "Macro") for _, h in stack)))
        stack.append((ind, head))
    marks = Counter(a for h, a, _ in rows if h == "Mark")
    cmds = Counter(h for h, _, _ in rows if h in UOD_COMMANDS)
    unstable_m = {a for h, a, u in rows if h == "Mark" and u}
    unstable_c = {h for h, _, u in rows if h in UOD_COMMANDS and u}
    return ({a for a, k in marks.items() if k == 1 and a not in unstable_m},
            {c for c, k in cmds.items() if k == 1 and c not in unstable_c})


ACTIVE_PRIORITY = ["nested-interrupt", "in-scope:block", "in-scope:watch", "in-scope:alarm", "in-scope:macro",
                   "in-scope:other", "injected-code", "command-executing", "interrupt-registered", "main-sequence"]


def active_at(run) -> str:
    """What the interpreter was busy with at the moment of an edit: the first label of ACTIVE_PRIORITY that applies."""
    interp = run.engine.interpreter
    nodes = list(interp._program.get_all_nodes())
    by_id = {n.id: n for n in nodes}
    cls = lambda n: type(n).__name__          # noqa: E731
    labels = {"main-sequence"}
    if any(cls(i.node) == "InjectedNode" for i in interp.interrupts):
        labels.add("injected-code")
    # a Watch/Alarm inside a Watch/Alarm body whose interrupt is registered
    if any(getattr(n, "interrupt_registered", False) and any(cls(q) in ("WatchNode", "AlarmNode") for q in n.parents)
           for n in nodes if cls(n) in ("WatchNode", "AlarmNode")):
        labels.add("nested-interrupt")
    # a Block/Watch/Alarm/Macro scope is active (Scope Time tag's stack beyond the program scope)
    stack = [i for i in getattr(run.engine.tags["Scope Time"], "_stack", []) if i in by_id and cls(by_id[i]) != "ProgramNode"]
    if stack:
        labels.add("in-scope:" + {"BlockNode": "block", "WatchNode": "watch", "AlarmNode": "alarm", "MacroNode": "macro",
                                  "CallMacroNode": "macro"}.get(cls(by_id[stack[-1]]), "other"))
    cm = run.engine._command_manager
    if cm is not None and any(getattr(r, "source", "") != "user" and r.name in run.uod.command_instances
                              for r in cm.cmd_executing):
        labels.add("command-executing")
    if interp.interrupts:
        labels.add("interrupt-registered")
    return min(labels, key=ACTIVE_PRIORITY.index)


OPENERS = ("Block", "Watch", "Alarm", "Macro")


def well_indented(pcode: str) -> bool:
    """The text is a structured method: indentation in steps of four, deeper only directly below a Block / Watch /
    Alarm / Macro line.  (Edit scripts can produce other texts; the comparison with 'the final method loaded from
    the start' is only made for structured ones.)"""
    prev_ind, prev_head = 0, None
    for ln in pcode.splitlines():
        if not ln.strip() or ln.strip().startswith("#"):
            continue
        ind = len(ln) - len(ln.lstrip(" "))
        m = _HEAD.match(ln.split("#")[0])
        head = m.group(1) if m else "?"
        if ind % 4 or ind > prev_ind + 4 or (ind > prev_ind and prev_head not in OPENERS):
            return False
        prev_ind, prev_head = ind, head
    return True


def runlog_items(run) -> dict[str, tuple[str, str]]:
    """instance id -> (name, state) of the run log the engine reports."""
    rl = run.engine.tracking.get_runlog()
    return {i.id: (i.name, str(i.state)) for i in rl.items}


def state_dict(ms) -> dict[str, list[str]]:
    return {"started": sorted(ms.started_line_ids), "executed": sorted(ms.executed_line_ids),
            "failed": sorted(ms.failed_line_ids)}


def run_with_edits(pcode: str, edits: list[tuple[int, list]], total: int, horizon: int | None = None,
                   injects: list | None = None, requests: list | None = None):
    """Returns dict with per-edit info and the final marks / exec counts.
    `requests`: [[tick, "cancel" | "force", selector]] -- a user's cancel / force of a run-log item (as the frontend
    does it: by the item's instance id); selector = the item's name, or a number in [0,1) picking among the items
    that are cancellable / forcible at that tick."""
    from harness.engine_run import EngineRun
    run = EngineRun(pcode)
    info = []
    req_info = []
    injects = sorted([list(x) for x in (injects or [])], key=lambda x: x[0])
    requests = sorted([list(x) for x in (requests or [])], key=lambda x: x[0])

    def do_request(kind: str, sel):
        items = [i for i in run.engine.tracking.get_runlog().items
                 if (i.cancellable if kind == "cancel" else i.forcible)]
        if isinstance(sel, str):
            items = [i for i in items if i.name == sel]
            item = items[0] if items else None
        else:
            item = items[int(sel * len(items))] if items else None
        if item is None:
            return
        mm = run.engine.method_manager
        before = state_dict(mm.get_method_state())
        # lines whose flags are legitimately cleared again: an Alarm re-arms, a macro body is reset by the next call
        rep = ("AlarmNode", "MacroNode")
        resettable = sorted(n.id for n in run.engine.interpreter._program.get_all_nodes()
                            if type(n).__name__ in rep or any(type(q).__name__ in rep for q in n.parents))
        res = run.cancel(item.id) if kind == "cancel" else run.force(item.id)
        req_info.append({"kind": kind, "item": item.name, "res": res, "tick": t, "before": before, "resettable": resettable,
                         "after": state_dict(run.engine.method_manager.get_method_state()), "next": None,
                         "detached": bool(info and any(e["res"] == "ok" for e in info))})
    per_tick_marks: list[list[str]] = []
    try:
        snap = None
        t = 0

        def tick_to(limit: int):
            nonlocal snap, t
            while t < limit:
                while injects and injects[0][0] <= t:
                    run.inject(injects.pop(0)[1])
                while requests and requests[0][0] <= t:
                    _, kind, sel = requests.pop(0)
                    do_request(kind, sel)
                snap = run.tick()
                for r in req_info:
                    if r["next"] is None and r["tick"] == t:
                        r["next"] = state_dict(run.engine.method_manager.get_method_state())
                per_tick_marks.append(marks_of(snap))
                t += 1
        for (at, script) in sorted(edits, key=lambda e: e[0]):
            tick_to(at)
            while requests and requests[0][0] <= t:      # a request and an edit before the same tick: request first
                _, kind, sel = requests.pop(0)
                do_request(kind, sel)
            mm = run.engine.method_manager
            before = mm.get_method_state()
            cur = [(ln.id, ln.content) for ln in mm._method.lines]
            new = apply_edit_script(cur, script, keep_indent=True)
            old_map = dict(cur)
            new_map = dict(new)
            # what the interpreter has really started (the method manager's own view is detached after a first edit)
            prot = {n.id for n in run.engine.interpreter._program.get_all_nodes()
                    if (n.started or n.completed) and not n.failed}
            changed = sorted(i for i, c in new if i in prot and i in old_map and old_map[i] != c)
            deleted = sorted(i for i in old_map if i in prot and i not in new_map)
            active = active_at(run)
            marks_before = marks_of(snap) if snap else []
            rl_before = runlog_items(run)
            interp_before = run.engine.interpreter
            status_before = (str(run.snapshot()["raw_tags"].get("Method Status")), str(run.snapshot()["raw_tags"].get("System State")),
                             run.engine.has_error_state())
            m = run.Mdl.Method(lines=[run.Mdl.MethodLine(id=i, content=c) for i, c in new], version=0)
            res = run.edit(m)
            if res == "ok":
                for r in req_info:          # no "one tick after the request" across an accepted edit
                    if r["next"] is None:
                        r["next"] = False
            after = run.engine.method_manager.get_method_state()
            rl_after = runlog_items(run)
            status_after = (str(run.snapshot()["raw_tags"].get("Method Status")), str(run.snapshot()["raw_tags"].get("System State")),
                            run.engine.has_error_state())
            info.append({"status_before": status_before, "status_after": status_after, "at": at, "res": res,
                         "changed_started": changed, "deleted_started": deleted, "active": active, "new": new,
                         "before": state_dict(before), "after": state_dict(after),
                         "method_before": cur,
                         "method_after": [(ln.id, ln.content) for ln in run.engine.method_manager._method.lines],
                         "runlog_before": rl_before, "runlog_after": rl_after,
                         "same_interpreter": run.engine.interpreter is interp_before,
                         "marks_before": marks_before, "exec_before": len(run.exec_log)})
        # an accepted edit restarts the method (known finding): give the edited run as many ticks after its last
        # edit as the reference run gets in total, so that "a line is lost" is never a matter of the horizon
        last_edit = max([e[0] for e in edits], default=0)
        horizon = last_edit + total + 20 if horizon is None else horizon
        tick_to(horizon)
        accepted = [e for e in info if e["res"] == "ok"]
        return {"edits": info, "requests": req_info, "ticks": t, "marks": marks_of(snap), "per_tick_marks": per_tick_marks,
                "method_ends": run.method_ends,
                "exec": Counter(e[1] for e in run.exec_log if e[0] == "init"), "exec_log": list(run.exec_log),
                "raised": run.tick_errors, "status": snap["tags"].get("Method Status"),
                "sys": str(snap["raw_tags"].get("System State")),
                "final_state": state_dict(run.engine.method_manager.get_method_state()),
                "final_runlog": sorted(runlog_items(run).values()),
                "final_pcode": "\n".join(c for _, c in (accepted[-1]["new"] if accepted else []))}
    finally:
        run.close()


def oracle(case) -> list[Failure]:  # noqa: C901
    fails: list[Failure] = []
    total = case["total"]
    a = run_with_edits(case["pcode"], case["edits"], total, injects=case.get("injects"), requests=case.get("requests"))
    first = True
    accepted = [e for e in a["edits"] if e["res"] == "ok"]
    # (G) a cancel / force request takes nothing out of the reported method state: a line that had started stays
    #     reported as started or executed -- right after the request and after the next tick
    for r in a["requests"]:
        if r["res"] != "ok" or r["detached"]:
            continue
        was = r["before"]["started"] + r["before"]["executed"] + r["before"]["failed"]
        for when, st in (("right after", r["after"]), ("one tick after", r["next"])):
            if not st:
                continue
            now = st["started"] + st["executed"] + st["failed"]
            lost = [i for i in was if i not in now and (when == "right after" or i not in r["resettable"])]
            if lost:
                fails.append(Failure(f"method-state-lost-after-{r['kind']}", case,
                                     f"{r['kind']} of {r['item']!r} at tick {r['tick']}: lines {lost} were reported "
                                     f"before the request and are not reported {when}"))
                break
    for e in a["edits"]:
        sfx = "" if first else "-after-earlier-edit"
        if e["res"] == "ok":
            # (A) an edit that changes -- or removes -- a line that has started must be rejected
            if e["changed_started"]:
                fails.append(Failure("edit-of-started-line-accepted" + sfx, case,
                                     f"edit at tick {e['at']} changes started/executed line(s) {e['changed_started']} "
                                     f"and was accepted"))
            if e["deleted_started"]:
                fails.append(Failure("deleted-started-line-accepted" + sfx, case,
                                     f"edit at tick {e['at']} removes started/executed line(s) {e['deleted_started']} "
                                     f"and was accepted"))
            # (B) the reported method state contains everything it contained before
            kept = dict(e["new"])
            was = [i for k in ("started", "executed", "failed") for i in e["before"][k] if i in kept]
            now = e["after"]["started"] + e["after"]["executed"] + e["after"]["failed"]
            lost = [i for i in was if i not in now]
            if lost:
                shape = "emptied" if not now else "lost"
                fails.append(Failure(f"method-state-{shape}-after-edit" + sfx, case,
                                     f"edit at tick {e['at']}: lines {lost} were started/executed/failed before the edit "
                                     f"and are not reported afterwards (reported now: {now})"))
            # (E) the run log of the run survives the edit
            gone = [i for i in e["runlog_before"] if i not in e["runlog_after"]]
            if gone:
                shape = "emptied" if not e["runlog_after"] else "items-lost"
                fails.append(Failure(f"run-log-{shape}-after-edit" + sfx, case,
                                     f"edit at tick {e['at']}: {len(gone)} of {len(e['runlog_before'])} run log items are "
                                     f"gone after the edit, e.g. {e['runlog_before'][gone[0]]}"))
        else:
            # (F) a rejected edit changes nothing
            if e["status_before"] != e["status_after"]:
                fails.append(Failure("rejected-edit-changed-engine-state" + sfx, case,
                                     f"rejected edit at tick {e['at']}: (Method Status, System State, error) "
                                     f"{e['status_before']} -> {e['status_after']}"))
            if e["before"] != e["after"]:
                fails.append(Failure("rejected-edit-changed-method-state" + sfx, case,
                                     f"rejected edit at tick {e['at']}: method state {e['before']} -> {e['after']}"))
            if e["method_before"] != e["method_after"]:
                fails.append(Failure("rejected-edit-changed-method" + sfx, case,
                                     f"rejected edit at tick {e['at']}: the engine's method text changed"))
            if e["runlog_before"] != e["runlog_after"]:
                fails.append(Failure("rejected-edit-changed-run-log" + sfx, case,
                                     f"rejected edit at tick {e['at']}: run log before/after differ"))
            if not e["same_interpreter"]:
                fails.append(Failure("rejected-edit-replaced-interpreter" + sfx, case,
                                     f"rejected edit at tick {e['at']}: the engine runs a new interpreter"))
        if e["res"] == "ok":
            first = False
    premise = not any(e["changed_started"] or e["deleted_started"] for e in accepted)
    # (a cancelled / forced instruction makes the run differ from a plain run of the final method: no comparison)
    if accepted and premise and well_indented(a["final_pcode"]) and not any(r["res"] == "ok" for r in a["requests"]):
        # (C, D) compare with the final method loaded from the start
        from harness.engine_run import EngineRun
        ref = EngineRun(a["final_pcode"])
        try:
            snap = None
            for _ in range(total):
                snap = ref.tick()
            ref_marks = Counter(marks_of(snap))
            ref_exec = Counter(e[1] for e in ref.exec_log if e[0] == "init")
            ref_status = snap["tags"].get("Method Status")
        finally:
            ref.close()
        # (a run that was error-paused before the edit stays paused until the user unpauses: not comparable)
        if ref_status != "Error" and a["status"] != "Error" and a["sys"].endswith("Running") and \
                not any(e["status_before"][2] for e in a["edits"]):
            st_marks, st_cmds = stable_effects(a["final_pcode"])
            nth = "first-edit" if len(accepted) == 1 else "later-edit"
            act = min((e["active"] for e in accepted), key=ACTIVE_PRIORITY.index)
            got_m, got_x = Counter(a["marks"]), a["exec"]
            for kind, names, got, want in (("mark", st_marks, got_m, ref_marks), ("uod-command", st_cmds, got_x, ref_exec)):
                more = {m: (got[m], want[m]) for m in sorted(names) if got[m] > want[m]}
                less = {m: (got[m], want[m]) for m in sorted(names) if got[m] < want[m]}
                if more:
                    # the restart re-runs a completed line once per accepted edit at most
                    # (not judged while a nested Watch/Alarm was registered: there the restarted enclosing handler
                    #  and the re-registered nested one both run the nested body -- part of that recorded finding)
                    often = act != "nested-interrupt" and any(g - w > len(accepted) for g, w in more.values())
                    fails.append(Failure(f"edit-reexecutes-started-line:{kind}:{nth}:{act}" +
                                         (":more-than-once-per-edit" if often else ""), case,
                                         f"{kind}s that took effect more often than in a run of the final method from "
                                         f"the start (got, reference): {more}"))
                if less:
                    fails.append(Failure(f"edit-loses-line:{kind}:{nth}:{act}", case,
                                         f"{kind}s missing compared with a run of the final method from the start "
                                         f"(got, reference): {less}"))
    if not accepted and a["edits"]:
        # rejected edits must not affect the run: the same run without them, tick for tick
        b = run_with_edits(case["pcode"], [], total, horizon=a["ticks"], injects=case.get("injects"),
                           requests=case.get("requests"))
        if b["per_tick_marks"] != a["per_tick_marks"] or b["exec_log"] != a["exec_log"]:
            fails.append(Failure("rejected-edit-affected-run", case,
                                 f"marks with rejected edit {a['marks']} vs without {b['marks']}; "
                                 f"command calls {len(a['exec_log'])} vs {len(b['exec_log'])}"))
        if b["final_state"] != a["final_state"]:
            fails.append(Failure("rejected-edit-affected-method-state", case,
                                 f"final method state with rejected edit {a['final_state']} vs without {b['final_state']}"))
        if b["final_runlog"] != a["final_runlog"]:
            fails.append(Failure("rejected-edit-affected-run-log", case,
                                 f"final run log with rejected edit {a['final_runlog']} vs without {b['final_runlog']}"))
    return fails


def template_cases() -> list[dict]:
    """Hand-made shapes: a not-started line above executed lines; a failed line above; a run halted in error;
    every line changed / deleted in turn; a second edit after an accepted one; an edit while injected code runs."""
    out = []
    shapes = ["Watch: T0 > 5\n    Mark: w\nMark: a\nMark: b\nWait: 2s\nMark: c",
              "Macro: M\n    Mark: m\nMark: a\nMark: b\nWait: 2s\nMark: c",
              "Mark: a\nFrobnicate\nMark: b",
              "Mark: a\nMark: b\nCmdNum: lots\nMark: c",
              "Block: B\n    Mark: a\n    Wait: 2s\n    End block\nMark: z",
              "Mark: a\nCmdB\nWait: 2s\nMark: b\nCmdA"]
    for sh in shapes:
        n = len(sh.splitlines())
        for at in (8, 12, 16):
            for k in range(n):
                out.append({"pcode": sh, "edits": [[at, [["change", (k + 0.5) / n, "Mark: edited"]]]], "total": 60})
                if at == 12:
                    out.append({"pcode": sh, "edits": [[at, [["delete", (k + 0.5) / n]]]], "total": 60})
            out.append({"pcode": sh, "edits": [[at, [["append", "Mark: appended"]]]], "total": 60})
        # a change of nothing but the white space of a line (deeper indentation, trailing blank) is a change
        for k, ln in enumerate(sh.splitlines()):
            for text in ("    " + ln.strip(), ln.strip() + " "):
                out.append({"pcode": sh, "edits": [[12, [["change", (k + 0.5) / n, text]]]], "total": 60})
        # a second edit (append / change of every line) after an accepted or a rejected first one
        for first in ([["append", "Mark: one"]], [["change", 0.01, "Mark: nope"]]):
            out.append({"pcode": sh, "edits": [[10, first], [24, [["append", "Mark: two"]]]], "total": 60})
            for k in range(n):
                out.append({"pcode": sh, "edits": [[10, first], [24, [["change", (k + 0.5) / (n + 1), "Mark: edited"]]]],
                            "total": 60})
        # edits while injected code is running
        for sn in ("Mark: i1", "Wait: 1s\nMark: i1"):
            for gap in (0, 1, 4):
                out.append({"pcode": sh, "injects": [[8, sn]], "edits": [[8 + gap, [["append", "Mark: appended"]]]],
                            "total": 60})
                out.append({"pcode": sh, "injects": [[8, sn]], "edits": [[8 + gap, [["change", 0.01, "Mark: nope"]]]],
                            "total": 60})
    # a user's cancel / force of a Watch, Alarm, UOD command or Wait item, then an edit that changes / removes / leaves
    # alone exactly that line (a started line stays a started line when it is cancelled)
    req_shapes = [("Mark: a\nWatch: T0 > 5\n    Mark: w\nWait: 3s\nMark: b", "Watch: T0 > 5", 1, ("cancel", "force"), "Watch: T0 > 6"),
                  ("Mark: a\nAlarm: T0 > 5\n    Mark: w\nWait: 3s\nMark: b", "Alarm: T0 > 5", 1, ("cancel", "force"), "Alarm: T0 > 6"),
                  ("Mark: a\nCmdC\nWait: 3s\nMark: b", "CmdC", 1, ("cancel", "force"), "CmdA"),
                  ("Mark: a\nWait: 3s\nMark: b", "Wait: 3s", 1, ("force",), "Wait: 4s")]
    for sh, item, k, kinds, other in req_shapes:
        n = len(sh.splitlines())
        for kind in kinds:
            for at in (6, 9):
                for gap in (0, 1, 5):
                    for script in ([["change", (k + 0.5) / n, other]], [["delete", (k + 0.5) / n]], [["append", "Mark: z"]]):
                        out.append({"pcode": sh, "requests": [[at, kind, item]], "edits": [[at + gap, script]], "total": 60})
    return out


WITNESS = {"pcode": "Mark: a\nWait: 1s\nMark: b", "edits": [(8, [["append", "Mark: c"]])], "total": 60}
SNIPPETS = ["Mark: i1", "Wait: 1s\nMark: i1", "Wait: 0.5s", "Mark: i1\nWait: 2s\nMark: i2"]


def gen_oracle_cases(ctx: Check, n: int) -> list[dict]:
    rng = ctx.rng
    out = [WITNESS] + [k["witness"] for k in ctx.known if k.get("witness")] + template_cases()
    for _ in range(n):
        pcode, _ = gen_program(rng, features={"mark", "wait", "cmd", "block", "watch", "alarm", "thr", "macro"}, max_lines=8, max_depth=2)
        n_edits = rng.choice([1, 1, 1, 2, 2, 3])
        edits = sorted((rng.randrange(2, 40), gen_edit_script(rng)) for _ in range(n_edits))
        c = {"pcode": pcode, "edits": [list(e) for e in edits], "total": 140}
        if rng.random() < 0.25:
            # neutral snippets only (marks with names of their own, waits): the comparison is about the method's lines
            at = max(1, edits[0][0] - rng.randrange(0, 6))
            c["injects"] = [[at, rng.choice(SNIPPETS)]]
        if rng.random() < 0.3:
            # a user's cancel / force of whatever run-log item allows it, some ticks before the first edit
            c["requests"] = [[max(1, edits[0][0] - rng.randrange(0, 10)), rng.choice(["cancel", "force"]), rng.random()]
                             for _ in range(rng.choice([1, 1, 2]))]
        out.append(c)
    return out


def macro_stream_cases() -> list[dict]:
    """Directed cases for the macro half of `_validate_liveedit_method`: a macro that has been called (once / twice /
    is being executed) and an edit that touches its body without touching a started line (a line inserted into or
    appended to the body, a not yet started body line changed or deleted), and the same edits before the first call."""
    out = []
    pcode = "Macro: M1\n    Mark: a\n    Wait: 0.5s\n    Mark: b\nMark: c\nCall macro: M1\nMark: d\nCall macro: M1\nMark: e"
    tick = lambda i: ["tick", 1, str(Fraction(i + 1, 8)), str(Fraction(i + 1, 8)), [0, 0, 0]]   # noqa: E731
    scripts = [[["insert", 0.2, "Mark: x"]], [["insert", 0.35, "Mark: x"]], [["insert", 0.45, "CmdA"]],
               [["change", 0.35, "Mark: y"]], [["delete", 0.35]], [["append", "Mark: z"]], [["change", 0.05, "Macro: M2"]]]
    for at in (2, 6, 9, 12, 16, 22, 30):
        for sc in scripts:
            ops = [tick(i) for i in range(at)] + [["edit", sc]] + [tick(at + i) for i in range(12)]
            out.append({"pcode": pcode, "ops": ops, "keep_indent": True})
    # a Watch (node 2 of 6, line 1 of 5) cancelled / forced through tracking, then changed, deleted or left alone
    pcode = "Mark: a\nWatch: T0 > 5\n    Mark: w\nWait: 3s\nMark: b"
    for kind in ("cancel", "force"):
        for at in (4, 7):
            for gap in (0, 2):
                for sc in ([["change", 0.3, "Watch: T0 > 6"]], [["delete", 0.3]], [["append", "Mark: z"]]):
                    ops = [tick(i) for i in range(at)] + [[kind, 0.4]] + [tick(at + i) for i in range(gap)] + \
                          [["edit", sc]] + [tick(at + gap + i) for i in range(10)]
                    out.append({"pcode": pcode, "ops": ops, "keep_indent": True})
    return out


def run(ctx: Check) -> int:
    ctx.prove(MODULE, REQUIRED)
    ctx.rule = ("Edit stream: generated methods x schedules x 1-3 edit scripts (append/change/insert/delete lines, half of "
                "them keeping the indentation of the place they touch so that bodies of Block/Watch/Alarm/Macro are "
                "edited too, at random ticks, incl. edits of started lines) x optional injected snippet, real "
                "MethodManager vs OPM.Model.Merge; non-trivial = an interrupt or block was active. Oracle on the real "
                "engine (templates: every line changed / re-indented / deleted at three ticks, second edits, edits while "
                "injected code runs; generated: 1-3 edits, 25% with an injected snippet): accept/reject rule incl. "
                "deleted lines, reported method state and run log before/after every edit, a rejected edit leaves "
                "engine state, method state, method text, run log and interpreter alone and the run equals the run "
                "without it tick for tick; an accepted run vs a run of the final method from the start (per-line Mark "
                "counts and UOD command init counts of lines outside Alarm/Macro bodies).")
    rng = ctx.rng
    extra = []
    for _ in range(ctx.n(120, 2500)):
        pcode, stats = gen_program(rng, max_lines=10)
        ops = gen_schedule(rng, rng.randrange(10, 40))
        for _ in range(rng.choice([1, 1, 2, 3])):
            ops.insert(rng.randrange(1, len(ops)), ["edit", gen_edit_script(rng)])
        if rng.random() < 0.4:
            ops.insert(rng.randrange(1, len(ops)), ["inject", gen_snippet(rng)])
        extra.append({"pcode": pcode, "ops": ops, "keep_indent": rng.random() < 0.5})
    extra += macro_stream_cases()
    _, impl_out, _, op_lines = m3_stream(ctx, "merge-m4", 0, extra_cases=extra, with_lines=True)
    for o, ls in zip(impl_out, op_lines):
        for x, ln in zip(o, ls):
            if ln == "edit":
                ctx.count("edit:" + x)
    cases = gen_oracle_cases(ctx, ctx.n(100, 600))
    for c in cases:
        ctx.count("oracle:edits=%d" % len(c["edits"]))
        if c.get("injects"):
            ctx.count("oracle:with-injected-code")
        if c.get("requests"):
            ctx.count("oracle:with-cancel-or-force-before-edit")
    ctx.monitor(cases, oracle, impl_timeout=120)
    return ctx.finish(search=lambda c: c.monitor(gen_oracle_cases(c, c.n(100, 600)), oracle, impl_timeout=120))


def replay(obj) -> int:
    """Re-runs the oracle on the case of a replay file; exit 1 iff a failure that is not a recorded finding shows."""
    from vp.core import load_known
    c = obj.get("case", {})
    if "edits" in c:
        known = {k["key"] for k in load_known("C01")}
        fs = oracle(c)
        print(c)
        for f in fs:
            print("oracle:" if f.key not in known else "oracle (recorded finding):", f.key, f.detail)
        return 1 if any(f.key not in known for f in fs) else 0
    print(obj)
    return 0
