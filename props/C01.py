"""C01 Live method edits never re-run or lose run progress.

The unchanged code violates the property (see findings.d/C01.json): the state transplant of a live
edit is empty, so every accepted edit restarts the method, and the method manager's own program is
replaced by a state-less copy.  The Lean model (OPM.Model.Merge) models the code as it is; the
correspondence check ties it to MethodManager on generated (program, schedule, edit script) cases.
"""
from __future__ import annotations

from collections import Counter

from harness.gen_pcode import gen_edit_script, gen_program, gen_schedule, gen_snippet
from harness.interp_corr import m3_stream
from harness.interp_run import apply_edit_script
from vp.core import Check, Failure

META = dict(
    level_text="Lean 4 theorems over the as-is merge model: a rejected edit changes nothing; an edit that changes a "
               "started/executed line is rejected while the method manager still sees the running program; the full "
               "statement (completed work survives an accepted edit) is refuted by a kernel-evaluated witness "
               "(C01_counterexample: 'Mark: a / Wait: 1s / Mark: b', append 'Mark: c' at tick 5 ⇒ marks 'a; a'), and "
               "the as-is behaviour is characterised exactly (merge_discards_progress, merge_detaches_manager_view). "
               "Model tied to MethodManager.merge_method/set_method + PInterpreter by differential execution with "
               "edit scripts (append / change / insert / delete) at random ticks; the witness is replayed on the real "
               "engine on every run.",
    level_note="Known finding: the code does not satisfy C01 (every accepted live edit restarts the method; reported "
               "method state is empty after an edit; a second edit is not validated). Proved clauses are the "
               "_partial ones. Trusted: Lean kernel, harness, line identity by id.",
    technique="Lean 4 proof (as-is model: partial theorems + decided counterexample) + differential correspondence + engine oracle",
)
MODULE = "OPM.Properties.C01"
REQUIRED = ["OPM.C01.C01_partial_rejected_edit_changes_nothing", "OPM.C01.C01_partial_started_line_edit_rejected",
            "OPM.C01.C01_counterexample", "OPM.C01.merge_discards_progress", "OPM.C01.C01_witness",
            "OPM.C01.C01_witness_nested_interrupt"]


def marks_of(snap) -> list[str]:
    v = snap["tags"].get("Mark")
    return [x for x in str(v or "").split("; ") if x]


def run_with_edits(pcode: str, edits: list[tuple[int, list]], total: int, horizon: int | None = None):
    """Returns dict with per-edit info and the final marks / exec counts."""
    from harness.engine_run import EngineRun
    run = EngineRun(pcode)
    info = []
    try:
        snap = None
        t = 0
        for (at, script) in sorted(edits, key=lambda e: e[0]):
            while t < at:
                snap = run.tick()
                t += 1
            mm = run.engine.method_manager
            before = mm.get_method_state()
            cur = [(ln.id, ln.content) for ln in mm._method.lines]
            new = apply_edit_script(cur, script)
            old_map = dict(cur)
            # what the interpreter has really started (the method manager's own view is detached after a first edit)
            prot = {n.id for n in run.engine.interpreter._program.get_all_nodes()
                    if (n.started or n.completed) and not n.failed}
            touches_started = any(i in prot and i in old_map and old_map[i] != c for i, c in new)
            # a Watch/Alarm inside a Watch/Alarm body whose interrupt is registered at the time of the edit
            # (separate known finding: the restarted enclosing handler then waits inside the nested one)
            nested_reg = any(getattr(n, "interrupt_registered", False) and
                             any(type(q).__name__ in ("WatchNode", "AlarmNode") for q in n.parents)
                             for n in run.engine.interpreter._program.get_all_nodes()
                             if type(n).__name__ in ("WatchNode", "AlarmNode"))
            # a Block/Watch/Alarm/Macro scope is active at the time of the edit (Scope Time tag's stack beyond the root)
            scope_tag = run.engine.tags["Scope Time"]
            in_scope = len(getattr(scope_tag, "_stack", [])) > 1
            marks_before = marks_of(snap) if snap else []
            status_before = (str(run.snapshot()["raw_tags"].get("Method Status")), str(run.snapshot()["raw_tags"].get("System State")),
                             run.engine.has_error_state())
            m = run.Mdl.Method(lines=[run.Mdl.MethodLine(id=i, content=c) for i, c in new], version=0)
            res = run.edit(m)
            after = run.engine.method_manager.get_method_state()
            status_after = (str(run.snapshot()["raw_tags"].get("Method Status")), str(run.snapshot()["raw_tags"].get("System State")),
                            run.engine.has_error_state())
            info.append({"status_before": status_before, "status_after": status_after,"at": at, "res": res, "touches_started": touches_started, "nested_reg": nested_reg, "in_scope": in_scope, "new": new,
                         "before": {"started": list(before.started_line_ids), "executed": list(before.executed_line_ids),
                                    "failed": list(before.failed_line_ids)},
                         "after": {"started": list(after.started_line_ids), "executed": list(after.executed_line_ids),
                                   "failed": list(after.failed_line_ids)},
                         "marks_before": marks_before, "exec_before": len(run.exec_log)})
        # an accepted edit restarts the method (known finding): give the edited run as many ticks after its last
        # edit as the reference run gets in total, so that "a line is lost" is never a matter of the horizon
        last_edit = max([e[0] for e in edits], default=0)
        horizon = last_edit + total + 20 if horizon is None else horizon
        while t < horizon:
            snap = run.tick()
            t += 1
        return {"edits": info, "ticks": t, "marks": marks_of(snap), "method_ends": run.method_ends, "exec": Counter(e[1] for e in run.exec_log if e[0] == "init"),
                "raised": run.tick_errors, "status": snap["tags"].get("Method Status"),
                "sys": str(snap["raw_tags"].get("System State")),
                "final_pcode": "\n".join(c for _, c in (info[-1]["new"] if info and info[-1]["res"] == "ok" else []))}
    finally:
        run.close()


def oracle(case) -> list[Failure]:
    fails: list[Failure] = []
    total = case["total"]
    a = run_with_edits(case["pcode"], case["edits"], total)
    first = True
    accepted_any = False
    for e in a["edits"]:
        sfx = "" if first else "-after-earlier-edit"
        if e["touches_started"] and e["res"] == "ok":
            fails.append(Failure("edit-of-started-line-accepted" + sfx, case,
                                 f"edit at tick {e['at']} changes a started/executed line and was accepted"))
        if e["res"] != "ok" and e["status_before"] != e["status_after"]:
            fails.append(Failure("rejected-edit-changed-engine-state" + sfx, case,
                                 f"rejected edit at tick {e['at']}: (Method Status, System State, error) "
                                 f"{e['status_before']} -> {e['status_after']}"))
        if e["res"] == "ok":
            accepted_any = True
            lost = [i for k in ("started", "executed", "failed") for i in e["before"][k]
                    if i in dict(e["new"]) and i not in e["after"]["started"] + e["after"]["executed"] + e["after"]["failed"]]
            if lost:
                fails.append(Failure("method-state-lost-after-edit" + sfx, case,
                                     f"edit at tick {e['at']}: lines {lost} were started/executed/failed before the edit "
                                     f"and are not reported afterwards"))
        first = False
    if accepted_any and not any(e["touches_started"] and e["res"] == "ok" for e in a["edits"]):
        # compare with the final method loaded from the start
        from harness.engine_run import EngineRun
        ref = EngineRun(a["final_pcode"])
        try:
            snap = None
            for _ in range(total):
                snap = ref.tick()
            ref_marks = Counter(marks_of(snap))
            ref_exec = Counter(e[1] for e in ref.exec_log if e[0] == "init")
            ref_status = snap["tags"].get("Method Status")
        finally:
            ref.close()
        # (a run that was error-paused before the edit stays paused until the user unpauses: not comparable)
        if ref_status != "Error" and a["status"] != "Error" and a["sys"].endswith("Running") and \
                not any(e["status_before"][2] for e in a["edits"]):
            got = Counter(a["marks"])
            more = {m: (got[m], ref_marks[m]) for m in got if got[m] > ref_marks[m]}
            less = {m: (got[m], ref_marks[m]) for m in ref_marks if got[m] < ref_marks[m]}
            if more:
                fails.append(Failure("edit-reexecutes-started-line", case,
                                     f"marks set more often than in a run of the final method from the start: {more}"))
            elif less:
                sub = ":nested-interrupt-registered-at-edit" if any(
                    e["nested_reg"] and e["res"] == "ok" for e in a["edits"]) else \
                    ":edit-inside-active-scope" if any(e["in_scope"] and e["res"] == "ok" for e in a["edits"]) else ""
                fails.append(Failure("edit-loses-line" + sub, case,
                                     f"marks missing compared with a run of the final method from the start: {less}"))
    if not accepted_any and a["edits"] and all(e["res"] != "ok" for e in a["edits"]):
        # rejected edits must not affect the run
        b = run_with_edits(case["pcode"], [], total, horizon=a["ticks"])   # same number of ticks
        if b["marks"] != a["marks"] or b["exec"] != a["exec"]:
            fails.append(Failure("rejected-edit-affected-run", case,
                                 f"marks with rejected edit {a['marks']} vs without {b['marks']}"))
    return fails


def template_cases() -> list[dict]:
    """Hand-made shapes: a not-started line above executed lines; a failed line above; a run halted in error."""
    out = []
    shapes = ["Watch: T0 > 5\n    Mark: w\nMark: a\nMark: b\nWait: 2s\nMark: c",
              "Macro: M\n    Mark: m\nMark: a\nMark: b\nWait: 2s\nMark: c",
              "Mark: a\nFrobnicate\nMark: b",
              "Mark: a\nMark: b\nCmdNum: lots\nMark: c",
              "Block: B\n    Mark: a\n    Wait: 2s\n    End block\nMark: z"]
    for sh in shapes:
        n = len(sh.splitlines())
        for at in (8, 12, 16):
            for k in range(n):
                out.append({"pcode": sh, "edits": [[at, [["change", (k + 0.5) / n, "Mark: edited"]]]], "total": 60})
            out.append({"pcode": sh, "edits": [[at, [["append", "Mark: appended"]]]], "total": 60})
    return out


WITNESS = {"pcode": "Mark: a\nWait: 1s\nMark: b", "edits": [(8, [["append", "Mark: c"]])], "total": 60}


def gen_oracle_cases(ctx: Check, n: int) -> list[dict]:
    rng = ctx.rng
    out = [WITNESS] + [k["witness"] for k in ctx.known if k.get("witness")] + template_cases()
    for _ in range(n):
        pcode, _ = gen_program(rng, features={"mark", "wait", "cmd", "block", "watch", "thr", "macro"}, max_lines=8, max_depth=2)
        n_edits = rng.choice([1, 1, 1, 2])
        edits = sorted((rng.randrange(2, 40), gen_edit_script(rng)) for _ in range(n_edits))
        out.append({"pcode": pcode, "edits": [list(e) for e in edits], "total": 140})
    return out


def run(ctx: Check) -> int:
    ctx.prove(MODULE, REQUIRED)
    ctx.rule = ("Edit stream: generated methods x schedules x 1-2 edit scripts (append/change/insert/delete lines, at "
                "random ticks, incl. edits of started lines) x optional injected snippet, real MethodManager vs "
                "OPM.Model.Merge; non-trivial = an interrupt or block was active. Oracle: the edited run on the real "
                "engine vs a run of the final method from the start (mark counts, command init counts), method state "
                "before/after, rejection of edits that touch started lines.")
    rng = ctx.rng
    extra = []
    for _ in range(ctx.n(120, 2500)):
        pcode, stats = gen_program(rng, max_lines=10)
        ops = gen_schedule(rng, rng.randrange(10, 40))
        for _ in range(rng.choice([1, 1, 2])):
            ops.insert(rng.randrange(1, len(ops)), ["edit", gen_edit_script(rng)])
        if rng.random() < 0.4:
            ops.insert(rng.randrange(1, len(ops)), ["inject", gen_snippet(rng)])
        extra.append({"pcode": pcode, "ops": ops})
    _, impl_out, _ = m3_stream(ctx, "merge-m4", 0, extra_cases=extra)
    for o in impl_out:
        for x in o:
            if x in ("merged", "set", "rejected"):
                ctx.count("edit:" + x)
    ctx.monitor(gen_oracle_cases(ctx, ctx.n(40, 600)), oracle, impl_timeout=120)
    return ctx.finish(search=lambda c: c.monitor(gen_oracle_cases(c, c.n(100, 600)), oracle, impl_timeout=120))


def replay(obj) -> int:
    c = obj.get("case", {})
    if "edits" in c:
        fs = oracle(c)
        print(c["pcode"], c["edits"])
        for f in fs:
            print("oracle:", f.key, f.detail)
        return 1 if fs else 0
    print(obj)
    return 0
