"""C05 Blocks nest and end correctly; Block tag names the active block.

Proof half: OPM.Properties.C05 — chain invariant of the locked blocks over every reachable state of
the interpreter model (all programs, all schedules), End block / End blocks step theorems, a block
completes only after it was ended.
Tie half: correspondence of the real PInterpreter with OPM.Model.Interp on generated block-heavy
programs and schedules.  Oracle: the property stated over the real Engine's node flags and Block tag.
"""
from __future__ import annotations

from harness.interp_corr import m3_stream
from vp.core import Check, Failure

META = dict(
    level_text="Lean 4 theorems over the interpreter model (frame-stack machine of pinterpreter.py): in every reachable "
               "state, for every method and every schedule of ticks / cancel / force / command completions, the locked "
               "method blocks form one nested chain (invariant proved for every micro-step of every generator); End "
               "block ends exactly the first locked block, sets the Block tag to the next outer one and unregisters "
               "exactly the interrupts rooted inside it; End blocks ends all and clears the tag; a Block completes only "
               "in a step that found it ended. The model is tied to the real PInterpreter by differential execution "
               "of generated programs (per-tick node flags, Block/Mark tags, interrupt map, events).",
    level_note="Trusted: Lean kernel, the correspondence harness, the model's inputs (clock tags, condition tags, command "
               "completion are supplied by the harness). 'Innermost' is defined by get_locked_blocks' key-path sort, which "
               "the model reproduces; the Block *tag* clause is checked by the oracle on the real engine, not proved "
               "(it is false for methods that re-arm an Alarm around a live Watch that holds a block: recorded). "
               "Injected blocks are outside the chain theorem (they are invisible to get_locked_blocks).",
    technique="Lean 4 proof (inductive invariant over micro-steps + step theorems) + differential correspondence + engine oracle",
)
MODULE = "OPM.Properties.C05"
REQUIRED = ["OPM.C05.active_blocks_form_chain", "OPM.C05.chain_stepGen", "OPM.C05.chain_tick",
            "OPM.C05.endBlock_ends_innermost", "OPM.C05.endBlocks_ends_all",
            "OPM.C05.block_completes_only_when_ended", "OPM.C05.acquire_step"]
FEATURES = {"mark", "block", "watch", "alarm", "wait", "cmd", "thr", "blank"}


def oracle_case(pcode: str, n_ticks: int, tags_plan: list) -> Failure | None:
    """The property over the real engine: chain, Block tag, successor-after-end."""
    from harness.engine_run import EngineRun
    run = EngineRun(pcode)
    try:
        prev = None
        for t in range(n_ticks):
            for name, v in tags_plan[t] if t < len(tags_plan) else []:
                run.set_tag(name, v)
            snap = run.tick()
            nodes = {n["id"]: n for n in snap["nodes"]}

            def ancestors(n):
                out = []
                while n["parent"] is not None:
                    n = nodes[n["parent"]]
                    out.append(n["id"])
                return out
            active = [n for n in snap["nodes"] if n["cls"] == "BlockNode" and n["lock"] and not n["ended"]]
            locked = [n for n in snap["nodes"] if n["cls"] == "BlockNode" and n["lock"]]
            for a in locked:
                for b in locked:
                    if a["id"] != b["id"] and a["id"] not in ancestors(b) and b["id"] not in ancestors(a):
                        return Failure("active-blocks-not-a-chain", {"pcode": pcode, "tick": t},
                                       f"blocks {a['arg']} and {b['arg']} are both active but not nested")
            tag = snap["tags"].get("Block")
            inner = max(active, key=lambda n: len(ancestors(n)), default=None)
            want = inner["arg"] if inner is not None else None
            if (tag or None) != (want or None) and snap["tags"].get("System State") == "Running" \
                    and snap["tags"].get("Method Status") != "Error":
                return Failure("block-tag-not-innermost-active", {"pcode": pcode, "tick": t},
                               f"Block tag {tag!r}, innermost active block {want!r}")
            # a sibling after a block starts only after the block ended
            for n in snap["nodes"]:
                if n["cls"] == "BlockNode" and n["parent"] is not None:
                    sibs = [m for m in snap["nodes"] if m["parent"] == n["parent"]]
                    i = [m["id"] for m in sibs].index(n["id"])
                    for m in sibs[i + 1:]:
                        if m["started"] and not (n["ended"] or n["completed"] or not n["started"]):
                            # n not started can happen when the whole scope was reset (Alarm/Macro re-run)
                            return Failure("successor-starts-before-block-ended", {"pcode": pcode, "tick": t},
                                           f"line {m['line']} started while block {n['arg']} has not ended")
            # 'End block' ends exactly the innermost active block (ticks with a single End block completing)
            if prev is not None:
                pn = {n["id"]: n for n in prev["nodes"]}
                done_now = [n for n in snap["nodes"] if n["cls"] in ("EndBlockNode", "EndBlocksNode")
                            and n["completed"] and n["id"] in pn and not pn[n["id"]]["completed"]]
                newly_ended = [n for n in snap["nodes"] if n["cls"] == "BlockNode" and n["ended"]
                               and n["id"] in pn and not pn[n["id"]]["ended"]]
                if len(done_now) == 1 and done_now[0]["cls"] == "EndBlockNode":
                    p_active = [n for n in prev["nodes"] if n["cls"] == "BlockNode" and n["lock"] and not n["ended"]]
                    p_inner = max(p_active, key=lambda n: len(ancestors(nodes[n["id"]])), default=None)
                    fresh = [n for n in newly_ended if not pn[n["id"]]["lock"]]
                    if len(newly_ended) > 1:
                        return Failure("end-block-ended-several", {"pcode": pcode, "tick": t},
                                       f"one End block ended {[n['arg'] for n in newly_ended]}")
                    if len(newly_ended) == 1 and not fresh and p_inner is not None \
                            and newly_ended[0]["id"] != p_inner["id"]:
                        return Failure("end-block-not-innermost", {"pcode": pcode, "tick": t},
                                       f"End block ended {newly_ended[0]['arg']!r}, innermost active was {p_inner['arg']!r}")
            prev = snap
        return None
    finally:
        run.close()


TEMPLATES = [
    # a Watch/Alarm inside Outer whose body opens a block, firing while the main flow is inside Inner
    "Block: Outer\n    Watch: T0 > 0\n        Block: W\n            Mark: w\n            End block\n    Block: Inner\n        Wait: 1s\n        Mark: i\n        End block\n    Mark: o\n    End block\nMark: z",
    "Block: Outer\n    Alarm: T0 > 0\n        Block: W\n            Mark: w\n            End block\n    Block: Inner\n        Wait: 1s\n        End block\n    Wait: 0.5s\n    End block\nMark: z",
    # three levels, End block at the innermost
    "Block: A\n    Block: B\n        Block: C\n            Mark: c\n            End block\n        Mark: b\n        End block\n    Mark: a\n    End block\nMark: z",
    # End blocks from the innermost of three, and from a watch
    "Block: A\n    Block: B\n        Block: C\n            Mark: c\n            End blocks\n        Mark: b\n    Mark: a\nMark: z",
    "Block: A\n    Watch: T0 > 0\n        End block\n    Block: B\n        Wait: 1s\n        End block\n    Wait: 1s\n    End block\nMark: z",
    "Watch: T0 > 0\n    Block: W\n        Mark: w\n        End block\nBlock: A\n    Wait: 1s\n    End block\nMark: z",
]


def template_cases() -> list[dict]:
    out = []
    for t in TEMPLATES:
        for k in range(0, 22, 1):
            plan = [[] for _ in range(45)]
            plan[k] = [("T0", 1)]
            out.append({"pcode": t, "ticks": 45, "plan": plan})
    return out


def gen_oracle_cases(ctx: Check, n: int):
    from harness.gen_pcode import gen_program
    rng = ctx.rng
    out = template_cases()
    for _ in range(n):
        # no Alarm-around-Watch nests here: see level_note
        pcode, _ = gen_program(rng, features={"mark", "block", "watch", "wait", "cmd", "thr"}, max_lines=12)
        plan = [[(f"T{rng.randrange(3)}", rng.randrange(4))] if rng.random() < 0.3 else [] for _ in range(40)]
        out.append({"pcode": pcode, "ticks": 40, "plan": plan})
    return out


def run(ctx: Check) -> int:
    ctx.prove(MODULE, REQUIRED)
    ctx.rule = ("M3 stream: grammar-generated methods (blocks, End block(s), watches, alarms, waits, thresholds, UOD "
                "commands; depth<=3, <=14 lines) x schedules of 12-45 ticks with random clocks/condition tags and "
                "interleaved complete/cancel/force requests; non-trivial = some interrupt registered or block entered. "
                "Oracle stream: block-heavy methods run on the real Engine, 40 ticks each.")
    m3_stream(ctx, "interp-m3", ctx.n(150, 3000), features=FEATURES)
    cases = gen_oracle_cases(ctx, ctx.n(40, 800))
    ctx.monitor(cases, lambda c: oracle_case(c["pcode"], c["ticks"], c["plan"]), impl_timeout=60)
    ctx.assumptions = ["clock tags, condition tags and command completion are inputs of the model",
                       "method blocks only (injected blocks are not seen by get_locked_blocks)"]
    return ctx.finish(search=lambda c: c.monitor(gen_oracle_cases(c, c.n(150, 1500)),
                                                 lambda x: oracle_case(x["pcode"], x["ticks"], x["plan"]), impl_timeout=60))


def replay(obj) -> int:
    c = obj.get("case", {})
    if "pcode" in c:
        f = oracle_case(c["pcode"], c.get("ticks", 40) if isinstance(c.get("ticks"), int) else 40, c.get("plan", []))
        print(c["pcode"])
        print("oracle:", f)
        return 1 if f else 0
    print(obj)
    return 0
