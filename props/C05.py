"""C05 Blocks nest and end correctly; Block tag names the active block.

Proof half: OPM.Properties.C05 — chain invariant of the locked blocks over every reachable state of the
interpreter model (all programs, all schedules); the key-path sort of get_locked_blocks() puts the deepest
block first (well-formed trees); Block-tag invariant for calm runs + counterexamples to the full clause;
End block ends exactly the innermost active block when the first locked block is still active +
counterexample to the full clause; End blocks ends all; a completed Block is an ended Block over every
schedule.
Tie half: correspondence of the real PInterpreter with OPM.Model.Interp on generated block-heavy programs and
schedules (per-tick node flags, Block tag, interrupt map, events), plus a block stream that compares the real
get_locked_blocks() order, the active chain by tree depth and the tag clause with the model's `lockedBlocks`,
`activeBlocks`, `TagOk` and the tree's well-formedness with `ProgWF`.
Oracle: the property text stated over the real Engine's node flags, Block tag and interrupt table.
"""
from __future__ import annotations

from fractions import Fraction

from harness.interp_corr import m3_stream
from vp.core import Check, Failure, drive, load_corpus

META = dict(
    level_text="Lean 4 theorems over the interpreter model (frame-stack machine of pinterpreter.py). (1) In every "
               "reachable state, for every method and every schedule of ticks / cancel / force / command completions, "
               "the locked (hence the active) method blocks form one nested chain (inductive invariant over every "
               "micro-step of every generator). (2) For a well-formed method tree (decidable ProgWF: parent index < "
               "child index, parent key path a proper prefix of the child's; evaluated on every parsed method) the "
               "key-path string sort of get_locked_blocks() lists the blocks deepest first, so its head is the innermost "
               "block. (3) Block tag: the clause at full strength (tag = name of the innermost active = locked and not "
               "ended block, empty when none, in every reachable state) is stated as C05_tag_full and REFUTED by "
               "kernel-evaluated witnesses; it is proved for every state reached by calm ticks - ticks in which no "
               "micro-step is one of four named exotic steps (decidable along the run: a reset of a lock-holding node by "
               "an Alarm re-arm / macro call, End block while the enclosing locked block is already ended, a Block "
               "revisited completed+locked, a Block acquiring while ended) - and every non-exotic micro-step of every "
               "generator keeps it. (4) End block: the clause at full strength (ends the innermost active block) is "
               "C05_endblock_full, REFUTED by a witness (the first locked block may be ended already); when the first "
               "locked block is still active End block ends exactly the innermost active block, leaves every other "
               "flag, unregisters exactly the interrupts rooted inside it, moves no lock and the tag names the next "
               "active block. End blocks ends every locked block, un-ends none, clears the tag. (5) A Block's visit "
               "returns only through a step that leaves it completed, `completed` of a Block is set only by a step that "
               "found it ended, and over every schedule a completed Block is an ended Block. The model is tied to the "
               "real PInterpreter by differential execution (per-tick node flags, Block/Mark tags, interrupt map, "
               "events; real get_locked_blocks() order, active chain by depth, tag clause, tree well-formedness).",
    level_note="PARTIAL where stated. The Block-tag clause and the End-block clause are false of the code as it is "
               "(findings.d/C05.json, each witness replayed on the real engine every run): the theorems carry explicit "
               "decidable hypotheses (calm ticks; first locked block active) and the full statements are refuted in "
               "Lean. The 'calm' hypothesis is dynamic (a test along the run), not a static class of methods; a run "
               "census reports how many generated runs are calm. 'Instructions after a block start only after the "
               "block ended' is proved as: visit returns only completed + completed only when ended (steps) + completed "
               "Block is ended (all schedules); that the parent's loop enters the next line only after the previous "
               "visit returned is C02's stack discipline, the composed statement is checked by the oracle (blocks not "
               "under an Alarm: the Alarm re-arm resets flags while old handlers keep running). 'Together with its "
               "pending Watches and Alarms' is proved as the state change of End block (exactly the interrupts rooted "
               "in the block leave the table); that an unregistered handler can still run in the ending tick and "
               "register itself again is a recorded finding. Injected blocks and live edits are outside the theorems "
               "(invisible to get_locked_blocks). Trusted: Lean kernel, the correspondence harness, the model's inputs "
               "(clock tags, condition tags, command completion).",
    technique="Lean 4 proof (inductive invariants over micro-steps, classification of every micro-step's effect on "
              "tag/locks/ended flags, insertion-sort order lemma, as-is counterexamples by kernel evaluation) + "
              "differential correspondence + engine oracle",
)
MODULE = "OPM.Properties.C05"
REQUIRED = ["OPM.C05.active_blocks_form_chain", "OPM.C05.active_chain", "OPM.C05.chain_stepGen", "OPM.C05.chain_tick",
            "OPM.C05.locked_blocks_deepest_first", "OPM.C05.get_locked_blocks_assertions_hold",
            "OPM.C05.active_head_is_innermost",
            "OPM.C05.C05_tag_counterexample", "OPM.C05.C05_tag_witness_alarm_rearm",
            "OPM.C05.C05_tag_witness_end_block_names_ended", "OPM.C05.tagOk_stepGen", "OPM.C05.C05_tag_partial",
            "OPM.C05.tag_after_calm_run",
            "OPM.C05.C05_endblock_counterexample", "OPM.C05.C05_endblock_witness", "OPM.C05.C05_endblock_partial",
            "OPM.C05.C05_interrupts_counterexample", "OPM.C05.C05_interrupts_witness",
            "OPM.C05.endBlock_without_block", "OPM.C05.endBlocks_ends_all",
            "OPM.C05.block_completes_only_when_ended", "OPM.C05.block_visit_returns_completed",
            "OPM.C05.completed_block_is_ended", "OPM.C05.acquire_step", "OPM.C05.acquire_blocked"]
FEATURES = {"mark", "block", "watch", "alarm", "wait", "cmd", "thr", "blank"}
# "endany": End block(s) also in Watch / Alarm / Macro bodies that are not lexically inside a block
ORACLE_FEATURES = {"mark", "block", "watch", "alarm", "macro", "wait", "cmd", "thr", "endany"}


# ----------------------------------------------------------------------------------------
# property oracle over the real Engine

def oracle_case(pcode: str, n_ticks: int, tags_plan: list, injects: dict | None = None) -> list[Failure]:
    """The property text over the real engine, tick by tick.  Returns the failures of the first tick that has
    any (what follows a violation is not judged).  `injects`: {tick: snippet} injected before that tick."""
    from harness.engine_run import EngineRun
    run = EngineRun(pcode)
    fails: list[Failure] = []

    def fail(key, t, detail):
        case = {"pcode": pcode, "ticks": n_ticks, "plan": tags_plan, "tick": t}
        if injects:
            case["inject"] = injects
        fails.append(Failure(key, case, detail))
    try:
        from openpectus.lang.exec.events import EventListener
        started_names: list[str] = []

        class _L(EventListener):
            def on_block_start(self, block_info):
                started_names.append(block_info.name)
        run.engine.emitter.add_listener(_L())
        prev = None
        prev_handlers: dict = {}
        keep = []           # keeps every Interrupt object alive so that id() stays unique
        entered: dict = {}  # block id -> it held the lock / announced its start in the current invocation
        ended_at: dict = {}  # block id -> (tick it ended, {call node id: [macro node ids]} in progress inside it)
        for t in range(n_ticks):
            for name, v in tags_plan[t] if t < len(tags_plan) else []:
                run.set_tag(name, v)
            if injects and str(t) in injects:
                run.inject(injects[str(t)])
            del started_names[:]
            snap = run.tick()
            handlers = {}
            for it in run.engine.interpreter.interrupts:
                keep.append(it)
                handlers[it.node.id] = id(it)
            nodes = {n["id"]: n for n in snap["nodes"]}
            anc: dict = {}
            for nid, n in nodes.items():
                out, m = [], n
                while m["parent"] is not None:
                    m = nodes[m["parent"]]
                    out.append(m["id"])
                anc[nid] = out
            blocks = [n for n in snap["nodes"] if n["cls"] == "BlockNode"]
            active = [n for n in blocks if n["lock"] and not n["ended"]]
            pn = {n["id"]: n for n in prev["nodes"]} if prev is not None else {}
            common = prev is not None and set(pn) == set(nodes)
            # (1) active blocks form one nested chain
            for a in active:
                for b in active:
                    if a["id"] < b["id"] and a["id"] not in anc[b["id"]] and b["id"] not in anc[a["id"]]:
                        fail("active-blocks-not-a-chain", t,
                             f"blocks {a['arg']} and {b['arg']} are both active but not nested")
            rearmed = [n for n in snap["nodes"] if n["cls"] == "AlarmNode" and common
                       and (n["run_count"] or 0) > (pn[n["id"]]["run_count"] or 0)]
            done_now = [n for n in snap["nodes"] if n["cls"] in ("EndBlockNode", "EndBlocksNode") and common
                        and n["completed"] and not pn[n["id"]]["completed"]]
            # (2) the Block tag names the innermost active block, empty when none
            tag = snap["tags"].get("Block")
            inner = max(active, key=lambda n: len(anc[n["id"]]), default=None)
            want = inner["arg"] if inner is not None else None
            if (tag or None) != (want or None) and snap["tags"].get("System State") == "Running" \
                    and snap["tags"].get("Method Status") != "Error":
                site = ""
                named = [b for b in blocks if b["arg"] == tag]
                if any(not b["lock"] and not b["ended"] and not b["completed"]
                       and any(a["id"] in anc[b["id"]] for a in rearmed) for b in named):
                    site = ":block-reset-by-alarm-rearm"
                elif any(d["cls"] == "EndBlockNode" for d in done_now) and any(b["ended"] for b in named):
                    site = ":end-block-names-ended-block"
                fail("block-tag-not-innermost-active" + site, t,
                     f"Block tag {tag!r}, innermost active block {want!r}")
            # (3) a line after a block starts only after the block has ended (blocks under an Alarm or in a Macro are
            #     not judged: the re-arm / the next call resets the flags while handlers registered by the previous
            #     run keep running)
            for n in blocks:
                if n["parent"] is None or not n["started"] or n["ended"]:
                    continue
                if any(nodes[a]["cls"] in ("AlarmNode", "MacroNode") for a in anc[n["id"]]):
                    continue
                sibs = [m for m in snap["nodes"] if m["parent"] == n["parent"]]
                i = [m["id"] for m in sibs].index(n["id"])
                for m in sibs[i + 1:]:
                    if m["started"]:
                        fail("successor-starts-before-block-ended", t,
                             f"line {m['line']} started while block {n['arg']} (line {n['line']}) has not ended")
            if common:
                p_active = [n for n in prev["nodes"] if n["cls"] == "BlockNode" and n["lock"] and not n["ended"]]
                p_inner = max(p_active, key=lambda n: len(anc[n["id"]]), default=None)
                newly_ended = [n for n in blocks if n["ended"] and not pn[n["id"]]["ended"]]
                acquired = [n for n in blocks if (n["lock"] or n["ended"]) and not pn[n["id"]]["lock"]
                            and not pn[n["id"]]["ended"]]
                # the active set at the moment the one End block(s) ran is the one of the previous snapshot
                quiet = not acquired and not rearmed and len(done_now) == 1
                # (4) End block ends exactly the innermost active block
                if quiet and done_now[0]["cls"] == "EndBlockNode":
                    got = [n["arg"] for n in newly_ended]
                    if len(newly_ended) > 1:
                        fail("end-block-ended-several", t, f"one End block ended {got}")
                    elif p_inner is not None and [n["id"] for n in newly_ended] != [p_inner["id"]]:
                        deeper_ended = [b for b in prev["nodes"] if b["cls"] == "BlockNode" and b["lock"] and b["ended"]
                                        and p_inner["id"] in anc[b["id"]]]
                        if not newly_ended and deeper_ended:
                            fail("end-block-not-innermost:innermost-locked-already-ended", t,
                                 f"End block ended nothing, innermost active was {p_inner['arg']!r} "
                                 f"(ended block {deeper_ended[0]['arg']!r} still held the lock)")
                        else:
                            fail("end-block-not-innermost", t,
                                 f"End block ended {got}, innermost active was {p_inner['arg']!r}")
                    elif p_inner is None and newly_ended:
                        fail("end-block-not-innermost", t, f"End block ended {got}, no block was active")
                # (5) End blocks ends all active blocks
                if quiet and done_now[0]["cls"] == "EndBlocksNode":
                    left = [b["arg"] for b in p_active if not nodes[b["id"]]["ended"]]
                    if left:
                        fail("end-blocks-left-active", t, f"End blocks left {left} not ended")
                # (6) …together with its pending Watches and Alarms: an interrupt that was registered before the
                #     tick in which a block around it ended is not registered after that tick
                regs_prev = set(prev["interrupts"])
                for wid in snap["interrupts"]:
                    if wid not in regs_prev or wid not in nodes:
                        continue
                    for bid in anc[wid]:
                        b = nodes[bid]
                        if b["cls"] == "BlockNode" and b["ended"] and not pn[bid]["ended"]:
                            w = nodes[wid]
                            site = ""
                            if handlers.get(wid) != prev_handlers.get(wid):
                                site = ":reregistered-in-ending-tick"
                            fail("interrupt-survives-end-block" + site, t,
                                 f"{w['name']} line {w['line']} is still registered after block {b['arg']!r} "
                                 f"around it ended")
            # (7) a Block whose visit is over (completed: the line after it may start) was active in that invocation
            #     (flags are reset by an Alarm re-arm / a repeated Call macro: judged per invocation)
            for b in blocks:
                bid = b["id"]
                if common and ((pn[bid]["completed"] and not b["completed"]) or (pn[bid]["started"] and not b["started"])):
                    entered[bid] = False
                if b["lock"] or b["arg"] in started_names:
                    entered[bid] = True
                if common and b["completed"] and not pn[bid]["completed"] and not entered.get(bid, False):
                    fail("block-completed-without-being-active", t,
                         f"block {b['arg']!r} (line {b['line']}) completed, so the lines after it may run, but it "
                         f"never held the lock nor announced its start in this invocation")
            # (8) after a block ended no instruction inside it starts any more - neither a line of the block nor a
            #     line of a macro body that a Call macro of the block was executing
            if common:
                for bid in list(ended_at):
                    if not nodes[bid]["ended"]:
                        del ended_at[bid]      # reset by an Alarm re-arm / a new macro call
                for bid, (te, calls) in ended_at.items():
                    b = nodes[bid]
                    inside = {nid for nid in nodes if bid in anc[nid]}
                    for cid, mids in calls.items():
                        c = nodes[cid]
                        if c["completed"] or not c["started"]:
                            continue
                        others = [o for o in snap["nodes"] if o["cls"] == "CallMacroNode" and o["id"] != cid
                                  and o["arg"] == c["arg"] and o["started"] and not o["completed"]]
                        if others:
                            continue
                        for mid in mids:
                            inside |= {nid for nid in nodes if mid in anc[nid]}
                    for nid in inside:
                        d = nodes[nid]
                        if d["cls"] in ("WatchNode", "AlarmNode"):
                            continue       # their flag is set by their own handler's wrapper, not by running a line
                        if d["started"] and not pn[nid]["started"]:
                            fail("line-starts-inside-ended-block", t,
                                 f"{d['name']} line {d['line']} started at tick {t}, block {b['arg']!r} around it "
                                 f"ended at tick {te}")
                for b in blocks:
                    if b["ended"] and not pn[b["id"]]["ended"]:
                        calls = {}
                        for c in snap["nodes"]:
                            if c["cls"] == "CallMacroNode" and b["id"] in anc[c["id"]] and c["started"] \
                                    and not c["completed"]:
                                calls[c["id"]] = [m["id"] for m in snap["nodes"]
                                                  if m["cls"] == "MacroNode" and m["arg"] == c["arg"]]
                        ended_at[b["id"]] = (t, calls)
            if fails:
                break
            prev = snap
            prev_handlers = handlers
        seen, out = set(), []
        for f in fails:
            if f.key not in seen:
                seen.add(f.key)
                out.append(f)
        return out
    finally:
        run.close()


TEMPLATES = [
    # a Watch/Alarm inside Outer whose body opens a block, firing while the main flow is inside Inner
    "Block: Outer\n    Watch: T0 > 0\n        Block: W\n            Mark: w\n            End block\n    Block: Inner\n        Wait: 1s\n        Mark: i\n        End block\n    Mark: o\n    End block\nMark: z",
    "Block: Outer\n    Alarm: T0 > 0\n        Block: W\n            Mark: w\n            End block\n    Block: Inner\n        Wait: 1s\n        End block\n    Wait: 0.5s\n    End block\nMark: z",
    # three levels, End block at the innermost
    "Block: A\n    Block: B\n        Block: C\n            Mark: c\n            End block\n        Mark: b\n        End block\n    Mark: a\n    End block\nMark: z",
    # End blocks from the innermost of three, and from a watch
    "Block: A\n    Block: B\n        Block: C\n            Mark: c\n            End blocks\n        Mark: b\n    Mark: a\nMark: z",
    "Block: A\n    Watch: T0 > 0\n        End block\n    Block: B\n        Wait: 1s\n        End block\n    Wait: 1s\n    End block\nMark: z",
    "Watch: T0 > 0\n    Block: W\n        Mark: w\n        End block\nBlock: A\n    Wait: 1s\n    End block\nMark: z",
    # Alarm shapes: an Alarm around a Watch that holds a block (the re-arm resets the block), an Alarm inside a
    # block that is ended from a Watch, an Alarm whose body is a block
    "Alarm: T0 > 0\n    Watch: T0 > 0\n        Block: W\n            Wait: 2s\n            End block\n    Mark: a",
    "Block: A\n    Alarm: T0 > 0\n        Mark: m\n    Watch: T0 > 0\n        Wait: 0.5s\n        End block\n    Wait: 3s\n    End block\nMark: z",
    "Alarm: T0 > 0\n    Block: W\n        Mark: w\n        Wait: 0.5s\n        End block\n    Mark: a\nBlock: A\n    Wait: 2s\n    End block\nMark: z",
    # End block from a top-level Watch around the tick of End blocks; two Watches ending the same block
    "Watch: T0 > 0\n    End block\nBlock: A\n    Block: B\n        Wait: 1s\n        End blocks\n    Mark: a\nMark: z\nWait: 1s\nMark: y",
    "Block: A\n    Watch: T0 > 0\n        End block\n    Watch: T0 > 0\n        Wait: 0.25s\n        End block\n    Block: B\n        Wait: 2s\n        End block\n    Mark: a\n    Wait: 2s\n    End block\nMark: z",
    # End blocks / End block issued from a place that is NOT lexically inside the active blocks: a root-level Watch,
    # a root-level Alarm, a Macro defined at root and called inside the blocks
    "Watch: T0 > 0\n    End blocks\nBlock: A\n    Block: B\n        Wait: 2s\n        Mark: b\n    Mark: a\nMark: z",
    "Alarm: T0 > 0\n    End blocks\n    Wait: 3s\nBlock: A\n    Block: B\n        Wait: 2s\n        Mark: b\n    Mark: a\nMark: z",
    "Macro: Leave\n    Mark: m\n    End blocks\nBlock: A\n    Block: B\n        Mark: b1\n        Call macro: Leave\n        Mark: b2\n    Mark: a\nMark: z",
    "Macro: Leave\n    End block\nBlock: A\n    Block: B\n        Mark: b1\n        Call macro: Leave\n        Mark: b2\n    Mark: a\n    Call macro: Leave\n    Mark: a2\nMark: z",
    "Watch: T0 > 0\n    End block\n    Wait: 0.5s\n    End block\nBlock: A\n    Block: B\n        Wait: 2s\n        Mark: b\n    Wait: 2s\n    Mark: a\nMark: z",
    # a Block in a body that runs again: a macro called twice (and again from a block), an Alarm that fires again
    "Macro: M\n    Block: X\n        Mark: x\n        End block\n    Mark: m\nCall macro: M\nCall macro: M\nMark: done",
    "Macro: M\n    Block: X\n        Mark: x\n        End block\n    Mark: m\nWatch: T0 > 0\n    Call macro: M\n    Call macro: M\nWait: 4s\nMark: done",
    "Alarm: T0 > 0\n    Block: A\n        Mark: a\n        End block\n    Mark: b\nWait: 4s\nMark: z",
    # a Block started from a Watch that calls a macro; End block (from a Watch inside the block) hits while the macro
    # body is running
    "Macro: M\n    Mark: m1\n    Mark: m2\n    Mark: m3\n    Mark: m4\n    Mark: m5\n    Mark: m6\n    Mark: m7\n    Mark: m8\nWatch: T0 > 0\n    Block: B\n        Watch: T0 > 0\n            End block\n        Mark: b1\n        Call macro: M\n        Mark: b2\n    Mark: after\nMark: main",
    "Macro: M\n    Mark: m1\n    Wait: 0.5s\n    Mark: m2\n    Mark: m3\n    Mark: m4\nAlarm: T0 > 0\n    Block: B\n        Watch: T0 > 0\n            Wait: 0.25s\n            End block\n        Call macro: M\n        Mark: b2\n    Mark: after\n    Wait: 5s\nMark: main",
    # a Watch whose body opens a block, next to a Watch that ends the enclosing block in the same tick
    "Block: B\n    Watch: T0 > 0\n        End block\n    Watch: T0 > 0\n        Block: N\n            Mark: n\n            End block\n    Wait: 3s\n    End block\nMark: z\nBlock: C\n    Mark: c\n    End block\nMark: y",
]


# End blocks / End block injected while the main flow is inside nested blocks
INJECT_TEMPLATE = "Block: A\n    Block: B\n        Wait: 3s\n        Mark: b\n    Mark: a\nMark: z"


def template_cases() -> list[dict]:
    out = []
    for t in TEMPLATES:
        for k in range(0, 22, 1):
            plan = [[] for _ in range(45)]
            plan[k] = [("T0", 1)]
            out.append({"pcode": t, "ticks": 45, "plan": plan})
    for snippet in ("End blocks", "End block"):
        for k in range(8, 20, 2):
            out.append({"pcode": INJECT_TEMPLATE, "ticks": 45, "plan": [], "inject": {str(k): snippet}})
    return out


def gen_oracle_cases(ctx: Check, n: int, fixed: bool = True):
    from harness.gen_pcode import gen_program
    rng = ctx.rng
    out = []
    if fixed:
        out += [k["witness"] for k in ctx.known if k.get("witness")]
        out += [c for c in load_corpus("C05") if "plan" in c]
        out += template_cases()
    for _ in range(n):
        pcode, _ = gen_program(rng, features=ORACLE_FEATURES, max_lines=12)
        plan = [[(f"T{rng.randrange(3)}", rng.randrange(4))] if rng.random() < 0.3 else [] for _ in range(40)]
        out.append({"pcode": pcode, "ticks": 40, "plan": plan})
    return out


def _oracle(c):
    return oracle_case(c["pcode"], c.get("ticks", 40), [[tuple(x) for x in t] for t in c.get("plan", [])],
                       c.get("inject"))


# ----------------------------------------------------------------------------------------
# block stream: real get_locked_blocks() / active chain by depth / tag clause / tree shape vs the model

def _py_wf(h) -> str:
    for k, n in enumerate(h.nodes):
        if h._is_injected(n):
            return "0"
        if n.parent is not None:
            q = h.idx[n.parent.id]
            a, b = n.parent.key_path, n.key_path
            if not (q < k and b.startswith(a) and len(a) < len(b)):
                return "0"
    return "1"


def _py_blk(h) -> str:
    import openpectus.lang.model.ast as p
    try:
        locked = ",".join(str(h.idx[b.id]) for b in h.interp._program.get_locked_blocks())
    except AssertionError:
        locked = "assert"
    act = [(k, n) for k, n in enumerate(h.nodes) if isinstance(n, p.BlockNode) and n.lock_acquired
           and not n.block_ended and not h._is_injected(n)]
    act.sort(key=lambda kn: (-len(kn[1].parents), kn[0]))
    tag = h.tags[h.SystemTagName.BLOCK].get_value()
    want = act[0][1].name if act else ""
    ok = (tag or "") == (want or "")
    return f"tagok={int(ok)}|locked={locked}|active={','.join(str(k) for k, _ in act)}"


def _blocks_run(c: dict, tick_op: str = "tick", query: str = "blk") -> tuple[list[str], list[str]]:
    from harness.interp import Harness
    h = Harness(c["pcode"])
    lines = h.node_lines() + h.content_lines()
    outs = ["ok"] * len(lines)
    lines.append("wf")
    outs.append(_py_wf(h))
    for op in c["ops"]:
        _, dt, scope, block, tags = op
        ln = h.op_line_tick(dt, Fraction(scope), Fraction(block), tags)
        lines.append(tick_op + ln[len("tick"):])
        outs.append(h.tick(dt, Fraction(scope), Fraction(block), tags))
        lines.append(query)
        outs.append(_py_blk(h))
    return lines, outs


def _plan_ops(plan: list, n: int) -> list:
    """Engine-style tag plan -> interpreter-level tick ops (dt = 1/8 s, clocks = elapsed time)."""
    tags = [0, 0, 0]
    ops = []
    for t in range(n):
        for name, v in plan[t] if t < len(plan) else []:
            tags[int(name[1])] = v
        ops.append(["tick", 1, str(Fraction(t + 1, 8)), str(Fraction(t + 1, 8)), list(tags)])
    return ops


def blocks_stream(ctx: Check, n: int):
    from harness.gen_pcode import gen_program, gen_schedule
    rng = ctx.rng
    cases = []
    for w in [k["witness"] for k in ctx.known if k.get("witness")] + [c for c in load_corpus("C05") if "plan" in c]:
        cases.append({"pcode": w["pcode"], "ops": _plan_ops(w["plan"], w.get("ticks", 40))})
    for t in TEMPLATES:
        for k in (9, 12, 15):
            plan = [[] for _ in range(45)]
            plan[k] = [("T0", 1)]
            cases.append({"pcode": t, "ops": _plan_ops(plan, 45)})
    for _ in range(n):
        pcode, _ = gen_program(rng, features=ORACLE_FEATURES, max_lines=12)
        cases.append({"pcode": pcode, "ops": gen_schedule(rng, rng.randrange(15, 45), with_requests=False)})
    cache: dict[int, tuple[list[str], list[str]]] = {}

    def both(c):
        if id(c) not in cache:
            cache[id(c)] = _blocks_run(c)
        return cache[id(c)]

    def nontrivial(c, out):
        return any("|active=" in o and not o.endswith("|active=") for o in out)
    impl_out, model_out = ctx.correspond("c05-blocks", "Interp", cases, lambda c: both(c)[0], lambda c: both(c)[1],
                                         nontrivial=nontrivial, impl_timeout=60)
    # the real tree is well-formed (the hypothesis of the 'innermost' theorems) on every parsed method
    for c, o in zip(cases, impl_out):
        wf = next((x for x in o if x in ("0", "1")), None)
        if wf != "1":
            ctx.fail(Failure("method-tree-not-well-formed", {"pcode": c["pcode"]},
                             "a node's key_path is not its parent's key_path plus a suffix, or a parent is numbered "
                             "after its child"))
        for x in o:
            if x.startswith("tagok="):
                ctx.count("blk:ticks")
                if "," in x.split("|active=")[1]:
                    ctx.count("blk:ticks_with_nested_active_blocks")
                if x.startswith("tagok=0"):
                    ctx.count("blk:ticks_tag_wrong")
    # discrimination: a model that lists the active blocks outermost first must be told apart
    if model_out:
        ctx.selftest("c05-blocks", "Interp", cases,
                     lambda c: [("blkm" if ln == "blk" else ln) for ln in both(c)[0]], model_out)
    return [(c, both(c)[0]) for c in cases]


def calm_census(ctx: Check, cases_lines: list) -> None:
    """Model only: how many of the runs are calm (the hypothesis of C05_tag_partial), and the theorem's instance
    on them (tag right at every tick of a calm prefix)."""
    cases = [c for c, _ in cases_lines]
    lines = [[("ctick" + ln[4:]) if ln.startswith("tick\t") else ln for ln in ls] for _, ls in cases_lines]
    outs = drive("Interp", lines)
    calm_runs = 0
    for c, o in zip(cases, outs):
        calm = True
        for i, x in enumerate(o):
            if x.startswith("calm="):
                calm = calm and x.startswith("calm=1")
                nxt = o[i + 1] if i + 1 < len(o) else ""
                if calm and nxt.startswith("tagok=0"):
                    ctx.proof_broken.append("model run contradicts C05_tag_partial: calm prefix with a wrong tag "
                                            f"({c['pcode']!r})")
        calm_runs += calm
    ctx.extra["calm_census"] = {"runs": len(cases), "calm_runs": calm_runs}
    ctx.count("census:runs", len(cases))
    ctx.count("census:calm_runs", calm_runs)


def run(ctx: Check) -> int:
    ctx.prove(MODULE, REQUIRED)
    ctx.rule = ("M3 stream: grammar-generated methods (blocks, End block(s), watches, alarms, waits, thresholds, UOD "
                "commands; depth<=3, <=14 lines) x schedules of 12-45 ticks with random clocks/condition tags and "
                "interleaved complete/cancel/force requests; non-trivial = some interrupt registered or block entered. "
                "Block stream: recorded witnesses, hand templates (Watch/Alarm opening or ending blocks around the main "
                "flow) and generated block-heavy methods incl. Alarms x tick schedules; per tick the real "
                "get_locked_blocks() order, the active chain by tree depth and the tag clause against the model; "
                "non-trivial = some block active. Oracle stream: witnesses, templates x firing tick 0..21, generated "
                "methods incl. Alarms on the real Engine, 40-45 ticks each.")
    m3_stream(ctx, "interp-m3", ctx.n(150, 3000), features=FEATURES)
    bcases = blocks_stream(ctx, ctx.n(40, 1200))
    calm_census(ctx, bcases[:ctx.n(40, 400)])
    ctx.monitor(gen_oracle_cases(ctx, ctx.n(60, 1500)), _oracle, impl_timeout=60)
    ctx.assumptions = ["clock tags, condition tags and command completion are inputs of the model",
                       "method blocks only (injected blocks are not seen by get_locked_blocks); no live edit",
                       "Block-tag theorem: calm ticks only (no exotic micro-step); End-block theorem: first locked "
                       "block not ended"]
    return ctx.finish(search=lambda c: c.monitor(gen_oracle_cases(c, c.n(300, 3000), fixed=False), _oracle,
                                                 impl_timeout=60))


def replay(obj) -> int:
    c = obj.get("case", {})
    if "pcode" in c and "plan" in c:
        fs = _oracle(c)
        print(c["pcode"])
        for f in fs:
            print("oracle:", f.key, "-", f.detail, "- tick", f.case.get("tick"))
        if not fs:
            print("oracle: no failure")
        return 1 if fs else 0
    if "pcode" in c and "ops" in c:
        from harness.interp_run import run_case
        lines, outs = run_case(c) if any(op[0] != "tick" for op in c["ops"]) else _blocks_run(c)
        mo = drive("Interp", [lines])[0]
        bad = [i for i in range(max(len(outs), len(mo))) if i >= len(outs) or i >= len(mo) or outs[i] != mo[i]]
        print(c["pcode"])
        print("first differing line:", bad[0] if bad else None)
        if bad:
            i = bad[0]
            print(" impl :", outs[i] if i < len(outs) else "<none>")
            print(" model:", mo[i] if i < len(mo) else "<none>")
        return 1 if bad else 0
    print(obj)
    return 0
