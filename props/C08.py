"""C08 Outputs with a safe value are safe whenever no run is progressing.

Proof half: OPM.Properties.C08 over model M1 + outputs (RunStateOut): the UOD-command half of the command manager
as far as "a running command writes value v to output r on every iteration", every request with its source (user
vs interpreter), merged with the internal commands in one executing list; safe state / restore / write gating
from M1; every `write_batch` logged with the engine's started/paused flags.
Tie half: real Engine + real interpreter + real CommandManager with a recording hardware layer (every write_batch
with its values) vs the model after every operation: control-command schedules x methods with output-writing
UOD commands of 1-9 ticks, user-sourced UOD commands, error pauses.
Oracle: the write log of the implementation replayed per register against the two clauses of the property.
"""
from __future__ import annotations

import json

from vp.core import Check, Failure, drive, load_corpus

META = dict(
    level_text="Lean 4 theorems over model M1 + outputs, for ALL sequences of user control commands, user-sourced "
               "and method-issued output-writing UOD commands (any value, any number of iterations), method-issued "
               "control commands (timed or not), interpreter errors and ticks, from engine start: (1) whenever no "
               "run is active - from engine start until the first run starts and after every Stop - the last "
               "value written to every output register that has a safe value is that safe value; (2) every "
               "write_batch the engine performs while no run is active carries the safe values (it is the one at "
               "engine start); (3) every write_batch performed while the engine is paused - by Pause, by a timed "
               "Pause, or by an error during the run - carries, for every register with a safe value, either the "
               "safe value or a value that a user-sourced command wrote since that pause began; hence after every "
               "tick that ends paused the hardware image is safe except where the user commanded an output during "
               "the pause. Model tied to the real Engine by differential execution with a recording hardware layer.",
    level_note="The theorems are about the repaired code (fixes/C08-safe-outputs-when-not-progressing.diff: engine "
               "start really writes the safe process image; interpreter-sourced UOD commands are not executed while "
               "paused; an error that pauses a running run applies the safe state like Pause). The code as it is "
               "violates C08 in three ways, each a Lean witness (asIs_*) replayed on the real engine every run and "
               "reported as VIOLATION until the diff is applied: nothing is written at engine start; a long-running "
               "method command keeps writing its value every tick while paused; an error pause leaves the outputs as "
               "they are. Not covered: the one tick between the two halves of Restart (no run active, last written "
               "values stay - not among the situations C08 lists; in the theorem: history flag restartGap = the run "
               "was ended by the first half of a Restart and no run has started since); injected errors while no run is active; UOD commands other than 'write v to r for n iterations' (overlap lists, "
               "init/finalize effects, failing exec functions are model M2); a user UOD command requested while no "
               "run is active that is still executing after the next Start (tracking raises; flagged `bad-op scope`, "
               "not generated). The exemption 'unless the user explicitly commands that output during the pause' is proved in "
               "the lenient form 'a user-sourced command wrote it during the pause' (C08_partial); read strictly (a "
               "user request ACCEPTED during the pause, C08_full) it is false of the code: a user command started "
               "before the Pause keeps running and holds its output at an unsafe value throughout the pause "
               "(C08_counterexample; recorded finding unsafe-output-while-paused:user-command-from-before-the-pause, "
               "reproduced on the real engine every run; the oracle uses the strict reading). "
               "The model follows /repo 90a68ba6 (Stop/Restart cancel all commands once more in their second "
               "phase, switch cancel2, probed). "
               "Recorded finding outside the model (findings.d/C08.json, reproduced on the real engine "
               "every run, not repaired): an output tag under 'Simulate' keeps its simulated value on the hardware "
               "while paused. Trusted: Lean kernel, harness, model (see C06).",
    technique="Lean 4 proof (refinement of the extended command loop to the guarded action system of M1 + write-log "
              "invariants; decide +kernel witnesses) + differential correspondence with a recording hardware layer "
              "+ independent write-log oracle",
)
MODULE = "OPM.Properties.C08"
REQUIRED = ["OPM.C08.safe_when_no_run", "OPM.C08.writes_safe", "OPM.C08.safe_after_paused_tick",
            "OPM.C08.C08_partial", "OPM.C08.C08_counterexample",
            "OPM.C08.asIs_no_write_at_engine_start", "OPM.C08.asIs_method_command_writes_while_paused",
            "OPM.C08.asIs_error_pause_keeps_outputs"]

T = ["tick", 8, 8, 0]
WITNESSES = [
    {"method": "Mark: a", "ops": [list(T)], "note": "nothing written at engine start"},
    {"method": "L0: 55,9\nMark: b", "ops": [["user", "Start"], T, T, T, T, ["user", "Pause"], T, T, T],
     "note": "method command keeps writing while paused"},
    {"method": "Mark: a", "ops": [["user", "Start"], T, ["user", "W0"], T, ["errapi"], T, T],
     "note": "error pause leaves outputs unsafe"},
]


SIMULATE_WITNESS = {"method": "Simulate: A = 5\nMark: b\nWait: 5s",
                    "ops": [["user", "Start"], T, T, T, T, ["user", "Pause"], T, T]}


def oracle(case: dict, recs: list[dict]) -> list[Failure]:
    """Replay of the hardware write log. `hw` = last value written per register (None before any write)."""
    from harness.runstate import SAFES, UCMDS
    out: list[Failure] = []
    safe = [(i, s) for i, s in enumerate(SAFES) if s is not None]

    def fail(key, i, msg):
        out.append(Failure(key, {"method": case.get("method", ""), "ops": case["ops"][:i]},
                           f"op {i} {recs[i]['op']}: {msg}"))

    hw = None
    ever_run = False
    any_restart = False         # a Restart was requested at some point of this case
    ended_by_stop = True        # how the last run ended (a Restart leaves the outputs as they are for one tick)
    error_seen = False          # an error was injected while no run was active (outside the property)
    touched: set[int] = set()   # registers for which a user request was accepted during the current pause
    running_user: set[int] = set()  # registers a user-sourced command from before the pause may still be writing
    recent_user: set[int] = set()   # registers of user UOD requests accepted (while not paused) since the last tick
    for i, r in enumerate(recs):
        op = r["op"]
        prev = recs[i - 1] if i else None
        if prev is not None and not prev["started"]:
            if op[0] == "errapi" or (op[0] == "tick" and len(op) > 3 and op[3]):
                error_seen = True
        if op[0] == "user" and r["res"] == "ok":
            if op[1] == "Restart":
                any_restart = True
            if op[1] in UCMDS:
                if r["started"] and r["paused"]:
                    touched.add(int(op[1][1]))       # the property's exemption: commanded during the pause
                else:
                    recent_user.add(int(op[1][1]))
        if op[0] == "tick":
            if any(x.startswith("m.restart") for x in r.get("items", [])):
                any_restart = True
            if prev is not None and prev["started"] and not r["started"]:
                # Stop writes the safe process image in its last tick; the first half of a Restart writes nothing
                ended_by_stop = (not any_restart) or len(r.get("writes", [])) > 0
            running_user |= recent_user
            recent_user = set()
            for name, is_user in list(r["uex"]) + (list(prev["uex"]) if prev is not None else []):
                if is_user:
                    running_user.add(int(name[1]))
        # clause 2 and the paused clause, per write_batch
        for vals, started, paused in r.get("writes", []):
            if not started:
                if any(vals[j] != s for j, s in safe) and not error_seen:
                    fail("unsafe-write-while-no-run-active", i, f"write_batch {vals}")
            elif paused and not error_seen:
                bad = [j for j, s in safe if vals[j] != s and j not in touched]
                if bad:
                    if all(r["simulated"][j] for j in bad):
                        key = "unsafe-output-while-paused-simulated-tag"
                    elif all(j in running_user for j in bad):
                        key = "unsafe-output-while-paused:user-command-from-before-the-pause"
                    elif r["method_error"]:
                        key = "unsafe-output-while-error-paused"
                    else:
                        key = "unsafe-output-while-paused"
                    fail(key, i, f"write_batch {vals} while paused; user-commanded registers {sorted(touched)}")
            hw = list(vals)
        if r["started"]:
            ever_run = True
        # clause 1 at the end of the operation
        if not r["started"] and not error_seen:
            if not ever_run:
                if hw is None:
                    fail("no-safe-write-before-first-run", i, "nothing has been written to the hardware")
                elif any(hw[j] != s for j, s in safe):
                    fail("unsafe-before-first-run", i, f"hardware image {hw}")
            elif r["state"] == "Stopped" and ended_by_stop and hw is not None and \
                    any(hw[j] != s for j, s in safe):
                fail("unsafe-after-stop", i, f"hardware image {hw}")
        if op[0] == "tick" and not (r["started"] and r["paused"]):
            touched = set()
            running_user = set()
    first: dict[str, Failure] = {}
    for f in out:
        first.setdefault(f.key, f)
    return list(first.values())


_ULINES = ["W0: 41,1", "W1: 42,1", "W2: 43,1", "L0: 51,3", "L0: 52,6", "L1: 53,4", "L1: 54,9", "L2: 55,5",
           "W0: 44,2", "L0: 56,2"]
_CLINES = ["Mark: a", "Wait: 0.25s", "Wait: 0.5s", "Pause", "Pause: 0.5s", "Pause: 1s", "Hold: 0.5s", "Hold",
           "Stop", "Restart", "Unpause"]


def gen_method8(rng) -> str:
    n = rng.randrange(1, 7)
    lines = []
    for _ in range(n):
        lines.append(rng.choice(_ULINES) if rng.random() < 0.55 else rng.choice(_CLINES))
    if rng.random() < 0.3:
        lines.insert(rng.randrange(0, len(lines) + 1), "Watch: Run Counter >= 0\n    " + rng.choice(_ULINES))
    return "\n".join(lines)


def gen_session8(rng, length: int, errors: bool = False, method: str | None = None) -> dict:
    """Adaptive session: control commands valid in the current state, user UOD commands, ticks."""
    from harness import runstate as R
    if method is None:
        method = gen_method8(rng)
    sim = R.Sim(method)
    ops: list[list] = []
    try:
        raw = sim.raw()
        force_tick = False
        for _ in range(length):
            r = rng.random()
            if force_tick or r < 0.45:
                op = ["tick", *rng.choice([(8, 8), (8, 8), (4, 4), (2, 2)]), 0]
                force_tick = False
            elif r < 0.7:
                names = [c for c in R.CMDS if R.valid_now(raw, c)]
                w = {"Pause": 5, "Unpause": 4, "Stop": 2, "Start": 5, "Restart": 1, "Hold": 1, "Unhold": 1}
                name = rng.choices(names, [w[n] for n in names])[0] if names and rng.random() < 0.9 \
                    else rng.choice(R.CMDS)
                op = ["user", name]
            elif r < 0.93:
                if raw["started"]:
                    name = rng.choice(R.UCMDS)
                else:
                    name = rng.choice([u for u in R.UCMDS if u[0] == "W"])
                    force_tick = True       # complete it before a Start can enable tracking
                op = ["user", name]
            elif errors and raw["started"]:
                op = ["errapi"]
            else:
                op = ["tick", 8, 8, 0]
            _, _, raw = sim.do(op, "c08")
            ops.append(op)
    finally:
        sim.close()
    return {"method": method, "ops": ops}


def gen_cases(ctx: Check) -> dict[str, list[dict]]:
    import itertools
    rng = ctx.rng
    streams: dict[str, list[dict]] = {}
    # exhaustive: schedules over control commands, a user command on a safe and on the non-safe register, tick
    alpha = [["user", c] for c in ("Start", "Stop", "Pause", "Unpause", "Restart")] + \
            [["user", "W0"], ["user", "L1"], list(T)]
    ex = []
    for method, prefix in [("L0: 55,9\nMark: b", [["user", "Start"], T, T, T]),
                           ("W1: 42,1\nPause: 0.5s\nL0: 52,6", [["user", "Start"], T, T]),
                           ("Mark: a", [])]:
        for k in range(0, (ctx.n(4, 5) if prefix and method.startswith("L0") else ctx.n(3, 4)) + 1):
            for seq in itertools.product(alpha, repeat=k):
                ops = [list(o) for o in prefix] + [list(o) for o in seq]
                # keep the documented scope: a user UOD command while no run is active is followed by a tick
                ex.append({"method": method, "ops": ops})
    streams["exhaustive"] = ex
    streams["sessions"] = [gen_session8(rng, rng.randrange(6, 41)) for _ in range(ctx.n(300, 8000))]
    streams["error-sessions"] = [gen_session8(rng, rng.randrange(6, 41), errors=True)
                                 for _ in range(ctx.n(120, 3000))]
    return streams


def in_scope(model_out: list[str]) -> bool:
    return not any(ln.startswith("bad-op scope") for ln in model_out)


def run(ctx: Check) -> int:
    from harness import runstate as R
    ctx.prove(MODULE, REQUIRED)
    pr = R.probe()
    cfg = dict(pr, start=True, gate=True, err=True)
    ctx.extra["tree_variant"] = pr
    runner = R.Runner("c08", cfg)
    corpus = [c for c in load_corpus("C08")] or WITNESSES
    streams = {"corpus": corpus}
    streams.update(gen_cases(ctx))
    # drop cases outside the documented scope of the model (decided by the model itself: `bad-op scope`)
    ex = streams["exhaustive"]
    scope_out = drive("RunStateOut", [runner.lines(c) for c in ex])
    streams["exhaustive"] = [c for c, m in zip(ex, scope_out) if in_scope(m)]
    ctx.count("exhaustive-out-of-scope", len(ex) - len(streams["exhaustive"]))
    ctx.rule = ("exhaustive: all schedules <=4/5 (9-tick command method) resp. <=3/4 over {Start, Stop, Pause, Unpause, Restart, user W0 (safe-valued "
                "output, 1 tick), user L1 (3 ticks), tick} for a method with a 9-tick output command, a method with "
                "short command + timed Pause + 6-tick command, and from engine start (minus schedules outside the "
                "model's scope: user UOD command still executing after the next Start); sessions: adaptive random "
                "sessions with generated methods (output commands of 1-9 ticks on all registers, also from a Watch, "
                "Pause/Hold timed and not, Stop, Restart) and user control / UOD commands; error-sessions: the same "
                "with errors injected during runs. Non-trivial = some write_batch carried a non-safe value.")
    all_mout, all_cases = [], []
    for name, cases in streams.items():
        _, mout = ctx.correspond(name, "RunStateOut", cases, runner.lines, runner.impl,
                                 nontrivial=lambda c, o: any("wl=" in ln and "wl=- " not in ln and "wl=0,1," not in ln
                                                             for ln in o))
        for c in cases:
            recs = runner.recs(c)
            for f in oracle(c, recs):
                ctx.fail(f)
            for r in recs:
                for vals, started, paused in r.get("writes", []):
                    ctx.count("write:" + ("no-run" if not started else "paused" if paused else "run"))
                if r["op"][0] == "user" and r["op"][1] in R.UCMDS:
                    ctx.count("user-uod:" + ("paused" if r["paused"] else "run" if r["started"] else "no-run"))
                for it in r.get("items", []) if r["op"][0] == "tick" else []:
                    if it.startswith("u."):
                        ctx.count("method-uod:iters=" + it.split(":")[2])
        all_mout += mout
        all_cases += cases
    # recorded finding outside the model: an output tag under Simulate keeps its simulated value while paused
    _, _, srecs = R.execute(SIMULATE_WITNESS, "c09", {})
    for f in oracle(SIMULATE_WITNESS, srecs):
        if f.key == "unsafe-output-while-paused-simulated-tag":
            ctx.fail(f)
    if all_mout and len(all_mout) == len(all_cases):
        def mutant(c):
            ls = list(runner.lines(c))
            ls[0] = R.cfg_line(dict(cfg, gate=False), "c08")
            return ls
        n = len(streams["corpus"]) + len(streams["exhaustive"])
        ctx.selftest("exhaustive", "RunStateOut", all_cases[:n], mutant, all_mout[:n])
    ctx.exhaustive = True
    ctx.extra["exhaustive_scope"] = "stream 'exhaustive' only; the session streams are sampled"
    ctx.assumptions = ["a UOD command is 'write value v to output r on every iteration, complete after n iterations'",
                       "three integer output registers, two with a safe value; the recording hardware layer never fails",
                       "interpreter behaviour (which commands it schedules in which tick) is recorded from the real "
                       "interpreter and given to the model, which decides gating and command execution itself"]
    return ctx.finish(search=search)


def search(ctx: Check) -> None:
    from harness import runstate as R
    for c in WITNESSES + [gen_session8(ctx.rng, 40, errors=True) for _ in range(ctx.n(300, 3000))]:
        _, _, recs = R.execute(c, "c08", {})
        for f in oracle(c, recs):
            ctx.fail(f)
        if ctx.failures:
            return


def replay(obj) -> int:
    from harness import runstate as R
    case = obj.get("case") or (obj.get("disagreements") or [{}])[0].get("case")
    if not case or "ops" not in case:
        print(json.dumps(obj, indent=1)[:2000])
        return 0
    pr = R.probe()
    cfg = dict(pr, start=True, gate=True, err=True)
    lines, outs, recs = R.execute(case, "c08", cfg)
    mout = drive("RunStateOut", [lines])[0]
    for ln, a, b in zip(lines, outs, mout):
        print(ln.replace("\t", " "))
        print("   impl :", a)
        print("   model:", b, "" if a == b else "   <-- differs")
    fs = oracle(case, recs)
    for f in fs:
        print("ORACLE:", f.key, "-", f.detail)
    if not fs:
        print("ORACLE: no violation of C08 on this case")
    return 1 if fs else 0
